------------------------- MODULE PiControllerTrace -------------------------
(***************************************************************************)
(* Validation of the call histories recorded by harness/x03 from the real  *)
(* adjustments.PIController (clock_adjtime replaced by a model of the      *)
(* kernel's frequency register) against PiController.tla.  The trace is a  *)
(* concatenation of histories with the same constants (checks/x03.py       *)
(* groups them and writes the cfg), each introduced by a reset event.      *)
(*                                                                         *)
(*  monitor: the property section of PiController.tla on the recorded      *)
(*           clock_adjtime calls; pa (the proportional term in force) is   *)
(*           derived from the previous recorded event only.  SlewValue     *)
(*           additionally requires raw_ok: |written - exact| <= 1 scaled   *)
(*           ppm, computed by the driver with math/big on the real values. *)
(*  strict:  the PiController.tla variables are advanced by Do on the same *)
(*           inputs: kernel frequency afterwards, warning, c.i,            *)
(*           c.freqAddend, c.freq, one read before the one write.          *)
(*  observe: Decomp (kernel frequency = base + c.i + c.freqAddend) on the  *)
(*           real values after a step; reported, never judged.             *)
(***************************************************************************)
EXTENDS Integers, Sequences, TLC, Json

CONSTANTS KPn, KPd, KIn, KId, G, Thr, FMax
Offs == {}
Perturb == {}
K0s == {}
MaxLen == 1000000
StepWritesFreq == FALSE

VARIABLES kfreq, cfreq, addend, integ, act, lastIn, lastPa, base, clean, nsteps, hist,
          l, oPa, mbad, sbad, obad
INSTANCE PiController

Trace == ndJsonDeserialize("trace.ndjson")
N == Len(Trace)
tvars == <<kfreq, cfreq, addend, integ, act, lastIn, lastPa, base, clean, nsteps, hist, l, oPa, mbad, sbad, obad>>

ObsAct(R) == [k |-> R.k, x |-> R.x, w |-> R.w, kread |-> R.kread, warn |-> R.warn]
ObsIn(R)  == [off |-> R.off, pert |-> R.pert]
\* the recorded frequencies are images of model values (residual of a few scaled ppm at most)
Exact(R)  == R.w_err >= -64 /\ R.w_err <= 64 /\ R.kread_err >= -64 /\ R.kread_err <= 64

\* ------------------------------------------------------------ monitor clauses
MKind(R)       == KindP(ObsAct(R)) /\ R.nwrite >= 1
MStepRule(R)   == R.k \in {"step", "freq"} => StepRuleP(ObsAct(R), ObsIn(R))
MStepAmount(R) == R.k = "step" => (R.x_eq /\ (R.x_q => StepAmountP(ObsAct(R), ObsIn(R))))
MSlewValue(R, pa) == R.k = "freq" => (R.raw_ok /\ (Exact(R) => SlewValueP(ObsAct(R), ObsIn(R), pa)))
MFailing(R, pa) ==
  (IF MKind(R) THEN << >> ELSE <<"Kind">>) \o
  (IF MStepRule(R) THEN << >> ELSE <<"StepRule">>) \o
  (IF MStepAmount(R) THEN << >> ELSE <<"StepAmount">>) \o
  (IF MSlewValue(R, pa) THEN << >> ELSE <<"SlewValue">>)

\* ------------------------------------------------------------- strict clauses
SAct(R)    == R.k = act'.k /\ (R.k = "step" => R.x_q /\ R.x = act'.x) /\ (R.k = "freq" => Exact(R) /\ R.w = act'.w)
SKernel(R) == R.kread = act'.kread /\ R.kafter = kfreq'
\* (warn_amb: c.freq carries a rounding residue of a scaled ppm or two that makes "is 0" / "equals the kernel's
\* frequency" / "within the clamp" differ between the real values and their model images)
SWarn(R)   == R.warn_amb \/ R.warn = act'.warn
SState(R)  == R.int_ok /\ R.ci = integ' /\ R.ca = addend' /\ R.cf = cfreq'
SCalls(R)  == R.nread = 1 /\ R.read_1st /\ R.nwrite = 1
SDecomp(R) == (~R.clamped /\ nsteps' = 0) => R.decomp
SFailing(R) ==
  (IF SAct(R) THEN << >> ELSE <<"Act">>) \o
  (IF SKernel(R) THEN << >> ELSE <<"Kernel">>) \o
  (IF SWarn(R) THEN << >> ELSE <<"Warn">>) \o
  (IF SState(R) THEN << >> ELSE <<"State">>) \o
  (IF SCalls(R) THEN << >> ELSE <<"Calls">>) \o
  (IF SDecomp(R) THEN << >> ELSE <<"DecompNoStep">>)

\* ---------------------------------------------------------------- observation
OFailing(R) == IF ~R.clamped /\ nsteps' > 0 /\ ~R.decomp THEN <<"DecompAfterStep">> ELSE << >>

Say(marker, names, n) == names = << >> \/ PrintT(<<marker, ToJson([l |-> n, c |-> names])>>)

TInit ==
  /\ kfreq = 0 /\ cfreq = 0 /\ addend = 0 /\ integ = 0 /\ act = NoAct /\ lastIn = NoIn /\ lastPa = 0
  /\ base = 0 /\ clean = TRUE /\ nsteps = 0 /\ hist = << >>
  /\ l = 0 /\ oPa = 0 /\ mbad = 0 /\ sbad = 0 /\ obad = 0

Reset(R) ==
  /\ kfreq' = R.kafter /\ cfreq' = 0 /\ addend' = 0 /\ integ' = 0 /\ act' = NoAct /\ lastIn' = NoIn /\ lastPa' = 0
  /\ base' = R.kafter /\ clean' = TRUE /\ nsteps' = 0 /\ hist' = << >>
  /\ oPa' = 0
  /\ UNCHANGED <<mbad, sbad, obad>>

Upd(R) ==
  /\ Do(ObsIn(R))
  /\ oPa' = IF R.k = "freq" THEN Prop(R.off) ELSE 0
  /\ mbad' = mbad + Len(MFailing(R, oPa)) /\ Say("MBAD", MFailing(R, oPa), l')
  /\ sbad' = sbad + Len(SFailing(R)) /\ Say("SBAD", SFailing(R), l')
  /\ obad' = obad + Len(OFailing(R)) /\ Say("OBAD", OFailing(R), l')

TNext ==
  /\ l < N
  /\ l' = l + 1
  /\ IF Trace[l'].ev = "reset" THEN Reset(Trace[l']) ELSE Upd(Trace[l'])

TSpec == TInit /\ [][TNext]_tvars

MonitorReport == l = N => PrintT(<<"MDONE", ToJson([n |-> mbad, events |-> N])>>)
StrictReport  == l = N => PrintT(<<"SDONE", ToJson([n |-> sbad, events |-> N])>>)
ObserveReport == l = N => PrintT(<<"ODONE", ToJson([n |-> obad, events |-> N])>>)
=============================================================================
