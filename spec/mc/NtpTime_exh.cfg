\* quick, repaired era unfolding: the property section must hold
SPECIFICATION Spec
CONSTANTS
  NsPerSec = 1000
  FracUnits = 4096
  EraSecs = 64
  Epoch <- EpochScaled
  ForwardOnlyEraUnfold = FALSE
  WholeSecondUnfold = FALSE
  RefSecs <- RefAll
  RefNs <- RefNsExh
  Offs <- OffAll
  NsVals <- NsExh
INVARIANTS RoundTrip Order RoundTripNs EraOK WellFormed Separable
