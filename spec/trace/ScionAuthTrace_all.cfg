SPECIFICATION TSpec
INVARIANTS TMacSoundReq TMacSoundFetcher TMacSoundResp TAuthReply TAuthReplyClient TReplyAddressing TForwardRule TNoStrayToEh
  SOne SGroundTruth SAct SReply SResp SClient SClientLog SNoStray SKey SFKey
