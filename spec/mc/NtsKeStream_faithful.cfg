SPECIFICATION Spec
CONSTANTS
  ShortCookieRead = TRUE
  Alphabet <- AlphaFaithful
  MaxRecs = 2
  MaxChunks = 2
INVARIANTS TypeOK SegmentationIndependent KeRoundTrip
