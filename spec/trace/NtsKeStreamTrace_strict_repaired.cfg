SPECIFICATION StrictSpec
CONSTANTS ShortCookieRead = FALSE
INVARIANTS SStream SNoExtraFetch SResult
