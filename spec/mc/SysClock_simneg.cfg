SPECIFICATION SimSpec
CONSTANTS
  QPS = 512
  G = 8192
  DPS = 1000000000
  Variant = "code"
  AdjOffs <- OffsA
  AdjDurs <- DursAneg
  AdjFreqs <- FreqsA
  StepOffs <- StepsA
  Deltas <- DeltaA
  DoOffs <- None
  DoStats <- None
  MaxOps = 1000
  MaxAdv = 1000
  DoAtomic = TRUE
  KeepHist = TRUE
  EpochReads = FALSE
  MaxLen = 10
INVARIANTS Emit
