----------------------------- MODULE NtpTimeApa -----------------------------
(***************************************************************************)
(* The formulas of NtpTime.tla at the REAL constants, for Apalache         *)
(* (TLC's 32-bit integers cannot hold ns * 2^32).  One-step specification: *)
(* Init leaves reference, time and a second time unconstrained within      *)
(*   reference: 1970-01-01 .. end of NTP era 4 (year 2580), any sub-second *)
(*   times: any second within +-(2^31 + 2) s of the reference, any ns      *)
(* and the invariants are decided for all of them at once                  *)
(*   apalache-mc check --length=0 --init=Init --next=Next --inv=<Inv> NtpTimeApa.tla *)
(* Results are specification-level facts: a counterexample is replayed on  *)
(* the real functions by harness/c04 before anything is said about them.   *)
(***************************************************************************)
EXTENDS Integers, Sequences

VARIABLES
  \* @type: Seq(Int);
  t0,
  \* @type: Seq(Int);
  t,
  \* @type: Seq(Int);
  u

RealNs    == 1000000000
Two32     == 4294967296
RealEpoch == -2208988800
LastRef   == RealEpoch + 5 * Two32

\* F: the old forward-only unfolding; W: the era chosen from whole seconds only (both
\* self-tests, must be refuted); R: the specification's default
F == INSTANCE NtpTime WITH NsPerSec <- RealNs, FracUnits <- Two32, EraSecs <- Two32, Epoch <- RealEpoch,
       ForwardOnlyEraUnfold <- TRUE, WholeSecondUnfold <- TRUE, RefSecs <- {0}, RefNs <- {0}, Offs <- {0}, NsVals <- {0}
W == INSTANCE NtpTime WITH NsPerSec <- RealNs, FracUnits <- Two32, EraSecs <- Two32, Epoch <- RealEpoch,
       ForwardOnlyEraUnfold <- FALSE, WholeSecondUnfold <- TRUE, RefSecs <- {0}, RefNs <- {0}, Offs <- {0}, NsVals <- {0}
R == INSTANCE NtpTime WITH NsPerSec <- RealNs, FracUnits <- Two32, EraSecs <- Two32, Epoch <- RealEpoch,
       ForwardOnlyEraUnfold <- FALSE, WholeSecondUnfold <- FALSE, RefSecs <- {0}, RefNs <- {0}, Offs <- {0}, NsVals <- {0}

Init ==
  \E r \in Int, rn \in Int, s \in Int, n \in Int, s2 \in Int, n2 \in Int :
    /\ 0 <= r /\ r <= LastRef
    /\ 0 <= rn /\ rn < RealNs /\ 0 <= n /\ n < RealNs /\ 0 <= n2 /\ n2 < RealNs
    /\ r - 2147483650 <= s /\ s <= r + 2147483650
    /\ r - 2147483650 <= s2 /\ s2 <= r + 2147483650
    /\ t0 = <<r, rn>> /\ t = <<s, n>> /\ u = <<s2, n2>>
Next == UNCHANGED <<t0, t, u>>

\* all 10^9 sub-second values (and all 2^32 fractions reachable from them)
NsRoundTrip == LET n == t[2] IN
  /\ (R!Nsec(R!Frac(n)) = n \/ R!Nsec(R!Frac(n)) = n - 1)
  /\ R!Frac(n) = (n * Two32) \div RealNs
  /\ (t[2] < u[2] => R!Frac(t[2]) < R!Frac(u[2]))
\* the statement, clauses 1-3, repaired era unfolding: must hold
RoundTripRepaired == R!Judged(t, t0) =>
  LET back == R!RT(t, t0) IN R!Within1ns(R!DiffNs(back, t)) /\ R!DiffNs(back, t) <= 0
OrderRepaired == (R!Judged(t, t0) /\ R!Judged(u, t0) /\ R!DiffNs(t, u) <= 0) =>
  R!DiffNs(R!RT(t, t0), R!RT(u, t0)) <= 0
\* the same with the old forward-only unfolding: must be refuted (era counterexample)
RoundTripFaithful == F!Judged(t, t0) =>
  LET back == F!RT(t, t0) IN F!Within1ns(F!DiffNs(back, t)) /\ F!DiffNs(back, t) <= 0
RoundTripWholeSec == W!Judged(t, t0) =>
  LET back == W!RT(t, t0) IN W!Within1ns(W!DiffNs(back, t)) /\ W!DiffNs(back, t) <= 0
OrderWholeSec == (W!Judged(t, t0) /\ W!Judged(u, t0) /\ W!DiffNs(t, u) <= 0) =>
  W!DiffNs(W!RT(t, t0), W!RT(u, t0)) <= 0
OrderFaithful == (F!Judged(t, t0) /\ F!Judged(u, t0) /\ F!DiffNs(t, u) <= 0) =>
  F!DiffNs(F!RT(t, t0), F!RT(u, t0)) <= 0
=============================================================================
