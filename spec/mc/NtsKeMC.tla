------------------------------ MODULE NtsKeMC ------------------------------
(***************************************************************************)
(* Model-checking wrapper for NtsKe.tla (C20): constant sets for the cfg   *)
(* files (cfg files cannot contain set expressions over strings reliably). *)
(***************************************************************************)
EXTENDS NtsKe

\* every record the peer can send except sH (only the project's own server names itself)
AlphaAll  == AllRecs \ {"sH"}
\* one representative per class of ReadData's switch (exhaustive runs with more calls)
AlphaCore == {"np", "a15", "aX", "ck", "sA", "pA", "warn", "uc", "un", "e1", "eom"}
CutAll    == AlphaAll
CutCore   == {"ck", "a15", "sA", "un", "eom"}
AlpnsTls  == AllAlpns
AlpnsQuic == AllAlpns \ {"none"}
AlpnsOk   == {"ntske/1"}
CutNone   == {}
CutCk     == {"ck"}
\* the stall family (scripts in which the peer stalls past the caller's deadline):
\* one representative per way a record acts on Fetcher.data and on the loop
AlphaStall == {"a15", "ck", "sA", "e1", "eom"}
CutStall   == {"ck", "eom"}
\* the naming family (NtsKeGen!Naming)
AlphaNaming == {"a15", "ck", "sA", "sB", "pA", "pB", "eom"}
\* who calls FetchData in the generated histories (NtsKeGen!Vias)
ViasAny     == {"any"}
ViasMeasure == {"measure"}
ViasBoth    == {"fetch", "measure"}
AlphaStallDeep == AlphaStall \cup {"un"}
CutStallDeep   == CutStall \cup {"un"}
=============================================================================
