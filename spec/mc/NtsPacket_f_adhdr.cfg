SPECIFICATION Spec
CONSTANTS
  MaxNf = 2
  Roles <- RolesAll
  PlaceholderTypedAsCookie = FALSE
  UidChecked = TRUE
  AdWhole = FALSE
  Hardened = TRUE
  StopAtAuth = TRUE
  CtLenExact = TRUE
  StoreAfterUid = TRUE
  LenChoices <- LenChoicesGen
  TruncMax = 2
INVARIANTS Sound
