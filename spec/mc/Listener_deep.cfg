SPECIFICATION Spec
CONSTANTS
  Servers = {"A", "B"}
  B0s <- B0Deep
  Shapes <- ShapesDeep
  Vias <- ViasDeep
  MaxInject = 2
  Spoof = TRUE
  Confs <- ConfsSw
  Stores <- StoresNone
  Ancs <- AncsTs
  SrcPorts <- SrcPortsEph
  RestoreAtTop = TRUE
INVARIANTS ReplyIffValid ExactlyOne ToSender ReplyHeader NeverAnswersReply BoundedTraffic HistoryIndependence
