SPECIFICATION TSpec
INVARIANTS Sound Complete CookieBinding AuthenticOnly RejectedInert RDirectionsDistinct SPredicted SRecomputed SStored
