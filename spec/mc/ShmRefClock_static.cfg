SPECIFICATION SpecStatic
CONSTANTS
  WriterKind = "proto"
  Mode = 0
  NSamples = 0
  MaxCalls = 1
  MaxRetries = 8
  DlKinds <- DlBoth
  ReadOrder <- AddrOrder
  AtomicAttempt = TRUE
  RecordHist = TRUE
  SModes <- ModesSmall
  SValids <- ValidsSmall
  SPairs <- PairsSmall
  SCounts = {7}
INVARIANTS EmitStatic
