SPECIFICATION Spec
CONSTANTS
  W = 8
  NRef = 3
  NPeer = 0
  Vals <- ValsExh
  Cfgs <- AdmBasic
  MaxRound = 2
  FailKinds <- OneFail
  AnyOrder = TRUE
  Canon = FALSE
  Elapse <- ElapseAll
VIEW View
INVARIANTS OrderImmaterial Bound
