package c03

import (
	"math/rand"
	"net/netip"
	"os"
	"testing"
	"time"

	"example.com/scion-time/net/ntp"

	"verif/harness/internal/vio"
)

// one move of a TLC-generated schedule (NtpExchangeGen.hist)
type mname struct {
	Kind string `json:"kind"`
	Ex   int    `json:"ex"`
	Copy int    `json:"copy"`
	H    int    `json:"h"`
}
type move struct {
	A    string `json:"a"`
	Ex   int    `json:"ex"`
	M    mname  `json:"m"`
	H    int    `json:"h"`
	Lost bool   `json:"lost"`
	T    int    `json:"t"`
	Res  string `json:"res"`
	Fw   string `json:"fw"` // crecv: what the end-host forwarder attached (none | inside | before | after | bad)
	Tr   string `json:"tr"` // net (first move): transport the schedule was generated for
}

// record layout for NtpExchangeTrace.tla
type rec struct {
	Ev   string `json:"ev"`   // "reset" | "accept" | "recv" | "end"
	Ex   int    `json:"ex"`   // client attempt (1-based) that consumed the datagram
	Want string `json:"want"` // outcome predicted by the schedule ("" if none)
	Got  string `json:"got"`  // ok | skip | error | ignored | timeout
	Il   bool   `json:"il"`   // the accepted response answers in interleaved mode (wire: its origin is the request's receive field)
	// identification of the four timestamps the reported offset was computed from
	T0ex int    `json:"t0ex"` // attempt whose request's kernel tx time is t0 (0 = unknown)
	T1h  int    `json:"t1h"`  // server handling whose receive time is t1
	T1ex int    `json:"t1ex"` // ... and the attempt whose request it handled
	T2h  int    `json:"t2h"`
	T2r  string `json:"t2r"` // "sTx" kernel, "sTx0" software, "" unknown
	T3ex int    `json:"t3ex"`
	Win0 bool   `json:"win0"` // t0 lies in the send window of attempt T0ex
	Win3 bool   `json:"win3"` // t3 lies in the delivery window of the datagram accepted in attempt T3ex
	Reco bool   `json:"reco"` // reported offset = ClockOffset(t0,t1,t2,t3) within 3 ns
	Err  int    `json:"err"`  // reported offset - true offset of handling T1h (ns, clamped)
	Rtd  int    `json:"rtd"`  // round-trip delay (t3-t0)-(t2-t1) of the four identified timestamps (ns, clamped)
	Beh  int    `json:"beh"`
	Tr   string `json:"tr"` // transport of the behaviour ("ip" | "scion"), on reset records
	// how the record was obtained (no log record is needed for any field above)
	Flt bool   `json:"flt"` // the client had the harness's pass-through filter
	Src string `json:"src"` // accept: the four timestamps are "filter" (handed to the filter) | "wire" (identified from wire fields and the return value)
	Fin bool   `json:"fin"` // the measurement call returned with this datagram (the offset is the call's return value)
	Pil bool   `json:"pil"` // hook: the client's interleaved state says the accepted response was interleaved
	// optional cross-check against log records with the names known today ("" / true when none was seen)
	Lg  string `json:"lg"`  // reaction class according to the log
	Lgx bool   `json:"lgx"` // the logged interleaved flag, offset and round-trip delay are those of this record
	// diagnostics: time from handing the datagram over to the evidence of the reaction (us), wait before, polls
	Dur, Stl, Pol int
	Why           string `json:"why"` // ignored: nocall | closed | unread
	// what the end host attached to the delivered response (SCION end-to-end option 253)
	Fw  string `json:"fw"`  // class of this delivery: none | inside | before | after | bad
	Pfw string `json:"pfw"` // class of the delivery of the previously accepted response (whose receive time an interleaved result uses)
	Fwv string `json:"fwv"` // concrete variant (diagnostics)
	T3s bool   `json:"t3s"` // accept: t3 is the forwarder's stamp of this delivery
}

const clampNs = 2_000_000_000

func clamp(d time.Duration) int {
	if d > clampNs {
		return clampNs
	}
	if d < -clampNs {
		return -clampNs
	}
	return int(d)
}

type attempt struct {
	ex     int
	arr    Arrival
	req    ntp.Packet
	prevEv time.Time // harness-side kernel time of the last event that precedes the sending of this request
}

// one datagram handed to the client's socket
type delivery struct {
	ex        int       // attempt whose socket it went to (0: none)
	del, seen time.Time // it reached the client's end host (the forwarder's genuine stamp, else the hand-over to the kernel) and was dealt with between these two instants
}

type inflight struct {
	b    []byte
	dst  netip.AddrPort
	h    int
	ntp  []byte // bare NTP response and the addressing it is framed with
	meta *Meta
}

// real one-way delay of the scripted network in behaviours whose end host has a
// forwarder: a receive time that is not this exchange's is then off by tens of
// milliseconds, far beyond anything scheduling can produce
func netDelay(rng *rand.Rand) { time.Sleep(time.Duration(8000+rng.Intn(4000)) * time.Microsecond) }

// slack for comparing timestamps taken at different points of the same clock
// (kernel software timestamps and time.Now() are both CLOCK_REALTIME)
const slack = 200 * time.Microsecond

// real 3.1 s waits left for "idle" moves in this run
var idleBudget = 2

func useFilter(bi int) bool {
	switch os.Getenv("VERIF_FILTER") {
	case "0":
		return false
	case "1":
		return true
	}
	// three quarters of the behaviours: the client hands every accepted exchange
	// to the harness's pass-through filter; the rest: no filter (the default)
	return bi%8 < 6
}

func TestC03(t *testing.T) {
	scheds := vio.ReadCases[[]move](t)
	out := vio.Create(t)
	defer out.Close()
	rng := vio.Rand()
	if vio.Thorough() {
		idleBudget = 40
	}
	naccept, nbeh := 0, 0
	for bi, sc := range scheds {
		kind := "ip"
		if len(sc) > 0 && sc[0].A == "net" {
			kind = sc[0].Tr // the schedule says which network it was generated for
		} else if bi%2 == 1 {
			kind = "scion"
		}
		if tr := os.Getenv("VERIF_TRANSPORT"); tr != "" {
			kind = tr
		}
		n, err := NewNetWith(kind, useFilter(bi))
		if err != nil {
			t.Fatal(err)
		}
		out.Emit(rec{Ev: "reset", Beh: bi, Tr: kind, Flt: n.Filter != nil, Lgx: true})
		naccept += runSchedule(t, n, sc, bi, rng, out)
		out.Emit(rec{Ev: "end", Beh: bi, Lgx: true})
		// let a running call finish before closing the sockets
		n.Wait(n.Timeout + 200*time.Millisecond)
		n.Close()
		nbeh++
	}
	t.Logf("C03: %d schedules, %d accepted measurements", nbeh, naccept)
	if naccept == 0 {
		t.Fatal("no measurement was accepted: harness is not exercising the client")
	}
}

// TestC03Reuse: the schedules of known finding C03-port-reuse (a delayed
// response reaches a later socket of the client because the ephemeral port is
// reused). Must run where the ephemeral port range is a single port.
func TestC03Reuse(t *testing.T) {
	scheds := vio.ReadCases[[]move](t)
	out := vio.Create(t)
	defer out.Close()
	rng := vio.Rand()
	for bi, sc := range scheds {
		for ki, kind := range []string{"ip", "scion"} {
			n, err := NewNetFor(kind)
			if err != nil {
				t.Fatal(err)
			}
			n.Timeout = 120 * time.Millisecond
			b := 2*bi + ki
			out.Emit(rec{Ev: "reset", Beh: b, Tr: kind, Flt: n.Filter != nil, Lgx: true})
			runSchedule(t, n, sc, b, rng, out)
			out.Emit(rec{Ev: "end", Beh: b, Lgx: true})
			n.Wait(n.Timeout + 200*time.Millisecond)
			n.Close()
		}
	}
}

func pause(rng *rand.Rand) { time.Sleep(time.Duration(300+rng.Intn(1500)) * time.Microsecond) }

func later(a, b time.Time) time.Time {
	if b.After(a) {
		return b
	}
	return a
}

func runSchedule(t *testing.T, n *Net, sc []move, bi int, rng *rand.Rand, out *vio.Out) int {
	atts := map[int]*attempt{}      // by exchange number as counted here (arrival order)
	var dels []delivery             // every datagram handed to the client
	reqs := map[[2]int]*inflight{}  // (ex, copy) -> request in flight
	resps := map[[2]int]*inflight{} // (h, copy) -> response in flight
	nex := 0
	lastEv := time.Now() // harness time of the last event that precedes whatever the client sends next
	var cur *attempt
	naccept := 0
	flt := n.Filter != nil
	n.SetTheta(0)
	// the end host has a forwarder (SCION transport and a schedule that uses it)
	fwd := false
	for _, mv := range sc {
		fwd = fwd || (n.T.Name() == "scion" && mv.A == "crecv" && mv.Fw != "" && mv.Fw != "none")
	}
	if fwd {
		n.Timeout = 220 * time.Millisecond
	}
	lastFw := "none" // class of the delivery of the last accepted response

	// waitArrival: next request datagram of the client (starting a call if needed)
	waitArrival := func() *attempt {
		var a Arrival
		for try := 0; ; try++ {
			n.Poll()
			if !n.Calling() {
				n.DropArrivals() // leftovers of an earlier call
				n.StartMeasure()
			}
			var ok, done bool
			a, ok, done = n.WaitArrival(2 * time.Second)
			if ok {
				break
			}
			if !done || try >= 2 {
				return nil
			}
			// the running call returned without another request: the next one is a new call's
		}
		nex++
		at := &attempt{ex: nex, arr: a, prevEv: lastEv}
		lastEv = later(lastEv, a.At)
		pl, _, err := n.T.Unwrap(a.B)
		if err != nil {
			t.Fatalf("client sent an unparsable datagram: %v", err)
		}
		if err := ntp.DecodePacket(&at.req, pl); err != nil {
			t.Fatalf("client sent an undecodable request: %v", err)
		}
		atts[nex] = at
		reqs[[2]int{nex, 0}] = &inflight{b: a.B, dst: a.Src}
		return at
	}

	for _, mv := range sc {
		if fwd && (mv.A == "srecv" || mv.A == "crecv") {
			netDelay(rng)
		} else {
			pause(rng)
		}
		switch mv.A {
		case "net":
		case "send":
			cur = waitArrival()
			if cur == nil {
				return naccept // client does not send any more (e.g. call still timing out)
			}
		case "idle":
			// more than 3 s pass. Only possible while the client is quiescent between
			// two calls (inside a call the next request is already on its way), and
			// only a few times per run because it costs real time; a skipped idle is
			// always sound (the schedule's prediction then differs: strict only).
			n.Poll()
			if n.Calling() || n.HasArrival() || idleBudget <= 0 {
				continue
			}
			idleBudget--
			time.Sleep(3100 * time.Millisecond)
		case "theta":
			n.SetTheta(time.Duration(mv.T) * 25 * time.Millisecond)
		case "dup":
			if mv.M.Kind == "req" {
				if q := reqs[[2]int{mv.M.Ex, 0}]; q != nil {
					reqs[[2]int{mv.M.Ex, 1}] = &inflight{b: q.b, dst: q.dst}
				}
			} else if r := resps[[2]int{mv.M.H, 0}]; r != nil {
				resps[[2]int{mv.M.H, 1}] = &inflight{b: r.b, dst: r.dst, h: r.h, ntp: r.ntp, meta: r.meta}
			}
		case "drop":
			if mv.M.Kind == "req" {
				delete(reqs, [2]int{mv.M.Ex, mv.M.Copy})
			} else {
				delete(resps, [2]int{mv.M.H, mv.M.Copy})
			}
		case "srecv":
			q := reqs[[2]int{mv.M.Ex, mv.M.Copy}]
			if q == nil {
				continue
			}
			delete(reqs, [2]int{mv.M.Ex, mv.M.Copy})
			h, err := n.ServerRecv(mv.M.Ex, q.b, q.dst)
			if err != nil {
				t.Fatalf("server side of the harness failed: %v", err)
			}
			if h.H != mv.H {
				// keep the schedule's numbering usable: remember under the schedule's h
				n.Handlings[mv.H] = h
			}
		case "stx":
			h := n.Handlings[mv.H]
			if h == nil || h.Sent {
				continue
			}
			if err := n.ServerTx(h, mv.Lost); err != nil {
				t.Fatalf("server tx failed: %v", err)
			}
			resps[[2]int{mv.H, 0}] = &inflight{b: h.Resp, dst: h.Dst, h: mv.H, ntp: h.NTP, meta: h.Meta}
		case "timeout":
			// the client's call runs into its deadline; remaining attempts of the
			// call fail at once. Wait for the call to return and forget its leftovers.
			if !n.Wait(n.Timeout + 2*time.Second) {
				t.Fatalf("client call did not return after its deadline")
			}
			n.DropArrivals()
			out.Emit(rec{Ev: "recv", Ex: exOf(cur), Want: "timeout", Got: "timeout", Beh: bi, Flt: flt, Fin: true, Lgx: true})
			cur = nil
		case "crecv":
			r := resps[[2]int{mv.M.H, mv.M.Copy}]
			if r == nil {
				continue
			}
			delete(resps, [2]int{mv.M.H, mv.M.Copy})
			// the end host: over SCION the forwarder may append its stamp (class from the schedule)
			fw, fwv := "none", ""
			var stamp time.Time
			stamped := false
			send := func() (time.Time, error) { return n.Deliver(r.b, r.dst) }
			if n.T.Name() == "scion" && mv.Fw != "" && mv.Fw != "none" {
				fw = mv.Fw
				before := time.Now()
				if cur != nil {
					before = cur.prevEv
				}
				send = func() (time.Time, error) {
					var opt []byte
					opt, stamp, stamped, fwv = fwdOption(fw, before, rng)
					del, err := n.Deliver(n.T.WrapFwd(r.ntp, r.meta, opt), r.dst)
					if fw == "inside" {
						// the datagram reached the client's end host when the forwarder stamped it
						del = stamp
					}
					return del, err
				}
			}
			re, err := n.Watch(r.dst, send)
			if err != nil {
				t.Fatalf("delivery to the client: %v", err)
			}
			lastEv = later(lastEv, re.Del)
			mine := cur != nil && r.dst == cur.arr.Src
			d := delivery{del: re.Del, seen: re.Seen}
			if mine {
				d.ex = cur.ex
			}
			dels = append(dels, d)
			rc := rec{Ev: "recv", Ex: exOf(cur), Want: mv.Res, Got: re.Got, Beh: bi, Flt: flt, Fin: re.Final, Lg: re.Log, Lgx: true,
				Dur: int(re.Seen.Sub(re.Del) / time.Microsecond), Stl: int(re.Settle / time.Microsecond), Pol: re.Polls, Why: re.Why,
				Fw: fw, Pfw: lastFw, Fwv: fwv}
			if re.Got == "ok" && mine && fillAccept(&rc, n, cur, atts, dels, r, re, stamp, stamped) {
				rc.Ev = "accept"
				naccept++
			}
			if re.Got == "ok" && mine {
				lastFw = fw
			}
			out.Emit(rc)
			if re.Got == "ok" || re.Got == "error" || re.Got == "panic" {
				cur = nil
			}
		}
	}
	return naccept
}

func exOf(a *attempt) int {
	if a == nil {
		return 0
	}
	return a.ex
}

type reaction struct {
	received LogRec
	eval     LogRec
}

func findH(n *Net, pred func(h *Handling) bool) *Handling {
	var best *Handling
	for _, h := range n.Handlings {
		if pred(h) && (best == nil || h.H < best.H) {
			best = h
		}
	}
	return best
}

func between(x, lo, hi time.Time) bool { return !x.Before(lo) && !x.After(hi) }

// fillAccept identifies, for a measurement the client reported, the exchange
// each of the four combined timestamps belongs to, and the offset it reported.
// Nothing is taken from the client's log:
//   - with the pass-through filter the client itself hands over t0..t3 of every
//     accepted exchange; the reported offset is the call's return value when the
//     call returned with this exchange, else what the attempt got from the filter
//     (the repository's ntp.ClockOffset of the four);
//   - without filter only a measurement the call returns can be judged: t1, t2 (and
//     for an interleaved response t0, t3) are wire fields of the accepted response
//     and of the client's request, t3 of a basic exchange is the returned timestamp
//     and t0 the one the returned offset implies.
//
// The exchange of t0 / t3 is found through CAUSAL windows: t0 of attempt a was
// taken between the last harness-side event before a's request and the arrival of
// that request at the harness; t3 between the datagram reaching the client's end
// host (the harness handing it to the kernel, or - where the schedule lets the
// end-host forwarder stamp it genuinely - that stamp) and the harness seeing
// evidence of the client's reaction. Machine load widens the
// windows but cannot make a correct client fall outside.
func fillAccept(rc *rec, n *Net, cur *attempt, atts map[int]*attempt, dels []delivery, r *inflight, re Reaction, stamp time.Time, stamped bool) bool {
	var resp ntp.Packet
	pl, _, err := n.T.Unwrap(r.b)
	if err != nil || ntp.DecodePacket(&resp, pl) != nil {
		return false // (the harness delivers well-formed responses only)
	}
	ref := time.Now()
	t64 := func(x ntp.Time64) time.Time { return ntp.TimeFromTime64(x, ref) }
	rc.Il = cur.req.ReceiveTime != (ntp.Time64{}) && resp.OriginTime == cur.req.ReceiveTime
	rc.Pil = re.Prev.Interleaved
	var T0, T1, T2, T3 time.Time
	var off time.Duration
	switch {
	case len(re.Calls) > 0:
		c := re.Calls[len(re.Calls)-1]
		T0, T1, T2, T3, off = c.T0, c.T1, c.T2, c.T3, c.Off
		rc.Src = "filter"
		if re.Final && n.Last.Err == nil {
			off = n.Last.Off
		}
	case re.Final && re.ByRet:
		rc.Src = "wire"
		off = n.Last.Off
		if rc.Il {
			T0, T1, T2, T3 = t64(cur.req.TransmitTime), t64(cur.req.OriginTime), t64(resp.TransmitTime), t64(cur.req.ReceiveTime)
		} else {
			T1, T2, T3 = t64(resp.ReceiveTime), t64(resp.TransmitTime), n.Last.Ts
			// off = ((t1 - t0) + (t2 - t3)) / 2  =>  t0 = t1 + (t2 - t3) - 2 off  (1 ns rounding)
			T0 = T1.Add(T2.Sub(T3) - 2*off)
		}
	default:
		// accepted, but the attempt's offset went nowhere the harness can see
		// (no filter, and the call went on with another attempt)
		return false
	}
	rc.T3s = stamped && T3.Equal(stamp)
	// client side: the attempt whose send window holds t0, whose delivery window holds t3
	for _, sl := range []time.Duration{0, slack} {
		for _, a := range atts {
			if rc.T0ex == 0 && between(T0, a.prevEv.Add(-sl), a.arr.At.Add(sl)) {
				rc.T0ex, rc.Win0 = a.ex, true
			}
		}
		for _, d := range dels {
			if rc.T3ex == 0 && d.ex != 0 && between(T3, d.del.Add(-sl), d.seen.Add(sl)) {
				rc.T3ex, rc.Win3 = d.ex, true
			}
		}
	}
	// server side: the handling whose receive / transmit time t1 / t2 is
	if h := findH(n, func(h *Handling) bool { return t64(h.Rxt64).Equal(T1) }); h != nil {
		rc.T1h, rc.T1ex = h.H, h.Ex
		rc.Err = clamp(off - h.Theta) // all server timestamps of a handling carry its theta
	} else {
		rc.Err = clampNs
	}
	if h := findH(n, func(h *Handling) bool { return h.Sent && t64(h.Ktx64).Equal(T2) }); h != nil {
		rc.T2h, rc.T2r = h.H, "sTx"
	} else if h := findH(n, func(h *Handling) bool { return t64(h.Txt064).Equal(T2) }); h != nil {
		rc.T2h, rc.T2r = h.H, "sTx0"
	}
	d := off - (T1.Sub(T0)+T2.Sub(T3))/2
	rc.Reco = d >= -3 && d <= 3
	rc.Rtd = clamp(T3.Sub(T0) - T2.Sub(T1))
	// optional: the log record with today's name says the same
	if ev := re.LogRecs.eval; ev.Msg != "" {
		lo, ok1 := ev.Attrs["clock offset"]
		lr, ok2 := ev.Attrs["round trip delay"]
		li, ok3 := ev.Attrs["interleaved"]
		if ok1 && ok2 && ok3 {
			dr := clamp(lr.Duration()) - rc.Rtd
			rc.Lgx = lo.Duration() == off && dr >= -3 && dr <= 3 && li.Bool() == rc.Il
		}
	}
	return true
}
