SPECIFICATION SpecBig
CONSTANTS
  MaxClocks = 64
  Rounds = 1
  DVals = {1, 2, 3, 5}
  Overlap = TRUE
  Hist = TRUE
  Fault = "none"
INVARIANTS EmitHist OutcomeIsOfForm ByDeadline ExactlyOncePrefix InTimeCounted NoStuckLeak SecondCallRefused CounterRestored
