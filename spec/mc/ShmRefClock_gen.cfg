SPECIFICATION Spec
CONSTANTS
  WriterKind = "proto"
  Mode = 1
  NSamples = 2
  MaxCalls = 2
  MaxRetries = 8
  DlKinds <- DlNone
  ReadOrder <- AddrOrder
  AtomicAttempt = TRUE
  RecordHist = TRUE
  SModes <- ModesSmall
  SValids <- ValidsSmall
  SPairs <- PairsSmall
  SCounts = {7}
INVARIANTS Emit
