SPECIFICATION Spec
CONSTANTS
  MaxNf = 7
  Roles <- RolesAll
  PlaceholderTypedAsCookie = TRUE
  UidChecked = TRUE
  AdWhole = TRUE
  LenChoices <- LenChoicesGen
  TruncMax = 4
INVARIANTS Emit
