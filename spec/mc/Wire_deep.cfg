SPECIFICATION Spec
CONSTANTS
  PlaceholderTypedAsCookie = FALSE
  SweepPrefixes2 <- Pre2Deep
  SweepBases <- SweepBasesDeep
  SweepWide = TRUE
  NtsUidLens <- UidDeep
  NtsCkLens <- CkLensDeep
  NtsMaxCk = 3
  NtsPhLens <- PhLensDeep
  NtsMaxPh = 3
  NtsPtShapes <- PtDeep
  SckLens <- SckLensDeep
  SckNs <- SckNsDeep
INVARIANTS PLay PLayb PLayp PLvm PNts PSck
