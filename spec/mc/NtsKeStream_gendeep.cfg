SPECIFICATION Spec
CONSTANTS
  ShortCookieRead = FALSE
  Alphabet <- AlphaGenDeep
  MaxRecs = 3
  MaxChunks = 3
INVARIANTS Emit
