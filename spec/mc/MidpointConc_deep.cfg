SPECIFICATION Spec
CONSTANTS
  W = 6
  MaxN = 4
  K = 2
  Bands <- Bands2
  Far <- FarBoth
  Variants <- VarDur
  Shared = FALSE
  SortedInputs = FALSE
INVARIANTS CReturns CContain COwn CReorders CRaceFree
