SPECIFICATION Spec
CONSTANTS
  Conn <- C2
  MaxLen = 2
  MaxIll = 0
  MaxRot = 1
  Kinds <- KTiny
  Cuts <- CutsNone
  Ends <- EndsHalf
  NCk = 8
  Fault = "code2"
INVARIANTS TypeOK ErrorIffBad

