SPECIFICATION SpecSim
CONSTANTS
  Day = 4
  Gaps <- GapsSim
  Horizon = 160
  GenLen = 30
INVARIANTS EmitSim
