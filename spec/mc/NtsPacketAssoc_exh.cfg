SPECIFICATION Spec
CONSTANTS
  NC = 2
  MaxRounds = 2
  MaxTries = 2
  MaxDraws = 4
  SharedIdBuf = FALSE
  UidChecked = TRUE
  StoreAfterUid = TRUE
  ServeEager = TRUE
  RecvKinds <- KindsAll
INVARIANTS TypeOK OutstandingId Sound Complete CookieBinding AuthenticOnly RejectedInert DirectionsDistinct HeldIsSent
