SPECIFICATION FairSpec
CONSTANTS
  MaxClocks = 3
  Overlap = TRUE
  Fault = "nodrain"
INVARIANTS ByDeadline ExactlyOncePrefix InTimeCounted NoStuckLeak SecondCallRefused CounterRestored
PROPERTIES NoLeak
