SPECIFICATION Spec
CONSTANTS
  MaxNf = 8
  Roles <- RolesAll
  PlaceholderTypedAsCookie = FALSE
  UidChecked = TRUE
  AdWhole = TRUE
  Hardened = TRUE
  StopAtAuth = TRUE
  CtLenExact = TRUE
  LenChoices <- LenChoicesGen
  TruncMax = 4
INVARIANTS Emit
