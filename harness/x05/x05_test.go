// Package x05: the NTS-KE SERVER (core/server StartNTSKEServerIP, runNTSKEServerTLS,
// handleKeyExchangeTLS, newNTSKEMsg; net/ntske ReadData, ExportKeys, cookies, provider)
// started in process on a free loopback address and driven by scripted TLS 1.3 clients
// that play the behaviours generated from spec/NtsKeServer.tla (NtsKeServerGen): several
// connections at once, the generated interleaving of the client-side moves imposed from
// the client side, the harness owning the key provider.  One record per connection, in
// model units, for spec/trace/NtsKeServerTrace.tla.
package x05

import (
	"bytes"
	"context"
	"crypto/ecdsa"
	"crypto/elliptic"
	"crypto/rand"
	"crypto/tls"
	"crypto/x509"
	"crypto/x509/pkix"
	"encoding/binary"
	"errors"
	"fmt"
	"io"
	"log/slog"
	"math/big"
	"net"
	"os"
	"reflect"
	"runtime"
	"strconv"
	"strings"
	"sync"
	"testing"
	"time"
	"unsafe"

	"example.com/scion-time/core/server"
	"example.com/scion-time/net/ntske"

	"verif/harness/internal/vio"
)

const ntpPort = 10123 // the localPort given to StartNTSKEServerIP (model: NtpPort)

type move struct {
	A   string `json:"a"`
	C   int    `json:"c"`
	K   string `json:"k"`
	Ill bool   `json:"ill"`
}
type expc struct {
	Acc     string `json:"acc"`
	Want    string `json:"want"`
	End     string `json:"end"`
	Stalled bool   `json:"stalled"`
	Nck     int    `json:"nck"`
	Kmin    int    `json:"kmin"`
	Kmax    int    `json:"kmax"`
}
type beh struct {
	Hist []move `json:"hist"`
	Exp  []expc `json:"exp"`
}

type cookieJ struct {
	Open bool   `json:"open"` // decodes, names a key the provider has, decrypts under it
	Key  int    `json:"key"`  // key id RELATIVE to the provider's first key (model: 1..)
	Algo int    `json:"algo"`
	C2s  string `json:"c2s"` // whose exported key the sealed C2S is: "c2s:own", "s2c:own", "c2s:other", "s2c:other", "none"
	S2c  string `json:"s2c"`
	Dup  bool   `json:"dup"` // byte-identical to a cookie seen before in this run
}

type rec struct {
	Ev  string `json:"ev"` // conn
	Beh int    `json:"beh"`
	C   int    `json:"c"`
	Gid int    `json:"gid"`
	// what the specification says about this connection
	Acc     string `json:"acc"`
	Want    string `json:"want"`
	End     string `json:"end"`
	Stalled bool   `json:"stalled"`
	WantNck int    `json:"wantnck"`
	// what the client observed
	Got      string    `json:"got"`   // success | error | none | garbled | unobserved
	Nmsg     int       `json:"nmsg"`  // messages read (2: something follows the first message)
	Code     int       `json:"code"`  // error code (error messages), else 0
	Shape    []string  `json:"shape"` // records of the first message
	Cookies  []cookieJ `json:"cookies"`
	Closed   string    `json:"closed"`  // yes: EOF after the message; no: handler gone, connection still open; unobserved
	Early    bool      `json:"early"`   // bytes arrived while the request was still incomplete (stalled connections)
	Blocked  bool      `json:"blocked"` // answered only after OTHER open connections were closed (confirmed by an experiment)
	K0       int       `json:"k0"`      // provider's current key (relative id) before the dial
	K1       int       `json:"k1"`      // ... after the reply was read
	Released bool      `json:"released"`
	Note     string    `json:"note"`
}

// ------------------------------------------------------------------ plumbing
func selfSigned(t testing.TB) tls.Certificate {
	key, err := ecdsa.GenerateKey(elliptic.P256(), rand.Reader)
	if err != nil {
		t.Fatal(err)
	}
	tmpl := &x509.Certificate{
		SerialNumber: big.NewInt(5),
		Subject:      pkix.Name{CommonName: "x05-harness"},
		NotBefore:    time.Now().Add(-time.Hour),
		NotAfter:     time.Now().Add(24 * time.Hour),
		KeyUsage:     x509.KeyUsageDigitalSignature,
		ExtKeyUsage:  []x509.ExtKeyUsage{x509.ExtKeyUsageServerAuth},
		DNSNames:     []string{"x05-harness"},
	}
	der, err := x509.CreateCertificate(rand.Reader, tmpl, tmpl, &key.PublicKey, key)
	if err != nil {
		t.Fatal(err)
	}
	return tls.Certificate{Certificate: [][]byte{der}, PrivateKey: key}
}

type nullHandler struct{}

func (nullHandler) Enabled(context.Context, slog.Level) bool  { return false }
func (nullHandler) Handle(context.Context, slog.Record) error { return nil }
func (h nullHandler) WithAttrs([]slog.Attr) slog.Handler      { return h }
func (h nullHandler) WithGroup(string) slog.Handler           { return h }

// a loopback address on which the fixed key-exchange port is free (StartNTSKEServerIP
// exits the process when it cannot listen), and a second one for the clients
func freeAddrs(t testing.TB) (srv, cli string) {
	var last error
	for attempt := 0; attempt < 200; attempt++ {
		x := 64 + (os.Getpid()*7+attempt*13)%150
		y := 1 + (os.Getpid()/150+attempt*31)%250
		s := fmt.Sprintf("127.%d.%d.1", x, y)
		l, err := net.Listen("tcp", net.JoinHostPort(s, strconv.Itoa(ntske.ServerPortIP)))
		if err != nil {
			last = err
			continue
		}
		l.Close()
		return s, fmt.Sprintf("127.%d.%d.2", x, y)
	}
	t.Fatalf("no free loopback address for the key-exchange port: %v", last)
	return
}

// number of goroutines inside handleKeyExchangeTLS
func handlers() int {
	buf := make([]byte, 1<<20)
	for {
		n := runtime.Stack(buf, true)
		if n < len(buf) {
			buf = buf[:n]
			break
		}
		buf = make([]byte, 2*len(buf))
	}
	return strings.Count(string(buf), "core/server.handleKeyExchangeTLS(")
}

// provider access: relative key ids and rotation (ages the newest key by reflection,
// then asks for the current key as the NTP server sharing the provider would)
type prov struct {
	p      *ntske.Provider
	first  int
	canRot bool
	genAt  *time.Time
	mu     *sync.Mutex
}

func newProv() *prov {
	p := ntske.NewProvider()
	a := &prov{p: p, first: p.Current().ID}
	v := reflect.ValueOf(p).Elem()
	g, m := v.FieldByName("generatedAt"), v.FieldByName("mu")
	if g.IsValid() && m.IsValid() && g.Type() == reflect.TypeOf(time.Time{}) && m.Type() == reflect.TypeOf(sync.Mutex{}) {
		a.genAt = (*time.Time)(unsafe.Pointer(g.UnsafeAddr()))
		a.mu = (*sync.Mutex)(unsafe.Pointer(m.UnsafeAddr()))
		a.canRot = true
	}
	return a
}
func (a *prov) cur() int { return a.p.Current().ID - a.first + 1 }
func (a *prov) rotate() bool {
	if !a.canRot {
		return false
	}
	before := a.p.Current().ID
	a.mu.Lock()
	*a.genAt = a.genAt.Add(-25 * time.Hour)
	a.mu.Unlock()
	return a.p.Current().ID > before
}

// ------------------------------------------------------------------ wire
const crit = 0x8000

func words(k string, ill bool) []uint16 {
	switch k {
	case "np":
		if ill {
			return []uint16{crit + 1, 4, 0, crit}
		}
		return []uint16{crit + 1, 2, 0}
	case "a15":
		if ill {
			return []uint16{crit + 4, 4, 15, crit}
		}
		return []uint16{crit + 4, 2, 15}
	case "aX":
		if ill {
			return []uint16{crit + 4, 4, 17, crit}
		}
		return []uint16{crit + 4, 2, 17}
	case "port":
		if ill {
			return []uint16{7, 4, 123, crit}
		}
		return []uint16{7, 2, 123}
	case "ck":
		return []uint16{5, 4, 7, 7}
	case "srv":
		return []uint16{6, 4, 7, 7}
	case "warn":
		return []uint16{crit + 3, 2, 0}
	case "e0":
		return []uint16{crit + 2, 2, 0}
	case "e1":
		return []uint16{crit + 2, 2, 1}
	case "e2":
		return []uint16{crit + 2, 2, 2}
	case "eX":
		return []uint16{crit + 2, 2, 9}
	case "uc":
		return []uint16{crit + 99, 2, 7}
	case "un":
		return []uint16{99, 2, 7}
	case "eom":
		if ill {
			return []uint16{crit, 2, 7}
		}
		return []uint16{crit, 0}
	}
	panic("unknown record kind " + k)
}

func wire(ws []uint16) []byte {
	b := make([]byte, 2*len(ws))
	for i, w := range ws {
		binary.BigEndian.PutUint16(b[2*i:], w)
	}
	return b
}

type wrec struct {
	typ  uint16
	body []byte
}

// parse one message (up to and including End of Message or an Error record);
// complete = the message ended; rest = bytes after it
func parseMsg(b []byte) (recs []wrec, complete bool, rest []byte) {
	for len(b) >= 4 {
		typ := binary.BigEndian.Uint16(b)
		l := int(binary.BigEndian.Uint16(b[2:]))
		if len(b) < 4+l {
			return recs, false, b
		}
		recs = append(recs, wrec{typ, b[4 : 4+l]})
		b = b[4+l:]
		t := typ &^ crit
		if t == ntske.RecEom || t == ntske.RecError {
			return recs, true, b
		}
	}
	return recs, false, b
}

// ------------------------------------------------------------------ one client connection
type cconn struct {
	c, gid   int
	raw      *net.TCPConn
	tc       *tls.Conn
	c2s, s2c []byte
	k0, k1   int
	dialed   bool
	mu       sync.Mutex
	data     []byte
	rerr     error
	done     chan struct{}
	ended    string // "", half, fin, closed
	released bool
	blocked  bool
	early    bool
	stalled  bool
	finished bool // reply read to its end
	pre      []byte
	endClose bool // closed by the harness at the end of the behaviour (silent connections)
	note     string
}

func (x *cconn) snapshot() ([]byte, error) {
	x.mu.Lock()
	defer x.mu.Unlock()
	return append([]byte{}, x.data...), x.rerr
}

func (x *cconn) readLoop() {
	defer close(x.done)
	buf := make([]byte, 4096)
	for {
		n, err := x.tc.Read(buf)
		x.mu.Lock()
		x.data = append(x.data, buf[:n]...)
		if err != nil {
			x.rerr = err
			x.mu.Unlock()
			return
		}
		x.mu.Unlock()
	}
}

type world struct {
	t        *testing.T
	srv, cli string
	pv       *prov
	d        time.Duration // patience
	keyOwner map[string]string
	keyGid   map[string]int
	seen     map[string]bool
	gid      int
	sawH     bool
	stop     bool // a liveness-type violation was positively established: every later connection would cost a deadline
}

func (w *world) dialAsync(x *cconn) chan error {
	ch := make(chan error, 1)
	go func() {
		dl := net.Dialer{Timeout: 4 * w.d, LocalAddr: &net.TCPAddr{IP: net.ParseIP(w.cli)}}
		c, err := dl.Dial("tcp", net.JoinHostPort(w.srv, strconv.Itoa(ntske.ServerPortIP)))
		if err != nil {
			ch <- err
			return
		}
		x.raw = c.(*net.TCPConn)
		tc := tls.Client(c, &tls.Config{InsecureSkipVerify: true, NextProtos: []string{"ntske/1"}, MinVersion: tls.VersionTLS13})
		c.SetDeadline(time.Now().Add(4 * w.d))
		if err := tc.Handshake(); err != nil {
			c.Close()
			ch <- err
			return
		}
		c.SetDeadline(time.Time{})
		x.tc = tc
		ch <- nil
	}()
	return ch
}

// closes every OTHER connection that is still open (they may be what holds the server up)
func (w *world) release(conns map[int]*cconn, but int) int {
	n := 0
	for _, y := range conns {
		if y.c != but && y.dialed && !y.finished && y.ended != "closed" {
			y.released = true
			y.ended = "closed"
			y.tc.Close()
			n++
		}
	}
	return n
}

func waitCh[T any](ch <-chan T, d time.Duration) (T, bool) {
	select {
	case v := <-ch:
		return v, true
	case <-time.After(d):
		var z T
		return z, false
	}
}

// the experiment that confirms "blocked": a silent connection A, then a complete
// request on B; B is answered only after A went away - and promptly when there is no A
func (w *world) confirmBlocked() bool {
	probe := func(withStall bool) (answeredBefore, answeredAfter bool) {
		var a *cconn
		if withStall {
			a = &cconn{done: make(chan struct{})}
			if err, ok := waitCh(w.dialAsync(a), w.d); !ok || err != nil {
				return true, true // cannot set the experiment up: not confirmed
			}
			defer a.tc.Close()
		}
		b := &cconn{done: make(chan struct{})}
		ch := w.dialAsync(b)
		err, ok := waitCh(ch, w.d)
		if ok && err == nil {
			go b.readLoop()
			b.tc.Write(wire(words("eom", false)))
			if _, ok := waitCh(b.done, w.d); ok {
				return true, true
			}
		} else if ok {
			return true, true
		}
		if a != nil {
			a.tc.Close()
		}
		if !ok {
			if err, ok2 := waitCh(ch, w.d); !ok2 || err != nil {
				return false, false
			}
			go b.readLoop()
			b.tc.Write(wire(words("eom", false)))
		}
		_, ok = waitCh(b.done, w.d)
		if b.tc != nil {
			b.tc.Close()
		}
		return false, ok
	}
	b1, a1 := probe(true)
	b2, _ := probe(false)
	return !b1 && a1 && b2
}

func (w *world) run(bi int, b beh, out *vio.Out) {
	conns := map[int]*cconn{}
	get := func(c int) *cconn {
		if conns[c] == nil {
			w.gid++
			conns[c] = &cconn{c: c, gid: w.gid, done: make(chan struct{})}
		}
		return conns[c]
	}
	suspect := false
	for _, m := range b.Hist {
		if m.A == "rotate" {
			w.pv.rotate()
			continue
		}
		x := get(m.C)
		switch m.A {
		case "dial":
			x.k0 = w.pv.cur()
			ch := w.dialAsync(x)
			err, ok := waitCh(ch, w.d)
			if !ok {
				if w.release(conns, x.c) > 0 {
					if err, ok = waitCh(ch, w.d); ok && err == nil {
						x.blocked, suspect = true, true
					}
				} else {
					err, ok = waitCh(ch, 3*w.d)
				}
			}
			if !ok || err != nil {
				x.note += fmt.Sprintf("dial: %v; ", err)
				continue
			}
			x.dialed = true
			cs := x.tc.ConnectionState()
			x.c2s, _ = cs.ExportKeyingMaterial("EXPORTER-network-time-security", []byte{0, 0, 0, 0x0f, 0}, 32)
			x.s2c, _ = cs.ExportKeyingMaterial("EXPORTER-network-time-security", []byte{0, 0, 0, 0x0f, 1}, 32)
			w.keyOwner[string(x.c2s)], w.keyGid[string(x.c2s)] = "c2s", x.gid
			w.keyOwner[string(x.s2c)], w.keyGid[string(x.s2c)] = "s2c", x.gid
			go x.readLoop()
		case "send", "cuthdr", "cutbody":
			if !x.dialed || x.ended != "" {
				continue
			}
			ws := words(m.K, m.Ill)
			by := wire(ws)
			if m.A == "cuthdr" {
				by = by[:2]
			} else if m.A == "cutbody" {
				by = by[:len(by)-2]
			}
			x.tc.Write(by)
			if m.A != "send" {
				x.tc.CloseWrite()
				x.ended = "half"
			}
		case "half":
			if x.dialed && x.ended == "" {
				x.tc.CloseWrite()
				x.ended = "half"
			}
		case "fin":
			if x.dialed && x.ended == "" {
				x.raw.CloseWrite()
				x.ended = "fin"
			}
		case "closed":
			if x.dialed && x.ended == "" {
				x.tc.Close()
				x.ended = "closed"
			}
		case "stall":
			x.stalled = true
			if !w.sawH && handlers() > 0 {
				w.sawH = true
			}
		case "await":
			if !x.dialed || x.ended == "closed" {
				continue
			}
			if _, ok := waitCh(x.done, w.d); !ok {
				data, _ := x.snapshot()
				_, complete, _ := parseMsg(data)
				if !complete && w.release(conns, x.c) > 0 {
					if _, ok := waitCh(x.done, w.d); ok {
						x.blocked, suspect = true, true
					}
				}
			}
			select {
			case <-x.done:
				x.finished = true
				x.k1 = w.pv.cur()
			default:
			}
		}
	}
	// end of the behaviour: stalled connections must not have been answered
	for _, x := range conns {
		if x.dialed && x.stalled && !x.released {
			d, _ := x.snapshot()
			x.early = len(d) > 0
			x.pre = d
		}
	}
	// connections with a complete message and no EOF: has the handler gone?
	pend := 0
	for _, x := range conns {
		if x.dialed && !x.finished && x.ended != "closed" {
			d, _ := x.snapshot()
			if _, complete, _ := parseMsg(d); complete {
				pend++
				continue
			}
			// what the server says to the harness's own closing is not part of the behaviour
			x.pre, _ = x.snapshot()
			x.ended, x.endClose = "closed", true
			x.tc.Close()
		}
	}
	closedNo := false
	if pend > 0 && w.sawH {
		for dl := time.Now().Add(w.d); time.Now().Before(dl) && handlers() >= pend; {
			time.Sleep(5 * time.Millisecond)
		}
		if handlers() < pend {
			time.Sleep(300 * time.Millisecond) // an EOF under way on the loopback
			closedNo = true
		}
	}
	confirmed := false
	if suspect {
		confirmed = w.confirmBlocked()
	}
	for c := 1; c <= len(b.Exp); c++ {
		x, e := conns[c], b.Exp[c-1]
		if x == nil {
			continue
		}
		r := rec{Ev: "conn", Beh: bi, C: c, Gid: x.gid, Acc: e.Acc, Want: e.Want, End: e.End, Stalled: e.Stalled, WantNck: e.Nck,
			Shape: []string{}, Cookies: []cookieJ{}, Got: "unobserved", Closed: "unobserved", K0: x.k0, K1: x.k1,
			Early: x.early, Blocked: x.blocked && confirmed, Released: x.released, Note: x.note}
		if x.blocked && !confirmed {
			r.Note += "answered only after other connections were closed, not confirmed by the experiment; "
		}
		if x.dialed {
			select {
			case <-x.done:
			default:
				if closedNo {
					if d, _ := x.snapshot(); len(d) > 0 {
						select {
						case <-x.done:
						default:
							r.Closed = "no"
						}
					}
				}
			}
			data, rerr := x.snapshot()
			if x.endClose {
				data, rerr = x.pre, nil
			}
			if r.K1 == 0 {
				r.K1 = w.pv.cur()
			}
			w.judge(&r, x, data, rerr)
			x.tc.Close()
		}
		if r.Blocked || r.Closed == "no" {
			w.stop = true
		}
		out.Emit(r)
	}
}

func (w *world) judge(r *rec, x *cconn, data []byte, rerr error) {
	recs, complete, rest := parseMsg(data)
	eof := errors.Is(rerr, io.EOF)
	if x.released || x.ended == "closed" {
		// the client itself closed the connection: whatever it saw before is reported, nothing is missing
		if !complete {
			if len(data) > 0 {
				r.Note += "partial data before the client closed; "
			}
			r.Got = "none"
			if x.released {
				r.Got = "unobserved"
			}
			return
		}
	}
	switch {
	case complete:
		r.Nmsg = 1
		if len(rest) > 0 {
			r.Nmsg = 2
		}
		if eof && r.Closed != "no" {
			r.Closed = "yes"
		}
	case len(data) == 0 && eof:
		r.Got, r.Closed = "none", "yes"
		return
	case eof:
		r.Got, r.Closed = "garbled", "yes"
		return
	default:
		r.Note += fmt.Sprintf("reply incomplete: %d bytes, %v; ", len(data), rerr)
		return
	}
	last := recs[len(recs)-1]
	if last.typ&^crit == ntske.RecError {
		r.Got = "error"
		if len(recs) != 1 || len(last.body) != 2 {
			r.Got = "garbled"
		} else {
			r.Code = int(binary.BigEndian.Uint16(last.body))
		}
	} else {
		r.Got = "success"
	}
	for _, q := range recs {
		t := q.typ &^ crit
		switch t {
		case ntske.RecNextproto:
			if bytes.Equal(q.body, []byte{0, 0}) {
				r.Shape = append(r.Shape, "np0")
			} else {
				r.Shape = append(r.Shape, "npX")
			}
		case ntske.RecAead:
			if bytes.Equal(q.body, []byte{0, 15}) {
				r.Shape = append(r.Shape, "a15")
			} else {
				r.Shape = append(r.Shape, "aX")
			}
		case ntske.RecServer:
			switch string(q.body) {
			case w.srv:
				r.Shape = append(r.Shape, "srvL")
			case w.cli:
				r.Shape = append(r.Shape, "srvR")
			default:
				r.Shape = append(r.Shape, "srvX")
			}
		case ntske.RecPort:
			p := -1
			if len(q.body) == 2 {
				p = int(binary.BigEndian.Uint16(q.body))
			}
			switch p {
			case ntpPort:
				r.Shape = append(r.Shape, "portN")
			case ntske.ServerPortIP:
				r.Shape = append(r.Shape, "portK")
			default:
				r.Shape = append(r.Shape, "portX")
			}
		case ntske.RecCookie:
			r.Shape = append(r.Shape, "ck")
			r.Cookies = append(r.Cookies, w.open(x, q.body))
		case ntske.RecEom:
			r.Shape = append(r.Shape, "eom")
		case ntske.RecError:
			r.Shape = append(r.Shape, "err")
		default:
			r.Shape = append(r.Shape, "other")
		}
	}
}

func (w *world) whose(x *cconn, k []byte) string {
	o, ok := w.keyOwner[string(k)]
	if !ok {
		return "none"
	}
	if w.keyGid[string(k)] == x.gid {
		return o + ":own"
	}
	return o + ":other"
}

func (w *world) open(x *cconn, b []byte) cookieJ {
	cj := cookieJ{C2s: "none", S2c: "none", Dup: w.seen[string(b)]}
	w.seen[string(b)] = true
	var ec ntske.EncryptedServerCookie
	if err := ec.Decode(b); err != nil {
		return cj
	}
	cj.Key = int(ec.ID) - w.pv.first + 1
	key, ok := w.pv.p.Get(int(ec.ID))
	if !ok {
		return cj
	}
	sc, err := ec.Decrypt(key.Value)
	if err != nil {
		return cj
	}
	cj.Open, cj.Algo = true, int(sc.Algo)
	cj.C2s, cj.S2c = w.whose(x, sc.C2S), w.whose(x, sc.S2C)
	return cj
}

// burst: m complete requests whose End of Message records are written at the same moment
// from m goroutines, so that the handlers' Export / Build steps interleave (the model's
// Export(c), Export(d), Build(c) orders, which a client cannot impose but can make likely)
func (w *world) burst(bi, m int, out *vio.Out) {
	xs := []*cconn{}
	for i := 1; i <= m; i++ {
		w.gid++
		x := &cconn{c: i, gid: w.gid, done: make(chan struct{}), k0: w.pv.cur()}
		if err, ok := waitCh(w.dialAsync(x), w.d); !ok || err != nil {
			continue
		}
		x.dialed = true
		cs := x.tc.ConnectionState()
		x.c2s, _ = cs.ExportKeyingMaterial("EXPORTER-network-time-security", []byte{0, 0, 0, 0x0f, 0}, 32)
		x.s2c, _ = cs.ExportKeyingMaterial("EXPORTER-network-time-security", []byte{0, 0, 0, 0x0f, 1}, 32)
		w.keyOwner[string(x.c2s)], w.keyGid[string(x.c2s)] = "c2s", x.gid
		w.keyOwner[string(x.s2c)], w.keyGid[string(x.s2c)] = "s2c", x.gid
		go x.readLoop()
		x.tc.Write(wire(append(words("np", false), words("a15", false)...)))
		xs = append(xs, x)
	}
	start := make(chan struct{})
	var wg sync.WaitGroup
	for _, x := range xs {
		wg.Add(1)
		go func() {
			defer wg.Done()
			<-start
			x.tc.Write(wire(words("eom", false)))
		}()
	}
	close(start)
	wg.Wait()
	for _, x := range xs {
		if _, ok := waitCh(x.done, w.d); ok {
			x.finished = true
		}
	}
	k1 := w.pv.cur()
	for _, x := range xs {
		r := rec{Ev: "conn", Beh: bi, C: x.c, Gid: x.gid, Acc: "good", Want: "success", End: "open", WantNck: 8,
			Shape: []string{}, Cookies: []cookieJ{}, Got: "unobserved", Closed: "unobserved", K0: x.k0, K1: k1, Note: "burst; "}
		data, rerr := x.snapshot()
		w.judge(&r, x, data, rerr)
		x.tc.Close()
		out.Emit(r)
	}
}

func TestX05(t *testing.T) {
	cases := vio.ReadCases[beh](t)
	out := vio.Create(t)
	defer out.Close()
	cert := selfSigned(t)
	srv, cli := freeAddrs(t)
	pv := newProv()
	scfg := &tls.Config{
		ServerName: "x05-harness",
		NextProtos: []string{"ntske/1"},
		GetCertificate: func(*tls.ClientHelloInfo) (*tls.Certificate, error) {
			return &cert, nil
		},
		MinVersion: tls.VersionTLS13,
	}
	server.StartNTSKEServerIP(context.Background(), slog.New(nullHandler{}), net.ParseIP(srv), ntpPort, scfg, pv.p)
	w := &world{t: t, srv: srv, cli: cli, pv: pv, d: 5 * time.Second,
		keyOwner: map[string]string{}, keyGid: map[string]int{}, seen: map[string]bool{}}
	if s := os.Getenv("VERIF_X05_PATIENCE_MS"); s != "" {
		if v, err := strconv.Atoi(s); err == nil {
			w.d = time.Duration(v) * time.Millisecond
		}
	}
	// is the handler visible in goroutine dumps under its name? (needed to tell "connection
	// not closed by a handler that returned" from "handler still busy")
	{
		p := &cconn{done: make(chan struct{})}
		if err, ok := waitCh(w.dialAsync(p), w.d); ok && err == nil {
			for dl := time.Now().Add(w.d / 2); time.Now().Before(dl) && !w.sawH; time.Sleep(2 * time.Millisecond) {
				w.sawH = handlers() > 0
			}
			p.tc.Close()
		}
	}
	t0 := time.Now()
	for bi, b := range cases {
		if w.stop {
			break
		}
		w.run(bi, b, out)
	}
	rounds, m := 40, 6
	if vio.Thorough() {
		rounds = 400
	}
	for r := 0; r < rounds && !w.stop; r++ {
		w.burst(len(cases)+r, m, out)
	}
	// observation (not judged): a client that offers no ALPN protocol at all
	noalpn := "unobserved"
	if w.stop {
	} else if c, err := tls.DialWithDialer(&net.Dialer{Timeout: w.d}, "tcp", net.JoinHostPort(srv, strconv.Itoa(ntske.ServerPortIP)),
		&tls.Config{InsecureSkipVerify: true, MinVersion: tls.VersionTLS13}); err != nil {
		noalpn = "handshake refused"
	} else {
		c.SetDeadline(time.Now().Add(w.d))
		c.Write(wire(append(words("np", false), append(words("a15", false), words("eom", false)...)...)))
		if data, err := io.ReadAll(c); err == nil {
			if recs, complete, _ := parseMsg(data); complete && recs[len(recs)-1].typ&^crit == ntske.RecEom {
				noalpn = fmt.Sprintf("success response with %d records (negotiated protocol %q)", len(recs), c.ConnectionState().NegotiatedProtocol)
			} else if complete {
				noalpn = "error message"
			} else {
				noalpn = fmt.Sprintf("%d bytes", len(data))
			}
		}
		c.Close()
	}
	out.Emit(map[string]any{"ev": "meta", "bursts": rounds, "noalpn": noalpn, "stopped": w.stop, "rotation": pv.canRot, "handler_visible": w.sawH, "behaviours": len(cases)})
	fmt.Printf("X05 behaviours=%d records=%d rotation=%v handler_visible=%v wall=%v\n", len(cases), out.N, pv.canRot, w.sawH, time.Since(t0).Round(time.Millisecond))
}
