SPECIFICATION Spec
CONSTANTS
  Transport = "tls"
  ResidueAfterFailure = FALSE
  ShortCookieRead = FALSE
  DialResetsData = TRUE
  Alpns <- AlpnsTls
  Alphabet <- AlphaCoreLen
  CutRecs <- CutCoreLen
  MaxRecs = 4
  MaxDials = 3
  MaxCalls = 4
  MaxStore = 1
  CtxMode = "ignored"
  MaxStalls = 0
  StaleNextHop = FALSE
INVARIANTS TypeOK SuccessOnlyIf KeysAgree PoolIsIssued PoolReturned Destination NoResidue NoResidueState
PROPERTIES IgnoresNonCritical
