-------------------------- MODULE ServerStoreTrace --------------------------
(***************************************************************************)
(* Validation of traces recorded from the real core/server code (hook      *)
(* VerifTrace, called under tssMu as the last statement of handleRequest   *)
(* and updateTXTimestamp; harness/c06) against ServerStore.tla.            *)
(*                                                                         *)
(* Every line is one event in lock order.  The specification's variables   *)
(* are BOUND to the logged projection of the real store, so that the       *)
(* property section of ServerStore (state invariants and [][..]_vars step  *)
(* properties) is evaluated on what the implementation really did          *)
(* (monitor mode, decides VIOLATION).  Strict mode additionally requires   *)
(* every step to be the one ServerStore's Handle / UpdateTx computes       *)
(* (DRIFT only).  Many behaviours are concatenated; "reset" starts a new   *)
(* one, "end" carries the full structural walk of the real store.          *)
(***************************************************************************)
EXTENDS ServerStore, Json

VARIABLE l
tvars == <<vars, l>>

Trace == ndJsonDeserialize("trace.ndjson")

ToStore(p) == [c \in Clients |-> p.store[c]]
ToQval(p)  == [c \in Clients |-> p.qval[c]]

TInit == Init /\ l = 0

TNext ==
  /\ l < Len(Trace)
  /\ l' = l + 1
  /\ nops' = 0
  /\ LET e == Trace[l + 1] IN
     \/ /\ e.ev = "reset"
        /\ store' = [c \in Clients |-> << >>]
        /\ heap' = << >>
        /\ qval' = [c \in Clients |-> 0]
        /\ pend' = [k \in Listeners |-> None]
        /\ stale' = {}
        /\ inorder' = [c \in Clients |-> TRUE]
        /\ inp' = [op |-> "reset"]
        /\ out' = [heap_ok |-> TRUE, seq_same |-> TRUE]
     \/ /\ e.ev = "H"
        /\ store' = ToStore(e.post)
        /\ heap' = e.post.heap
        /\ qval' = ToQval(e.post)
        /\ pend' = [pend EXCEPT ![e.l] = [c |-> e.c, rxt |-> e.rxt, txt |-> e.txt]]
        /\ stale' = stale \cup Gone(store', pend')
        \* ghost, same rule as the specification's
        /\ inorder' = [inorder EXCEPT ![e.c] =
             IF store[e.c] = << >> THEN TRUE
             ELSE inorder[e.c] /\ e.rxt > MaxOf(RxSet(store[e.c]))]
        /\ inp' = [op |-> "H", l |-> e.l, c |-> e.c, req |-> e.req, rxt0 |-> e.rxt0, clk |-> e.clk]
        /\ out' = [rxt |-> e.rxt, txt |-> e.txt, reply |-> e.reply,
                   stateless |-> (e.post.store[e.c] = << >>), full |-> e.post.full,
                   heap_ok |-> e.heap_ok, seq_same |-> e.seq_same]
     \/ /\ e.ev = "U"
        /\ store' = ToStore(e.post)
        /\ heap' = e.post.heap
        /\ qval' = ToQval(e.post)
        /\ pend' = [pend EXCEPT ![e.l] = None]
        /\ stale' = (stale \cup Gone(store', pend')) \ {e.l}
        /\ UNCHANGED inorder
        /\ inp' = [op |-> "U", l |-> e.l, c |-> e.c, rxt |-> e.rxt, t1in |-> e.t1in, lost |-> e.lost]
        /\ out' = [t1 |-> e.t1, full |-> e.post.full, heap_ok |-> e.heap_ok, seq_same |-> e.seq_same]
     \/ /\ e.ev = "panic"   \* the real handler panicked (recovered by the driver)
        /\ UNCHANGED <<store, heap, qval, pend, stale, inorder>>
        /\ inp' = [op |-> "panic"]
        /\ out' = [full |-> FALSE, heap_ok |-> FALSE, seq_same |-> TRUE]
     \/ /\ e.ev = "end"
        /\ store' = ToStore(e.post)
        /\ heap' = e.post.heap
        /\ qval' = ToQval(e.post)
        /\ UNCHANGED <<pend, stale, inorder>>
        /\ inp' = [op |-> "end"]
        /\ out' = [full |-> e.post.full, heap_ok |-> e.heap_ok, seq_same |-> e.seq_same]

TSpec == TInit /\ [][TNext]_tvars

(***************************************************************************)
(* monitor: C07                                                            *)
(***************************************************************************)
Observed == inp.op \in {"H", "U", "end", "panic"}
\* no history makes the request handler or the tx-timestamp update panic
TNoPanic == inp.op # "panic"
\* structural checks made in Go on the REAL tss / tssQ (all 2^20 positions at
\* "end", the model clients' neighbourhood after every operation)
TRealStructureOK == Observed => out.heap_ok
\* the projected heap array is complete only when no filler clients are used
THeapValid       == (Observed /\ out.full) => HeapValid
TBounded         == Bounded
TQvalDominates   == QvalDominates
TQvalExact       == QvalExact
\* concurrent runs: re-executing the same operations sequentially in lock order
\* on the real code gives the same replies and the same store
TSequential      == Observed => out.seq_same
TEvictionProp    == [][EvictionRule]_tvars

(***************************************************************************)
(* monitor: C06                                                            *)
(***************************************************************************)
TReplyRxProp         == [][ReplyRx]_tvars
TReplyShapeProp      == [][ReplyShape]_tvars
TReplyShapeWeakProp  == [][ReplyShapeWeak]_tvars
TNoCrossClientProp   == [][NoCrossClient]_tvars
TKernelTxWinsProp    == [][KernelTxWins]_tvars
TRecordedTxLaterProp == [][RecordedTxLater]_tvars
TLostTxDroppedProp   == [][LostTxDropped]_tvars
TStaleUpdateNoEffectProp == [][StaleUpdateNoEffect]_tvars
TUpdateLocalProp     == [][UpdateLocal]_tvars
THandleLocalProp     == [][HandleLocal]_tvars

(***************************************************************************)
(* strict: every recorded step is the step the specification takes         *)
(***************************************************************************)
SamePresentQval(q1, q2, st) == \A c \in Present(st) : q1[c] = q2[c]
StrictStep ==
  /\ inp'.op = "H" =>
       LET r == HandleResult(inp'.c, inp'.req, inp'.rxt0, inp'.clk)
       IN /\ r.store = store'
          /\ SamePresentQval(r.qval, qval', store')
          /\ r.rxt = out'.rxt /\ r.txt = out'.txt
          /\ r.reply = out'.reply
          /\ out'.full => r.heap = heap'
  /\ inp'.op = "U" =>
       LET r == UpdateResult(inp'.c, inp'.rxt, inp'.t1in)
       IN /\ r.store = store'
          /\ SamePresentQval(r.qval, qval', store')
          /\ r.t1 = out'.t1
          /\ out'.full => r.heap = heap'
  /\ inp'.op = "end" => (store' = store /\ SamePresentQval(qval, qval', store'))
StrictProp == [][StrictStep]_tvars

\* the whole trace must be consumed (a TLC evaluation error or a record that
\* matches no disjunct of TNext would otherwise end the behaviour silently)
Consumed == TLCGet("stats").diameter - 1 = Len(Trace)
=============================================================================
