SPECIFICATION TSpec
INVARIANTS Bound RefPart PeerPart WithinCutoffContributesNothing SoleContribution MidpointWhenBoth OneAdjust Refused RRaw ROneAdjust
