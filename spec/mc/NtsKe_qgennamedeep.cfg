SPECIFICATION GSpec
CONSTANTS
  Transport = "quic"
  ResidueAfterFailure = FALSE
  ShortCookieRead = FALSE
  DialResetsData = TRUE
  Alpns <- AlpnsOk
  Alphabet <- AlphaNaming
  CutRecs <- CutNone
  MaxRecs = 6
  MaxDials = 1
  MaxCalls = 3
  MaxStore = 0
  CtxMode = "ignored"
  MaxStalls = 0
  StaleNextHop = FALSE
  Tails = FALSE
  Vias <- ViasMeasure
  MaxNaming <- MaxNaming3
CONSTRAINT Naming
INVARIANTS EmitNaming RunAgrees
