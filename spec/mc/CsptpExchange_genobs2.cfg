SPECIFICATION HSpec
CONSTANTS
  Clients <- OneClient
  MaxExch = 1
  MaxDupReq = 2
  MaxDupResp = 1
  MaxInject = 0
  MaxTC = 0
  Thetas <- ThetasOne
  CtxCap = 2
  ServerMode = "paired"
  ReusePorts = FALSE
  LateRequests = FALSE
  SeqPerAttempt = FALSE
INVARIANTS EmitMixed
