SPECIFICATION GSpec
CONSTANTS
  Transport = "tls"
  ResidueAfterFailure = TRUE
  ShortCookieRead = TRUE
  DialResetsData = TRUE
  Alpns <- AlpnsTls
  Alphabet <- AlphaAll
  CutRecs <- CutAll
  MaxRecs = 4
  MaxDials = 1
  MaxCalls = 1
  MaxStore = 0
INVARIANTS Emit RunAgrees
