\* thorough: every reference second of eras 0..4 x every offset x the sub-second classes
SPECIFICATION Spec
CONSTANTS
  NsPerSec = 1000
  FracUnits = 4096
  EraSecs = 64
  Epoch <- EpochScaled
  ForwardOnlyEraUnfold = FALSE
  WholeSecondUnfold = FALSE
  RefSecs <- RefAll
  RefNs <- RefNsDeep
  Offs <- OffAll
  NsVals <- NsCls
INVARIANTS RoundTrip Order RoundTripNs EraOK WellFormed Separable
