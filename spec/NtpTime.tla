------------------------------ MODULE NtpTime ------------------------------
(***************************************************************************)
(* NTP 64-bit timestamp conversion as implemented in                       *)
(*   net/ntp/ntp.go   Time64FromTime(t)  and  TimeFromTime64(x, t0)        *)
(* (used by core/client/client_ip.go, client_scion.go, core/server).       *)
(*                                                                         *)
(* A time is a digit sequence <<sec, ns>> (seconds since the Unix epoch,   *)
(* nanosecond within the second, 0 <= ns < NsPerSec) -- Go's time.Time as  *)
(* seen through Unix() and Nanosecond().  The module is parametric in the  *)
(* constants so that TLC (32-bit integers) can enumerate it at scaled      *)
(* constants and Apalache can decide the same formulas at the real ones    *)
(*   NsPerSec = 10^9, FracUnits = 2^32, EraSecs = 2^32, Epoch = -2208988800*)
(* All operators of the code are transcribed one by one; every intermediate*)
(* value of the Go code is < 2^62 in magnitude, so int64 arithmetic is the *)
(* mathematical one and only the two conversions uint32(.) wrap.           *)
(***************************************************************************)
EXTENDS Integers, Sequences, TLC

CONSTANTS
  \* @type: Int;
  NsPerSec,               \* nanosecondsPerSecond
  \* @type: Int;
  FracUnits,              \* number of fraction units per second (1<<32)
  \* @type: Int;
  EraSecs,                \* secondsPerEra (1<<32), also the modulus of uint32(Seconds)
  \* @type: Int;
  Epoch,                  \* Unix seconds of the NTP epoch 1900-01-01 (negative)
  \* @type: Bool;
  ForwardOnlyEraUnfold,   \* FALSE (default): with the backward branch (since /repo commit 28e9272);
                          \* TRUE: the code before it (only `sec += secondsPerEra`), kept as a
                          \*   specification self-test (NtpTime_faithful.cfg must be refuted)
  \* @type: Bool;
  WholeSecondUnfold       \* FALSE (default): at exactly half an era of whole seconds the
                          \*   fractions decide (fixes/C04-subsecond-window-edge.diff);
                          \* TRUE: the era is chosen from whole seconds only (tref = t0.Unix()),
                          \*   kept as a specification self-test (NtpTime_wholesec.cfg must be refuted)

Half == EraSecs \div 2

\* Go's int64 `/` truncates toward zero
TDiv(a, b) == IF a >= 0 THEN a \div b ELSE -((-a) \div b)

(***************************************************************************)
(* Time64FromTime(t):                                                      *)
(*   Seconds:  uint32(t.Unix() - epoch)                                    *)
(*   Fraction: uint32(int64(t.Nanosecond()) << 32 / nanosecondsPerSecond)  *)
(***************************************************************************)
Sec32(u) == (u - Epoch) % EraSecs
Frac(ns) == ((ns * FracUnits) \div NsPerSec) % FracUnits
\* @type: Seq(Int) => { seconds: Int, fraction: Int };
Encode(t) == [seconds |-> Sec32(t[1]), fraction |-> Frac(t[2])]

(***************************************************************************)
(* TimeFromTime64(x, t0):                                                  *)
(*   tref := t0.Unix()                                                     *)
(*   sec  := epoch + (tref-epoch)/secondsPerEra*secondsPerEra + Seconds    *)
(*   fref := uint32(int64(t0.Nanosecond()) << 32 / nanosecondsPerSecond)   *)
(*   if sec < tref-secondsPerEra/2 ||                                      *)
(*      sec == tref-secondsPerEra/2 && Fraction < fref {                   *)
(*        sec += secondsPerEra                                             *)
(*   } else if sec > tref+secondsPerEra/2 ||                               *)
(*      sec == tref+secondsPerEra/2 && Fraction >= fref {                  *)
(*        sec -= secondsPerEra }                                           *)
(*   nsec := int64(Fraction) * nanosecondsPerSecond >> 32                  *)
(*   return time.Unix(sec, nsec)                                           *)
(* wholeSec = TRUE is the earlier form  `sec < tref-secondsPerEra/2` /     *)
(* `sec >= tref+secondsPerEra/2`, fwdOnly = TRUE the one without else-if.  *)
(***************************************************************************)
EraBase(tref) == Epoch + TDiv(tref - Epoch, EraSecs) * EraSecs
\* @type: (Int, Int, Seq(Int), Bool, Bool) => Int;
Unfold(s32, f, t0, fwdOnly, wholeSec) ==
  LET tref == t0[1]
      fref == Frac(t0[2])
      sec  == EraBase(tref) + s32
      fwd  == IF wholeSec THEN sec < tref - Half
              ELSE sec < tref - Half \/ (sec = tref - Half /\ f < fref)
      bwd  == IF wholeSec THEN sec >= tref + Half
              ELSE sec > tref + Half \/ (sec = tref + Half /\ f >= fref)
  IN IF fwd THEN sec + EraSecs
     ELSE IF ~fwdOnly /\ bwd THEN sec - EraSecs
     ELSE sec
Nsec(f) == (f * NsPerSec) \div FracUnits
\* time.Unix(sec, nsec) normalises nsec into [0, NsPerSec) (never needed: Nsec(f) < NsPerSec)
\* @type: (Int, Int) => Seq(Int);
UnixTime(sec, nsec) == <<sec + (nsec \div NsPerSec), nsec % NsPerSec>>
\* @type: ({ seconds: Int, fraction: Int }, Seq(Int), Bool, Bool) => Seq(Int);
DecodeWith(x, t0, fwdOnly, wholeSec) ==
  UnixTime(Unfold(x.seconds, x.fraction, t0, fwdOnly, wholeSec), Nsec(x.fraction))
Decode(x, t0) == DecodeWith(x, t0, ForwardOnlyEraUnfold, WholeSecondUnfold)

\* the observed composition  ntp.TimeFromTime64(ntp.Time64FromTime(t), t0)
RT(t, t0) == Decode(Encode(t), t0)

(***************************************************************************)
(* Property section (C04).                                                 *)
(* "Converting a time to a 64-bit NTP timestamp and back, relative to any  *)
(*  reference time within 2^31 seconds of it, returns the original time to *)
(*  within one nanosecond and never later than the original, including     *)
(*  across an era boundary; conversion preserves order within that window."*)
(* Written over digit sequences compared lexicographically so that the very*)
(* same operators judge recorded 64-bit times given as <<hi, lo, ns>>      *)
(* (seconds relative to the reference split in 2^16 digits) in             *)
(* NtpTimeTrace.tla.                                                       *)
(***************************************************************************)
\* a <= b for equal-length digit sequences, most significant digit first
\* @type: (Seq(Int), Seq(Int)) => Bool;
TLeq(a, b) == a = b \/ \E i \in DOMAIN a : a[i] < b[i] /\ \A j \in DOMAIN a : j < i => a[j] = b[j]
\* lo <= t < hi
\* @type: (Seq(Int), Seq(Int), Seq(Int)) => Bool;
Between(t, lo, hi) == TLeq(lo, t) /\ ~TLeq(hi, t)
\* difference a - b in nanoseconds of two <<sec, ns>> times
\* @type: (Seq(Int), Seq(Int)) => Int;
DiffNs(a, b) == (a[1] - b[1]) * NsPerSec + (a[2] - b[2])

\* clause 1: |back - t| <= 1 ns       (d = back - t in ns)
Within1ns(d) == -1 <= d /\ d <= 1
\* clause 2: back is never later than t
NeverLater(t, back) == TLeq(back, t)
\* clause 3: order is preserved
OrderKept(t1, t2, back1, back2) == TLeq(t1, t2) => TLeq(back1, back2)

\* The window of the statement, -2^31 s <= t - reference < 2^31 s, at nanosecond
\* granularity for a reference with an arbitrary sub-second part.
\* @type: (Seq(Int), Seq(Int)) => Bool;
Judged(t, t0) == Between(t, <<t0[1] - Half, t0[2]>>, <<t0[1] + Half, t0[2]>>)

(***************************************************************************)
(* Model: one reference and one time per behaviour (pure functions); the   *)
(* time grows digit by digit so that TLC's workers share the enumeration.  *)
(***************************************************************************)
CONSTANTS
  \* @type: Set(Int);
  RefSecs,      \* reference seconds (1970 = 0 up to the end of era 4)
  \* @type: Set(Int);
  RefNs,        \* reference sub-second values
  \* @type: Set(Int);
  Offs,         \* t.sec - t0.sec (covers the window and one step outside)
  \* @type: Set(Int);
  NsVals        \* sub-second values of t
VARIABLES
  \* @type: Seq(Int);
  t0,
  \* @type: Seq(Int);
  t

Init == /\ \E r \in RefSecs, rn \in RefNs : t0 = <<r, rn>>
        /\ t = << >>
Next == /\ UNCHANGED t0
        /\ \/ Len(t) = 0 /\ \E o \in Offs : t' = <<t0[1] + o>>
           \/ Len(t) = 1 /\ \E n \in NsVals : t' = Append(t, n)
\* @type: <<Seq(Int), Seq(Int)>>;
vars == <<t0, t>>
Spec == Init /\ [][Next]_vars
Chosen == Len(t) = 2

\* the statement, clauses 1 and 2
RoundTrip == (Chosen /\ Judged(t, t0)) =>
  LET back == RT(t, t0) IN Within1ns(DiffNs(back, t)) /\ NeverLater(t, back)

\* the statement, clause 3.  Probes: the next nanosecond (adjacent pairs give all
\* pairs by transitivity when NsVals is the full range), the same sub-second value
\* one second and a quarter of an era later, and the first and last instant of the window.
\* @type: (Seq(Int)) => Seq(Int);
Succ(a) == IF a[2] + 1 < NsPerSec THEN <<a[1], a[2] + 1>> ELSE <<a[1] + 1, 0>>
\* @type: (Seq(Int)) => Seq(Int);
Pred(a) == IF a[2] > 0 THEN <<a[1], a[2] - 1>> ELSE <<a[1] - 1, NsPerSec - 1>>
Probes ==
  {Succ(t), <<t[1] + 1, t[2]>>, <<t[1] + Half \div 2, t[2]>>,
   <<t0[1] - Half, t0[2]>>, Pred(<<t0[1] + Half, t0[2]>>)}
Order == (Chosen /\ Judged(t, t0)) =>
  LET back == RT(t, t0) IN
  \A u \in Probes : Judged(u, t0) =>
     /\ OrderKept(t, u, back, RT(u, t0))
     /\ OrderKept(u, t, RT(u, t0), back)

\* the two components interact only at exactly half an era of whole seconds: the
\* sub-second result depends on the sub-second input only, the seconds on the seconds
\* (justifies covering all seconds x classes of sub-seconds and classes of seconds --
\* including +-Half -- x all sub-seconds in separate configurations)
Separable == Chosen =>
  /\ RT(t, t0)[2] = RT(<<t0[1], t[2]>>, t0)[2]
  /\ ((t[1] - t0[1] # Half /\ t[1] - t0[1] # -Half) => RT(t, t0)[1] = RT(<<t[1], 0>>, t0)[1])

\* component lemmas (DESIGN: RoundTripNs, EraOK) and well-formedness of the transcription
RoundTripNs == Chosen => (Nsec(Frac(t[2])) = t[2] \/ Nsec(Frac(t[2])) = t[2] - 1)
EraOK == (Chosen /\ Judged(t, t0)) =>
            Unfold(Sec32(t[1]), Frac(t[2]), t0, ForwardOnlyEraUnfold, WholeSecondUnfold) = t[1]
WellFormed == Chosen =>
  /\ Frac(t[2]) = (t[2] * FracUnits) \div NsPerSec          \* uint32(.) of the fraction never wraps
  /\ 0 <= Nsec(Frac(t[2])) /\ Nsec(Frac(t[2])) < NsPerSec    \* time.Unix never normalises
  /\ (TLeq(RT(t, t0), t) <=> DiffNs(RT(t, t0), t) <= 0)      \* digit order is numeric order
  /\ (t[2] + 1 < NsPerSec => Frac(t[2]) < Frac(t[2] + 1))    \* distinct times, distinct timestamps
  /\ (t[2] < t0[2] <=> Frac(t[2]) < Frac(t0[2]))             \* comparing fractions = comparing nanoseconds
=============================================================================
