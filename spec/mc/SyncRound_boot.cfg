SPECIFICATION Spec
CONSTANTS
  W = 8
  NRef = 1
  NPeer = 1
  Vals <- ValsExh
  Cfgs <- CfgsBoot
  MaxRound = 1
  FailKinds <- OneFail
  AnyOrder = FALSE
  Canon = TRUE
  Elapse <- ElapseAll
CONSTRAINT BootOnly
INVARIANTS EmitBoot Refused RefusedExact StatedImpliesPanics
