------------------------------ MODULE NtsKeMC ------------------------------
(***************************************************************************)
(* Model-checking wrapper for NtsKe.tla (C20): constant sets for the cfg   *)
(* files (cfg files cannot contain set expressions over strings reliably). *)
(***************************************************************************)
EXTENDS NtsKe

\* every record the peer can send except sH (only the project's own server names itself)
\* (with a body of the typical length; the body length variants: AlphaLen, AlphaWalk)
AlphaAll  == BaseRecs \ {"sH"}
\* one representative per class of ReadData's switch (exhaustive runs with more calls)
AlphaCore == {"np", "a15", "aX", "ck", "sA", "pA", "warn", "uc", "un", "e1", "eom"}
CutAll    == AlphaAll
CutCore   == {"ck", "a15", "sA", "un", "eom"}
AlpnsTls  == AllAlpns
AlpnsQuic == AllAlpns \ {"none"}
AlpnsOk   == {"ntske/1"}
CutNone   == {}
CutCk     == {"ck"}
\* the stall family (scripts in which the peer stalls past the caller's deadline):
\* one representative per way a record acts on Fetcher.data and on the loop
AlphaStall == {"a15", "ck", "sA", "e1", "eom"}
CutStall   == {"ck", "eom"}
\* the naming family (NtsKeGen!Naming)
AlphaNaming == {"a15", "ck", "sA", "sB", "pA", "pB", "eom"}
\* who calls FetchData in the generated histories (NtsKeGen!Vias)
ViasAny     == {"any"}
ViasMeasure == {"measure"}
ViasBoth    == {"fetch", "measure"}
AlphaStallDeep == AlphaStall \cup {"un"}
CutStallDeep   == CutStall \cup {"un"}
\* the body length family (NtsKeGen!LenFamily): unknown critical / unknown
\* non-critical / Warning records with body length 0 | 1 | typical inside an
\* otherwise acceptable message; the stream may end inside the header of one
AlphaLen  == {"a15", "ck", "eom"} \cup UnkCrit \cup UnkNon \cup Warns
CutLen    == {"uc0", "un0", "un1"}
\* exhaustive runs: one representative per class of ReadData's switch + the body length variants
AlphaCoreLen == AlphaCore \cup LenRecs
CutCoreLen   == CutCore \cup {"un0", "uc1"}
\* the walks
AlphaWalk == AlphaAll \cup LenRecs
=============================================================================
