"""C19 - PLL clock discipline: bounded slew, no step once tracking, sane actuation.

spec/Pll.tla <-> core/sync/adjustments/pll.go (through timebase.SystemClock).
  1. TLC decides the property section on the specification (small scope,
     exhaustive) on the whole input domain incl. MinInt64 offsets and saturated
     clock advances; as a self-test it must find the two counterexamples when
     the switches are set to the behaviour before the repairs.
  2. TLC generates update histories (exhaustive short ones through the history
     variable, longer random walks with -simulate), each with the expected
     mode / call per update.
     A history also carries a schedule of external clock steps INSIDE calls of
     Do ("after the k-th clock access of the j-th update the epoch is bumped
     and the reading jumps by J"): Do is a sequence of actions in Pll.tla (one
     per clock access) and the environment's EnvStep fires between any two.
  3. harness/c19 replays them on the real Pll under value embeddings; its fake
     clock scripts the external steps per access.
  4. TLC validates the recorded events against spec/trace/PllTrace.tla:
     monitor clauses (the property section) decide VIOLATION, strict clauses
     (equality with Pll!Do) only DRIFT.
"""
import copy, json, re
from concurrent.futures import ThreadPoolExecutor
import vlib

MODE_CLAUSES = {"StepMode", "TrackingOnlySlews", "EpochRestarts"}


def _history(part, l):
    """events of the history that contains (1-based) position l, up to l"""
    i = l - 1
    s = i
    while s > 0 and part[s]["ev"] != "reset":
        s -= 1
    return part[s:i + 1]


def _sig(clause, r):
    """structural signature: failing clause + the input class that matters for it"""
    if clause == "StepAmount":
        return "C19 StepAmount off=%s" % ("min" if r["offc"] == "min" else "other")
    if clause == "StepOffset":
        return "C19 StepOffset off=%s" % r["offc"].lstrip("+-")
    if clause == "StepWeight":
        return "C19 StepWeight w%s" % r["wc"]
    if clause in ("PositiveDuration", "SlewBound"):
        return "C19 %s adv=%s" % (clause, "sat" if r["advc"] == "sat" else "ord")
    return "C19 %s" % clause


def _sig_h(clause, r, hist):
    """... + for the wait clause, whether an external step landed inside a call of
    this history before the failing call was made (the interleaving dimension)"""
    sig = _sig(clause, r)
    if clause == "StepWait" and any(x["ev"] == "upd" and x["ks"] for x in hist):
        sig += " after-step-inside-call"
    return sig


def _chunks(recs, size):
    """split at reset events"""
    cur = []
    for r in recs:
        if r["ev"] == "reset" and len(cur) >= size:
            yield cur
            cur = []
        cur.append(r)
    if cur:
        yield cur


def _run_trace(ctx, cfg, part, name):
    """one TLC pass over the events (in a private copy of the specification
    directory: several run at once); returns the failing (event, clause) pairs
    of the monitor and of the strict clauses (None when the cfg does not ask)"""
    pp = ctx.path(name)
    vlib.write_ndjson(pp, part)
    r = ctx.tlc("PllTrace", cfg, workers=1, timeout=900, files={"trace.ndjson": pp}, tag="trace:" + cfg, heap="2g",
                specdir=ctx.private_specdir())
    res = []
    for bad, done in (("MBAD", "MDONE"), ("SBAD", "SDONE")):
        total = vlib.Ctx.emitted(r["out"], marker=done)
        if not total:
            res.append(None)
            continue
        pairs = sorted({(int(e["l"]), c) for e in vlib.Ctx.emitted(r["out"], marker=bad) for c in e["c"]})
        if total[0]["events"] != len(part) or total[0]["n"] != len(pairs):
            raise vlib.Inconclusive("trace validation %s: report inconsistent (%s, %d pairs, %d events)"
                                    % (cfg, total[0], len(pairs), len(part)))
        res.append(pairs)
    want = {"PllTrace_mon.cfg": (0,), "PllTrace_strict.cfg": (1,), "PllTrace_both.cfg": (0, 1)}[cfg]
    if any(res[i] is None for i in want):
        tail = "\n".join(r["out"].splitlines()[-40:])
        raise vlib.Inconclusive("trace validation %s ended without its report:\n%s" % (cfg, tail))
    return res


def _act(k, **kw):
    a = dict(ai=3, k=k, x=0, x_eq=False, p=0, p_small=False, slew_within_bound=False, d=0, d_whole=False, d_pos=False, ffin=True)
    a.update(kw)
    return a


def _u(h, i, adv, off, w, now, cep, cep2, mode, acts, q, ks=(), rnow=None):
    """a hand-written update record; ks: external steps inside the call as (k, j)"""
    ks = [dict(k=k, j=j) for k, j in ks]
    end = now + sum(x["j"] for x in ks)
    return dict(ev="upd", h=h, i=i, c0=0, adv=adv, sat=False, bump=False, off=off, w=w, now_t=now, now_e=0, end_t=end,
                nnow=1, rnow_t=now if rnow is None else rnow, rnow_e=0, st=ks, ks=ks, na=len(q) + 1 + len(acts), q=q,
                gc="none", cep=cep, cep2=cep2, nlog=1, mode=mode, acts=acts, panic=False, acc="", emb="synthetic",
                offc="+large" if off else "0", wc="3..50", advc="-", exp_ok=True)


def _reset(h):
    return dict(ev="reset", h=h, i=0, c0=0, adv=0, sat=False, bump=False, off=0, w=0, now_t=0, now_e=0, end_t=0, nnow=0,
                rnow_t=0, rnow_e=0, st=[], ks=[], na=0, q=[], cep=0, cep2=0, nlog=0, mode=0, acts=[], panic=False, acc="",
                emb="synthetic", offc="", wc="", advc="", exp_ok=True)


def _synthetic(h):
    """a hand-written history that satisfies every clause: start-up, step of
    +large after 2 s + 1 ms, restart, 2 s and 6 s waits, one saturated slew"""
    return [
        _reset(h),
        _u(h, 1, 0, 10, 4, 0, 0, 0, 1, [], [0]),
        _u(h, 2, 2001, 10, 4, 2001, 0, 1, 2, [_act("step", x=10, x_eq=True)], [0]),
        _u(h, 3, 0, 10, 4, 2001, 1, 1, 1, [], [1, 1]),
        _u(h, 4, 2001, 0, 4, 4002, 1, 1, 2, [], [1]),
        _u(h, 5, 6001, 0, 4, 10003, 1, 1, 3, [], [1]),
        dict(_u(h, 6, 1000, 10, 4, 11003, 1, 1, 3,
                [_act("adjust", p=500000, p_small=True, slew_within_bound=True, d=1, d_whole=True, d_pos=True)], [1]), gc="lo"),
    ]


def _synthetic_incall(h):
    """hand-written histories with external steps inside calls, as pll.go
    behaves; every clause holds.
      1: the step (+2.001 s) lands after the first access (Epoch) of update 1,
         before its Now: t0 is a reading of the new epoch; update 2 observes the
         change; update 3 steps 2.501 s into the new epoch.
      4-5: the unavoidable window: the step lands between Epoch() and Now() of
         the update that decides (update 5, 0.5 s after the start of the old epoch
         as the Pll read it, 2.501 s on the reading it gets): it steps in a clock
         epoch that is 0 s old - in the epoch of its own call the wait is over
         (the one update with two readings of "current epoch")."""
    return [
        _reset(h),
        _u(h, 1, 0, 10, 4, 0, 0, 1, 1, [], [0], ks=[(1, 2001)], rnow=2001),
        _u(h, 2, 500, 10, 4, 2501, 1, 1, 1, [], [1, 1]),
        _u(h, 3, 2001, 10, 4, 4502, 1, 2, 2, [_act("step", x=10, x_eq=True)], [1]),
        _reset(h + 1),
        _u(h + 1, 1, 0, 10, 4, 0, 0, 0, 1, [], [0]),
        _u(h + 1, 2, 500, 10, 4, 500, 0, 2, 2, [_act("step", x=10, x_eq=True)], [0], ks=[(1, 2001)], rnow=2501),
        _u(h + 1, 3, 0, 10, 4, 2501, 2, 2, 1, [], [2, 2]),
    ]


def _early_after_incall(hst):
    """the same schedule as history 1 of _synthetic_incall, but the update inside
    which the step landed took its reading BEFORE the step and attributed it to
    the new epoch (it read Epoch() afterwards); update 2, undisturbed, then
    steps 0.5 s into the current clock epoch"""
    hst[1].update(q=[1, 1], rnow_t=0, na=3)
    hst[2].update(q=[1], na=3, cep2=2, mode=2, acts=[_act("step", x=10, x_eq=True)])
    del hst[3:]


def _selftest(ctx):
    """corrupted-field controls: the monitor must accept the hand-written correct
    histories and reject each copy in which recorded fields were falsified (a
    binding that cannot fail proves nothing)"""
    falsify = [
        ("PositiveDuration", 6, lambda r: r["acts"][0].update(d_pos=False, d=0)),
        ("StepAmount", 2, lambda r: r["acts"][0].update(x=-10)),
        ("SlewBound", 6, lambda r: r["acts"][0].update(p=500001)),
        ("StepWait", 2, lambda r: r.update(adv=2000, now_t=2000, rnow_t=2000, end_t=2000)),
        ("StepWeight", 2, lambda r: r.update(w=3)),
        ("FiniteFrequency", 6, lambda r: r["acts"][0].update(ffin=False)),
        ("EpochRestarts", 3, lambda r: r.update(acts=[_act("adjust", p=0, p_small=True, slew_within_bound=True, d=1, d_whole=True, d_pos=True)])),
        ("TrackingOnlySlews", 6, lambda r: r.update(acts=[_act("step", x=10, x_eq=True)], cep2=2)),
    ]
    trace = _synthetic(1) + _synthetic_incall(2)
    ngood = len(trace)
    want = set()
    for k, (clause, i, f) in enumerate(falsify):
        hst = _synthetic(k + 4)
        f(hst[i])
        want.add((len(trace) + i + 1, clause))
        trace += hst
    # the interleaving dimension: a premature step by a later, undisturbed update
    hst = _synthetic_incall(len(falsify) + 4)
    _early_after_incall(hst)
    want.add((len(trace) + 3, "StepWait"))
    trace += hst
    bad, _ = _run_trace(ctx, "PllTrace_mon.cfg", trace, "selftest.ndjson")
    got = set(bad)
    if any(l <= ngood for l, _ in got):
        raise vlib.Inconclusive("self-test: monitor rejects the correct hand-written histories: %s" % sorted(got)[:5])
    if not want <= got:
        raise vlib.Inconclusive("self-test: monitor did not reject falsified fields: %s" % sorted(want - got))
    return len(falsify) + 1


def _sched_stats(cases):
    """vacuity guard on the SPEC side: how the generated histories exercise the
    interleaving dimension (external steps inside calls)"""
    st = dict(histories=0, steps=0, by_place={}, by_jump={}, actuation_in_disturbed_update=0,
              step_call_after_disturbed_update=0, adjust_after_disturbed_update=0, two_in_one_call=0)
    for c in cases:
        seen = False
        for u in c["u"]:
            if seen and u["k"] == "step":
                st["step_call_after_disturbed_update"] += 1
            if seen and u["k"] == "adjust":
                st["adjust_after_disturbed_update"] += 1
            if u["st"]:
                if not seen:
                    st["histories"] += 1
                seen = True
                st["steps"] += len(u["st"])
                if len(u["st"]) > 1:
                    st["two_in_one_call"] += 1
                if u["k"] != "none":
                    st["actuation_in_disturbed_update"] += 1
                for e in u["st"]:
                    st["by_place"]["k=%d" % e["k"]] = st["by_place"].get("k=%d" % e["k"], 0) + 1
                    st["by_jump"]["j=%d" % e["j"]] = st["by_jump"].get("j=%d" % e["j"], 0) + 1
    return st


def run(ctx):
    q = ctx.quick
    # ---- 1. design level and 2. spec -> code generators, side by side
    nsim = 1000 if q else 4000
    depth = (12 if q else 24) * 7 + 8          # <= 6 actions per update + the external steps inside calls
    selftests = (("Pll_cex1.cfg", "Step(Inv(Inv(MinInt64)))", "C19Step"),
                 ("Pll_cex2.cfg", "Duration(ceil(saturated dt))", "C19Step"),
                 ("Pll_cex3.cfg", "Now() read before Epoch(), external step between the two reads", "C19WaitStep"))

    def t_exh(cfg, workers):
        return ctx.tlc("PllMC", cfg, timeout=400 if q else 2400, workers=workers, specdir=ctx.private_specdir())

    def t_self():
        res = []
        for cfg, what, prop in selftests:
            res.append(ctx.tlc("PllMC", cfg, timeout=300, workers=2, allow_violation=True, tag="selftest:" + cfg,
                               specdir=ctx.private_specdir()))
        return res

    def t_gen(cfg):
        # one worker: which history represents a VIEW class must not depend on thread scheduling
        return ctx.tlc("PllMC", cfg, workers=1, timeout=900, tag="gen:" + cfg, specdir=ctx.private_specdir())

    def t_sim():
        return ctx.tlc("PllMC", "Pll_sim.cfg" if q else "Pll_simdeep.cfg", workers=1, timeout=900,
                       simulate="num=%d" % nsim, depth=depth, tag="sim", specdir=ctx.private_specdir())

    ctx.specdir()
    with ThreadPoolExecutor(max_workers=6) as ex:
        # whole input domain without external steps inside calls / every placement of such steps
        f_exh = ex.submit(t_exh, "Pll_exh.cfg" if q else "Pll_deep.cfg", 3 if q else 6)
        f_exi = ex.submit(t_exh, "Pll_exhin.cfg" if q else "Pll_deepin.cfg", 4 if q else 8)
        f_gen = ex.submit(t_gen, "Pll_gen.cfg" if q else "Pll_gendeep.cfg")
        f_gin = ex.submit(t_gen, "Pll_genin.cfg" if q else "Pll_genindeep.cfg")
        f_sim = ex.submit(t_sim)
        f_self = ex.submit(t_self)
        r, ri, g, gi, s, selfres = (f_exh.result(), f_exi.result(), f_gen.result(), f_gin.result(), f_sim.result(),
                                    f_self.result())
    ctx.log("TLC property section, whole domain: %d distinct / %d generated (%.0fs); every placement of an external step "
            "inside a call: %d distinct / %d generated (%.0fs)"
            % (r["distinct"], r["generated"], r["wall_s"], ri["distinct"], ri["generated"], ri["wall_s"]))
    exh_stats = (ri["distinct"], ri["generated"], ri["wall_s"])
    # spec self-test: with the switches of the behaviour before the repairs / of the
    # reversed read order TLC must find the counterexamples (a property section that
    # cannot fail proves nothing)
    for (cfg, what, prop), rr in zip(selftests, selfres):
        if rr["violated"] != prop:
            raise vlib.Inconclusive("spec self-test: TLC no longer finds the violation through %s (%s)" % (what, rr["violated"]))
    # ---- 2. spec -> code: histories with expectations
    exh_cases = ctx.emitted(g["out"])
    in_cases = ctx.emitted(gi["out"])
    for gg, cc in ((g, exh_cases), (gi, in_cases)):
        if len(cc) != gg["out"].count('<<"CASE"'):
            raise vlib.Inconclusive("generator output garbled: %d of %d CASE lines parsed" % (len(cc), gg["out"].count('<<"CASE"')))
    sim_cases = ctx.emitted(s["out"])
    seen, cases = set(), []
    for c in exh_cases + in_cases + sim_cases:
        k = json.dumps(c, sort_keys=True)
        if k not in seen:
            seen.add(k)
            cases.append(c)
    if len(exh_cases) < 100 or len(in_cases) < 100 or len(sim_cases) < nsim // 2:
        raise vlib.Inconclusive("generators produced only %d + %d exhaustive / %d simulated histories"
                                % (len(exh_cases), len(in_cases), len(sim_cases)))
    sched = _sched_stats(cases)
    # vacuity guards (spec side): the interleaving dimension is exercised, at every place,
    # and calls are made after it that the wait clause has to judge
    if sched["histories"] < 500 or len(sched["by_place"]) < 3 or sched["step_call_after_disturbed_update"] < 50 \
            or sched["actuation_in_disturbed_update"] < 50:
        raise vlib.Inconclusive("generated histories do not exercise external steps inside calls: %s" % json.dumps(sched))
    cp = ctx.path("cases.ndjson")
    vlib.write_ndjson(cp, cases)
    ctx.log("generated %d distinct histories (%d + %d enumerated, %d simulated); external steps inside calls: %s"
            % (len(cases), len(exh_cases), len(in_cases), len(sim_cases), json.dumps(sched, sort_keys=True)))
    # ---- 3. real code
    trace, out = ctx.godriver("c19", "TestC19", cases=cp, extra=("-v",))
    recs = vlib.read_ndjson(trace)
    m = re.search(r"C19STATS histories=(\d+) updates=(\d+) mismatches=(\d+)", out)
    nhist, nupd, nmis = (int(x) for x in m.groups()) if m else (0, 0, 0)
    m = re.search(r"C19SCHED histories=(\d+) scheduled=(\d+) landed=(\d+) between=(\d+) after=(\d+) disturbed_updates=(\d+)", out)
    drv = dict(zip(("histories", "scheduled", "landed", "between_accesses", "after_last_access", "disturbed_updates"),
                   (int(x) for x in m.groups()))) if m else {}
    ctx.log("driver: %d histories, %d updates, %d differ from the attached expectation; external steps: %s"
            % (nhist, nupd, nmis, json.dumps(drv)))
    if not drv or drv["landed"] != drv["scheduled"] or drv["between_accesses"] == 0:
        raise vlib.Inconclusive("the scripted clock did not perform the scheduled external steps: %s" % json.dumps(drv))
    upd = [x for x in recs if x["ev"] == "upd"]
    if any(x["nlog"] != 1 for x in upd) and all(x["nlog"] != 1 for x in upd):
        raise vlib.Inconclusive("the Pll no longer logs one 'PLL iteration' record per update: the mode projection is lost")
    # ---- 4. code -> spec
    nval, found, counts, dseen = 0, {}, {}, set()
    parts = list(_chunks(recs, min(50000, max(4000, len(recs) // 6 + 1))))
    with ThreadPoolExecutor(max_workers=6) as ex:
        f_st = ex.submit(_selftest, ctx)
        futs = [ex.submit(_run_trace, ctx, "PllTrace_both.cfg", part, "chunk%d.ndjson" % i) for i, part in enumerate(parts)]
        ntests = f_st.result()
        results = [f.result() for f in futs]
    for part, (bad, sb) in zip(parts, results):
        hist_ids = {x["h"] for x in part}
        badh = set()
        for l, clause in bad:
            rec_ = part[l - 1]
            hist = _history(part, l)
            if clause in MODE_CLAUSES and any(x["ev"] == "upd" and x["nlog"] != 1 for x in hist):
                ctx.notes.append("history %d: %s not judged, a log record is missing" % (rec_["h"], clause))
                continue
            sig = _sig_h(clause, rec_, hist)
            counts[sig] = counts.get(sig, 0) + 1
            badh.add(rec_["h"])
            if sig not in found:
                found[sig] = (clause, rec_, hist)
        nval += len(hist_ids - badh)
        for l, clause in sb:
            rec_ = part[l - 1]
            key = (clause, rec_["mode"], rec_["offc"] == "min", rec_["advc"] == "sat", bool(rec_["ks"]))
            if key in dseen or len(ctx.drift) >= 20:
                continue
            dseen.add(key)
            ctx.drift.append("update differs from Pll!RunCall as written in Pll.tla (%s): history %d update %d off=%s w=%s adv=%s "
                             "bump=%s steps_inside=%s accesses=%s mode_after=%s calls=%s"
                             % (clause, rec_["h"], rec_["i"], rec_["offc"], rec_["wc"], rec_["advc"], rec_["bump"],
                                json.dumps(rec_["ks"]), rec_["acc"], rec_["mode"], json.dumps(rec_["acts"])))
    for sig, (clause, rec_, hist) in sorted(found.items()):
        ctx.violation(sig, "real Pll.Do breaks %s (%d recorded updates): off=%s w=%s adv=%s steps_inside=%s accesses=%s "
                      "mode_after=%s calls=%s; external steps inside earlier calls of the history: %s"
                      % (clause, counts[sig], rec_["offc"], rec_["wc"], rec_["advc"], json.dumps(rec_["ks"]), rec_["acc"],
                         rec_["mode"], json.dumps(rec_["acts"]),
                         json.dumps([[x["i"], x["acc"], x["ks"]] for x in hist[:-1] if x["ev"] == "upd" and x["ks"]])), hist)
    ctx.log("validated %d histories against PllTrace (monitor) in %d shards, %d failing clause signatures, %d drift notes"
            % (nval, len(parts), len(found), len(ctx.drift)))
    # ---- evidence
    distinct = len({(json.dumps([[u[k] for k in ("adv", "sat", "bump", "off", "w", "st")] for u in c["u"]]), c["c0"]) for c in cases
                    if any(u["k"] != "none" for u in c["u"])})
    sample = []
    for x in recs:
        if x["h"] in (1, nhist // 2):
            sample.append(x)
    ctx.notes.append(
        "interleaving dimension (external clock steps INSIDE calls of Do: epoch + 1 and a forward jump of the reading after the "
        "k-th clock access - Epoch, Now, Step, Adjust - of an update): Pll.tla explores every placement exhaustively "
        "(%d distinct states / %d generated, %.0f s); generated histories that exercise it (spec side): %s; replayed by the "
        "scripted clock: %s" % (exh_stats[0], exh_stats[1], exh_stats[2], json.dumps(sched, sort_keys=True), json.dumps(drv)))
    ctx.notes.append(
        "judged on the clock's own timeline (reading at which the clock epoch began), not on what the Pll read. Leniently judged "
        "placement: only the update INSIDE which a step landed before its Step/Adjust call - it was called in one clock epoch and "
        "actuates in a later one, 'the current clock epoch' has two readings for it and the wait holds if more than 2 s have "
        "passed since the start of either (pll.go itself steps there: a step between its Epoch() and Now() reads or between Now() "
        "and Step() cannot be noticed by the update that decides); the elapsed seconds of a slew count from the earliest "
        "reading of the previous update. Every later update is judged with the one reading: more than 2 s after the start of "
        "the clock epoch current when it steps.")
    ctx.cov.update(
        evaluations=len(upd), distinct_nontrivial=distinct,
        rule="update histories generated by TLC from Pll.tla: every history of Pll_gen's classes up to its length reaching a "
             "distinct abstract state (VIEW), the same with one (thorough: two) external steps inside calls at every place and "
             "jump 0 / 2 s + 1 ms (Pll_genin), plus -simulate walks over all classes (offset 0/+-0.5ms/+-1ms/+-(1ms+1ns)/+-large/"
             "+-MaxInt64/MinInt64, weight 0(denormal)/-5/2/3/4/49/50/149/150/NaN/+Inf/-Inf, advance 0/0.5s/1s/2s/2s+1/6s/6s+1/300s+1/saturated, external "
             "epoch bump between calls, external steps inside calls after access 1..4 with jump 0/0.5s/2s+1/6s+1), each replayed "
             "under embeddings of offsets, weights, readings (ms and ns quantum), base time and "
             "epoch base; distinct_nontrivial = distinct generated histories containing at least one Step/Adjust; "
             "evaluations = recorded updates",
        traces_validated_against_impl=nval, histories_replayed=nhist, exhaustive=False,
        monitor_selftests=ntests, expectation_mismatches=nmis,
        histories_with_steps_inside_calls=sched["histories"], steps_inside_calls=sched["steps"],
        samples=sample[:16])
    ctx.assumptions += [
        "the scripted clock increments its epoch on Step exactly like driver/clocks/sysclk_linux.go; readings are non-decreasing",
        "the clock is read and actuated only through the timebase.SystemClock handed to NewPLL; between two accesses of one call "
        "only an external step moves its reading (forward)",
        "mode before/after an update is taken from the 'mode' attribute of the Pll's 'PLL iteration' log record when it is there, "
        "otherwise derived from observed actuation",
        "an epoch change is 'observed through the clock's epoch' by the update one of whose Epoch() reads returns another value "
        "than the read before it",
        "start of the current clock epoch = reading at which the clock's epoch last changed (creation, external bump, external "
        "step inside a call, Step)",
        "the slew's proportional term is symbolic in Pll.tla; finiteness of the frequency is checked on observed values only",
        "small scope: histories <= 6 updates exhaustively (TLC) with <= 1 (thorough: 2) external steps inside calls, "
        "<= 12/24 updates by simulation with <= 4/8",
    ]
