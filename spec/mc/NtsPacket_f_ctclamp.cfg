SPECIFICATION Spec
CONSTANTS
  MaxNf = 2
  Roles <- RolesAll
  PlaceholderTypedAsCookie = FALSE
  UidChecked = TRUE
  AdWhole = TRUE
  Hardened = TRUE
  StopAtAuth = TRUE
  CtLenExact = FALSE
  StoreAfterUid = TRUE
  LenChoices <- LenChoicesGen
  TruncMax = 2
INVARIANTS Sound
