SPECIFICATION HSpec
CONSTANTS
  PoolMax = 8
  CookieLen = 124
  MaxPacketLen = 1280
  PlaceholderTypedAsCookie = FALSE
  CapReply = TRUE
  Day = 2
  Ticks <- GTicksX
  Horizon = 6
  MaxEx = 4
  ProbeNs <- GProbesX
  ProbeUids <- GUidsX
  MaxOld = 2
  Transports <- TrIP
  ScmpTypes <- ScmpNone
  HdrStates <- HdrStr0
  HdrPct = 0
  Exhaustive = TRUE
  Biases <- BiasOne
  TickPct = 0
  ProbePct = 0
  StalePct = 0
  ExInj <- InjNone
  ScmpPct = 0
  ExScmp <- ScmpX0
INVARIANTS Emit
PROPERTIES StepOfSpec
