SPECIFICATION GenSpec
CONSTANTS
  W = 6
  MaxN = 3
  K = 3
  Bands <- Bands3
  Far <- FarHi
  Variants <- VarAll
  Shared = FALSE
  SortedInputs = TRUE
INVARIANTS Emit
