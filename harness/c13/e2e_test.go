// End-to-end cases: the REAL SCIONClient measures against the REAL server
// through a relay of the harness. The relay is the client's next hop and the
// server's previous hop; it may alter the request (class ak) and the response
// (class rm) on the way, and it examines both with scionproto's own SPAO code.
package c13

import (
	"context"
	"encoding/binary"
	"log/slog"
	"math/rand"
	"net"
	"sync"
	"time"

	"github.com/scionproto/scion/pkg/addr"
	"github.com/scionproto/scion/pkg/snet"
	spath "github.com/scionproto/scion/pkg/snet/path"

	"example.com/scion-time/core/client"
	"example.com/scion-time/net/scion"
	"example.com/scion-time/net/udp"
)

// slog handler that remembers what the client said about authentication.
// OPTIONAL: the client's verdict (rec.Cli) is decided without it, from what the
// measurement call returns and when; what is remembered here only feeds the
// cross-check field rec.CliLog (strict section), and only if records with the
// names known today were seen at all.
type cliLog struct {
	mu       sync.Mutex
	seen     bool   // a record with one of the known names was logged
	received bool   // "received response" was logged
	auth     bool   // ... with auth=true
	authFail bool   // "failed to authenticate packet"
	failed   string // error of "failed to measure clock offset"
}

func (l *cliLog) Enabled(context.Context, slog.Level) bool { return true }
func (l *cliLog) WithAttrs([]slog.Attr) slog.Handler       { return l }
func (l *cliLog) WithGroup(string) slog.Handler            { return l }
func (l *cliLog) Handle(_ context.Context, r slog.Record) error {
	l.mu.Lock()
	defer l.mu.Unlock()
	switch r.Message {
	case "received response", "failed to authenticate packet", "failed to measure clock offset":
		l.seen = true
	}
	switch r.Message {
	case "received response":
		l.received = true
		r.Attrs(func(a slog.Attr) bool {
			if a.Key == "auth" && a.Value.Kind() == slog.KindBool {
				l.auth = a.Value.Bool()
			}
			return true
		})
	case "failed to authenticate packet":
		l.authFail = true
	case "failed to measure clock offset":
		r.Attrs(func(a slog.Attr) bool {
			if a.Key == "error" {
				l.failed = a.Value.String()
			}
			return true
		})
	}
	return nil
}

type cliResult struct {
	ts  time.Time
	err error
}

func (h *harness) runE2E(id int, c *tcase, rng *rand.Rand) []*rec {
	if c.Sweep && flipClasses[c.Rm] {
		// every bit of the response's tamper class: learn the layout from a first run
		first := h.runE2EOne(id, c, -1, -1, rng)
		if first.respWire == nil {
			return []*rec{first.r}
		}
		rs := []*rec{}
		for _, b := range region(first.respWire, c.Rm) {
			rs = append(rs, h.runE2EOne(id, c, -1, b, rng).r)
		}
		return rs
	}
	if c.Sweep && flipClasses[c.Ak] {
		first := h.runE2EOne(id, c, -1, -1, rng)
		if first.reqWire == nil {
			return []*rec{first.r}
		}
		rs := []*rec{}
		for _, b := range region(first.reqWire, c.Ak) {
			rs = append(rs, h.runE2EOne(id, c, b, -1, rng).r)
		}
		return rs
	}
	return []*rec{h.runE2EOne(id, c, -1, -1, rng).r}
}

type e2eRun struct {
	r        *rec
	reqWire  []byte // the client's request as it left the client
	respWire []byte // the server's response as it left the server
}

func (h *harness) runE2EOne(id int, c *tcase, sub, rsub int, rng *rand.Rand) e2eRun {
	const mode = "server"
	r := &rec{K: "e2e", ID: id, Sub: -1, Rsub: -1, Mode: mode, Ak: c.Ak, Pl0: "ntp", Outs: []adgram{}, Cauth: c.Cauth, Rm: c.Rm, Rext: "e2e", Cli: "-"}
	run := e2eRun{r: r}
	R := h.listen(h.w.ipP) // the relay
	defer R.Close()

	lg := &cliLog{}
	cl := &client.SCIONClient{Log: slog.New(lg)}
	cl.Auth.Enabled = c.Cauth
	cl.Auth.DRKeyFetcher = scion.NewFetcher(h.dc)
	cia := iaC
	if c.cia != 0 {
		cia = c.cia // (key regime with epochs: a client ISD-AS of this exchange's own)
	}
	local := udp.UDPAddr{IA: cia, Host: &net.UDPAddr{IP: h.w.ipC}}
	remote := udp.UDPAddr{IA: iaS, Host: &net.UDPAddr{IP: h.w.ipS[mode], Port: h.w.srvPort}}
	var dp snet.DataplanePath = spath.Empty{}
	if c.Path.Kind != "empty" {
		p, _ := buildPath(c.Path, rng)
		dp = spath.SCION{Raw: pathBytes(p)}
	}
	sp := spath.Path{Src: cia, Dst: iaS, DataplanePath: dp, NextHop: udpAddr(h.w.ipP, portOf(R))}
	const callTimeout = 3 * time.Second
	tStart := time.Now() // the call's deadline is not before tStart + callTimeout
	ctx, cancel := context.WithTimeout(context.Background(), callTimeout)
	defer cancel()
	done := make(chan cliResult, 1)
	go func() {
		ts, _, err := client.MeasureClockOffsetSCION(ctx, cl.Log, []*client.SCIONClient{cl}, local, remote, []snet.Path{sp})
		done <- cliResult{ts, err}
	}()

	// again: hands the client one more copy of what it was given (nil: nothing to repeat)
	var again func()
	finish := func() e2eRun {
		var res cliResult
		// A client that turns a datagram down keeps waiting for as many further ones as
		// its budget of skipped datagrams allows, and only then returns: it gets further
		// copies (a few, some milliseconds apart) until it returns, so that its verdict
		// does not have to wait for its deadline whatever that budget is.
		returned := false
		for copies := 2; !returned; copies++ {
			wait := 4 * time.Second
			if again != nil && copies < 10 {
				wait = 15 * time.Millisecond
			}
			select {
			case res = <-done:
				returned = true
			case <-time.After(wait):
				if wait == 4*time.Second {
					r.Cli, r.CliErr = "other", "client did not return"
					return run
				}
				again()
			}
		}
		tRet := time.Now()
		// MeasureClockOffsetSCION reports a failed measurement as the zero
		// measurement (no error): a measurement was reported iff the timestamp is set.
		// The verdict needs no log record:
		//   accept  the call returned a measurement
		//   refuse  a response was handed to the client's socket (twice) and the call
		//           returned without a measurement BEFORE its deadline: the client read
		//           what it was given and turned it down
		//   other   anything else (nothing delivered, deadline reached, no return)
		reported := res.err == nil && !res.ts.IsZero()
		switch {
		case reported:
			r.Cli = "accept"
		case r.Delivered && tRet.Before(tStart.Add(callTimeout)):
			r.Cli = "refuse"
		default:
			r.Cli = "other"
			if res.err != nil {
				r.CliErr = res.err.Error()
			}
		}
		// optional cross-check: the verdict according to the log records known today
		lg.mu.Lock()
		defer lg.mu.Unlock()
		if lg.seen {
			// (each class only from records that were seen: a renamed or dropped
			// record leaves the field empty, it does not make a contradiction)
			switch {
			case reported && lg.received && lg.auth:
				r.CliLog = "verified"
			case reported && lg.received:
				r.CliLog = "unauth"
			case reported:
			case lg.authFail || lg.failed == "invalid authenticator":
				r.CliLog = "reject"
			case lg.failed != "":
				r.CliLog = "other"
			}
			if !reported && r.CliErr == "" {
				r.CliErr = lg.failed
			}
		}
		return run
	}

	// the client's request
	buf := make([]byte, 16384)
	var caddr *net.UDPAddr
	R.SetReadDeadline(time.Now().Add(2 * time.Second))
	n, from, err := R.ReadFromUDP(buf)
	if err != nil || !from.IP.Equal(h.w.ipC) {
		r.CliErr = "no request reached the relay"
		cancel()
		return finish()
	}
	caddr = from
	if caddr.Port == h.w.srvPort || caddr.Port == endhostPort {
		// the client's ephemeral port number equals a listener port number: port
		// labels would be ambiguous; let this exchange fail and run the case again
		R.WriteToUDP([]byte{0}, caddr)
		R.WriteToUDP([]byte{0}, caddr)
		<-done
		return h.runE2EOne(id, c, sub, rsub, rng)
	}
	wire := append([]byte{}, buf[:n]...)
	run.reqWire = append([]byte{}, wire...)
	pm := portMap{srv: h.w.srvPort, cp: caddr.Port, oth: -1}
	if c.cia != 0 {
		pm.ias = map[addr.IA]string{cia: "iaC"}
	}
	qpl := "ntp"
	if c.Cauth {
		switch c.Ak {
		case "absent":
			wire = stripE2E(wire)
		case "valid":
		case "spiOther":
			remac(wire, spiServer, zeroKey)
		case "wrongKey":
			remac(wire, spiClient, otherKey)
		default:
			r.Sub = tamper(wire, c.Ak, sub, rng)
			if c.Ak == "covPld" {
				qpl = "ntp'"
			}
		}
	}
	if c.Ext == "hbh" {
		wire = insertHBH(wire)
	}
	q, qp := h.w.project(mode, wire, pm)
	if !qp.ok {
		panic("the relay produced an undecodable request")
	}
	q.Ul, q.Pl = "srv", qpl
	r.Q = q
	r.HasAuth = q.Auth != "absent"
	r.Expected = q.Aspi == "client" && q.Aalgo == "cmac"
	r.MacOK = q.Auth == "ok"
	lo := layoutOf(wire)
	reqPath := typedPath{lo.pathType, append([]byte{}, wire[lo.pathOff:lo.hdrLen]...)}
	var revPath typedPath
	revPath.t, revPath.b = reversedPathBytes(reqPath.t, reqPath.b)
	reqPl := append([]byte{}, qp.l4Payload()...)
	reqTx := reqPl[40:48]

	// to the server, followed by the sentinel
	dst := udpAddr(h.w.ipS[mode], h.w.srvPort)
	swire, mark := h.sentinelFor(mode, R, rng)
	var resp []byte
	for try := 1; try <= maxTries && r.Sn == 0; try++ {
		r.Tries = try
		r.Outs, resp = []adgram{}, nil
		R.WriteToUDP(wire, dst)
		R.WriteToUDP(swire, dst)
		R.SetReadDeadline(time.Now().Add(sentinelWait))
		for r.Sn == 0 && len(r.Outs) < 16 {
			n, from, err := R.ReadFromUDP(buf)
			if err != nil {
				break
			}
			if from.IP.Equal(h.w.ipC) {
				continue
			}
			b := append([]byte{}, buf[:n]...)
			if isSentinelReply(b, mark) {
				r.Sn = 1
				break
			}
			o := h.observe(mode, b, from, "prev", pm, reqPl, reqTx, reqPath, revPath, qpl)
			r.Outs = append(r.Outs, o)
			if o.L4 == "udp" && o.Pl == "ntpResp" && resp == nil {
				resp = b
			}
		}
	}
	if resp == nil {
		// nothing to hand to the client: two undecodable datagrams make it give up at once
		R.WriteToUDP([]byte{0}, caddr)
		R.WriteToUDP([]byte{0}, caddr)
		return finish()
	}
	run.respWire = append([]byte{}, resp...)
	switch c.Rm {
	case "pass":
	case "strip":
		resp = stripE2E(resp)
	default:
		if layoutOf(resp).optData >= 0 {
			r.Rsub = tamper(resp, c.Rm, rsub, rng)
		}
	}
	if c.Rext == "hbh" {
		resp = insertHBH(resp)
	}
	r.Rext = c.Rext
	rp := parse(resp)
	st, spi, algo, _ := rp.authState(&h.w)
	r.RHasAuth = st != "absent"
	r.RExpected = spi == "server" && algo == "cmac"
	r.RMacOK = st == "ok"
	r.Delivered = true
	// twice: a client that rejects the first copy returns with the second
	// instead of waiting for its deadline (finish sends more if it does not)
	R.WriteToUDP(resp, caddr)
	R.WriteToUDP(resp, caddr)
	again = func() { R.WriteToUDP(resp, caddr) }
	return finish()
}

var _ = binary.BigEndian
