--------------------------- MODULE ScionAuthTrace ---------------------------
(***************************************************************************)
(* What the real SCION listeners (StartSCIONServer, StartSCIONDispatcher)  *)
(* and the real SCIONClient did with every datagram of harness/c13,        *)
(* judged by the property section of ScionAuth.tla.                        *)
(* Records are independent; positions 1..Len(Trace) are visited as a       *)
(* 16-ary tree so that all TLC workers share the work.                     *)
(*   monitor (ScionAuthTrace_mon.cfg): the four clauses of C13, evaluated  *)
(*     on what was observed (where each datagram went, what it carried)    *)
(*     and on what scionproto's own SPAO code says about each MAC          *)
(*   strict (ScionAuthTrace_strict.cfg): the outcome is the one            *)
(*     ScionAuth.tla predicts for the abstract datagram                    *)
(***************************************************************************)
EXTENDS Integers, Sequences, FiniteSets, TLC, Json

Fault == "none"
KeepPathType == TRUE
KeyRegime == "mock"      \* (the key-regime records carry the generator's predictions)
CheckSrcHost == TRUE
MaxDatagrams == 1
EpochLen == 1  MaxClock == 0  Grace == 0   \* (recorded epochs are the DRKey daemon's, see KeyRec)
CIAs == {}  CHosts == {}  PathExts == {}  RespExts == {}
Modes == {}  ULs == {}  L4s == {}  DPorts == {}  DHosts == {}  Fams == {}  PathSet == {}  Pls == {}
ReqAuths == {}  RespMuts == {}
VARIABLES mode, cauth, pc, req, authd, act, out, rm, resp, cres, cache, kinfo, nsent, hist, clock
INSTANCE ScionAuth

Trace == ndJsonDeserialize("trace.ndjson")
N == Len(Trace)
VARIABLE l
svars == <<mode, cauth, pc, req, authd, act, out, rm, resp, cres, cache, kinfo, nsent, hist, clock>>
TInit == /\ l = 0
         /\ mode = "server" /\ cauth = FALSE /\ pc = "trace" /\ req = Blank /\ authd = FALSE /\ act = "-"
         /\ out = << >> /\ rm = "-" /\ resp = Blank /\ cres = "-"
         /\ cache = << >> /\ kinfo = NoKInfo /\ nsent = 0 /\ hist = << >> /\ clock = 0
TNext == /\ \E j \in 1 .. 16 : l' = 16 * l + j /\ l' <= N
         /\ UNCHANGED svars
TSpec == TInit /\ [][TNext]_<<l, svars>>

R == Trace[l]
\* one datagram sent to a listener and what came out
\* ("key": a step of a key-regime sequence; its MAC ground truth is relative to the
\* host-to-host keys of (destination ISD-AS, source ISD-AS, destination host, source
\* host), one per key epoch; a step during which an epoch boundary of the DRKey
\* daemon passed -- R.amb: its receive time lies in one epoch or the other -- is
\* counted, not judged)
Exch == l > 0 /\ R.k \in {"req", "e2e", "key"} /\ ~R.amb
\* Time / key epochs.  A key-regime record tells the epoch R.ep (the DRKey daemon's
\* numbering) that contains the instant the datagram was received at, and for the
\* datagram and everything that came out the epochs vep under whose host-to-host key
\* the MAC verifies (scionproto's SPAO computation with each epoch's key).  "The MAC
\* verifies under the host-to-host key" = under the key of the epoch the datagram
\* was received in.
\*   "key"   a datagram at the live listener (VerifRunSCIONServer)
\*   "fkey"  the same calls the listener makes (Fetcher.FetchHostASKey for the receive
\*           instant, DeriveHostHostKey, MAC comparison), made by the harness with an
\*           exact instant: first / middle / last nanosecond of an epoch
KeyRec == l > 0 /\ R.k \in {"key", "fkey"}
VerifiesIn(d, e) == \E i \in DOMAIN d.vep : d.vep[i] = e
ReqMacOk == IF KeyRec THEN VerifiesIn(R.q, R.ep) ELSE R.macok
OutMacOk(o) == IF KeyRec THEN VerifiesIn(o, R.ep) ELSE o.auth = "ok"
Stateless == l > 0 /\ R.k \in {"req", "e2e"} /\ ~R.amb   \* ... at a listener whose key cache does not matter
E2E  == l > 0 /\ R.k = "e2e" /\ ~R.amb
Q == R.q
O(i) == R.outs[i]
NtpRep(o) == o.l4 = "udp" /\ o.pl = "ntpResp"
ServedObs == \E i \in DOMAIN R.outs : NtpRep(O(i))
ReqVerified == R.hasauth /\ R.expected /\ ReqMacOk

\* ------------------------------------------------------------- monitor (C13)
\* MacSound, request side: expected SPI and algorithm, MAC does not verify over
\* the datagram as it arrived => no NTP response came out
TMacSoundReq == Exch => MacSoundReq(R.hasauth /\ R.expected, ReqMacOk, ServedObs)
\* ... and at the level of the fetcher: the key it hands out for the receive instant
\* authenticates the request (R.accepted) => the MAC verifies under the key of the
\* epoch that contains that instant
TMacSoundFetcher == (l > 0 /\ R.k = "fkey") => MacSoundReq(R.hasauth /\ R.expected, ReqMacOk, R.accepted)
\* The client's verdict R.cli is read off the return of its measurement call
\* (no log record is needed): "accept" = it returned a measurement, "refuse" = the
\* response was handed to its socket and it returned without one before its
\* deadline, "other" = anything else.
\* MacSound, response side: the client (authentication enabled) reports no
\* measurement on the basis of such a response
TMacSoundResp == (E2E /\ R.delivered) =>
   MacSoundResp(R.cauth, R.rhasauth /\ R.rexpected, R.rmacok, R.cli = "accept")
\* AuthReplyVerifies: the reply to a verified request carries a response
\* authenticator that verifies (SPAO computation over the reply as it arrived) ...
TAuthReply == Exch => \A i \in DOMAIN R.outs :
   NtpRep(O(i)) => AuthReply(ReqVerified, O(i).aspi = "server" /\ O(i).aalgo = "cmac", OutMacOk(O(i)))
\* ... and the requesting client, handed that reply untouched, does not refuse it
\* (that it really checks the authenticator is TMacSoundResp's half: the same
\* client turns the reply down once a covered bit is changed)
TAuthReplyClient == (E2E /\ R.delivered /\ R.cauth /\ ReqVerified /\ R.rm = "pass") => R.cli # "refuse"
\* ReplyAddressing
TReplyAddressing == Exch => \A i \in DOMAIN R.outs :
   IsReply(O(i)) => (ReplyAddr(Q, O(i).to, O(i)) /\ O(i).raw_ok /\ EchoIntact(Q, O(i)))
\* ForwardRule: whatever else came out is the datagram passed on
TForwardRule == Exch => \A i \in DOMAIN R.outs :
   ~IsReply(O(i)) => FwdRule(Q, O(i).to, O(i))
\* a datagram of a listener at another host's end-host port that no case explains
TNoStrayToEh == (l > 0 /\ R.k = "stray") => R.q.to # "ehD"

\* -------------------------------------------------------------------- strict
\* the abstract datagram of the record
Base == [Blank EXCEPT !.ul = Q.ul, !.l4 = Q.l4, !.dh = Q.dh, !.sfam = Q.sfam, !.dfam = Q.dfam,
                      !.sp = Q.sp, !.dp = Q.dp, !.path = Q.path, !.ptype = Q.path.kind, !.pl = R.pl0, !.pl0 = R.pl0, !.ext = Q.ext]
D == MkAuth(Base, R.ak, "client", "server")
ObsAct == IF R.outs = << >> THEN "Drop"
          ELSE IF NtpRep(O(1)) THEN "ServeNtp"
          ELSE IF O(1).l4 = "echoRep" THEN "EchoReply"
          ELSE IF O(1).l4 = "trRep" THEN "TracerouteReply"
          ELSE "Forward"
Judged == Stateless /\ R.sn = 1
SOne == Judged => Len(R.outs) <= 1
SGroundTruth == Stateless =>
   /\ R.hasauth = D.auth.present
   /\ R.expected = ExpectedReq(D)
   /\ R.expected => (R.macok = MacOK(D, ReqKey(D)))
   /\ Q.pl = D.pl /\ Q.sia = "iaC" /\ Q.dia = "iaS" /\ Q.sh = "C"
SAct == Judged => LET w == PredictAct(R.mode, D)
                  IN IF w = "Forward" /\ R.undel THEN ObsAct = "Drop" ELSE ObsAct = w
SReply == Judged => \A i \in DOMAIN R.outs :
   /\ O(i).from = Q.ul
   /\ NtpRep(O(i)) => /\ O(i).echo
                      /\ (O(i).auth # "absent") = PredictAuthd(R.mode, D)
   /\ ~IsReply(O(i)) => (O(i).raw_ok /\ O(i).path = Q.path /\ O(i).sia = Q.sia /\ O(i).dia = Q.dia
                         /\ O(i).sh = Q.sh /\ O(i).sp = Q.sp /\ O(i).tsopt
                         \* the authenticator travels along (the forwarder recomputes the UDP
                         \* checksum, so a MAC that failed only because of it verifies again)
                         \* -- unless a hop-by-hop header came first: then the extension headers are replaced
                         /\ (O(i).auth = "absent") = (Q.auth = "absent" \/ Q.ext = "hbh")
                         /\ O(i).aspi = (IF Q.ext = "hbh" THEN "-" ELSE Q.aspi))
   /\ IsReply(O(i)) => O(i).ext = "e2e"
\* the client: what came back, and its verdict
RB == WithAuth([Blank EXCEPT !.path = Reverse(Q.path), !.ptype = Reverse(Q.path).kind, !.pl = "ntpResp"], "server", <<"k0">>)
RM == CASE R.rm = "pass"  -> RB
        [] R.rm = "strip" -> [RB EXCEPT !.auth = NoAuth]
        [] OTHER          -> Tamper(RB, R.rm)
SResp == (E2E /\ R.delivered /\ PredictAuthd(R.mode, D)) =>
   /\ R.rhasauth = RM.auth.present
   /\ R.rexpected = ExpectedResp(RM)
   /\ R.rexpected => (R.rmacok = MacOK(RM, <<"k0">>))
SClient == E2E => IF R.delivered
                  THEN R.cli = (IF R.cauth /\ R.rhasauth /\ R.rexpected /\ ~R.rmacok THEN "refuse" ELSE "accept")
                  ELSE R.cli = "other"
\* optional: where log records of the client with the names known today were seen,
\* they tell the verdict ScionAuth.tla predicts (authenticated / not / rejected)
SClientLog == (E2E /\ R.clilog # "") =>
                  IF R.delivered
                  THEN R.clilog = (IF R.cauth /\ R.rhasauth /\ R.rexpected
                                   THEN (IF R.rmacok THEN "verified" ELSE "reject") ELSE "unauth")
                  ELSE R.clilog = "other"
SNoStray == l > 0 => R.k # "stray"
\* key-regime sequences: the step's outcome and the key daemon's view are what the
\* behaviour of ScionAuth.tla (cache per client ISD-AS, revalidation) says
SKey == (l > 0 /\ R.k = "key" /\ R.sn = 1 /\ ~R.amb) =>
   /\ ReqMacOk = R.wmacok       \* the step was realised as generated (key epoch vs. epoch of arrival)
   /\ ObsAct = R.wact
   /\ R.fetches = (IF R.wfetch THEN 1 ELSE 0)
   /\ Len(R.outs) <= 1
   /\ \A i \in DOMAIN R.outs : NtpRep(O(i)) /\ O(i).auth # "absent" /\ O(i).echo /\ O(i).from = Q.ul

\* fetcher level: the key handed out is the one of the epoch containing the instant asked
\* for, the daemon is asked iff the specification's cache rule says so, and the request is
\* authenticated iff the specification says so
SFKey == (l > 0 /\ R.k = "fkey") =>
   /\ ReqMacOk = R.wmacok
   /\ R.inep /\ R.fep = R.ep
   /\ R.fetches = (IF R.wfetch THEN 1 ELSE 0)
   /\ R.accepted = (R.wact = "ServeNtp")

\* ------------------------------------------------------------------- report
\* (ScionAuthTrace_report.cfg) after a failed pass: every record that fails and
\* the clauses it fails, in one run; the verdict per record is still the
\* monitor's (mon) resp. the strict mode's (strict)
MonNames == {"TMacSoundReq", "TMacSoundFetcher", "TMacSoundResp", "TAuthReply", "TAuthReplyClient", "TReplyAddressing", "TForwardRule",
             "TNoStrayToEh"}
StrictNames == {"SOne", "SGroundTruth", "SAct", "SReply", "SResp", "SClient", "SClientLog", "SNoStray", "SKey", "SFKey"}
Holds(n) == CASE n = "TMacSoundReq" -> TMacSoundReq [] n = "TMacSoundResp" -> TMacSoundResp
              [] n = "TMacSoundFetcher" -> TMacSoundFetcher [] n = "SFKey" -> SFKey
              [] n = "TAuthReply" -> TAuthReply [] n = "TAuthReplyClient" -> TAuthReplyClient
              [] n = "TReplyAddressing" -> TReplyAddressing [] n = "TForwardRule" -> TForwardRule
              [] n = "TNoStrayToEh" -> TNoStrayToEh
              [] n = "SOne" -> SOne [] n = "SGroundTruth" -> SGroundTruth [] n = "SAct" -> SAct
              [] n = "SReply" -> SReply [] n = "SResp" -> SResp [] n = "SClient" -> SClient
              [] n = "SClientLog" -> SClientLog
              [] n = "SNoStray" -> SNoStray [] n = "SKey" -> SKey
Report == LET m == {n \in MonNames : ~Holds(n)}
              d == {n \in StrictNames : ~Holds(n)}
          IN (m # {} \/ d # {}) => PrintT(<<"BAD", ToJson([l |-> l, mon |-> m, strict |-> d])>>)
=============================================================================
