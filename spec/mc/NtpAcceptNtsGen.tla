--------------------------- MODULE NtpAcceptNtsGen ---------------------------
(***************************************************************************)
(* Case generator for the NTS driver of C05 (harness/c05nts): TWO crafted  *)
(* datagrams before the genuine response, so that the second one meets a   *)
(* client whose single retry is used up (NtpAccept: a second datagram of   *)
(* reject class R is an error, and never an offset).                       *)
(* Breadth-first over a small product instead of NtpAccept's Crafted(il)^2 *)
(* (about 10^5 pairs): the first datagram is one of the skip-class         *)
(* representatives, the second deviates in the NTS clause (alone or with   *)
(* one NTP-level field), or is acceptable.  Every step is a step of        *)
(* NtpAccept!Next with MaxArrivals = 2 (the ASSUME below: both sets are    *)
(* within Crafted(il)).                                                    *)
(***************************************************************************)
EXTENDS NtpAcceptMC

One(i, f, v) == [Genuine(i) EXCEPT ![f] = v]
NtsDev(i) == {One(i, "nts", k) : k \in NtsKinds \ {"ok"}}
\* consumed with a "skip": the NTS deviations, a foreign source, a stale origin
First(i)  == NtsDev(i) \cup {One(i, "src", "other"), One(i, "origin", "stale")}
Second(i) == NtsDev(i)
             \cup {[d EXCEPT !.txrx = "equal"] : d \in NtsDev(i)}
             \cup {[d EXCEPT !.stratum = 15] : d \in NtsDev(i)}
             \cup {One(i, "txrx", "equal"), One(i, "li", 3)}
\* both are datagrams the adversary of NtpAccept may queue (AddCrafted)
ASSUME \A i \in BOOLEAN : \A d \in First(i) \cup Second(i) : d \in Datagram /\ Dist(d, Genuine(i)) \in 1 .. 2
ASSUME MaxArrivals = 2

Add2 ==
  /\ state = "building" /\ Len(queue) < MaxArrivals
  /\ \E d \in (IF queue = << >> THEN First(il) ELSE Second(il)) : queue' = Append(queue, d)
  /\ UNCHANGED <<il, retries, state, last, hist>>
Start2(g) == Len(queue) = 2 /\ Start(g)

Next2 == Add2 \/ (\E g \in BOOLEAN : Start2(g)) \/ Recv \/ Timeout
Spec2 == Init /\ [][Next2]_vars
=============================================================================
