SPECIFICATION Spec
CONSTANTS
  W = 14
  NsPerSec = 1000
  SubUnits = 16
  PpmFrac = 16
  PpmUnits = 1000
  MaxScaledPPM = 80
  DigitBase = 16
  SecDigits = 3
  Vals <- ValsExh
  DriftVals <- DriftValsExh
  NsVals <- NsValsExh
  FqDens <- FqDensAll
  UtcVals <- UtcValsAll
INVARIANTS PNormalised PNormalisedLimbsAgree PShiftDrops PTsRoundTrip PTsRevRoundTrip PPpmRoundTrip PFreqRoundTrip PDriftProportional PFormulaExact
