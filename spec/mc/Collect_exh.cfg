SPECIFICATION FairSpec
CONSTANTS
  MaxClocks = 3
  Overlap = TRUE
  Fault = "none"
INVARIANTS Emit TypeOK BusyIsEnabled ByDeadline ExactlyOncePrefix InTimeCounted NoStuckLeak SecondCallRefused CounterRestored
PROPERTIES NoLeak
