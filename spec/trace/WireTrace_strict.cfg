SPECIFICATION TSpec
INVARIANTS SLayBytes SLayFull SLayb SLayp SLvm SNtsEnc SNtsDec SSck SHistSched SHistValues
