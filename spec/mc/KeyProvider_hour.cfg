SPECIFICATION SpecDeep
CONSTANTS
  Day = 24
  Gaps <- GapsHour
  Horizon = 240
  GenLen = 0
VIEW ViewDeep
INVARIANTS TypeOK HistBelow CurrentPresent CarrierFits
PROPERTIES IdsIncreasing ACurrentValid ACurrentFresh AGetOnlyValid AIdsUnique ATrackedLifetime
