-------------------------- MODULE NtpExchangeTrace --------------------------
(***************************************************************************)
(* Validation of what the real client (core/client IPClient) reported      *)
(* against a scripted network and the real server handler (harness/c03),   *)
(* schedules generated from NtpExchange.tla by NtpExchangeGen.             *)
(* Each "accept" record identifies the exchange (attempt / server          *)
(* handling) every one of the four combined timestamps belongs to.  The    *)
(* four timestamps are those the client handed to its (pass-through)       *)
(* filter (src = "filter"), or - for a measurement returned by the call of *)
(* a client without filter - wire fields of the accepted response and of   *)
(* the request, the returned timestamp and the returned offset             *)
(* (src = "wire"); client-side timestamps are placed by causal windows     *)
(* between kernel timestamps of the harness's own network events.  What    *)
(* the client did with a datagram (got) is decided from the return of the  *)
(* call, the wire and the state of the client's socket and goroutines -    *)
(* never from its log (lg, lgx: optional cross-check, strict only).        *)
(* Over SCION the harness also plays the client's end host: per schedule   *)
(* (NtpExchange!ClientRecv(m, fw)) a delivered response carries no         *)
(* end-to-end option 253, the forwarder's genuine stamp (taken between the *)
(* request's transmission and the socket's receive), a value from before   *)
(* the request's transmission, a value after the socket's receive, or      *)
(* bytes that are no timestamp (fw).  The monitor clauses do not mention   *)
(* fw: whatever the client took as t3 has to lie in the delivery window of *)
(* the exchange (which begins when the datagram reaches the end host, i.e. *)
(* at the forwarder's genuine stamp) - a clamped, stale or future value    *)
(* does not.                                                               *)
(* Records are independent.                                                *)
(***************************************************************************)
EXTENDS Integers, Sequences, TLC, Json

Trace == ndJsonDeserialize("trace.ndjson")
N == Len(Trace)
VARIABLE l
TInit == l = 0
TNext == \E j \in 1 .. 16 : l' = 16 * l + j /\ l' <= N
TSpec == TInit /\ [][TNext]_l
R == Trace[l]
Acc == l > 0 /\ R.ev = "accept"
Abs(x) == IF x < 0 THEN -x ELSE x

\* ---------------------------------------------------------------- monitor (C03)
\* the four timestamps belong to one exchange: t0/t3 to one client attempt,
\* t1/t2 to one server handling of that attempt's request; basic results use the
\* current attempt, interleaved results an earlier (the previously accepted) one
TSameExchange ==
  Acc => /\ R.t0ex # 0 /\ R.t1h # 0
         /\ R.t0ex = R.t1ex /\ R.t3ex = R.t0ex
         /\ R.t1h = R.t2h /\ R.t2r \in {"sTx", "sTx0"}
         /\ R.win0 /\ R.win3
         /\ (R.il => R.t0ex < R.ex) /\ (~R.il => R.t0ex = R.ex)
\* the reported offset IS the NTP offset of those four timestamps
TComputedFromThem == Acc => R.reco
\* and lies within half the round-trip delay (t3 - t0) - (t2 - t1) of those four
\* timestamps of the true offset (ns)
THalfRTT == Acc => 2 * Abs(R.err) <= R.rtd + 8

\* the client never panics on what a conformant server and this network send
\* (its only panic site fires when t3 < t0, impossible for timestamps of one exchange)
TNoPanic == (l > 0 /\ R.ev \in {"accept", "recv"}) => R.got # "panic"

\* ----------------------------------------------------------------- strict
\* the client did with each delivered datagram what NtpExchange.tla predicts
SOutcome == (l > 0 /\ R.ev \in {"accept", "recv"} /\ R.want # "" /\ R.got # "ignored") =>
              (R.want = R.got \/ (R.want = "panic" /\ R.got = "error"))
\* the client's interleaved state (hook VerifPrev) classifies the accepted response
\* as the wire does
SPrevFlag == Acc => R.pil = R.il
\* the client takes the forwarder's stamp as its receive time exactly when
\* NtpExchange!RxTime does (a stamp inside the exchange); using the socket's own
\* receive time instead is as good for the property
SStampUse == (Acc /\ ~R.il /\ R.fw \in {"inside", "before", "after"}) => (R.t3s <=> R.fw = "inside")
\* optional: where log records with the names known today were seen, they tell
\* the same reaction, offset, round-trip delay and mode
SLog == (l > 0 /\ R.ev \in {"accept", "recv"} /\ R.got # "ignored") => ((R.lg # "" => R.lg = R.got) /\ R.lgx)
=============================================================================
