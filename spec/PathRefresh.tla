----------------------------- MODULE PathRefresh -----------------------------
(***************************************************************************)
(* The path refresher of net/scion/pather.go                               *)
(*   Pather{mu, localIA, paths}, StartPather, update, Paths, LocalIA;      *)
(*   pathRefreshPeriod = 15 s.                                             *)
(* Extension X02 of the specification (no listed property).                *)
(*                                                                         *)
(* What the code does:                                                     *)
(*   StartPather runs update() once on the caller's goroutine, then starts *)
(*   a goroutine `for range time.NewTicker(period).C { update() }` that    *)
(*   never ends.  update() asks the daemon for the local IA (on error:     *)
(*   return, nothing changes), then for every element of dstIAs, in order, *)
(*   for the paths to it (on error: logged, the lookup counts as "no       *)
(*   paths"), collecting paths[dst] = append(paths[dst], ps...) in a fresh *)
(*   map which replaces p.paths (and p.localIA) under p.mu at the end.     *)
(*   Paths(dst) returns a fresh copy of p.paths[dst] under p.mu.           *)
(*                                                                         *)
(* One action per critical section / blocking point: BeginUpdate (tick     *)
(* received or first update, daemon LocalIA called; the scripted daemon    *)
(* answers after s.d units, everything after that is instantaneous),       *)
(* Wake (the daemon call returns: lookups, p.mu section), Get / GetIA      *)
(* (callers, at instants where the refresher is blocked), Advance.         *)
(* time.Ticker: ticks at t0 + k*P, channel of capacity 1, ticks that find  *)
(* the channel full are dropped.  Ticks are accounted lazily (nextTick,    *)
(* tickBuf); a tick that coincides with the return of the daemon call may  *)
(* be delivered before or after it (Wake's parameter).                     *)
(*                                                                         *)
(* Path identifiers: ((u*10 + pos)*10 + dst)*10 + i for the i-th path the  *)
(* daemon delivered in update u at position pos of dstIAs.                 *)
(* KeepOnFail / Dedup = FALSE: the code as it is; TRUE: candidate repairs  *)
(* (fixes/X02-pather-*.diff).                                              *)
(***************************************************************************)
EXTENDS Integers, Sequences, FiniteSets, TLC

CONSTANTS P,          \* refresh period in model units
          DstLists,   \* values of the dstIAs argument considered (sequences of IA tokens)
          Dsts,       \* IAs callers may ask Paths() for
          IAs,        \* local IAs the daemon may report
          MaxN,       \* the daemon delivers 0 .. MaxN paths per lookup
          Delays,     \* durations of the daemon's LocalIA call
          Horizon, MaxUpd,
          KeepOnFail, Dedup

VARIABLES
  now,
  dstList,    \* dstIAs
  phase,      \* "init": inside StartPather (first update) | "run": ticker goroutine
  pc,         \* "start" | "idle" (blocked on ticker.C / StartPather returned) | "busy" (in dc.LocalIA)
  wake,       \* instant at which the pending daemon call returns
  cur,        \* script of the update in progress
  nextTick,   \* earliest tick not yet accounted
  tickBuf,    \* ticker.C holds a tick
  localIA,    \* p.localIA
  paths,      \* p.paths: dst |-> sequence of path ids
  nupd,       \* updates started
  t0,         \* instant the ticker was created (StartPather returned)
  ret,        \* last observation: a caller's Paths()/LocalIA() result, or an update start
  \* histories (what the daemon delivered), property level:
  allow,      \* dst |-> answers that are acceptable for Paths(dst)
  keep,       \* dst |-> answers acceptable if a failed lookup kept the previous paths
  effIA,      \* local IA of the latest successful dc.LocalIA
  lastStart, lastEnd

impl == <<now, dstList, phase, pc, wake, cur, nextTick, tickBuf, localIA, paths, nupd, t0>>
hist == <<allow, keep, effIA, lastStart, lastEnd>>
vars == <<now, dstList, phase, pc, wake, cur, nextTick, tickBuf, localIA, paths, nupd, t0, ret,
          allow, keep, effIA, lastStart, lastEnd>>

Put(f, i, x) == [j \in DOMAIN f \cup {i} |-> IF j = i THEN x ELSE f[j]]
Range(s) == {s[i] : i \in DOMAIN s}

\* ------------------------------------------------------------ the daemon
PerOpts == {[fail |-> TRUE, n |-> 0]} \cup {[fail |-> FALSE, n |-> k] : k \in 0 .. MaxN}
NoPer(dl) == [i \in 1 .. Len(dl) |-> [fail |-> TRUE, n |-> 0]]
Scripts(dl) ==
  {[lfail |-> TRUE, ia |-> 0, d |-> d, per |-> NoPer(dl)] : d \in Delays} \cup
  {[lfail |-> FALSE, ia |-> a, d |-> d, per |-> p] :
      a \in IAs, d \in Delays, p \in [1 .. Len(dl) -> PerOpts]}
NoScript == [lfail |-> TRUE, ia |-> 0, d |-> 0, per |-> << >>]
IdOf(u, pos, dst, i) == ((u * 10 + pos) * 10 + dst) * 10 + i
Ids(u, pos, dst, n) == [i \in 1 .. n |-> IdOf(u, pos, dst, i)]

\* ------------------------------------------------------------- update()
PathsOf(dst) == IF dst \in DOMAIN paths THEN paths[dst] ELSE << >>
\* position i of dstIAs is looked up (always, unless the repair skips repeated IAs)
Looked(i) == ~Dedup \/ \A j \in 1 .. i - 1 : dstList[j] # dstList[i]
RECURSIVE Fold(_, _, _, _)
Fold(m, i, s, u) ==
  IF i > Len(dstList) THEN m
  ELSE LET dst == dstList[i]
           ps  == IF s.per[i].fail
                  THEN (IF KeepOnFail THEN PathsOf(dst) ELSE << >>)   \* error: ps is nil
                  ELSE Ids(u, i, dst, s.per[i].n)
           old == IF dst \in DOMAIN m THEN m[dst] ELSE << >>
       IN IF Looked(i) THEN Fold(Put(m, dst, old \o ps), i + 1, s, u)   \* paths[dstIA] = append(paths[dstIA], ps...)
          ELSE Fold(m, i + 1, s, u)

\* histories
Pos(d) == {i \in 1 .. Len(dstList) : dstList[i] = d /\ Looked(i)}
Succ(d, s, u) == {Ids(u, i, d, s.per[i].n) : i \in {j \in Pos(d) : ~s.per[j].fail}}
AnyFail(d, s) == \E i \in Pos(d) : s.per[i].fail
AllowAfter(d, s, u) ==
  IF Pos(d) = {} THEN allow[d]
  ELSE Succ(d, s, u) \cup (IF AnyFail(d, s) THEN {<< >>} \cup allow[d] ELSE {})
KeepAfter(d, s, u) == IF Pos(d) = {} \/ Succ(d, s, u) = {} THEN keep[d] ELSE Succ(d, s, u)

\* the part of update() after dc.LocalIA returned
Finish(s, u) ==
  /\ IF s.lfail
     THEN UNCHANGED <<localIA, paths, allow, keep, effIA>>
     ELSE /\ localIA' = s.ia
          /\ paths' = Fold(<< >>, 1, s, u)
          /\ effIA' = s.ia
          /\ allow' = [d \in Dsts |-> AllowAfter(d, s, u)]
          /\ keep' = [d \in Dsts |-> KeepAfter(d, s, u)]
  /\ lastEnd' = now

NoRet == [op |-> "none", dst |-> 0, t |-> 0, ids |-> << >>, ia |-> 0, u |-> 0]

(***************************************************************************)
(* Actions                                                                 *)
(***************************************************************************)
Init ==
  /\ now = 0 /\ dstList \in DstLists
  /\ phase = "init" /\ pc = "start" /\ wake = 0 /\ cur = NoScript
  /\ nextTick = 0 /\ tickBuf = FALSE
  /\ localIA = 0 /\ paths = << >> /\ nupd = 0 /\ t0 = 0
  /\ ret = NoRet
  /\ allow = [d \in Dsts |-> {<< >>}] /\ keep = [d \in Dsts |-> {<< >>}]
  /\ effIA = 0 /\ lastStart = 0 /\ lastEnd = 0

\* the refresher is blocked and nothing is due at this instant
Quiescent ==
  /\ phase = "run"
  /\ ~(pc = "idle" /\ (tickBuf \/ now = nextTick))
  /\ ~(pc = "busy" /\ now = wake)

Advance(d) ==
  /\ d > 0 /\ now + d <= Horizon
  /\ IF phase = "init" THEN pc = "busy" /\ now + d <= wake
     ELSE Quiescent /\ now + d <= (IF pc = "busy" THEN wake ELSE nextTick)
  /\ now' = now + d
  /\ ret' = NoRet
  /\ UNCHANGED <<dstList, phase, pc, wake, cur, nextTick, tickBuf, localIA, paths, nupd, t0,
                 allow, keep, effIA, lastStart, lastEnd>>

\* update() begins: first update, or a tick is received; dc.LocalIA is called
BeginUpdate(s) ==
  /\ s \in Scripts(dstList)
  /\ nupd < MaxUpd
  /\ \/ phase = "init" /\ pc = "start"
     \/ phase = "run" /\ pc = "idle" /\ (tickBuf \/ now = nextTick)
  /\ nupd' = nupd + 1
  /\ lastStart' = now
  /\ ret' = [NoRet EXCEPT !.op = "upd", !.u = nupd + 1, !.t = now]
  /\ cur' = s
  /\ IF s.d > 0
     THEN /\ pc' = "busy" /\ wake' = now + s.d
          /\ UNCHANGED <<phase, t0, localIA, paths, allow, keep, effIA, lastEnd>>
          /\ IF phase = "run" /\ ~tickBuf
             THEN nextTick' = nextTick + P /\ UNCHANGED tickBuf
             ELSE tickBuf' = FALSE /\ UNCHANGED nextTick
     ELSE /\ Finish(s, nupd + 1)
          /\ pc' = "idle" /\ UNCHANGED wake
          /\ IF phase = "init"
             THEN phase' = "run" /\ t0' = now /\ nextTick' = now + P /\ tickBuf' = FALSE
             ELSE /\ UNCHANGED <<phase, t0>>
                  /\ IF ~tickBuf
                     THEN nextTick' = nextTick + P /\ UNCHANGED tickBuf
                     ELSE tickBuf' = FALSE /\ UNCHANGED nextTick
  /\ UNCHANGED <<now, dstList>>

\* dc.LocalIA returns; tf: a tick due at this very instant is delivered first
OnGrid(x) == x >= nextTick /\ (x - nextTick) % P = 0
GridAfter(x) == nextTick + P * ((x - nextTick) \div P + 1)      \* for x >= nextTick
Wake(tf) ==
  /\ pc = "busy" /\ now = wake
  /\ tf => (phase = "run" /\ OnGrid(now))
  /\ Finish(cur, nupd)
  /\ pc' = "idle"
  /\ IF phase = "init"
     THEN phase' = "run" /\ t0' = now /\ nextTick' = now + P /\ tickBuf' = FALSE
     ELSE /\ UNCHANGED <<phase, t0>>
          /\ IF nextTick > now THEN UNCHANGED <<nextTick, tickBuf>>
             ELSE IF OnGrid(now) /\ ~tf
             THEN nextTick' = now /\ tickBuf' = (tickBuf \/ nextTick < now)
             ELSE nextTick' = GridAfter(now) /\ tickBuf' = TRUE
  /\ ret' = NoRet
  /\ UNCHANGED <<now, dstList, wake, cur, nupd, lastStart>>

\* Pather.Paths(dst): a copy
Get(dst) ==
  /\ Quiescent
  /\ ret' = [NoRet EXCEPT !.op = "get", !.dst = dst, !.t = now, !.ids = PathsOf(dst)]
  /\ UNCHANGED <<now, dstList, phase, pc, wake, cur, nextTick, tickBuf, localIA, paths, nupd, t0,
                 allow, keep, effIA, lastStart, lastEnd>>

GetIA ==
  /\ Quiescent
  /\ ret' = [NoRet EXCEPT !.op = "ia", !.t = now, !.ia = localIA]
  /\ UNCHANGED <<now, dstList, phase, pc, wake, cur, nextTick, tickBuf, localIA, paths, nupd, t0,
                 allow, keep, effIA, lastStart, lastEnd>>

Next ==
  \/ \E d \in 1 .. Horizon : Advance(d)
  \/ \E s \in Scripts(dstList) : BeginUpdate(s)
  \/ \E tf \in BOOLEAN : Wake(tf)
  \/ \E dst \in Dsts : Get(dst)
  \/ GetIA

Spec == Init /\ [][Next]_vars

(***************************************************************************)
(* Implementation invariants                                               *)
(***************************************************************************)
TypeOK ==
  /\ now \in 0 .. Horizon /\ phase \in {"init", "run"} /\ pc \in {"start", "idle", "busy"}
  /\ tickBuf \in BOOLEAN /\ nupd \in 0 .. MaxUpd
  /\ phase = "run" => (nextTick > t0 /\ (nextTick - t0) % P = 0)
  /\ DOMAIN paths \subseteq Range(dstList)
\* while the refresher waits for a tick, the next one is not overdue
TickNotOverdue == (phase = "run" /\ pc = "idle") => now <= nextTick
\* every periodic update starts on the ticker's grid or right after an overrun
OnGridOrAfterOverrun ==
  (ret.op = "upd" /\ ret.u >= 2) => ((ret.t - t0) % P = 0 \/ ret.t = lastEnd)

(***************************************************************************)
(* Property section (X02 / Pather).  Observables: what the daemon was      *)
(* asked and what it delivered (allow, keep, effIA, lastStart, lastEnd,    *)
(* pc = a daemon call of an update is pending), the instant t0 at which    *)
(* StartPather returned, and what Paths()/LocalIA() returned to callers    *)
(* at instants where the refresher is blocked.                             *)
(***************************************************************************)
Delivered(A) == UNION {Range(s) : s \in A}
\* Paths(dst) returns only paths the daemon delivered for dst in the latest
\* refresh (or, if a lookup of that refresh failed: nothing, or what was
\* acceptable before), and all the paths of one of these answers
PathsFromLastRefresh ==
  ret.op = "get" =>
    LET A == allow[ret.dst] IN
      /\ Range(ret.ids) \subseteq Delivered(A)
      /\ \E s \in A : Range(s) \subseteq Range(ret.ids)
\* LocalIA() is the local IA of the latest successful refresh
LocalIACurrent == ret.op = "ia" => ret.ia = effIA
\* refreshes happen at the configured period: a caller never finds the
\* refresher idle P or more after the end of the latest refresh ...
NotTooRare == (ret.op \in {"get", "ia"} /\ pc = "idle") => ret.t - lastEnd < P
\* ... and periodic refreshes never outnumber the periods elapsed
CountBound == (ret.op = "upd" /\ ret.u >= 2) => (ret.u - 1) * P <= ret.t - t0
\* (no aliasing of internal state: judged on the real slices by the driver,
\* see PathRefreshTrace!RAlias; in this module Paths() returns a value)

\* Observation level (reported, not judged - see the report of X02):
\* the answer is exactly one answer of the daemon (no path twice) ...
ObsExact == ret.op = "get" => ret.ids \in allow[ret.dst]
\* ... and a failed lookup keeps the paths of the previous refresh
ObsKeep == ret.op = "get" => ret.ids \in keep[ret.dst]
=============================================================================
