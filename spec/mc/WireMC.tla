------------------------------- MODULE WireMC -------------------------------
EXTENDS Wire, Json, SequencesExt
\* Case emitter (spec -> code): every case with the values the driver has to
\* replay on the real codecs, in model units (byte strings, lengths).
CaseJson ==
  IF c.k \in {"init", "grp"} THEN "" ELSE
  CASE c.k = "lay" ->
         ToJson([k |-> "lay", m |-> c.m, ssds |-> c.ssds, base |-> c.base, f |-> c.f, w |-> c.w,
                 off |-> RowOf(c.m, c.f).off, ty |-> RowOf(c.m, c.f).ty,
                 mode |-> c.mode, pre |-> c.pre,
                 vs |-> IF c.mode = "classes" THEN SetToSeq(ValueClasses(c.w)) ELSE << >>])
    [] c.k = "layb" ->
         ToJson([k |-> "layb", m |-> c.m, ssds |-> c.ssds, mask |-> DataMask(c.m, c.ssds), flagpos |-> FlagPos(c.m)])
    [] OTHER -> ToJson(c)
Emit == c.k \in {"init", "grp"} \/ PrintT(<<"CASE", CaseJson>>)

ASSUME LayoutsWellFormed
ASSUME LaypHasTeeth
ASSUME \A b \in Byte : LvmAgree(b)
\* vacuity guard of the body-content dimension: every non-zero class of placeholder body is generated,
\* and the packet the specification builds for it carries a non-zero body byte
PhClassesGenerated ==
  \A cl \in NtsPhClasses \ {"zero"} :
     \E g \in NtsGroups : \E x \in NtsCasesOf(g) : \E i \in DOMAIN x.phb :
        x.phb[i] = cl /\ \E j \in DOMAIN NtsPacket(x).ph[i] : NtsPacket(x).ph[i][j] # 0
ASSUME PhClassesGenerated

\* quick / thorough constants (cfg files cannot hold expressions)
Pre2Exh == {0, 128, 255}
SweepBasesExh == {"zero"}
SweepBasesDeep == {"zero"}
Pre2Deep == 0 .. 255
UidExh == {32, 33}
UidDeep == {32, 36, 33, 35}
CkLensExh == {8, 24, 6}
CkLensDeep == {8, 6}
PhLensExh == {8, 6}
PhLensDeep == {8, 24, 6}
PtExh == {<< >>, <<24>>, <<100, 100>>, <<8, 8, 8>>}
PtDeep == {<< >>, <<24>>, <<100, 100>>, <<124, 124, 124>>, <<8, 8, 8>>}
SckLensExh == {0, 1, 16, 32}
SckLensDeep == {0, 1, 2, 16, 31, 32, 33, 64}
SckNsExh == {0, 15, 255, 256, 65535}
SckNsDeep == {0, 1, 15, 255, 256, 257, 32767, 32768, 65535}
=============================================================================
