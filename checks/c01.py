"""C01 - per-round clock correction is bounded whatever the sources report."""
import os
import vlib

MON = "SyncRoundTrace_mon.cfg"
STRICT = "SyncRoundTrace_strict.cfg"


def _class(r):
    if r is None:
        return "?"
    if r["k"] == "boot":
        return "boot-word-range" if r.get("word") else "boot"
    if r.get("hung"):
        return "hung-round"
    if not (r["exact"] and r["haslog"]):
        return "opaque"
    c = r["cfg"]
    ref = c["nref"] != 0
    peer = c["npeer"] != 0 and abs(r["po"]) > c["cutoff"]
    return {(True, True): "both", (True, False): "ref-only", (False, True): "peer-only",
            (False, False): "none"}[(ref, peer)]


def _stats(cases, recs):
    """Coverage of the replayed behaviours (vacuity guard). The classes are
    those of the behaviours TLC generated (the specification's own values), so
    the guard does not depend on what the implementation did with them."""
    rd = [r for r in recs if r["k"] == "round"]
    ex = [r for r in rd if r["exact"] and r["haslog"]]
    s = dict(
        boot_records=sum(r["k"] == "boot" for r in recs),
        boot_refused=sum(r["k"] == "boot" and r["refused"] for r in recs),
        round_records=len(rd), exact_round_records=len(ex),
        inexact_round_records=len(rd) - len(ex),
        int64_extreme_runs=sum(r["emb"] >= 4 for r in rd),
        boot_cases_stated_inadmissible=sum(c["kind"] == "boot" and c["stated"] for c in cases),
        boot_cases_admissible=sum(c["kind"] == "boot" and not c["refused"] for c in cases))
    # start-up over the whole word range of the durations (generated configurations;
    # W = 8: 64 = H/2 is where doubling a Duration wraps, 127 = H-1, -128 = -H)
    bw = [c["cfg"] for c in cases if c["kind"] == "bootw"]
    st = {id(c["cfg"]): c["stated"] for c in cases if c["kind"] == "bootw"}
    s["boot_word"] = dict(
        cases=len(bw),
        stated_inadmissible=sum(st[id(c)] for c in bw),
        admissible=sum(not st[id(c)] for c in bw),
        timeout_in_upper_half=sum(c["timeout"] >= 64 for c in bw),
        timeout_in_upper_half_and_interval_positive=sum(c["timeout"] >= 64 and c["interval"] > 0 for c in bw),
        timeout_is_largest_word=sum(c["timeout"] == 127 for c in bw),
        interval_is_largest_word=sum(c["interval"] == 127 for c in bw),
        interval_in_upper_half_and_admissible=sum(c["interval"] >= 64 and not st[id(c)] for c in bw),
        timeout_exactly_half_interval=sum(c["interval"] > 0 and c["timeout"] == c["interval"] // 2 for c in bw),
        timeout_half_interval_plus_one=sum(c["interval"] > 0 and c["timeout"] == c["interval"] // 2 + 1 for c in bw),
        timeout_equals_interval=sum(c["interval"] > 0 and c["timeout"] == c["interval"] for c in bw),
        timeout_zero=sum(c["timeout"] == 0 for c in bw),
        timeout_negative=sum(c["timeout"] < 0 for c in bw),
        interval_nonpositive=sum(c["interval"] <= 0 for c in bw),
        smallest_word_somewhere=sum(-128 in (c["timeout"], c["interval"], c["cutoff"]) for c in bw),
        cutoff_extreme=sum(c["cutoff"] in (-128, 127) for c in bw),
        # driver side (not a guard)
        records=sum(r["k"] == "boot" and r.get("word", False) for r in recs),
        records_unit_2_56=sum(r["k"] == "boot" and r.get("word", False) and r["unit"].startswith("2^56") for r in recs),
        records_with_MaxInt64=sum(r["k"] == "boot" and r.get("word", False) and "MaxInt64" in r["unit"] for r in recs),
        records_refused=sum(r["k"] == "boot" and r.get("word", False) and r["refused"] for r in recs))
    kinds = {"ok": 0, "err": 0, "late": 0, "never": 0}
    cl = dict(both_contribute=0, ref_only=0, peer_only=0, peer_within_cutoff=0, peer_at_cutoff=0,
              ref_clamped=0, peer_clamped=0, clamped_negative=0, rounds_with_stale_ref_slots=0, rounds=0)
    # the local clock during the Sleep call before a round (generated behaviours:
    # slp/stp in half intervals; on time = 2/0)
    ck = dict(rounds_after_a_sleep=0, after_on_time_sleep=0, after_late_sleep=0, after_stepped_reading=0,
              after_reading_jumped_2_intervals_or_more=0, after_reading_went_backwards=0,
              after_reading_stood_still_or_moved_less=0, clamped_after_forward_jump=0,
              clamped_after_backward_jump=0, clamped_after_late_sleep=0)
    for c in cases:
        cf = c["cfg"]
        for i, m in enumerate(c["rounds"]):
            cl["rounds"] += 1
            for o in m["ref"] + m["peer"]:
                kinds[o["k"]] += 1
            ref = cf["nref"] != 0
            peer = cf["npeer"] != 0 and abs(m["po"]) > cf["cutoff"]
            cl["both_contribute"] += ref and peer
            cl["ref_only"] += ref and not peer
            cl["peer_only"] += peer and not ref
            cl["peer_within_cutoff"] += cf["npeer"] != 0 and not peer
            cl["peer_at_cutoff"] += cf["npeer"] != 0 and abs(m["po"]) == cf["cutoff"] and m["po"] != 0
            cl["ref_clamped"] += m["rc"] != m["ro"]
            cl["peer_clamped"] += m["pc"] != m["po"]
            cl["clamped_negative"] += (m["rc"] != m["ro"] and m["ro"] < 0) or (m["pc"] != m["po"] and m["po"] < 0)
            if i > 0:
                slp, stp = m["slp"], m["stp"]
                d = slp + stp
                clamped = m["rc"] != m["ro"] or m["pc"] != m["po"]
                ck["rounds_after_a_sleep"] += 1
                ck["after_on_time_sleep"] += slp == 2 and stp == 0
                ck["after_late_sleep"] += slp > 2
                ck["after_stepped_reading"] += stp != 0
                ck["after_reading_jumped_2_intervals_or_more"] += d >= 4
                ck["after_reading_went_backwards"] += d < 0
                ck["after_reading_stood_still_or_moved_less"] += 0 <= d < 2
                ck["clamped_after_forward_jump"] += clamped and d >= 4
                ck["clamped_after_backward_jump"] += clamped and d < 0
                ck["clamped_after_late_sleep"] += clamped and slp >= 4
            nok = sum(o["k"] == "ok" for o in m["ref"])
            if i > 0 and nok < len(m["ref"]) and any(v != 0 for v in c["rounds"][i - 1]["rs"][nok:]):
                cl["rounds_with_stale_ref_slots"] += 1
    s.update({k: int(v) for k, v in cl.items()})
    s["outcomes"] = kinds
    s["local_clock"] = {k: int(v) for k, v in ck.items()}
    # driver side (not a guard): round records whose fake clock reported the jump
    s["local_clock"]["round_records_after_a_jump_of_the_reading"] = sum(
        r["rnd"] > 1 and (r["el"] >= 4 or r["el"] < 0) for r in rd)
    return s


def _corrupt(ctx, recs):
    """Negative control of the binding (VERIF_C01_CORRUPT=corr|ndo|refused|expected|clock):
    corrupt one recorded field and expect the monitor (strict for `expected`, `clock`) to object."""
    mode = os.environ.get("VERIF_C01_CORRUPT")
    if not mode:
        return
    ctx.notes.append("SELF-TEST: one recorded field corrupted on purpose (%s)" % mode)
    for r in recs:
        if mode == "refused" and r["k"] == "boot" and r["refused"] and r["cfg"]["ri4"] <= 4:
            r["refused"] = False
            return
        if r["k"] != "round" or not (r["exact"] and r["haslog"]):
            continue
        if mode == "corr" and _class(r) == "both":
            r["corr"] = r["cfg"]["pi4"] * r["cfg"]["drift"] * r["cfg"]["interval"] // 4 + 1
            return
        if mode == "ndo":
            r["ndo"] = 2
            return
        if mode == "expected" and r["hasexp"]:
            r["ero"] += 4
            return
        if mode == "clock" and r["hasexp"] and r["rnd"] > 1:
            r["el"] += 1
            return


def run(ctx):
    q = ctx.quick
    # 1. design level: the property section of SyncRound.tla, exhaustively
    r = ctx.tlc("SyncRoundMC", "SyncRound_exh.cfg" if q else "SyncRound_deep.cfg", workers=4 if q else 8,
                timeout=120 if q else 900)
    ctx.log("TLC exhaustive: %d distinct states (%.0fs)" % (r["distinct"], r["wall_s"]))
    if not q:
        r = ctx.tlc("SyncRoundMC", "SyncRound_order.cfg", workers=8, timeout=600, tag="order")
        ctx.log("TLC arrival-order lemma: %d distinct states (%.0fs)" % (r["distinct"], r["wall_s"]))
    # 2. spec -> code: start-up grid (all of it), seeded behaviours, and in the
    #    thorough tier one behaviour per reachable state of the exhaustive model
    g = ctx.tlc("SyncRoundMC", "SyncRound_boot.cfg", workers=1, timeout=300, tag="gen-boot")
    cases = ctx.emitted(g["out"])
    nboot = len(cases)
    nword = sum(c["kind"] == "bootw" for c in cases)
    ctx.log("TLC start-up grids: %d distinct states (%.0fs); %d of the %d configurations range over the whole word"
            % (g["distinct"], g["wall_s"], nword, nboot))
    g = ctx.tlc("SyncRoundMC", "SyncRound_gen.cfg", workers=1, timeout=600, tag="gen-sim",
                simulate="num=%d" % (500 if q else 5000), depth=40)
    cases += ctx.emitted(g["out"])
    nsim = len(cases) - nboot
    if not q:
        g = ctx.tlc("SyncRoundMC", "SyncRound_genall.cfg", workers=1, timeout=900, tag="gen-all")
        cases += ctx.emitted(g["out"])
    ctx.log("generated: %d start-up cases, %d sampled behaviours, %d state representatives"
            % (nboot, nsim, len(cases) - nboot - nsim))
    if nboot < 100 or nsim < 100 or nword < 100:
        raise vlib.Inconclusive("behaviour generator produced too little (%d boot of which %d word-range, %d runs)"
                                % (nboot, nword, nsim))
    cp = ctx.path("cases.ndjson")
    vlib.write_ndjson(cp, cases)
    # 3. the real sync.Run under value embeddings
    trace = ctx.path("trace.ndjson")
    rc, out = ctx.gotest("c01", "TestC01", env=dict(VERIF_IN=cp, VERIF_OUT=trace), timeout=900)
    recs = vlib.read_ndjson(trace) if os.path.exists(trace) else []
    hung = rc != 0 and "exit status 3" in out and recs and recs[-1].get("hung")
    if hung:
        # the driver's real-time watchdog gave up on a behaviour whose round never
        # reached clk.Sleep; what was recorded up to there is the observation
        ctx.log("driver stopped at a round that did not complete: case %d round %d"
                % (recs[-1]["case"], recs[-1]["rnd"]))
    elif rc != 0 or not recs:
        raise vlib.Inconclusive("go driver c01/TestC01 failed (rc=%d):\n%s" % (rc, "\n".join(out.splitlines()[-60:])))
    ctx.log("driver: %d records from %d cases" % (len(recs), len(cases)))
    _corrupt(ctx, recs)
    # 4. code -> spec: monitor decides, strict reports drift
    nval = 0
    chunk = 50000
    for i in range(0, len(recs), chunk):
        part = recs[i:i + chunk]
        pp = ctx.path("chunk.ndjson")
        vlib.write_ndjson(pp, part)
        ok, l, inv, tout = ctx.validate("SyncRoundTrace", MON, pp)
        if not ok:
            bad = part[l - 1] if l else None
            cl = _class(bad)
            case = cases[bad["case"]] if bad else None
            after = ""
            if bad and bad["k"] == "round" and bad["rnd"] > 1:
                after = "; the Sleep call before this round took %s and moved the reading by %s half intervals" \
                        % (bad["slept"], bad["el"])
            ctx.violation("C01 %s %s" % (inv, cl),
                          "real sync.Run violates %s (%s%s): %s" % (inv, cl, after, bad),
                          dict(record=bad, behaviour=case))
            continue
        nval += len(part)
        ok, l, inv, tout = ctx.validate("SyncRoundTrace", STRICT, pp)
        if not ok:
            ctx.drift.append("record %s differs from SyncRound.tla (%s)" % (part[l - 1] if l else "?", inv))
    if hung and not ctx.violations:
        raise vlib.Inconclusive("driver gave up on a hung behaviour but the monitor accepts the recorded trace: %s" % recs[-1])
    st = _stats(cases, recs)
    ctx.log("coverage: %s" % st)
    for k in ("both_contribute", "ref_only", "peer_only", "peer_within_cutoff", "ref_clamped", "peer_clamped",
              "clamped_negative", "peer_at_cutoff", "boot_cases_stated_inadmissible", "boot_cases_admissible",
              "int64_extreme_runs", "rounds_with_stale_ref_slots"):
        if st[k] == 0 and not ctx.violations:
            raise vlib.Inconclusive("vacuous run: no recorded round of class %s" % k)
    bw = st["boot_word"]
    for k in ("stated_inadmissible", "admissible", "timeout_in_upper_half_and_interval_positive",
              "timeout_is_largest_word", "interval_is_largest_word", "interval_in_upper_half_and_admissible",
              "timeout_exactly_half_interval", "timeout_half_interval_plus_one", "timeout_equals_interval",
              "timeout_zero", "timeout_negative", "interval_nonpositive", "smallest_word_somewhere", "cutoff_extreme"):
        if bw[k] == 0 and not ctx.violations:
            raise vlib.Inconclusive("vacuous run: no generated start-up configuration of word-range class %s" % k)
    ctx.notes.append(
        "start-up over the whole Duration range (SyncRound.tla: cutoff/interval/timeout are W-bit words, the prologue "
        "with Go's truncating division, the statement over the integers; SyncRoundMC BootWord grid, every combination, "
        "exhaustive in the model; replayed on the real sync.Run with the time units 2^56 ns (the 8-bit word IS int64: "
        "64 -> 2^62, -128 -> MinInt64), 2^56 ns with 127 -> MaxInt64, and 1 ns; refused = Run panicked before the "
        "loop, accepted = Run reached clk.Sleep): %d generated configurations, %d stated inadmissible / %d admissible; "
        "%d with the timeout in the upper half of the range (>= 2^62; %d of them with a positive interval, where a "
        "doubled timeout would wrap), %d with timeout = largest word, %d with interval = largest word, %d admissible "
        "with the interval in the upper half, %d with timeout = interval/2, %d with interval/2 + 1, %d with timeout = "
        "interval, %d with timeout 0, %d negative timeouts, %d non-positive intervals, %d containing the smallest word, "
        "%d with an extreme cutoff; %d records (%d at unit 2^56 ns, %d with MaxInt64), %d refused; judged by Refused "
        "(model units) and by the same statement on the real int64 values (math/big, raw_ok)"
        % (bw["cases"], bw["stated_inadmissible"], bw["admissible"], bw["timeout_in_upper_half"],
           bw["timeout_in_upper_half_and_interval_positive"], bw["timeout_is_largest_word"],
           bw["interval_is_largest_word"], bw["interval_in_upper_half_and_admissible"],
           bw["timeout_exactly_half_interval"], bw["timeout_half_interval_plus_one"], bw["timeout_equals_interval"],
           bw["timeout_zero"], bw["timeout_negative"], bw["interval_nonpositive"], bw["smallest_word_somewhere"],
           bw["cutoff_extreme"], bw["records"], bw["records_unit_2_56"], bw["records_with_MaxInt64"],
           bw["records_refused"]))
    lc = st["local_clock"]
    for k in ("after_on_time_sleep", "after_late_sleep", "after_stepped_reading",
              "after_reading_jumped_2_intervals_or_more", "after_reading_went_backwards",
              "after_reading_stood_still_or_moved_less", "clamped_after_forward_jump",
              "clamped_after_backward_jump", "clamped_after_late_sleep"):
        if lc[k] == 0 and not ctx.violations:
            raise vlib.Inconclusive("vacuous run: no generated round of local-clock class %s" % k)
    ctx.notes.append(
        "local clock as environment (SyncRound.tla Wake: clk.Sleep returns late, clk.Now() stepped forwards/backwards, "
        "Epoch advances; 13 choices per Sleep call, exhaustive in the model, replayed by the driver's fake clock): "
        "of %d generated rounds that follow a Sleep call, %d follow a reading jump of >= 2 intervals (%d of them with a "
        "clamped contribution), %d a reading that went backwards (%d clamped), %d a late return (>= 1 interval late and "
        "clamped: %d), %d a stepped reading (new epoch), %d an on-time Sleep; the monitor clauses are the same for all"
        % (lc["rounds_after_a_sleep"], lc["after_reading_jumped_2_intervals_or_more"], lc["clamped_after_forward_jump"],
           lc["after_reading_went_backwards"], lc["clamped_after_backward_jump"], lc["after_late_sleep"],
           lc["clamped_after_late_sleep"], lc["after_stepped_reading"], lc["after_on_time_sleep"]))
    obs = []
    if os.path.exists(trace + ".obs"):
        obs = vlib.read_ndjson(trace + ".obs")
    ex = [x for x in recs if x["k"] == "round" and x["exact"] and x["haslog"]]
    distinct = len({(tuple(sorted(x["cfg"].items())), x["ro"], x["po"], x["emb"]) for x in ex if x["ro"] or x["po"]})
    distinct += len({tuple(sorted(x["cfg"].items())) for x in recs if x["k"] == "boot"})
    rounds = [x for x in recs if x["k"] == "round"]
    ctx.cov.update(
        evaluations=len(recs), distinct_nontrivial=distinct,
        rule="start-up: every configuration of the 960-point grid (TLC-enumerated) x 2 time units + every "
             "configuration of the 684-point word-range grid (3 cutoffs x 12 intervals x 19 timeouts over -128..127) "
             "x time units 2^56 ns / 2^56 ns with MaxInt64 / 1 ns; rounds: "
             "TLC-simulated behaviours of SyncRound (seeded; 3 rounds; up to 3 reference clocks and 2 peers; "
             "ok/err/late/never outcomes; 25 offset values incl. the word extremes; each clk.Sleep call returns "
             "on time or 1/2..99 intervals late and/or with the reading clk.Now() stepped by -100..+99 intervals)"
             + ("" if q else " + one behaviour per reachable state of the exhaustive model")
             + " x value embeddings a*v (a in 1, 4, 1000, 2^20, 2^56, 2^56 with MaxInt64); distinct = distinct "
               "(configuration, reported reference offset, reported peer offset, embedding) with a non-zero offset "
               "among exactly representable round records + distinct start-up configurations",
        traces_validated_against_impl=nval, exhaustive=False,
        classes=st, observations_not_judged=obs,
        samples=[x for x in recs if x["k"] == "boot"][:2] + rounds[:2] + rounds[len(rounds) // 2:len(rounds) // 2 + 2])
    ctx.assumptions += [
        "scaling embeddings commute with sort/midpoint/clamp; records whose real values have no exact image in "
        "model units are judged only by the raw inequality (math/big) and the Do count, never by the model-unit clauses",
        "the offsets each side reported and the bounded contributions are read from the 'correcting clock' debug "
        "record sync.Run gives to the supplied slog.Logger (float64 seconds, inverted exactly or the record is opaque)",
        "impact factors are multiples of 1/4 and caps are chosen so that the float64 products in Run are exact",
        "SyncTimeout > 0 in replayed admissible configurations (with 0 the deadline races with the answers); "
        "start-up cases include 0 (only refusal/acceptance is recorded there)",
        "word-range start-up cases: factors and drift admissible (6/4, 11/4, 1 per unit), the clock's drift is per "
        "time unit (Drift(SyncInterval) stays small); the statement's classification of the real configuration "
        "(math/big) must equal the model's or the driver fails (inconclusive)",
        "small scope: <= 3 reference clocks, <= 2 peers, 2 rounds exhaustively; 3 rounds sampled",
        "the local clock moves only inside clk.Sleep (late return and/or step of the reading, new epoch per step); "
        "jumps while a round is measuring, and a Sleep that returns early, are not generated",
        "NaN/Inf impact factors are outside the statement's classification: observed, reported, not judged"]
