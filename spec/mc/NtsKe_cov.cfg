SPECIFICATION Spec
CONSTANTS
  Transport = "tls"
  ResidueAfterFailure = FALSE
  ShortCookieRead = FALSE
  DialResetsData = TRUE
  Alpns <- AlpnsTls
  Alphabet <- AlphaAll
  CutRecs <- CutCore
  MaxRecs = 3
  MaxDials = 2
  MaxCalls = 3
  MaxStore = 1
  CtxMode = "returns"
  MaxStalls = 1
  StaleNextHop = FALSE
INVARIANTS TypeOK SuccessOnlyIf KeysAgree PoolIsIssued PoolReturned Destination NoResidue NoResidueState
PROPERTIES IgnoresNonCritical
