------------------------------ MODULE ScionAuth ------------------------------
(***************************************************************************)
(* SCION packet authentication (SPAO with the time-service DRKey) and      *)
(* reply / forward addressing of the SCION listener, end to end:           *)
(*   core/server/server_scion.go  runSCIONServer (StartSCIONServer: 8      *)
(*       sockets on the server port + 8 on the end-host port 30041,        *)
(*       fetcher # nil; StartSCIONDispatcher: one socket on 30041,         *)
(*       localHostPort = 30041, fetcher = nil)                             *)
(*   core/client/client_scion.go  measureClockOffsetSCION (request         *)
(*       authenticator, response verification)                             *)
(*   net/scion/auth.go            SPI / algorithm constants, option layout *)
(*   scionproto pkg/spao          ComputeAuthCMAC: what the MAC covers     *)
(*                                                                         *)
(* One behaviour = the journey of one datagram: it is put together field   *)
(* by field (the Choose actions), arrives at a listener socket (Receive),  *)
(* is authenticated (Verify) and answered (ServeNtp / EchoReply /          *)
(* TracerouteReply), passed on (Forward) or ignored (Drop); the reply of   *)
(* an NTP exchange travels back through the network (Relay, which may      *)
(* alter it) to the requesting client (VerifyResponse).                    *)
(*                                                                         *)
(* The MAC is modelled symbolically: an authenticator carries the key it   *)
(* was computed with and the tuple of covered fields it was computed over; *)
(* it verifies iff both equal the verifier's key and the covered fields of *)
(* the packet as received.                                                 *)
(***************************************************************************)
EXTENDS Integers, Sequences, FiniteSets, TLC

(***************************************************************************)
(* Protocol constants (net/scion/auth.go, net/scion/underlay.go)           *)
(***************************************************************************)
DRKeyProtocolTS == 123
DRKeyTypeHostHost == 1
\* SPI = type << 17 | direction << 16 | protocol; requests are authenticated
\* with the receiver-side direction bit set, responses with it cleared
SPIClient == DRKeyTypeHostHost * 2 ^ 17 + 1 * 2 ^ 16 + DRKeyProtocolTS   \* 196731 = 0x3007B
SPIServer == DRKeyTypeHostHost * 2 ^ 17 + 0 * 2 ^ 16 + DRKeyProtocolTS   \* 131195 = 0x2007B
AlgCMAC == 0
EndhostPort == 30041
AuthOptDataLen == 12 + 16      \* metadata (SPI 4, algorithm 1, RSV 1, timestamp/sequence 6) + MAC

(***************************************************************************)
(* A deviation of the code, named: server_scion.go reverses the path but   *)
(* keeps the request's path type in the reply's header, although           *)
(* Path.Reverse() of a one-hop path is a standard SCION path.              *)
(*   KeepPathType = TRUE   the code as it is  (ScionAuth_faithful*.cfg)    *)
(*   KeepPathType = FALSE  repaired: PathType = Path.Type() after Reverse  *)
(***************************************************************************)
CONSTANT KeepPathType
ASSUME KeepPathType \in BOOLEAN

(***************************************************************************)
(* Keys.  KeyRegime = "mock": USE_MOCK_KEYS=true, every host-to-host key   *)
(* is the same all-zero key.  KeyRegime = "drkey": the host-to-host key is *)
(* a function of (server ISD-AS, client ISD-AS, server host, client host); *)
(* the server obtains it from a host-AS key that net/scion/fetcher.go      *)
(* caches per client ISD-AS and revalidates on every use (epoch, protocol, *)
(* both ISD-AS, server host).  CheckSrcHost = FALSE drops the server-host  *)
(* comparison from the revalidation: a deliberately wrong variant          *)
(* (ScionAuth_f_keycache.cfg) that the property section must reject.       *)
(***************************************************************************)
CONSTANTS KeyRegime, CheckSrcHost, MaxDatagrams
ASSUME KeyRegime \in {"mock", "drkey"} /\ CheckSrcHost \in BOOLEAN /\ MaxDatagrams \in 1 .. 4

(***************************************************************************)
(* Time and key epochs.  Time is a sequence of instants 0, 1, 2, ... (the  *)
(* nanoseconds of drkey.Epoch / cppki.Validity, whose Contains is          *)
(* inclusive at both ends).  Epoch e of every DRKey consists of the        *)
(* instants e * EpochLen .. (e + 1) * EpochLen - 1: its first instant is   *)
(* its NotBefore ("exactly at the boundary"), its last one its NotAfter    *)
(* ("just before the next boundary").  A host-AS key, and with it every    *)
(* host-to-host key, is a function of its epoch as well: the key that      *)
(* authenticates a datagram is the one of the epoch that contains the      *)
(* instant the datagram refers to -- for the listener the receive time     *)
(* (server_scion.go: Validity = rxt).  The DRKey service answers a request *)
(* for instant t with the key of the epoch that contains t.                *)
(* fetcher.go hands out its cached host-AS key only for instants inside    *)
(* that key's epoch (hak.Epoch.Contains(meta.Validity)).  Grace > 0 is a   *)
(* deliberately wrong variant (ScionAuth_f_keygrace.cfg): the cached key   *)
(* stays in use for Grace instants after its epoch.                        *)
(***************************************************************************)
CONSTANTS EpochLen, MaxClock, Grace
ASSUME EpochLen \in 1 .. 4 /\ MaxClock \in 0 .. 16 /\ Grace \in 0 .. 16
EpochOf(t) == t \div EpochLen
PosOf(t)   == t % EpochLen                         \* 0 = NotBefore, EpochLen - 1 = NotAfter
EpochContains(e, t) == e * EpochLen <= t /\ t <= (e + 1) * EpochLen - 1

(***************************************************************************)
(* Deliberately wrong variants of the implementation, used by the          *)
(* ScionAuth_f_*.cfg configurations to show that the property section      *)
(* rejects them ("none" is the code as it is).                             *)
(***************************************************************************)
CONSTANT Fault
Faults == {"none", "srvIgnoreMac", "cliIgnoreMac", "replySpiClient", "replyNoAuth", "replyMacShort",
           "noPortSwap", "noAddrSwap", "noReverse", "replyToSrc", "fwdOnSrvPort", "fwdBackToEh", "fwdPayload",
           "echoPayload",
           "authOnlyDirectE2E"}   \* the authenticator is looked for only if the end-to-end header
                                  \* directly follows the SCION header (NextHdr = End2EndClass)
ASSUME Fault \in Faults

(***************************************************************************)
(* SCION paths (as in Listener.tla): empty, or 1..3 segments of hop        *)
(* fields with the current info/hop field indices; EPIC-HP (the same,      *)
(* wrapped) and one-hop paths (one info field, two hop fields).            *)
(***************************************************************************)
Seg(cons, sid, hops) == [cons |-> cons, sid |-> sid, hops |-> hops]
EmptyPath == [kind |-> "empty", ci |-> 0, ch |-> 0, segs |-> << >>]
RevSeq(s) == [i \in 1 .. Len(s) |-> s[Len(s) + 1 - i]]
RECURSIVE SumLen(_)
SumLen(segs) == IF segs = << >> THEN 0 ELSE Len(Head(segs).hops) + SumLen(Tail(segs))
\* slayers/path/scion (*Decoded).Reverse; empty.Path.Reverse is the identity;
\* epic.Path.Reverse reverses the wrapped path; onehop.Path.Reverse converts to a
\* standard path of one construction-direction segment, moves to its second hop
\* and reverses that
RevStd(p) ==
  [kind |-> p.kind,
   ci   |-> Len(p.segs) - p.ci - 1,
   ch   |-> SumLen(p.segs) - p.ch - 1,
   segs |-> RevSeq([i \in DOMAIN p.segs |->
                      Seg(~p.segs[i].cons, p.segs[i].sid, RevSeq(p.segs[i].hops))])]
Reverse(p) ==
  CASE p.kind = "empty"  -> p
    [] p.kind = "onehop" -> RevStd([kind |-> "scion", ci |-> 0, ch |-> 1,
                                    segs |-> <<Seg(TRUE, p.segs[1].sid, p.segs[1].hops)>>])
    [] OTHER             -> RevStd(p)
\* what spao.zeroOutMutablePath leaves of a path: CurrINF/CurrHF, the SegIDs and
\* the hop fields' flag bytes are routers' business and are not authenticated
Immutable(p) ==
  [kind |-> p.kind, segs |-> [i \in DOMAIN p.segs |-> [cons |-> p.segs[i].cons, hops |-> p.segs[i].hops]]]

(***************************************************************************)
(* Datagrams                                                               *)
(***************************************************************************)
L4Kinds == {"udp", "echo", "tr", "scmpx", "l4x"}    \* SCION/UDP, SCMP echo request, SCMP traceroute
                                                     \* request, another SCMP message, another L4 protocol
Ports   == {"srv", "eh", "oth", "cp", "-"}           \* server port, 30041, another port, the requester's port, none (SCMP)
NoAuth  == [present |-> FALSE, spi |-> "-", algo |-> "-", ts |-> 0, rsv |-> 0,
            mac |-> [key |-> <<"-">>, over |-> << >>]]

\* host-to-host keys (tuples, so that keys of both regimes compare)
HHKey(srvIA, cliIA, srvHost, cliHost, ep) ==
  IF KeyRegime = "mock" THEN <<"k0">> ELSE <<srvIA, cliIA, srvHost, cliHost, ep>>
\* the key a datagram has to be authenticated with: a request travels client ->
\* server (source = client), a response server -> client; in both cases the key
\* of the epoch that contains the instant d.at the exchange takes place at
ReqKey(d)  == HHKey(d.dia, d.sia, d.dh, d.sh, EpochOf(d.at))
RespKey(d) == HHKey(d.sia, d.dia, d.sh, d.dh, EpochOf(d.at))
OtherOf(x) == CASE x = "S" -> "D" [] x = "D" -> "S" [] x = "C" -> "C2" [] x = "C2" -> "C"
                [] x = "iaC" -> "iaC2" [] x = "iaC2" -> "iaC" [] OTHER -> x

\* the fields the MAC is computed over (spao.serializeAuthenticatedData): header
\* length, upper-layer type and length, algorithm, timestamp / sequence number,
\* flow id and low traffic-class bits, path type, address types, the path without
\* its mutable fields, and the upper-layer header and payload.  With a host-to-host
\* DRKey neither the ISD-AS numbers nor the host addresses are included (the key
\* binds them), nor are the SPI, the option's RSV byte, NextHdr and PayloadLen.
\* hdr / ptok / mut stand for the bytes the model does not spell out: covered
\* header bits, covered path bytes (info timestamps and flags, hop expiry, egress
\* interfaces and MACs), and bits that are not covered.
\* The header names the path's type (ptype); a receiver decodes the path bytes
\* as that type.  If the sender serialised a path of another type the receiver
\* sees something else (here: nothing it can use).
PathAsReceived(d) == IF d.ptype = d.path.kind THEN d.path
                     ELSE [kind |-> d.ptype, ci |-> 0, ch |-> 0, segs |-> << >>]
View(d) == [d EXCEPT !.path = PathAsReceived(d)]
CoveredBy(d, p) == <<d.auth.algo, d.auth.ts, d.hdr, d.sfam, d.dfam, d.ptype, Immutable(p), d.ptok, d.l4, d.sp, d.dp, d.pl>>
Covered(d) == CoveredBy(d, d.path)                  \* what the sender computes the MAC over
CoveredRcv(d) == CoveredBy(d, PathAsReceived(d))    \* what the receiver computes it over

MacOK(d, key) == d.auth.present /\ d.auth.mac = [key |-> key, over |-> CoveredRcv(d)]

\* sender side: scion.PreparePacketAuthOpt + spao.ComputeAuthCMAC over d
WithAuth(d, spi, key) ==
  LET a0 == [present |-> TRUE, spi |-> spi, algo |-> "cmac", ts |-> 0, rsv |-> 0,
             mac |-> [key |-> <<"-">>, over |-> << >>]]
      d0 == [d EXCEPT !.auth = a0]
  IN [d0 EXCEPT !.auth.mac = [key |-> key, over |-> Covered(d0)]]

\* what is done to a correctly authenticated datagram before it arrives
AuthKinds == {"absent", "valid",
              "macFlip",     \* a bit of the 16-byte MAC
              "covHdr",      \* a covered SCION header bit (flow id, low traffic class bits)
              "covPath",     \* a covered path bit (hop field MAC / expiry / interfaces, info timestamp)
              "covPld",      \* a bit of the UDP header or payload
              "tsFlip",      \* a bit of the timestamp / sequence number
              "rsvFlip",     \* a bit of the RSV byte (not covered)
              "uncovFlip",   \* a bit that is not covered (SegID, hop flags, top traffic-class bits)
              "spiFlip",     \* a bit of the SPI
              "spiOther",    \* the SPI of the other direction (MAC computed with that SPI in place)
              "algoFlip",    \* a bit of the algorithm byte
              "wrongKey",    \* MAC computed with a key that is nobody's
              "keyOtherSrv", \* MAC computed with the key of (another server host, this client)
              "keyOtherCli", \* ... of (this server host, another client host)
              "keyOtherIA",  \* ... of (this server, this client host in another ISD-AS)
              "keyPrevEpoch",\* ... of this pair, of the epoch before the one the datagram arrives in
              "keyNextEpoch"}\* ... of this pair, of the epoch after it

Tamper(d, k) ==
  CASE k = "valid"     -> d
    [] k = "macFlip"   -> [d EXCEPT !.auth.mac.key = <<"garbage">>]
    [] k = "covHdr"    -> [d EXCEPT !.hdr = "h1"]
    [] k = "covPath"   -> IF d.path.kind = "empty" THEN [d EXCEPT !.hdr = "h1"] ELSE [d EXCEPT !.ptok = "p1"]
    [] k = "covPld"    -> [d EXCEPT !.pl = IF d.pl = "ntp" THEN "ntp'" ELSE "data'"]
    [] k = "tsFlip"    -> [d EXCEPT !.auth.ts = 1]
    [] k = "rsvFlip"   -> [d EXCEPT !.auth.rsv = 1]
    [] k = "uncovFlip" -> [d EXCEPT !.mut = "m1"]
    [] k = "spiFlip"   -> [d EXCEPT !.auth.spi = "other"]
    [] k = "algoFlip"  -> [d EXCEPT !.auth.algo = "other"]

\* the requester's datagram: an authenticated base packet, then tampering
MkAuth(d, k, spi, other) ==
  CASE k = "absent"   -> d
    [] k = "spiOther" -> WithAuth(d, other, ReqKey(d))
    [] k = "wrongKey" -> WithAuth(d, spi, <<"kx">>)
    [] k = "keyOtherSrv" -> WithAuth(d, spi, HHKey(d.dia, d.sia, OtherOf(d.dh), d.sh, EpochOf(d.at)))
    [] k = "keyOtherCli" -> WithAuth(d, spi, HHKey(d.dia, d.sia, d.dh, OtherOf(d.sh), EpochOf(d.at)))
    [] k = "keyOtherIA"  -> WithAuth(d, spi, HHKey(d.dia, OtherOf(d.sia), d.dh, d.sh, EpochOf(d.at)))
    [] k = "keyPrevEpoch" -> WithAuth(d, spi, HHKey(d.dia, d.sia, d.dh, d.sh, EpochOf(d.at) - 1))
    [] k = "keyNextEpoch" -> WithAuth(d, spi, HHKey(d.dia, d.sia, d.dh, d.sh, EpochOf(d.at) + 1))
    [] OTHER          -> Tamper(WithAuth(d, spi, ReqKey(d)), k)

ExpectedReq(d)  == d.auth.present /\ d.auth.spi = "client" /\ d.auth.algo = "cmac"
ExpectedResp(d) == d.auth.present /\ d.auth.spi = "server" /\ d.auth.algo = "cmac"

\* Extension header chain between the SCION header and the upper layer.  The
\* end-to-end header exists iff it has an option to carry; neither header is
\* covered by the MAC (its input is the SCION header and the upper layer).
\*   "e2e"        SCION | E2E{authenticator} | L4      (no header at all without authenticator)
\*   "hbh"        SCION | HBH{padding} | E2E{authenticator} | L4
\*   "optBefore"  SCION | E2E{unknown option, authenticator} | L4
\*   "optAfter"   SCION | E2E{authenticator, unknown option} | L4
Exts == {"e2e", "hbh", "optBefore", "optAfter"}
\* server_scion.go / client_scion.go: "the layer decoded before the upper layer is
\* the end-to-end header" and FindOption(authenticator): wherever the header and
\* the option are in the chain
AuthFound(d) == d.auth.present /\ (Fault = "authOnlyDirectE2E" => d.ext # "hbh")

\* an NTP payload the server answers (ntp.DecodePacket, ntp.ValidateRequest)
NtpOK(pl) == pl \in {"ntp", "ntp'"}

(***************************************************************************)
(* State                                                                   *)
(***************************************************************************)
VARIABLES
  mode,     \* "server" (StartSCIONServer) | "dispatcher" (StartSCIONDispatcher)
  cauth,    \* the requesting client has authentication enabled (it holds the key)
  pc,       \* "l4" "port" "addr" "path" "auth" | "sent" | "verify" | "serve" | "relay" | "client" | "done"
  req,      \* the datagram as it arrives at the listener
  authd,    \* server_scion.go: authenticated
  act,      \* what the listener did: "-" | "ServeNtp" | "EchoReply" | "TracerouteReply" | "Forward" | "Drop"
  out,      \* sequence (0 or 1) of datagrams the listener sent: [to, d]
  rm,       \* what the network did to the NTP reply on its way back
  resp,     \* the response as it arrives at the client
  cres,     \* "-" | "verified" | "unauth" | "reject"
  cache,    \* fetcher.go: Fetcher.haks, the cached host-AS key per client ISD-AS
  kinfo,    \* this datagram: was the cache asked, was its entry expired, was a key fetched, the key used
  nsent,    \* datagrams handled so far by this listener (same goroutine, same fetcher)
  hist,     \* what happened to them (observation, for the case generator)
  clock     \* the present instant

kvars == <<cache, kinfo, nsent, hist, clock>>
vars == <<mode, cauth, pc, req, authd, act, out, rm, resp, cres, cache, kinfo, nsent, hist, clock>>

CONSTANTS Modes, ULs, L4s, DPorts, DHosts, Fams, PathSet, Pls, ReqAuths, RespMuts, CIAs, CHosts,
          PathExts, RespExts   \* <<path, extension chain>> pairs of requests; chains the network gives a response

LocalHostPort == IF mode = "server" THEN "srv" ELSE "eh"
Fetcher       == mode = "server"
\* a cached host-AS key: the metadata it was fetched for and its epoch
NoEntry == [valid |-> FALSE, ep |-> 0, srvIA |-> "-", cliIA |-> "-", srvHost |-> "-"]
NoKInfo == [asked |-> FALSE, exp |-> FALSE, fetch |-> FALSE, key |-> <<"-">>, cst |-> "-"]
AllCIAs == {"iaC", "iaC2"}

Blank == [ul |-> "srv", l4 |-> "udp", sia |-> "iaC", dia |-> "iaS", sh |-> "C", dh |-> "S", sfam |-> 4, dfam |-> 4,
          sp |-> "cp", dp |-> "srv", path |-> EmptyPath, ptype |-> "empty", pl |-> "ntp",
          hdr |-> "h0", ptok |-> "p0", mut |-> "m0", auth |-> NoAuth,
          at |-> 0,           \* the instant it arrives at the listener (not a field of the datagram)
          ext |-> "e2e",      \* extension header chain, see Exts
          ak |-> "absent", pl0 |-> "ntp"]  \* bookkeeping only: what was done to the authenticator, payload as built

Init ==
  /\ mode \in Modes /\ cauth \in BOOLEAN
  /\ pc = "l4" /\ req = Blank /\ authd = FALSE /\ act = "-" /\ out = << >>
  /\ rm = "-" /\ resp = Blank /\ cres = "-"
  /\ cache = [ia \in AllCIAs |-> NoEntry] /\ kinfo = NoKInfo /\ nsent = 0 /\ hist = << >>
  /\ clock = 0

\* ------------------------------------------------------------ the requester
ChooseL4 ==
  /\ pc = "l4"
  /\ \E ul \in ULs, k \in L4s, pl \in Pls :
       /\ mode = "dispatcher" => ul = "eh"
       /\ (k = "udp") = (pl \in {"ntp", "short", "badreq"})
       /\ req' = [req EXCEPT !.ul = ul, !.l4 = k, !.pl = pl, !.pl0 = pl,
                             !.sp = IF k = "udp" THEN "cp" ELSE "-", !.dp = IF k = "udp" THEN "srv" ELSE "-"]
  /\ pc' = "port"
  /\ UNCHANGED kvars /\ UNCHANGED <<mode, cauth, authd, act, out, rm, resp, cres>>

ChoosePort ==
  /\ pc = "port"
  /\ \E dp \in DPorts, dh \in DHosts :
       /\ req.l4 # "udp" => dp = "srv"
       /\ req' = [req EXCEPT !.dp = IF req.l4 = "udp" THEN dp ELSE "-", !.dh = dh]
  /\ pc' = "addr"
  /\ UNCHANGED kvars /\ UNCHANGED <<mode, cauth, authd, act, out, rm, resp, cres>>

ChooseAddr ==
  /\ pc = "addr"
  /\ \E sf \in Fams, df \in Fams, ia \in CIAs, ch \in CHosts :
       req' = [req EXCEPT !.sfam = sf, !.dfam = df, !.sia = ia, !.sh = ch]
  /\ pc' = "path"
  /\ UNCHANGED kvars /\ UNCHANGED <<mode, cauth, authd, act, out, rm, resp, cres>>

ChoosePath ==
  /\ pc = "path"
  /\ \E pe \in PathExts : req' = [req EXCEPT !.path = pe[1], !.ptype = pe[1].kind,
                                               !.ext = IF req.l4 = "udp" THEN pe[2] ELSE "e2e"]
  /\ pc' = "auth"
  /\ UNCHANGED kvars /\ UNCHANGED <<mode, cauth, authd, act, out, rm, resp, cres>>

\* the authenticator is placed last: it is computed over everything chosen so far.
\* A client with authentication disabled sends none; SCMP carries none.
ChooseAuth ==
  /\ pc = "auth"
  /\ \E k \in ReqAuths :
       /\ ~cauth => k = "absent"
       /\ req.l4 # "udp" => k = "absent"
       /\ req' = [MkAuth([req EXCEPT !.at = clock], k, "client", "server") EXCEPT !.ak = k]
  /\ pc' = "sent"
  /\ UNCHANGED kvars /\ UNCHANGED <<mode, cauth, authd, act, out, rm, resp, cres>>

\* ------------------------------------------------------------- the listener
\* server_scion.go: swap of ISD-AS, address type, address; Path.Reverse();
\* (UDP) swap of the ports; everything else of the header is kept -- including
\* the path type (KeepPathType)
Swapped(d) ==
  LET a == IF Fault = "noAddrSwap" THEN d
           ELSE [d EXCEPT !.sia = d.dia, !.dia = d.sia, !.sh = d.dh, !.dh = d.sh, !.sfam = d.dfam, !.dfam = d.sfam]
      b == IF Fault = "noReverse" THEN a
           ELSE [a EXCEPT !.path = Reverse(d.path),
                          !.ptype = IF KeepPathType THEN d.ptype ELSE Reverse(d.path).kind]
      c == [b EXCEPT !.ext = "e2e"]     \* replies are built afresh: no hop-by-hop header, one option at most
  IN IF d.l4 = "udp" /\ Fault # "noPortSwap" THEN [c EXCEPT !.sp = d.dp, !.dp = d.sp] ELSE c

ReplyTo == IF Fault = "replyToSrc" THEN "src" ELSE "prev"     \* conn.WriteToUDPAddrPort(..., lastHop)

Finish(a, o) == act' = a /\ out' = o /\ pc' = "done" /\ UNCHANGED kvars /\ UNCHANGED <<mode, cauth, req, authd, rm, resp, cres>>

Drop == Finish("Drop", << >>)

\* SCMP branch: the reply has no extension headers
EchoReply ==
  /\ pc = "sent" /\ req.l4 = "echo"
  /\ Finish("EchoReply",
            <<[to |-> ReplyTo, d |-> [Swapped(req) EXCEPT !.l4 = "echoRep", !.auth = NoAuth,
                                       !.pl = IF Fault = "echoPayload" THEN "data'" ELSE req.pl]]>>)
TracerouteReply ==
  /\ pc = "sent" /\ req.l4 = "tr"
  /\ Finish("TracerouteReply",
            <<[to |-> ReplyTo, d |-> [Swapped(req) EXCEPT !.l4 = "trRep", !.auth = NoAuth]]>>)

\* if int(udpLayer.DstPort) != localHostPort { if localConnPort != EndhostPort ||
\* udpLayer.DstPort == EndhostPort { drop } else forward to (destination host, DstPort) }
ForwardOK ==
  /\ req.dp # LocalHostPort
  /\ (req.ul = "eh" \/ Fault = "fwdOnSrvPort")
  /\ (req.dp # "eh" \/ Fault = "fwdBackToEh")
Forward ==
  /\ pc = "sent" /\ req.l4 = "udp" /\ ForwardOK
  \* the extension headers travel along (a receive-timestamp option is added; the UDP
  \* checksum is recomputed); sent to (SCION destination host, L4 destination port)
  \* ... unless a hop-by-hop header comes first (NextHdr # End2EndClass): then both
  \* extension headers are replaced by a new end-to-end header with that option only
  /\ LET f == IF req.ext = "hbh" THEN [req EXCEPT !.auth = NoAuth, !.ext = "e2e"] ELSE req
     IN Finish("Forward", <<[to |-> "dst", d |-> IF Fault = "fwdPayload" THEN [f EXCEPT !.pl = "data'"] ELSE f]>>)

Receive ==
  /\ pc = "sent"
  /\ \/ req.l4 \in {"l4x", "scmpx"} /\ Drop                         \* unexpected type or structure / SCMP type
     \/ req.l4 = "udp" /\ req.dp # LocalHostPort /\ ~ForwardOK /\ Drop
     \/ req.l4 = "udp" /\ req.dp = LocalHostPort /\ LocalHostPort = "eh" /\ Drop
     \/ /\ req.l4 = "udp" /\ req.dp = LocalHostPort /\ LocalHostPort # "eh"
        /\ pc' = "verify"
        /\ UNCHANGED kvars /\ UNCHANGED <<mode, cauth, req, authd, act, out, rm, resp, cres>>

\* fetcher != nil, an end-to-end extension with an authenticator option whose SPI
\* and algorithm are the expected ones: fetch the host-AS key for (server ISD-AS =
\* the datagram's destination, client ISD-AS = its source, server host = its
\* destination host) -- from the cache entry of the client ISD-AS unless that is
\* missing, expired or was fetched for other metadata --, derive the host-to-host
\* key for the source host, compute the MAC, compare, drop on mismatch.
\* Anything else is served unauthenticated.
\* fetcher.go: expired := ok && !hak.Epoch.Contains(meta.Validity), meta.Validity = the
\* datagram's receive time (Grace = 0: the code as it is)
Expired(e, t) == e.valid /\ ~(e.ep * EpochLen <= t /\ t <= (e.ep + 1) * EpochLen - 1 + Grace)
Refetch(d) ==
  LET e == cache[d.sia]
  IN ~e.valid \/ Expired(e, d.at) \/ e.srvIA # d.dia \/ e.cliIA # d.sia \/ (CheckSrcHost /\ e.srvHost # d.dh)
\* the DRKey service answers with the key of the epoch that contains the instant asked for
EntryFor(d) == IF Refetch(d)
               THEN [valid |-> TRUE, ep |-> EpochOf(d.at), srvIA |-> d.dia, cliIA |-> d.sia, srvHost |-> d.dh]
               ELSE cache[d.sia]
SrvKey(d) == LET e == EntryFor(d) IN HHKey(e.srvIA, e.cliIA, e.srvHost, d.sh, e.ep)
\* the cache as this datagram met it, as a class
CacheClass(d) == LET e == cache[d.sia]
                 IN IF ~e.valid THEN "cold"
                    ELSE IF e.srvIA # d.dia \/ e.cliIA # d.sia \/ e.srvHost # d.dh THEN "otherMeta"
                    ELSE IF e.ep = EpochOf(d.at) THEN "sameEpoch"
                    ELSE IF e.ep = EpochOf(d.at) - 1 THEN "prevEpoch" ELSE "olderEpoch"
Verify ==
  /\ pc = "verify"
  /\ IF Fetcher /\ AuthFound(req) /\ ExpectedReq(req)
     THEN /\ cache' = [cache EXCEPT ![req.sia] = EntryFor(req)]
          /\ kinfo' = [asked |-> TRUE, exp |-> Expired(cache[req.sia], req.at),
                       fetch |-> Refetch(req), key |-> SrvKey(req), cst |-> CacheClass(req)]
          /\ UNCHANGED <<nsent, hist, clock>>
          /\ IF MacOK(req, SrvKey(req)) \/ Fault = "srvIgnoreMac"
             THEN authd' = TRUE /\ pc' = "serve" /\ UNCHANGED <<mode, cauth, req, act, out, rm, resp, cres>>
             ELSE act' = "Drop" /\ out' = << >> /\ pc' = "done" /\ UNCHANGED <<mode, cauth, req, authd, rm, resp, cres>>
     ELSE authd' = FALSE /\ pc' = "serve" /\ UNCHANGED kvars /\ UNCHANGED <<mode, cauth, req, act, out, rm, resp, cres>>

NtpReply ==
  LET r0 == [Swapped(req) EXCEPT !.pl = "ntpResp", !.auth = NoAuth]
      \* the reply is authenticated with the key the request was verified with
      r1 == IF Fault = "replySpiClient" THEN WithAuth(r0, "client", kinfo.key) ELSE WithAuth(r0, "server", kinfo.key)
  IN IF authd /\ Fault # "replyNoAuth"
     THEN (IF Fault = "replyMacShort" THEN [r1 EXCEPT !.auth.mac.over = << >>] ELSE r1)
     ELSE r0

ServeNtp ==
  /\ pc = "serve"
  /\ IF NtpOK(req.pl)
     THEN /\ act' = "ServeNtp" /\ out' = <<[to |-> ReplyTo, d |-> NtpReply]>>
          /\ pc' = "relay"
          /\ UNCHANGED kvars /\ UNCHANGED <<mode, cauth, req, authd, rm, resp, cres>>
     ELSE Drop

\* -------------------------------------------------- the way back, the client
Relay ==
  /\ pc = "relay"
  /\ \E m \in RespMuts, x \in RespExts :
       /\ m \notin {"pass", "strip"} => out[1].d.auth.present
       /\ rm' = m
       /\ resp' = [(CASE m = "pass"  -> out[1].d
                      [] m = "strip" -> [out[1].d EXCEPT !.auth = NoAuth]
                      [] OTHER       -> Tamper(out[1].d, m)) EXCEPT !.ext = x]
  /\ pc' = "client"
  /\ UNCHANGED kvars /\ UNCHANGED <<mode, cauth, req, authd, act, out, cres>>

\* client_scion.go (after validSrc / validDst: the response's SCION source and
\* destination are the queried server and the client -- the relay never alters them):
\* authKey != nil (authentication enabled and key fetched), the
\* response has an authenticator option with the expected SPI and algorithm:
\* verify, reject on mismatch.  Anything else is accepted unauthenticated.
\* FetchHostHostKey for (remote ISD-AS, local ISD-AS, remote host, local host): the
\* server the client queried (nothing on the way alters the addresses)
ClientKey == ReqKey(req)
VerifyResponse ==
  /\ pc = "client"
  /\ cres' = IF cauth /\ ExpectedResp(resp)
             THEN (IF MacOK(resp, ClientKey) \/ Fault = "cliIgnoreMac" THEN "verified" ELSE "reject")
             ELSE "unauth"
  /\ pc' = "done"
  /\ UNCHANGED kvars /\ UNCHANGED <<mode, cauth, req, authd, act, out, rm, resp>>

\* ---------------------------------------- the same listener, the next datagram
Observation == [sia |-> req.sia, sh |-> req.sh, dh |-> req.dh, ak |-> req.ak,
                at |-> req.at, ep |-> EpochOf(req.at), pos |-> PosOf(req.at), cst |-> kinfo.cst,
                expected |-> ExpectedReq(req), macok |-> MacOK(req, ReqKey(req)),
                asked |-> kinfo.asked, exp |-> kinfo.exp, fetch |-> kinfo.fetch,
                wact |-> act, wauthd |-> authd, wcres |-> cres]
NextDatagram ==
  /\ pc = "done" /\ nsent + 1 < MaxDatagrams
  /\ nsent' = nsent + 1 /\ hist' = Append(hist, Observation)
  /\ pc' = "l4" /\ req' = Blank /\ authd' = FALSE /\ act' = "-" /\ out' = << >>
  /\ rm' = "-" /\ resp' = Blank /\ cres' = "-" /\ kinfo' = NoKInfo
  /\ UNCHANGED <<mode, cauth, cache, clock>>
\* time passes (between two datagrams), one instant at a time: the next datagram
\* arrives in the same epoch, at its last instant, at the first instant of the
\* next epoch, later in it, or epochs later.  (All epochs are alike: the first
\* datagram arrives in epoch 0.)
Advance ==
  /\ pc = "l4" /\ KeyRegime = "drkey" /\ clock < MaxClock
  /\ nsent = 0 => clock + 1 < EpochLen
  /\ clock' = clock + 1
  /\ UNCHANGED <<mode, cauth, pc, req, authd, act, out, rm, resp, cres, cache, kinfo, nsent, hist>>

Next ==
  \/ NextDatagram \/ Advance
  \/ ChooseL4 \/ ChoosePort \/ ChooseAddr \/ ChoosePath \/ ChooseAuth
  \/ Receive \/ EchoReply \/ TracerouteReply \/ Forward \/ Verify \/ ServeNtp
  \/ Relay \/ VerifyResponse
Spec == Init /\ [][Next]_vars

(***************************************************************************)
(* Property section (C13).  Every clause is an operator over observations  *)
(* (the datagram that arrived, what was verifiable about it, the datagrams *)
(* that came out and where they went), so that the same operators judge    *)
(* the model's states here and the recorded behaviour of the real code in  *)
(* ScionAuthTrace.tla.                                                     *)
(***************************************************************************)
\* a datagram that came out of the listener is a reply if it is an NTP server
\* response or an SCMP echo / traceroute reply; otherwise it is the datagram
\* that came in, passed on
IsReply(d) == (d.l4 = "udp" /\ d.pl = "ntpResp") \/ d.l4 \in {"echoRep", "trRep"}

\* MacSound: expected SPI and algorithm, MAC does not verify => never served
\* (request side) / never accepted (response side, on a client that authenticates)
MacSoundReq(expected, macOk, served) == (expected /\ ~macOk) => ~served
MacSoundResp(clientAuth, expected, macOk, accepted) == (clientAuth /\ expected /\ ~macOk) => ~accepted

\* AuthReplyVerifies: the request's authenticator verified and the request was
\* served => the reply carries an authenticator (response SPI, algorithm) whose
\* MAC verifies under the same key over the reply
AuthReply(reqVerified, replyExpected, replyMacOk) == reqVerified => (replyExpected /\ replyMacOk)
\* ... and the requesting client, receiving that reply untouched, verifies it
AuthReplyClient(reqVerified, untouched, cli) == (reqVerified /\ untouched) => cli = "verified"

\* ReplyAddressing for one reply datagram o sent to `to` in answer to q
ReplyAddr(q, to, o) ==
  /\ to = "prev"
  /\ o.sia = q.dia /\ o.dia = q.sia
  /\ o.sh = q.dh /\ o.dh = q.sh /\ o.sfam = q.dfam /\ o.dfam = q.sfam
  /\ o.sp = q.dp /\ o.dp = q.sp
  /\ o.path = Reverse(q.path)
EchoIntact(q, o) == o.l4 \in {"echoRep", "trRep"} => o.pl = q.pl

\* ForwardRule for one forwarded datagram o (the request passed on) sent to `to`
FwdRule(q, to, o) ==
  /\ q.ul = "eh"                \* only when received on the end-host port
  /\ q.dp # "eh"                \* never back to that port
  /\ to = "dst"                 \* to the port (and host) it is addressed to
  /\ o.pl = q.pl                \* payload unchanged
  /\ o.dp = q.dp /\ o.dh = q.dh

Served == act = "ServeNtp"
ReqVerifiable == ExpectedReq(req) /\ MacOK(req, ReqKey(req))

MacSound ==
  /\ pc \in {"relay", "client", "done"} => MacSoundReq(ExpectedReq(req), MacOK(req, ReqKey(req)), Served)
  /\ cres # "-" => MacSoundResp(cauth, ExpectedResp(resp), MacOK(resp, RespKey(resp)), cres \in {"verified", "unauth"})

AuthReplyVerifies ==
  /\ Served => AuthReply(ReqVerifiable, ExpectedResp(out[1].d), MacOK(out[1].d, RespKey(out[1].d)))
  /\ cres # "-" => AuthReplyClient(ReqVerifiable /\ cauth, rm = "pass", cres)

ReplyAddressing ==
  \A i \in DOMAIN out : IsReply(out[i].d) => ReplyAddr(req, out[i].to, View(out[i].d)) /\ EchoIntact(req, out[i].d)

ForwardRule ==
  \A i \in DOMAIN out : ~IsReply(out[i].d) => FwdRule(req, out[i].to, out[i].d)

\* the listener sends at most one datagram per datagram received, and a
\* dispatcher (no server behind it) never answers NTP
AtMostOne == Len(out) <= 1 /\ (mode = "dispatcher" => ~Served)

TypeOK ==
  /\ mode \in {"server", "dispatcher"} /\ cauth \in BOOLEAN
  /\ act \in {"-", "ServeNtp", "EchoReply", "TracerouteReply", "Forward", "Drop"}
  /\ cres \in {"-", "verified", "unauth", "reject"}
  /\ authd \in BOOLEAN

(***************************************************************************)
(* The listener as a function (used by the case generator and by the       *)
(* strict trace mode): what comes out for a given arriving datagram at a   *)
(* listener whose key cache holds nothing for the datagram's source.       *)
(***************************************************************************)
PredictAct(m, d) ==
  LET lhp == IF m = "server" THEN "srv" ELSE "eh"
  IN CASE d.l4 = "echo" -> "EchoReply"
       [] d.l4 = "tr"   -> "TracerouteReply"
       [] d.l4 \in {"l4x", "scmpx"} -> "Drop"
       [] OTHER ->
          IF d.dp # lhp
          THEN (IF d.ul = "eh" /\ d.dp # "eh" THEN "Forward" ELSE "Drop")
          ELSE IF lhp = "eh" THEN "Drop"
          ELSE IF m = "server" /\ AuthFound(d) /\ ExpectedReq(d) /\ ~MacOK(d, ReqKey(d)) THEN "Drop"
          ELSE IF NtpOK(d.pl) THEN "ServeNtp" ELSE "Drop"
PredictAuthd(m, d) == m = "server" /\ AuthFound(d) /\ ExpectedReq(d) /\ MacOK(d, ReqKey(d))
=============================================================================
