SPECIFICATION TMon
INVARIANTS OutstandingId Sound Complete CookieBinding AuthenticOnly RejectedInert RDirectionsDistinct
