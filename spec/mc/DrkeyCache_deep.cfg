SPECIFICATION SpecExh
CONSTANTS
  Metas <- MetasDeep
  DHosts <- DH2
  Vals <- ValsDeep
  E = 2
  NEpochs = 3
  MockModes <- OnlyReal
  H6 = 2
  Gaps <- NoGaps
  Horizon = 0
  MaxCalls = 4
  HHMetas <- MetasHH
  HHVals <- ValsHH
  GenLen = 0
INVARIANTS TypeOK CacheIsLast KeyValidAtRequest KeyForRequest ReuseWhileValid RefetchOnce ErrorReturned NoKeyOnError MockNoDaemon MockEpoch HostHostOneCall
