SPECIFICATION TSpec
CONSTANTS
  TraceFile = "trace.ndjson"
INVARIANTS RRule RUnconf RRawWhen RHistIndep SLucky SLReset SNtimed SNReads SNState
