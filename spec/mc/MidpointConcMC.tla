--------------------------- MODULE MidpointConcMC ---------------------------
EXTENDS MidpointConc, Json
\* Round emitter: every combination of callers' inputs, variants and
\* operations; replayed by harness/c02 TestC02Conc from K goroutines.
Emit == (Running /\ \A c \in Callers : pc[c] = "idle") =>
   PrintT(<<"CASE", ToJson([k |-> K,
        callers |-> [c \in Callers |-> [s |-> in[c], v |-> vr[c], op |-> op[c]]]])>>)
\* reachability self-check: TLC must report this "invariant" violated
NoOverlap == ~Overlap
Bands2 == <<{-9, -8}, {8, 9}>>
Bands3 == <<{-9, -8}, {0, 1}, {8, 9}>>
FarBoth == {-15, 15}
FarHi == {15}
VarDur == {"dur"}
VarAll == {"dur", "meas"}
=============================================================================
