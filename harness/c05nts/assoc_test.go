// C05 (NTS clause), the association dimension: what the real NTS-enabled
// IPClient does when a poll starts with a fresh / cached / drained NTS
// association and the key exchange it triggers succeeds or fails in one of the
// ways of spec/NtpAcceptAssoc.tla, crossed with what then arrives on the NTP
// socket (a plain genuine response, a response sealed under the keys of the
// previous association, the genuine response, nothing).
//
// Rig: as TestC05Nts (real StartIPServer behind the harness's proxy, real
// IPClient with Auth.Enabled), but the key-exchange server is the scripted peer
// of harness/c05nts/kepeer, which mints its cookies with the provider of the
// real NTP server.  Cases come from TLC (cfg NtpAcceptAssoc_gen).  Per case:
//
//	fresh    a new client
//	cached   a new client, one exchange (3 cookies), polls served genuinely
//	drained  a new client, one exchange (1 cookie), polls served genuinely, then
//	         one attempt whose request is answered with junk only (the cookie
//	         is spent, none comes back)
//
// then the peer is given the plan of the case and the client polls.  Whatever
// request shows up at the proxy is answered with the datagrams of the case;
// the reaction to each is decided by lane.watch (no log).  Records: one
// "dgram" record per delivered datagram (format of harness/c03, judged by
// NtpAcceptTrace) and one "call" record per measurement call (judged by
// NtpAcceptAssocTrace).
package c05nts

import (
	"crypto/rand"
	"crypto/tls"
	"os"
	"strconv"
	"strings"
	"sync"
	"testing"

	"net"

	"example.com/scion-time/core/client"
	"example.com/scion-time/core/timebase"
	"example.com/scion-time/driver/clocks"
	"example.com/scion-time/net/ntp"
	"example.com/scion-time/net/ntske"

	"verif/harness/c05nts/kepeer"
	"verif/harness/internal/vio"
)

type assocCase struct {
	c05case
	Assoc string `json:"assoc"`
	Ke    string `json:"ke"`
	Req   string `json:"req"`
	Tr    string `json:"tr"` // ip | scion (added by the check)
}

type assocDgram struct {
	c05rec
	Assoc string `json:"assoc"`
	Ke    string `json:"ke"`
	Phase string `json:"phase"` // drain | poll | rest
	ReqK  string `json:"reqk"`  // the outstanding request: nts | plain
}

type dd struct {
	D   dgram  `json:"d"`
	Il  bool   `json:"il"`
	Got string `json:"got"`
}

type callRec struct {
	Ev      string   `json:"ev"` // "call"
	Case    int      `json:"case"`
	Tr      string   `json:"tr"`
	Il      bool     `json:"il"`
	Assoc   string   `json:"assoc"`
	Ke      string   `json:"ke"`
	WantReq string   `json:"want_req"`
	Reqs    []string `json:"reqs"` // requests on the wire from the poll of the case on: nts | plain
	Ds      []dd     `json:"ds"`   // every datagram put into the client's socket during the call
	Ret     string   `json:"ret"`  // ok | error | empty (no error, zero time) | panic
	Nke     int      `json:"nke"`  // connections the key-exchange peer accepted during the call
	Kes     []string `json:"kes"`
	NtsOn   bool     `json:"ntson"`
	Unreal  int      `json:"unreal"` // datagrams of the case that could not be built (no association to seal under)
}

type skipRec struct {
	Ev   string `json:"ev"` // "skip"
	Case int    `json:"case"`
	Why  string `json:"why"`
}

func (l *lane) newClientIL(il bool) {
	c := &client.IPClient{Log: l.log, InterleavedMode: il}
	if l.idx%2 == 1 {
		l.flt = &recFilter{}
		c.Filter = l.flt
	}
	c.Auth.Enabled = true
	c.Auth.NTSKEFetcher.TLSConfig.InsecureSkipVerify = true
	c.Auth.NTSKEFetcher.TLSConfig.ServerName = l.ip.String()
	c.Auth.NTSKEFetcher.TLSConfig.MinVersion = tls.VersionTLS13
	c.Auth.NTSKEFetcher.Port = strconv.Itoa(ntske.ServerPortIP)
	c.Auth.NTSKEFetcher.Log = l.log
	l.c, l.sc = c, nil
}

func genuineD(il bool, nts string) dgram {
	d := dgram{Src: "server", Dst: "client", L4: "udp", Len: "ok", Li: 0, Vn: 4, Mode: 4, Stratum: 1, Origin: "tx", Txrx: "after", Nts: nts}
	if il {
		d.Origin = "rx"
	}
	return d
}

type assocRun struct {
	l     *lane
	c     *assocCase
	out   *vio.Out
	cr    *callRec
	stale *ntp.Time64
	// genuine responses bring one new cookie, however many the request asks for: the
	// client's pool stays as small as the key exchange made it
	oneCookie bool
}

// answer serves one request of the running call: the datagrams ds one after the
// other while the client waits, then (final) the genuine response.  It reports
// whether the call is still running.
func (r *assocRun) answer(reqb []byte, from *net.UDPAddr, ds []dgram, want []string, phase string, final bool) {
	l := r.l
	var meta *scionMeta
	if l.sc != nil {
		var err error
		if reqb, meta, err = unwrapSCION(reqb); err != nil {
			l.t.Fatalf("lane %d: %v", l.idx, err)
		}
	}
	var req ntp.Packet
	if err := ntp.DecodePacket(&req, reqb); err != nil {
		l.t.Fatal(err)
	}
	il := req.ReceiveTime != (ntp.Time64{})
	g := l.genuine(reqb)
	// the association the request was built with (the client is blocked reading its socket)
	kd := l.fetcher().VerifData()
	k := &keData{c2s: kd.C2sKey, s2c: kd.S2cKey}
	reqk, sealable := "plain", false
	var uid []byte
	ncookies := 1
	if len(reqb) > 48 && uidOf(reqb) != nil {
		reqk = "nts"
		if u, authPos, nonce, ct, ok := splitReply(g); ok && len(k.s2c) != 0 {
			if n, ok2 := countCookies(k.s2c, nonce, ct, g[:authPos]); ok2 && n > 0 {
				uid, ncookies, sealable = u, n, true
				if r.oneCookie {
					ncookies = 1
				}
			}
		}
	}
	if !sealable {
		// no association the genuine response could be sealed under: crafted NTS
		// responses use the previous association's keys, or keys of the harness
		uid = make([]byte, 32)
		rand.Read(uid)
		if u := uidOf(reqb); u != nil {
			uid = u
		}
		k = l.old
		if k == nil {
			k = &keData{c2s: make([]byte, 32), s2c: make([]byte, 32)}
			rand.Read(k.c2s)
			rand.Read(k.s2c)
		}
	}
	pending := true
	deliver := func(d dgram, w string, ph string) {
		b, how := l.concretise(d, g, &req, il, *r.stale, k, uid, ncookies)
		if meta != nil {
			b = wrapSCION(b, meta)
		}
		sock := l.proxy
		if d.Src == "other" {
			sock = l.other
		}
		got, lg, why := l.watch(from, func() error { _, err := sock.WriteToUDP(b, from); return err })
		r.out.Emit(assocDgram{c05rec: c05rec{Ev: "dgram", Case: r.c.Idx, Pos: len(r.cr.Ds), Il: il, Tr: r.tr(), D: d, Want: w, Got: got, NtsOn: true,
			How: how, Flt: l.flt != nil, Lg: lg, Why: why}, Assoc: r.c.Assoc, Ke: r.c.Ke, Phase: ph, ReqK: reqk})
		r.cr.Ds = append(r.cr.Ds, dd{D: d, Il: il, Got: got})
		if got != "skip" {
			pending = false
		}
	}
	for pos, d := range ds {
		if !pending {
			break
		}
		if d.Nts == "ok" && !sealable {
			r.cr.Unreal++
			continue
		}
		// (origin class of the case: "tx" for a basic, "rx" for an interleaved request - the
		// request on the wire decides)
		if d.Origin == "tx" || d.Origin == "rx" {
			d.Origin = genuineD(il, "").Origin
		}
		deliver(d, want[pos], phase)
	}
	*r.stale = req.TransmitTime
	if pending && final {
		nts := "absent"
		if sealable {
			nts = "ok"
		}
		ph := "rest"
		if phase == "setup" {
			ph = phase
		}
		deliver(genuineD(il, nts), "", ph)
	}
}

func (r *assocRun) tr() string {
	if r.l.sc != nil {
		return "scion-nts"
	}
	return "ip-nts"
}

func (r *assocRun) skip(why string) {
	r.out.Emit(skipRec{Ev: "skip", Case: r.c.Idx, Why: why})
}

func (l *lane) reqKind(b []byte) string {
	if l.sc != nil {
		pl, _, err := unwrapSCION(b)
		if err != nil {
			return "undecodable"
		}
		b = pl
	}
	if len(b) > 48 && uidOf(b) != nil {
		return "nts"
	}
	return "plain"
}

func (l *lane) runAssoc(c *assocCase, out *vio.Out, stale *ntp.Time64) bool {
	ds, want := c.queue(l.t)
	r := &assocRun{l: l, c: c, out: out, stale: stale}
	if c.Tr == "scion" {
		l.newSCIONClient(c.Il)
	} else {
		l.newClientIL(c.Il)
	}
	l.old = nil
	buf := make([]byte, 4096)
	okPlan := func(n int) kepeer.Plan { return kepeer.Plan{Kind: kepeer.Ok, Cookies: n, Port: proxyPort} }
	if c.Assoc != "fresh" {
		n := 3
		if c.Assoc == "drained" {
			n = 1
		}
		if err := l.ke.SetPlan(okPlan(n)); err != nil {
			l.t.Fatal(err)
		}
		good := false
		r.oneCookie = c.Assoc == "drained"
		for i := 0; i < 3 && !good; i++ {
			r.cr = &callRec{} // (not reported: the datagram records are)
			l.startCall()
			for l.done != nil {
				req, from, ok := l.nextRequest(buf)
				if !ok {
					break
				}
				r.answer(req, from, nil, nil, "setup", true)
			}
			good = l.last.err == nil && (!c.Il || l.inIL())
		}
		if !good {
			r.skip("setup: the client does not reach the association state")
			return false
		}
		if kd := l.fetcher().VerifData(); c.Assoc == "drained" {
			l.old = &keData{c2s: kd.C2sKey, s2c: kd.S2cKey}
			if len(kd.Cookie) != 1 {
				r.skip("setup: pool of " + strconv.Itoa(len(kd.Cookie)) + " cookies instead of 1")
				return false
			}
		}
	}
	plan := kepeer.Plan{Kind: c.Ke, Cookies: 3, Port: proxyPort}
	if c.Ke == "none" {
		plan = okPlan(3) // (cached: the specification has no exchange)
	}
	if err := l.ke.SetPlan(plan); err != nil {
		l.t.Fatal(err)
	}
	l.ke.Take()
	newCall := func(assoc, ke string) *callRec {
		return &callRec{Ev: "call", Case: c.Idx, Tr: r.tr(), Il: c.Il, Assoc: assoc, Ke: ke, WantReq: c.Req, Reqs: []string{}, Ds: []dd{},
			Kes: []string{}, NtsOn: true}
	}
	endCall := func() {
		cr := r.cr
		switch {
		case l.last.err == nil && l.last.ts.IsZero():
			// MeasureClockOffsetSCION after a round in which every attempt failed: no error,
			// no measurement (zero time, offset 0) - an observation the statement is silent
			// about (DESIGN.md 8.2); as everywhere in harness/c03 it is not "a measurement"
			cr.Ret = "empty"
		case l.last.err == nil:
			cr.Ret = "ok"
		case strings.HasPrefix(l.last.err.Error(), "PANIC"):
			cr.Ret = "panic"
		default:
			cr.Ret = "error"
		}
		for _, kc := range l.ke.Take() {
			cr.Nke++
			cr.Kes = append(cr.Kes, kc.Kind)
		}
		out.Emit(*cr)
	}
	// calls that are meant to fail do not count towards the lane's "gives up on genuine responses"
	l.nocount = c.Ke != "ok" && c.Ke != "none"
	defer func() { l.nocount = false }()
	r.cr = newCall(c.Assoc, c.Ke)
	l.drainLogs()
	if c.Assoc == "drained" {
		if !c.Il {
			r.cr = newCall("cached", "none") // the draining attempt is a call of its own
			r.cr.WantReq = "nts"
		}
		l.nocount = true
		l.startCall()
		req, from, ok := l.nextRequest(buf)
		if !ok {
			r.skip("drain: no request")
			return false
		}
		if !c.Il {
			r.cr.Reqs = append(r.cr.Reqs, l.reqKind(req))
		}
		// junk (a short datagram) until the attempt ends with an error: the cookie of the
		// request is spent and none comes back
		junk := genuineD(false, "ok")
		junk.Len = "short"
		r.answer(req, from, []dgram{junk, junk, junk, junk, junk, junk, junk, junk}, make([]string, 8), "drain", false)
		if n := len(r.cr.Ds); n == 0 || r.cr.Ds[n-1].Got != "error" {
			l.finish()
			r.skip("drain: the attempt did not end with an error")
			return false
		}
		if !c.Il {
			l.finish()
			endCall()
			if n := len(l.fetcher().VerifData().Cookie); n != 0 {
				r.skip("drain: " + strconv.Itoa(n) + " cookies left")
				return false
			}
			r.cr = newCall(c.Assoc, c.Ke)
			l.nocount = c.Ke != "ok"
			l.startCall()
		}
	} else {
		l.startCall()
	}
	// the poll of the case, then whatever attempts the call still makes
	first := true
	for l.done != nil {
		req, from, ok := l.nextRequest(buf)
		if !ok {
			break
		}
		r.cr.Reqs = append(r.cr.Reqs, l.reqKind(req))
		if first {
			r.answer(req, from, ds, want, "poll", true)
			first = false
		} else {
			r.answer(req, from, nil, nil, "rest", true)
		}
	}
	endCall()
	return true
}

func TestC05Assoc(t *testing.T) {
	cases := vio.ReadCases[assocCase](t)
	out := vio.Create(t)
	defer out.Close()
	timebase.RegisterClock(clocks.NewSystemClock(discard, clocks.UnknownDrift))
	nl := 8
	if s := os.Getenv("VERIF_C05NTS_LANES"); s != "" {
		nl, _ = strconv.Atoi(s)
	}
	if nl > len(cases) {
		nl = len(cases)
	}
	if nl == 0 {
		t.Fatal("no cases")
	}
	lanes := make([]*lane, nl)
	for i := range lanes {
		pid := os.Getpid()
		ip := net.IPv4(127, byte(128+(pid>>8)&63), byte(pid&255), byte(i+1)).To4()
		lanes[i] = newLane(t, i, selfSigned(ip), vio.Seed(), true)
	}
	var wg sync.WaitGroup
	var mu sync.Mutex
	nrun := 0
	for li, l := range lanes {
		wg.Add(1)
		go func() {
			defer wg.Done()
			stale := ntp.Time64{Seconds: 0xdeadbeef, Fraction: 1}
			for ci := li; ci < len(cases); ci += nl {
				c := &cases[ci]
				c.Idx = ci
				if l.runAssoc(c, out, &stale) {
					mu.Lock()
					nrun++
					mu.Unlock()
				}
			}
		}()
	}
	wg.Wait()
	t.Logf("C05assoc: %d cases run (of %d), %d lanes", nrun, len(cases), nl)
	if nrun == 0 {
		t.Fatal("no case could be set up")
	}
}
