SPECIFICATION TSpec
CONSTANTS
  TraceFile = "trace.ndjson"
INVARIANTS SLucky SLReset SNtimed SNReads SNState
