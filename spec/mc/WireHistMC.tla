----------------------------- MODULE WireHistMC -----------------------------
EXTENDS WireHist, Json
\* Behaviour emitter (spec -> code): every completed history with its plan, the
\* shapes of its values (contents are filled by the driver) and its schedule.
\* Within a run of consecutive Begin events (and of consecutive End events) the
\* order is not something a driver can impose on real goroutines without hooks
\* inside the codecs: one representative (ascending call numbers) is emitted.
CanonicalSched ==
  \A p \in 1 .. (Len(sched) - 1) : sched[p].e = sched[p + 1].e => sched[p].i < sched[p + 1].i
Shape(cd, v) ==
  CASE cd \in Msgs -> [ssds |-> HSsds(cd, v)]
    [] cd = "nts" -> LET p == HValT["nts"][v] IN [uid |-> Len(p.uid), ck |-> Lens(p.ck), ph |-> Lens(p.ph), pt |-> Lens(p.pt)]
    [] cd \in {"sck", "eck", "crypt"} -> LET x == HValT[cd][v] IN [n |-> x.n, xl |-> Len(x.x), yl |-> Len(x.y)]
    [] cd = "ke" -> [recs |-> HValT["ke"][v]]
CallJson(i) == [th |-> plan[i].th, op |-> plan[i].op, cd |-> plan[i].cd, src |-> plan[i].src, v |-> plan[i].v,
                sh |-> Shape(plan[i].cd, plan[i].v)]
Emit == (phase = "done" /\ CanonicalSched) =>
           PrintT(<<"CASE", ToJson([k |-> "hist", calls |-> [i \in DOMAIN plan |-> CallJson(i)], sched |-> sched])>>)

\* the case model of Wire.tla is not used here
NoInts == {}
HAll == HCodecsAll
\* k = 3: the codecs in three groups (the check takes one per seed in the quick tier)
HGrpA == {"sck", "ntp", "ke"}
HGrpB == {"eck", "nts", "reqtlv"}
HGrpC == {"crypt", "csptp", "resptlv"}
HGrpExh3 == {"sck", "nts", "ke"}
=============================================================================
