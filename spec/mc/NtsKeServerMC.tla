---------------------------- MODULE NtsKeServerMC ----------------------------
EXTENDS NtsKeServer
C1 == {1}
C2 == {1, 2}
C3 == {1, 2, 3}
KAll == AllKinds
\* one representative per class of the reader's switch
KSmall == {"np", "aX", "ck", "e1", "uc", "un", "eom"}
KTiny == {"np", "ck", "e1", "eom"}
CutsAll == {"hdr", "body"}
CutsNone == {}
EndsAll == {"half", "fin", "closed"}
EndsHalf == {"half"}
=============================================================================
