------------------------------ MODULE Listener ------------------------------
(***************************************************************************)
(* The NTP receive loops of the time server                                *)
(*   core/server/server_ip.go     runIPServer                              *)
(*   core/server/server_scion.go  runSCIONServer (UDP branch, own port)    *)
(*   net/ntp/validation.go        ValidateRequest                          *)
(*   core/server/server.go        handleRequest (reply header fields only) *)
(*   net/nts/nts.go               DecodePacket, FirstCookie, ProcessRequest*)
(*   net/ntske/cookies.go         EncryptedServerCookie.Decode / Decrypt   *)
(* as a decision pipeline over an ABSTRACT DATAGRAM plus the addressing of *)
(* the reply.  One action (Handle) per iteration of a receive loop: the    *)
(* loop body reads one datagram, drops it at the first failing stage or    *)
(* writes exactly one datagram, and shares nothing with other iterations   *)
(* except the server's timestamp store (core/server/server.go), which      *)
(* handleRequest reads and writes: the reply is computed from the datagram *)
(* AND the store.  The store is a component of the listener's state here,  *)
(* abstracted to what handleRequest / updateTXTimestamp branch on (section *)
(* 3b; the exact store, heap and timestamps are ServerStore.tla).  The     *)
(* other component is how the listener was started (section 3a): the       *)
(* interface name decides which timestamps the kernel attaches to          *)
(* datagrams, and the loop branches on their absence.                      *)
(*                                                                         *)
(* Layout (kept so that other properties can extend the module):           *)
(*   1. datagrams, payloads, trailer classes (one field per parsing        *)
(*      decision of the code)                                              *)
(*   2. SCION addressing and path reversal                                 *)
(*   3. the pipeline: stage operators in code order, DropStage             *)
(*   3a. listener configuration and ancillary data                         *)
(*   3b. the timestamp store as handleRequest sees it                      *)
(*   4. reply construction                                                 *)
(*   5. system: environment composing datagrams, listeners, network        *)
(*   6. PROPERTY SECTION (C09)                                             *)
(* Not modelled here: SPAO authentication and the forwarding branch of     *)
(* the SCION loop (C13), decoder crash sites (C08), timestamps (C06).      *)
(***************************************************************************)
EXTENDS Integers, Sequences, FiniteSets, TLC

CONSTANTS Servers,    \* listener hosts, e.g. {"A"} or {"A", "B"}
          B0s,        \* first payload bytes the environment uses (subset of 0..255)
          Shapes,     \* <<payload length, trailer class>> pairs the environment uses
          Vias,       \* <<transport, path kind>> pairs the environment uses
          MaxInject,  \* number of datagrams the environment sends
          Spoof,      \* TRUE: the environment may forge another server's source address
          Confs,      \* listener configurations the environment starts servers in (subset of ConfNames)
          Stores,     \* store classes the environment brings about (subset of StoreClassNames)
          Ancs,       \* ancillary-data classes the environment's kernel produces (subset of AncNames)
          SrcPorts,   \* source port classes the environment's senders use (subset of SrcPortNames)
          RestoreAtTop \* TRUE (the code): every loop iteration starts with buf = buf[:cap(buf)];
                      \* FALSE: the variant that restores the buffer only after a served request
                      \* (kept to show that HistoryIndependence is not vacuous)

(***************************************************************************)
(* 1. Payloads                                                             *)
(***************************************************************************)
PacketLen == 48                 \* ntp.PacketLen
BufCapIP    == 2048             \* runIPServer: buf := make([]byte, 2048)
BufCapSCION == 9188             \* runSCIONServer: make([]byte, scion.MTU), MTU = 9216 - 20 - 8
ExtMin    == 28                 \* nts.DecodePacket: for len(b)-pos >= 28 ...
UidFieldLen    == 36            \* 4 + 32-byte unique identifier
CookieFieldLen == 128           \* 4 + 124-byte encrypted cookie (ntske cookies.go)
AuthFieldLen   == 40            \* 4 + 2 + 2 + 16 (nonce) + 16 (tag), empty plaintext

LI(b)   == b \div 64            \* (LVM >> 6) & 3
VN(b)   == (b \div 8) % 8       \* (LVM >> 3) & 7
Mode(b) == b % 8                \*  LVM & 7
LVM(li, vn, mode) == 64 * li + 8 * vn + mode

\* What follows the 48-byte header, as the outcome of every decision the
\* server takes on it.  Bytes that no decision depends on are not modelled.
\*   walk   the extension-field loop of nts.DecodePacket is entered (>= 28 bytes)
\*   ext    "ok" | "lt4": the first field the walk meets has Length < 4
\*   uid    unique-identifier field before the authenticator: "none" | "ok" |
\*          "short" (Length < 4 + 32)
\*   auth   "none" no authenticator field | "ok" seals header+fields under the
\*          cookie's C2S key | "badmac" tag altered | "wrongkey" sealed under a key
\*          that is not the cookie's C2S key | "adtamper" a header byte changed after
\*          sealing | "badnonce" nonce length field # 16
\*   cookie first cookie field: "none" | "ok" (decodes, key id known, decrypts) |
\*          "unkkey" (key id not held by the provider) | "badct" (ciphertext altered) |
\*          "undecodable" (4 bytes that are no id/nonce/ciphertext TLV list)
\*   nck    number of cookie + cookie placeholder fields (the reply carries as many cookies)
\*   after  bytes follow the authenticator field (never looked at by the code)
NoTr == [walk |-> FALSE, ext |-> "ok", uid |-> "none", auth |-> "none", cookie |-> "none", nck |-> 0, after |-> FALSE]
Nts(a, c) == [walk |-> TRUE, ext |-> "ok", uid |-> "ok", auth |-> a, cookie |-> c, nck |-> 1, after |-> FALSE]

TrailerNames == {"none", "short", "garbage", "uid_only", "no_uid", "no_cookie",
                 "nts_ok", "nts_ok_ph", "nts_badmac", "nts_wrongkey", "nts_adtamper",
                 "nts_unkkey", "nts_badcookie", "nts_after", "nts_resp",
                 \* rejected cleanly since the decoder fixes (before: endless loop / panic)
                 "ext_lt4", "uid_short", "cookie_short", "nonce_bad"}

Trailer(c) ==
  CASE c = "none"          -> NoTr
    [] c = "short"         -> NoTr                                 \* 1..27 bytes, any content
    [] c = "garbage"       -> [NoTr EXCEPT !.walk = TRUE]          \* fields of unknown type only
    [] c = "uid_only"      -> [NoTr EXCEPT !.walk = TRUE, !.uid = "ok"]
    [] c = "no_uid"        -> [Nts("ok", "ok") EXCEPT !.uid = "none"]
    [] c = "ext_lt4"       -> [NoTr EXCEPT !.walk = TRUE, !.ext = "lt4"]
    [] c = "uid_short"     -> [NoTr EXCEPT !.walk = TRUE, !.uid = "short"]
    [] c = "cookie_short"  -> Nts("ok", "undecodable")
    [] c = "nonce_bad"     -> Nts("badnonce", "ok")
    [] c = "no_cookie"     -> [Nts("ok", "none") EXCEPT !.nck = 0]
    [] c = "nts_ok"        -> Nts("ok", "ok")
    [] c = "nts_ok_ph"     -> [Nts("ok", "ok") EXCEPT !.nck = 3]   \* one cookie, two placeholders
    [] c = "nts_badmac"    -> Nts("badmac", "ok")
    [] c = "nts_wrongkey"  -> Nts("wrongkey", "ok")
    [] c = "nts_adtamper"  -> Nts("adtamper", "ok")
    [] c = "nts_unkkey"    -> Nts("ok", "unkkey")
    [] c = "nts_badcookie" -> Nts("ok", "badct")
    [] c = "nts_after"     -> [Nts("ok", "ok") EXCEPT !.after = TRUE]
    \* an NTS *response* (nts.NewResponsePacket): uid, authenticator under S2C,
    \* the cookies are inside the ciphertext - no cookie field in the clear
    [] c = "nts_resp"      -> [Nts("wrongkey", "none") EXCEPT !.nck = 0]

\* shortest datagram that can have a given trailer class; longer ones carry an
\* additional extension field of unknown type in front (skipped by the decoder,
\* covered by the authenticator)
NatLen(c) ==
  LET t == Trailer(c)
  IN PacketLen + (IF t.ext = "lt4" THEN ExtMin ELSE 0)
     + (CASE t.uid = "ok" -> UidFieldLen [] t.uid = "short" -> ExtMin [] OTHER -> 0)
     + (IF t.nck = 0 THEN 0
        ELSE (IF t.cookie = "undecodable" THEN 8 ELSE CookieFieldLen) + CookieFieldLen * (t.nck - 1))
     + (IF t.auth # "none" THEN AuthFieldLen ELSE 0) + (IF t.after THEN ExtMin ELSE 0)

ShapeOK(len, c) ==
  CASE c = "none"     -> len <= PacketLen
    [] c = "short"    -> PacketLen < len /\ len < PacketLen + ExtMin
    [] c = "garbage"  -> len >= PacketLen + ExtMin /\ (len - PacketLen) % 4 = 0
    [] c = "nts_resp" -> FALSE          \* only listeners produce it
    [] OTHER          -> len = NatLen(c) \/ (len >= NatLen(c) + ExtMin /\ (len - NatLen(c)) % 4 = 0)

\* payload: first byte, length, trailer class, stratum byte (-1: not fixed by the model)
Payload(b0, len, c) == [b0 |-> b0, len |-> len, tr |-> c, st |-> -1]

(***************************************************************************)
(* 2. Addresses; SCION header projection and path reversal                 *)
(***************************************************************************)
Client == "C"
Hosts  == Servers \cup {Client}
\* underlay (UDP/IP) endpoint
EP(h, p)  == [h |-> h, p |-> p]
\* where listener s receives datagrams of transport tp
ListenEP(s, tp) == EP(s, IF tp = "ip" THEN "ntp" ELSE "sntp")
ClientEP        == EP(Client, "eph")
\* The sender's UDP source port (over SCION: the underlay source port and the
\* SCION/UDP source port, which an end host sets alike).  The statement
\* quantifies over all senders; the listeners pass the port to
\* ntp.ValidateRequest and address the reply to it.  Classes:
\*   "eph"    an ephemeral port (what a client's unbound socket gets)
\*   "p123"   the NTP port itself, ntp.ServerPortIP (ntpdate, ntpd, chrony with
\*            acquisitionport 123, another server's symmetric association)
\*   "priv"   some other privileged port (< 1024)
\*   "lport"  the port NUMBER of the addressed listener, on the sender's own address
SrcPortNames == {"eph", "p123", "priv", "lport"}
\* the port a sender of class c uses towards listener s over transport tp
SrcPortOf(c, s, tp) == IF c = "lport" THEN ListenEP(s, tp).p ELSE c
IAof(h)         == "ia" \o h

Seg(cons, sid, hops) == [cons |-> cons, sid |-> sid, hops |-> hops]
EmptyPath == [kind |-> "empty", ci |-> 0, ch |-> 0, segs |-> << >>]
PathKinds == {"empty", "s1", "s2", "s2m", "s3"}
\* the paths used as requests' paths: current hop = last hop (arrived), except s2m
PathOf(k) ==
  CASE k = "empty" -> EmptyPath
    [] k = "s1"  -> [kind |-> "scion", ci |-> 0, ch |-> 1, segs |-> <<Seg(TRUE, 11, <<1, 2>>)>>]
    [] k = "s2"  -> [kind |-> "scion", ci |-> 1, ch |-> 4,
                     segs |-> <<Seg(FALSE, 11, <<1, 2, 3>>), Seg(TRUE, 12, <<4, 5>>)>>]
    [] k = "s2m" -> [kind |-> "scion", ci |-> 0, ch |-> 1,
                     segs |-> <<Seg(FALSE, 11, <<1, 2, 3>>), Seg(TRUE, 12, <<4, 5>>)>>]
    [] k = "s3"  -> [kind |-> "scion", ci |-> 2, ch |-> 6,
                     segs |-> <<Seg(FALSE, 11, <<1, 2>>), Seg(FALSE, 12, <<3, 4, 5>>), Seg(TRUE, 13, <<6, 7>>)>>]

RevSeq(s) == [i \in 1 .. Len(s) |-> s[Len(s) + 1 - i]]
RECURSIVE SumLen(_)
SumLen(segs) == IF segs = << >> THEN 0 ELSE Len(Head(segs).hops) + SumLen(Tail(segs))

\* slayers/path/scion Decoded.Reverse (empty.Path.Reverse is the identity):
\* info fields and segment lengths in reverse order, every ConsDir flipped, all
\* hop fields in reverse order, CurrINF/CurrHF mirrored
Reverse(p) ==
  IF p.kind = "empty" THEN p
  ELSE [kind |-> p.kind,
        ci   |-> Len(p.segs) - p.ci - 1,
        ch   |-> SumLen(p.segs) - p.ch - 1,
        segs |-> RevSeq([i \in DOMAIN p.segs |->
                           Seg(~p.segs[i].cons, p.segs[i].sid, RevSeq(p.segs[i].hops))])]

\* SCION common/address header + L4 ports, as far as the listener uses them
\* a SCION host address is (type, bytes): st/dt are the address types ("v4" =
\* T4Ip, "v6" = T16Ip), sh/dh name the host the bytes belong to.  The types of
\* source and destination are independent of each other and of the underlay.
Fams == {"44", "66", "46", "64"}        \* <source type><destination type>
AType(c) == IF c = "4" THEN "v4" ELSE "v6"
ALen(t)  == IF t = "v4" THEN 4 ELSE 16
NoSc == [sia |-> "-", sh |-> "-", st |-> "-", sp |-> "-", dia |-> "-", dh |-> "-", dt |-> "-", dp |-> "-", path |-> EmptyPath]
Sc(sh, sp, dh, dp, path, fam) ==
  [sia |-> IAof(sh), sh |-> sh, st |-> AType(SubSeq(fam, 1, 1)), sp |-> sp,
   dia |-> IAof(dh), dh |-> dh, dt |-> AType(SubSeq(fam, 2, 2)), dp |-> dp, path |-> path]
\* scionLayer.DstIA, SrcIA = SrcIA, DstIA; DstAddrType, SrcAddrType likewise;
\* RawDstAddr, RawSrcAddr likewise; Path.Reverse(); udpLayer.DstPort, SrcPort = SrcPort, DstPort
SwapSc(sc) ==
  [sia |-> sc.dia, sh |-> sc.dh, st |-> sc.dt, sp |-> sc.dp,
   dia |-> sc.sia, dh |-> sc.sh, dt |-> sc.st, dp |-> sc.sp, path |-> Reverse(sc.path)]
\* SCION header length: common 12 + IAs 16 + host addresses + path
PathLen(p) == IF p.kind = "empty" THEN 0 ELSE 4 + 8 * Len(p.segs) + 12 * SumLen(p.segs)

\* a datagram on the wire: transport, underlay source and destination, SCION
\* header (NoSc over IP), NTP payload, and two facts about it that the
\* listener's loop branches on:
\*   il   its origin timestamp field is the receive timestamp of an earlier
\*        reply to this client and its receive and transmit fields differ
\*        (an interleaved-mode request; whether the server still has that
\*        exchange on record is the store's business)
\*   anc  what the receiving kernel attaches to it: "ts" a receive-timestamp
\*        control message | "none" no such control message (not part of the
\*        datagram proper: see Wire)
Dgram(tp, src, dst, sc, pl) == [tp |-> tp, src |-> src, dst |-> dst, sc |-> sc, pl |-> pl, il |-> FALSE, anc |-> "ts"]
Wire(d) == [d EXCEPT !.anc = "ts"]
\* size of the UDP datagram the listener's socket receives
WireLen(d) ==
  IF d.tp = "ip" THEN d.pl.len
  ELSE 12 + 16 + ALen(d.sc.st) + ALen(d.sc.dt) + PathLen(d.sc.path) + 8 + d.pl.len
BufCap(tp) == IF tp = "ip" THEN BufCapIP ELSE BufCapSCION

(***************************************************************************)
(* 3. The pipeline, in the order of the code.  Each operator is TRUE when  *)
(*    the stage lets the datagram pass.                                    *)
(***************************************************************************)
\* ReadMsgUDPAddrPort(buf, oob) into a buffer slice of `avail` bytes:
\* a longer datagram is cut, flags = MSG_TRUNC, `flags != 0 => continue`
StRead(d, avail) == WireLen(d) <= avail
\* SCION only: layers decode to SCION/UDP, udpLayer.Length fits, the L4
\* destination port is the listener's own port (otherwise: forward or drop)
StScion(s, d) == d.tp = "ip" \/ d.sc.dp = ListenEP(s, "scion").p
\* ntp.DecodePacket: len(b) < PacketLen => error
StNtpDecode(d) == d.pl.len >= PacketLen
\* the whole `if len(buf) > ntp.PacketLen { ... }` block; returns the name of
\* the call that fails, "pass" if none does
NtsOutcome(pl) ==
  LET t == Trailer(pl.tr)
  IN IF pl.len <= PacketLen THEN "pass"                          \* block not entered
     ELSE IF ~t.walk THEN "nts.DecodePacket:errNoUniqueID"
     ELSE IF t.ext = "lt4" THEN "nts.DecodePacket:errUnexpectedExtHdrLength"
     ELSE IF t.uid = "short" THEN "nts.DecodePacket:errShortUniqueID"
     ELSE IF t.uid = "none" THEN "nts.DecodePacket:errNoUniqueID"
     ELSE IF t.auth = "none" THEN "nts.DecodePacket:errNoAuthenticator"
     ELSE IF t.cookie = "none" THEN "FirstCookie"
     ELSE IF t.cookie = "undecodable" THEN "EncryptedServerCookie.Decode"
     ELSE IF t.cookie = "unkkey" THEN "provider.Get"
     ELSE IF t.cookie = "badct" THEN "EncryptedServerCookie.Decrypt"
     ELSE IF t.auth # "ok" THEN "nts.ProcessRequest"
     ELSE "pass"
StNts(d) == NtsOutcome(d.pl) = "pass"
\* ntp.ValidateRequest(req, srcPort), statement by statement (TRUE = returns
\* nil); no statement of the function reads srcPort
ValidateRequest(b, srcPort) ==
  LET li == LI(b) vn == VN(b) mode == Mode(b)
  IN /\ ~(li # 0 /\ li # 3)
     /\ ~(vn < 1 \/ 4 < vn)
     /\ ~((vn = 1 /\ mode # 0) \/ (vn # 1 /\ mode # 3))
\* runIPServer: srcAddr.Port(); runSCIONServer: udpLayer.SrcPort
L4SrcPort(d) == IF d.tp = "ip" THEN d.src.p ELSE d.sc.sp
StValidate(d) == ValidateRequest(d.pl.b0, L4SrcPort(d))

\* rxt, err := udp.TimestampFromOOBData(oob); if err != nil { rxt = timebase.Now() }:
\* where the receive time comes from.  Both branches go on (TRUE = the stage
\* lets the datagram pass, whatever accompanies it).
RxTimeSource(anc) == IF anc = "ts" THEN "kernel" ELSE "clock"
StStamp(anc) == RxTimeSource(anc) \in {"kernel", "clock"}

\* with `avail` bytes of receive buffer and ancillary data `anc`
DropStageB(s, d, avail, anc) ==
  IF ~StRead(d, avail) THEN "read"
  ELSE IF ~StStamp(anc) THEN "rxtimestamp"
  ELSE IF ~StScion(s, d) THEN "scion"
  ELSE IF ~StNtpDecode(d) THEN "ntp.DecodePacket"
  ELSE IF ~StNts(d) THEN NtsOutcome(d.pl)
  ELSE IF ~StValidate(d) THEN "ntp.ValidateRequest"
  ELSE "none"
\* with the whole buffer (what the code's loop guarantees at every iteration)
\* and a receive timestamp from the kernel
DropStage(s, d) == DropStageB(s, d, BufCap(d.tp), "ts")
Accepts(s, d) == DropStage(s, d) = "none"

(***************************************************************************)
(* 3a. How a listener was started, and what then accompanies a datagram.   *)
(*   StartIPServer / StartSCIONServer(.., localHost, ..) pass localHost.Zone*)
(*   as the interface name to udp.EnableTimestamping:                       *)
(*   "sw"  iface = "": SOF_TIMESTAMPING_{RX,TX}_SOFTWARE. Every datagram    *)
(*         arrives with a receive-timestamp control message (the kernel may *)
(*         sporadically omit it: anc = "none"); the transmit timestamp of   *)
(*         the reply is read from the error queue.                          *)
(*   "hw"  iface named: SOF_TIMESTAMPING_{RX,TX}_HARDWARE only (the errors  *)
(*         of initNetworkInterface are swallowed). On an interface without  *)
(*         hardware clock no datagram carries a receive timestamp and no    *)
(*         transmit timestamp ever appears on the error queue.              *)
(*   Control data is never truncated (MSG_CTRUNC would be `flags != 0`):    *)
(*   oob has room for udp.TimestampLen() bytes and the timestamp is the     *)
(*   only control message the socket options of the listener enable.        *)
(***************************************************************************)
ConfNames == {"sw", "hw"}
AncNames  == {"ts", "none"}
\* what the loop of a listener in configuration cf finds next to a datagram
\* that the kernel would hand over with `anc`
AncAt(cf, anc) == IF cf = "hw" THEN "none" ELSE anc
\* udp.ReadTXTimestamp after the reply has been written fails
TxLost(cf) == cf = "hw"

(***************************************************************************)
(* 3b. The timestamp store (tss, tssQ of server.go; one per process, shared *)
(*   by all listeners of a server) as far as handleRequest and              *)
(*   updateTXTimestamp branch on it:                                        *)
(*     rec[c]  number of exchanges on record for client c (0: no item)      *)
(*     lru     the clients of the model that have an item, least recently   *)
(*             active first (the order of tssQ among them)                  *)
(*     fill    the items of clients outside the model ("fillers"):          *)
(*             "none" | "old": their newest receive times lie before every  *)
(*             request of the model (they are evicted first; 2^20 of them:  *)
(*             an inexhaustible supply) | "fresh": after every request of   *)
(*             the model (tssQ[0].qval.After(rxt64): never evicted)         *)
(*     free    tssCap - len(tss), capped at FreeMany                        *)
(*   Client identity: the source address (IP), "<IA>,<host address>" (SCION)*)
(***************************************************************************)
ItemCap  == 8                   \* tssItemCap
FreeMany == 4                   \* "more free slots than the model ever uses"
ScID(h, t) == IAof(h) \o "," \o t \o "," \o h
CID(d) == IF d.tp = "ip" THEN d.src.h ELSE ScID(d.sc.sh, d.sc.st)
ClientIDs == Hosts \cup {ScID(h, t) : h \in Hosts, t \in {"v4", "v6"}}

EmptyStore == [rec |-> [x \in ClientIDs |-> 0], lru |-> << >>, fill |-> "none", free |-> FreeMany]

\* Store classes: the state of the store, relative to the client of the
\* arriving request, that other clients' traffic and this client's earlier
\* exchanges have brought about.
KNames  == <<"k1", "k2", "k3", "k4", "k5", "k6", "k7", "k8">>
IlNames == <<"il1", "il2", "il3", "il4", "il5", "il6", "il7", "il8">>
StoreClassNames == {"asis", "new", "full_evict", "full_stuck", "full_k3"}
                   \cup {KNames[i] : i \in 1 .. ItemCap} \cup {IlNames[i] : i \in 1 .. ItemCap}
\*   k     exchanges of this client on record
\*   il    the request refers to one of them (interleaved mode)
\*   full  len(tss) = tssCap;  fill: see above
Class(k, il, full, fill) == [k |-> k, il |-> il, full |-> full, fill |-> fill]
ClassOf(n) ==
  IF \E i \in 1 .. ItemCap : KNames[i] = n
  THEN Class(CHOOSE i \in 1 .. ItemCap : KNames[i] = n, FALSE, FALSE, "none")
  ELSE IF \E i \in 1 .. ItemCap : IlNames[i] = n
  THEN Class(CHOOSE i \in 1 .. ItemCap : IlNames[i] = n, TRUE, FALSE, "none")
  ELSE CASE n = "full_evict" -> Class(0, FALSE, TRUE, "old")     \* new client, store full, oldest item evictable
         [] n = "full_stuck" -> Class(0, FALSE, TRUE, "fresh")   \* new client, store full, nothing evictable
         [] n = "full_k3"    -> Class(3, FALSE, TRUE, "fresh")   \* known client, store full
         [] OTHER            -> Class(0, FALSE, FALSE, "none")   \* "new" (and "asis": store left as it is)
StoreInClass(n, c) ==
  LET cl == ClassOf(n)
  IN [rec  |-> [x \in ClientIDs |-> IF x = c THEN cl.k ELSE 0],
      lru  |-> IF cl.k > 0 THEN <<c>> ELSE << >>,
      fill |-> cl.fill,
      free |-> IF cl.full THEN 0 ELSE FreeMany]

Without(q, c) == SelectSeq(q, LAMBDA x : x # c)
\* handleRequest on the store, for an accepted request d of client c
\*   known:   `tssi, ok := tss[clientID]`
\*   unknown: `if len(tss) == tssCap && !tssQ[0].qval.After(rxt64)` evict the
\*            least recently active item; `if len(tss) == tssCap { tssi = nil }`
\*            (served without a record) `else` create the item
Known(st, c)     == st.rec[c] > 0
Full(st)         == st.free = 0
Victim(st)       == IF st.fill = "old" THEN "filler" ELSE IF st.lru # << >> THEN Head(st.lru) ELSE "nobody"
Evicts(st, c)    == ~Known(st, c) /\ Full(st) /\ Victim(st) # "nobody"
Stateless(st, c) == ~Known(st, c) /\ Full(st) /\ Victim(st) = "nobody"
\* `req.ReceiveTime != req.TransmitTime && o != -1`: reply from the record
Interleaved(st, d) == d.il /\ Known(st, CID(d))
\* which field of the request the reply's origin timestamp repeats
ReplyOrigin(st, d) == IF Interleaved(st, d) THEN "rx" ELSE "tx"

HandleStore(st, d) ==
  LET c    == CID(d)
      k    == st.rec[c]
      v    == Victim(st)
      ev   == Evicts(st, c)
      rec1 == IF ev /\ v # "filler" THEN [st.rec EXCEPT ![v] = 0] ELSE st.rec
      lru1 == IF ev /\ v # "filler" THEN Tail(st.lru) ELSE st.lru
      \* interleaved: the record of the exchange referred to is overwritten;
      \* item full: the oldest pair is overwritten; otherwise a pair is added
      k1   == IF ~Known(st, c) THEN 1 ELSE IF Interleaved(st, d) \/ k = ItemCap THEN k ELSE k + 1
  IN IF Stateless(st, c) THEN st
     ELSE [rec  |-> [rec1 EXCEPT ![c] = k1],
           lru  |-> Append(Without(lru1, c), c),          \* new maximum receive time: heap.Fix / heap.Push
           fill |-> st.fill,
           free |-> IF ~Known(st, c) /\ ~Full(st) THEN st.free - 1 ELSE st.free]
\* updateTXTimestamp(clientID, rxt, &txt1) with txt1 = txt0 (no transmit
\* timestamp could be read): the pair recorded by handleRequest is removed
\* again, and the item with it if it was the only pair.  st0: the store
\* before handleRequest (the client's rank in tssQ falls back to where it was).
UpdateLost(st0, st, d) ==
  LET c  == CID(d)
      k2 == st.rec[c] - 1
      v  == Victim(st0)
      lru0 == IF Evicts(st0, c) /\ v # "filler" THEN Tail(st0.lru) ELSE st0.lru
  IN IF Stateless(st0, c) THEN st
     ELSE [rec  |-> [st.rec EXCEPT ![c] = k2],
           lru  |-> IF k2 = 0 THEN Without(st.lru, c) ELSE lru0,
           fill |-> st.fill,
           free |-> IF k2 = 0 /\ st.free < FreeMany THEN st.free + 1 ELSE st.free]
\* one served request: handleRequest, write, updateTXTimestamp
ServeStore(st, d, cf) ==
  LET h == HandleStore(st, d) IN IF TxLost(cf) THEN UpdateLost(st, h, d) ELSE h

(***************************************************************************)
(* 4. Reply construction (handleRequest + the encode/serialize/write tail) *)
(***************************************************************************)
\* var ntpresp ntp.Packet (zero: LI = 0); SetVersion(VersionMax); SetMode(ModeServer); Stratum = 1
ReplyB0 == LVM(0, 4, 4)
\* nts.NewResponsePacket: uid + authenticator whose ciphertext holds nck cookie fields
RespLen(pl) ==
  IF pl.len > PacketLen
  THEN PacketLen + UidFieldLen + (AuthFieldLen + CookieFieldLen * Trailer(pl.tr).nck)
  ELSE PacketLen
ReplyPl(pl) == [b0 |-> ReplyB0, len |-> RespLen(pl),
                tr |-> IF pl.len > PacketLen THEN "nts_resp" ELSE "none", st |-> 1]
\* conn.WriteToUDPAddrPort(buf, srcAddr) / (buffer.Bytes(), lastHop): from the
\* listener's socket to the underlay source of the request
Reply(s, d) ==
  Dgram(d.tp, ListenEP(s, d.tp), d.src, IF d.tp = "scion" THEN SwapSc(d.sc) ELSE NoSc, ReplyPl(d.pl))
RepliesB(s, d, avail, anc) == IF DropStageB(s, d, avail, anc) = "none" THEN <<Reply(s, d)>> ELSE << >>
\* the reply decision as a function of the datagram alone
Replies(s, d) == RepliesB(s, d, BufCap(d.tp), "ts")

(***************************************************************************)
(* 5. System: an environment that composes datagrams field by field (one   *)
(*    choice per step, so that TLC spreads the enumeration), a network     *)
(*    (bag of datagrams in flight) and one Handle action per listener.     *)
(***************************************************************************)
VARIABLES draft,   \* the datagram being composed by the environment
          net,     \* datagrams in flight (sequence used as a bag)
          hist,    \* observation: one event [srv, d, out] per loop iteration
          nsent,   \* datagrams ever put on the network (by anyone)
          ninj,    \* datagrams the environment has sent
          blen,    \* [listener, transport] -> len(buf) of the receive loop when it
                   \* comes back to the top (one socket per listener and transport;
                   \* the 8 SO_REUSEPORT sockets are independent copies of this)
          conf,    \* [listener] -> how its receive loops were started (section 3a)
          store    \* [listener] -> its timestamp store (section 3b)
vars == <<draft, net, hist, nsent, ninj, blen, conf, store>>

Idle == [stage |-> "idle", b0 |-> 0, len |-> 0, tr |-> "none", tp |-> "ip", pk |-> "empty", fam |-> "44",
         from |-> Client, to |-> Client, sc |-> "asis", anc |-> "ts", sp |-> "eph"]

Init == /\ draft = Idle /\ net = << >> /\ hist = << >> /\ nsent = 0 /\ ninj = 0
        /\ blen = [x \in Servers \X {"ip", "scion"} |-> BufCap(x[2])]
        /\ conf \in [Servers -> Confs]
        /\ store = [s \in Servers |-> EmptyStore]

\* first the circumstances under which the datagram will arrive: the class
\* the addressee's store is in by then, and what the addressee's kernel
\* attaches to the datagram
ChooseEnv ==
  /\ draft.stage = "idle" /\ ninj < MaxInject
  /\ \E c \in Stores, a \in Ancs : draft' = [Idle EXCEPT !.stage = "env", !.sc = c, !.anc = a]
  /\ UNCHANGED <<net, hist, nsent, ninj, blen, conf, store>>
ChooseB0 ==
  /\ draft.stage = "env"
  /\ \E b \in B0s : draft' = [draft EXCEPT !.stage = "b0", !.b0 = b]
  /\ UNCHANGED <<net, hist, nsent, ninj, blen, conf, store>>
ChooseShape ==
  /\ draft.stage = "b0"
  /\ \E sh \in Shapes : draft' = [draft EXCEPT !.stage = "shape", !.len = sh[1], !.tr = sh[2]]
  /\ UNCHANGED <<net, hist, nsent, ninj, blen, conf, store>>
ChooseVia ==
  /\ draft.stage = "shape"
  /\ \E v \in Vias : draft' = [draft EXCEPT !.stage = "via", !.tp = v[1], !.pk = v[2], !.fam = v[3]]
  /\ UNCHANGED <<net, hist, nsent, ninj, blen, conf, store>>
\* destination: some listener; source: the client's own address, from a port
\* of one of the classes SrcPorts, or, when spoofing, the address (and listener
\* port) of another listener
ChooseAddr ==
  /\ draft.stage = "via"
  /\ \E t \in Servers :
       \/ \E p \in SrcPorts :
            draft' = [draft EXCEPT !.stage = "addr", !.from = Client, !.to = t, !.sp = p]
       \/ \E f \in (IF Spoof THEN Servers \ {t} ELSE {}) :
            draft' = [draft EXCEPT !.stage = "addr", !.from = f, !.to = t]
  /\ UNCHANGED <<net, hist, nsent, ninj, blen, conf, store>>

DraftDgram(x) ==
  LET srcEP == IF x.from = Client THEN EP(Client, SrcPortOf(x.sp, x.to, x.tp)) ELSE ListenEP(x.from, x.tp)
      dstEP == ListenEP(x.to, x.tp)
  IN [Dgram(x.tp, srcEP, dstEP,
            IF x.tp = "scion" THEN Sc(x.from, srcEP.p, x.to, dstEP.p, PathOf(x.pk), x.fam) ELSE NoSc,
            Payload(x.b0, x.len, x.tr))
      EXCEPT !.il = ClassOf(x.sc).il, !.anc = x.anc]

\* the datagram goes on the wire; by the time it arrives, the requests of
\* other clients and this client's earlier exchanges have put the
\* addressee's store into class x.sc ("asis": they have not touched it)
Inject ==
  /\ draft.stage = "addr"
  /\ net' = Append(net, DraftDgram(draft))
  /\ store' = IF draft.sc = "asis" THEN store
              ELSE [store EXCEPT ![draft.to] = StoreInClass(draft.sc, CID(DraftDgram(draft)))]
  /\ draft' = Idle
  /\ nsent' = nsent + 1 /\ ninj' = ninj + 1
  /\ UNCHANGED <<hist, blen, conf>>

RemoveAt(q, i) == SubSeq(q, 1, i - 1) \o SubSeq(q, i + 1, Len(q))

\* one iteration of a receive loop of listener s:
\*   buf = buf[:cap(buf)]                 (RestoreAtTop)
\*   n, _, flags, src := ReadMsgUDPAddrPort(buf, oob); flags != 0 => continue
\*   rxt from the control message or from the clock
\*   buf = buf[:n]; ... stages ...; handleRequest (store); IP: EncodePacket(&buf, ..)
\*   re-slices buf to the reply
\*   write; updateTXTimestamp (store)
Handle(s) ==
  \E i \in DOMAIN net :
    /\ net[i].dst = ListenEP(s, net[i].tp)
    /\ LET d     == net[i]
           cap   == BufCap(d.tp)
           avail == IF RestoreAtTop THEN cap ELSE blen[<<s, d.tp>>]
           anc   == AncAt(conf[s], d.anc)
           out   == RepliesB(s, d, avail, anc)
           n     == IF WireLen(d) <= avail THEN WireLen(d) ELSE avail
           left  == IF out # << >> /\ ~RestoreAtTop THEN cap          \* the variant restores here
                    ELSE IF ~StRead(d, avail) THEN avail               \* `continue` before buf = buf[:n]
                    ELSE IF out # << >> /\ d.tp = "ip" THEN out[1].pl.len
                    ELSE n
       IN /\ net' = RemoveAt(net, i) \o out
          /\ hist' = Append(hist, [srv |-> s, d |-> d, out |-> out])
          /\ nsent' = nsent + Len(out)
          /\ blen' = [blen EXCEPT ![<<s, d.tp>>] = left]
          \* only a request that passed every stage reaches handleRequest
          /\ store' = IF out # << >> THEN [store EXCEPT ![s] = ServeStore(store[s], d, conf[s])] ELSE store
    /\ UNCHANGED <<draft, ninj, conf>>

Next == ChooseEnv \/ ChooseB0 \/ ChooseShape \/ ChooseVia \/ ChooseAddr \/ Inject \/ \E s \in Servers : Handle(s)
Spec == Init /\ [][Next]_vars

(***************************************************************************)
(* 6. PROPERTY SECTION (C09).  Stated on events e = [srv, d, out]: the     *)
(*    datagram a listener took from its socket and the datagrams it sent   *)
(*    before taking the next one.  Uses only what the statement mentions.  *)
(***************************************************************************)
\* "leap indicator 0 or 3, version 2-4 with mode 3 or version 1 with mode 0"
ValidFirst(b) ==
  /\ LI(b) \in {0, 3}
  /\ ((VN(b) \in 2 .. 4 /\ Mode(b) = 3) \/ (VN(b) = 1 /\ Mode(b) = 0))
\* "a valid NTS request": identified, carrying a cookie this server issued under
\* a key it still holds, authenticated under that cookie's client-to-server key
ValidNts(t) == t.walk /\ t.ext = "ok" /\ t.uid = "ok" /\ t.cookie = "ok" /\ t.auth = "ok"
\* "a well-formed client request"
Valid(pl) ==
  /\ pl.len >= PacketLen
  /\ ValidFirst(pl.b0)
  /\ (pl.len = PacketLen \/ ValidNts(Trailer(pl.tr)))
\* The statement does not say whether bytes after the authenticator make an
\* otherwise valid NTS request invalid; such datagrams are not judged.
Judged(pl) == ~Trailer(pl.tr).after

ReplyIffValidEv(e) == Judged(e.d.pl) => ((Len(e.out) > 0) <=> Valid(e.d.pl))
ExactlyOneEv(e)    == Judged(e.d.pl) => Len(e.out) = (IF Valid(e.d.pl) THEN 1 ELSE 0)
\* to the sender's address and port; over SCION back along the reversed path
\* with addresses and ports exchanged
ToSenderEv(e) ==
  \A i \in DOMAIN e.out :
    LET r == e.out[i]
    IN /\ r.dst = e.d.src
       /\ e.d.tp = "scion" =>
            /\ r.sc.path = Reverse(e.d.sc.path)
            /\ r.sc.dia = e.d.sc.sia /\ r.sc.dt = e.d.sc.st /\ r.sc.dh = e.d.sc.sh /\ r.sc.dp = e.d.sc.sp
            /\ r.sc.sia = e.d.sc.dia /\ r.sc.st = e.d.sc.dt /\ r.sc.sh = e.d.sc.dh /\ r.sc.sp = e.d.sc.dp
\* "every reply is a version-4, server-mode, stratum-1 packet"
ReplyHeaderEv(e) ==
  \A i \in DOMAIN e.out :
    LET r == e.out[i].pl
    IN r.len >= PacketLen /\ LI(r.b0) = 0 /\ VN(r.b0) = 4 /\ Mode(r.b0) = 4 /\ r.st = 1
\* "a listener never answers a reply"
NeverAnswersReplyEv(e) ==
  (e.d.pl.len >= PacketLen /\ VN(e.d.pl.b0) = 4 /\ Mode(e.d.pl.b0) = 4) => Len(e.out) = 0

ReplyIffValid      == \A k \in DOMAIN hist : ReplyIffValidEv(hist[k])
ExactlyOne         == \A k \in DOMAIN hist : ExactlyOneEv(hist[k])
ToSender           == \A k \in DOMAIN hist : ToSenderEv(hist[k])
ReplyHeader        == \A k \in DOMAIN hist : ReplyHeaderEv(hist[k])
NeverAnswersReply  == \A k \in DOMAIN hist : NeverAnswersReplyEv(hist[k])

\* History independence: what a listener does with a datagram is a function of
\* that datagram alone - in particular a datagram it dropped (or served) does
\* not influence the handling of the next one, nor does the state of the
\* timestamp store, nor what the kernel attaches to the datagram.  (Together
\* with ReplyIffValid on histories of several datagrams: a valid request is
\* answered whatever the listener has seen before.  The events of hist range
\* over every listener configuration, store class, ancillary-data class and
\* source port class the environment produces; the clauses above mention none of them because the
\* statement does not: "for each UDP payload that is a well-formed client
\* request", "every reply".)
HistoryIndependence ==
  \A j, k \in DOMAIN hist :
    (hist[j].srv = hist[k].srv /\ Wire(hist[j].d) = Wire(hist[k].d)) => Len(hist[j].out) = Len(hist[k].out)
\* (not part of the property: sanity of the store abstraction of section 3b)
StoreSane ==
  \A s \in Servers :
    LET st == store[s]
    IN /\ \A c \in ClientIDs : st.rec[c] \in 0 .. ItemCap
       /\ st.free \in 0 .. FreeMany
       /\ {st.lru[i] : i \in DOMAIN st.lru} = {c \in ClientIDs : st.rec[c] > 0}
       /\ Len(st.lru) = Cardinality({c \in ClientIDs : st.rec[c] > 0})
\* the receive-timestamp stage lets every datagram pass
StampNeverDrops == \A a \in AncNames : StStamp(a)

\* Reflection lemma, over the complete first-byte space: whatever valid request
\* triggered it, the first byte of the reply is not the first byte of a valid request.
Reflection == \A b \in 0 .. 255 : ValidFirst(b) => ~ValidFirst(ReplyB0)
\* the pipeline's header test is the statement's header test, on all 256 bytes
HeaderTestExact == \A b \in 0 .. 255 : \A p \in SrcPortNames \cup {"ntp", "sntp"} : ValidateRequest(b, p) <=> ValidFirst(b)

\* "two servers cannot be made to answer each other": each datagram the
\* environment sends (even with another server's address as its source) causes
\* at most one further datagram, ever
BoundedTraffic == nsent <= 2 * ninj
=============================================================================
