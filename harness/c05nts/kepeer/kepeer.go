// Package kepeer is a scripted NTS-KE (RFC 8915 section 4) peer over TLS 1.3 for
// the C05 drivers: per plan it lets the key exchange of the real ntske.Fetcher
// succeed or fail in one of the ways of spec/NtpAcceptAssoc.tla (KeOutcomes).
// Record vocabulary and structure follow the scripted peer of harness/c20
// (c20_test.go: rec / build / handle), reduced to what C05 needs: no stalls, no
// model projection.  On success the cookies come from the caller (mint), so
// that the project's own NTP server accepts them.
package kepeer

import (
	"crypto/tls"
	"encoding/binary"
	"io"
	mrand "math/rand"
	"net"
	"sync"
	"time"
)

// Kinds of plans (= KeOutcomes of NtpAcceptAssoc.tla)
const (
	Ok        = "ok"        // np, a15, n cookies, port, eom
	Refused   = "refused"   // nothing listens: connect fails
	Reset     = "reset"     // accepted and closed before the handshake
	TLSFail   = "tlsfail"   // the handshake fails (the peer speaks TLS 1.2 at most)
	NoALPN    = "noalpn"    // handshake completes without "ntske/1"
	ErrRec    = "errrec"    // an error record (with cookies before it)
	NoCookies = "nocookies" // a complete message without a cookie
	Truncated = "truncated" // the stream ends inside the message
)

var Failures = []string{Refused, Reset, TLSFail, NoALPN, ErrRec, NoCookies, Truncated}

type Plan struct {
	Kind    string
	Cookies int // Ok: number of cookie records
	Port    int // port record (0: none)
}

// Conn is what the peer did with one connection.
type Conn struct {
	Kind      string
	Handshake bool // the TLS handshake completed
	ReqSeen   bool // the client's request message was read up to its end-of-message record
	C2S, S2C  []byte
	Err       string
}

// Mint makes n cookies for the keys of a session.
type Mint func(c2s, s2c []byte, n int) [][]byte

type Peer struct {
	addr *net.TCPAddr
	cert tls.Certificate
	mint Mint

	mu    sync.Mutex
	ln    net.Listener
	plan  Plan
	rng   *mrand.Rand
	conns []Conn
	wg    sync.WaitGroup
}

func New(addr *net.TCPAddr, cert tls.Certificate, mint Mint, seed int64) (*Peer, error) {
	p := &Peer{addr: addr, cert: cert, mint: mint, rng: mrand.New(mrand.NewSource(seed)), plan: Plan{Kind: Ok, Cookies: 2}}
	if err := p.listen(); err != nil {
		return nil, err
	}
	return p, nil
}

func (p *Peer) listen() error {
	var err error
	for i := 0; i < 50; i++ {
		var ln net.Listener
		if ln, err = net.ListenTCP("tcp4", p.addr); err == nil {
			p.ln = ln
			go p.accept(ln)
			return nil
		}
		time.Sleep(2 * time.Millisecond)
	}
	return err
}

func (p *Peer) accept(ln net.Listener) {
	for {
		c, err := ln.Accept()
		if err != nil {
			return
		}
		p.wg.Add(1)
		go func() {
			defer p.wg.Done()
			p.handle(c)
		}()
	}
}

// SetPlan: what the peer does with the connections from now on.
func (p *Peer) SetPlan(pl Plan) error {
	p.mu.Lock()
	defer p.mu.Unlock()
	p.plan = pl
	if pl.Kind == Refused {
		if p.ln != nil {
			p.ln.Close()
			p.ln = nil
		}
		return nil
	}
	if p.ln == nil {
		return p.listen()
	}
	return nil
}

// Take returns what was done with the connections since the last call (after
// every handler has finished).
func (p *Peer) Take() []Conn {
	p.wg.Wait()
	p.mu.Lock()
	defer p.mu.Unlock()
	cs := p.conns
	p.conns = nil
	return cs
}

func (p *Peer) Close() {
	p.mu.Lock()
	if p.ln != nil {
		p.ln.Close()
		p.ln = nil
	}
	p.mu.Unlock()
}

func rec(typ uint16, critical bool, body []byte) []byte {
	if critical {
		typ |= 1 << 15
	}
	b := make([]byte, 4+len(body))
	binary.BigEndian.PutUint16(b, typ)
	binary.BigEndian.PutUint16(b[2:], uint16(len(body)))
	copy(b[4:], body)
	return b
}

func u16(v int) []byte { return []byte{byte(v >> 8), byte(v)} }

// build: the peer's message for a session with these keys. Called with p.mu held.
func (p *Peer) build(pl Plan, c2s, s2c []byte) []byte {
	out := append(rec(1, true, u16(0)), rec(4, true, u16(15))...)
	cookies := func(n int) (b []byte) {
		for _, c := range p.mint(c2s, s2c, n) {
			b = append(b, rec(5, false, c)...)
		}
		return
	}
	port := func() []byte {
		if pl.Port == 0 {
			return nil
		}
		return rec(7, false, u16(pl.Port))
	}
	eom := rec(0, true, nil)
	switch pl.Kind {
	case Ok:
		out = append(out, cookies(max(pl.Cookies, 1))...)
		out = append(out, port()...)
		out = append(out, eom...)
	case ErrRec:
		code := []int{0, 1, 2, 3 + p.rng.Intn(60000)}[p.rng.Intn(4)]
		if p.rng.Intn(2) == 0 { // cookies first: a client that keeps them although an error follows
			out = append(out, cookies(2)...)
			out = append(out, port()...)
		}
		out = append(out, rec(2, true, u16(code))...)
		out = append(out, eom...)
	case NoCookies:
		out = append(out, port()...)
		out = append(out, eom...)
	case Truncated:
		out = append(out, port()...)
		out = append(out, cookies(1)...)
		last := cookies(1)
		switch p.rng.Intn(3) {
		case 0: // inside a record header
			out = append(out, last[:1+p.rng.Intn(3)]...)
		case 1: // inside a record body
			out = append(out, last[:5+p.rng.Intn(len(last)-5)]...)
		default: // complete records, no end of message
			out = append(out, last...)
		}
	}
	return out
}

func readRequest(c net.Conn) bool {
	var hdr [4]byte
	for i := 0; i < 64; i++ {
		if _, err := io.ReadFull(c, hdr[:]); err != nil {
			return false
		}
		n := int(binary.BigEndian.Uint16(hdr[2:]))
		if n > 0 {
			if _, err := io.CopyN(io.Discard, c, int64(n)); err != nil {
				return false
			}
		}
		if binary.BigEndian.Uint16(hdr[:])&0x7fff == 0 {
			return true
		}
	}
	return false
}

const exporterLabel = "EXPORTER-network-time-security"

func (p *Peer) handle(c net.Conn) {
	defer c.Close()
	p.mu.Lock()
	pl := p.plan
	p.mu.Unlock()
	cr := Conn{Kind: pl.Kind}
	defer func() {
		p.mu.Lock()
		p.conns = append(p.conns, cr)
		p.mu.Unlock()
	}()
	if pl.Kind == Reset || pl.Kind == Refused {
		return
	}
	cfg := &tls.Config{Certificates: []tls.Certificate{p.cert}, MinVersion: tls.VersionTLS13, SessionTicketsDisabled: true,
		NextProtos: []string{"ntske/1"}}
	switch pl.Kind {
	case TLSFail:
		cfg.MinVersion, cfg.MaxVersion = tls.VersionTLS12, tls.VersionTLS12
	case NoALPN:
		cfg.NextProtos = nil
	}
	tc := tls.Server(c, cfg)
	tc.SetDeadline(time.Now().Add(10 * time.Second))
	if err := tc.Handshake(); err != nil {
		cr.Err = err.Error()
		return
	}
	cr.Handshake = true
	cs := tc.ConnectionState()
	var err1, err2 error
	cr.C2S, err1 = cs.ExportKeyingMaterial(exporterLabel, []byte{0, 0, 0, 15, 0}, 32)
	cr.S2C, err2 = cs.ExportKeyingMaterial(exporterLabel, []byte{0, 0, 0, 15, 1}, 32)
	if err1 != nil || err2 != nil {
		cr.Err = "export"
		return
	}
	if pl.Kind == NoALPN {
		// the client closes; whatever it sends is not answered
		tc.SetDeadline(time.Now().Add(200 * time.Millisecond))
		cr.ReqSeen = readRequest(tc)
		return
	}
	if cr.ReqSeen = readRequest(tc); !cr.ReqSeen {
		return
	}
	p.mu.Lock()
	wire := p.build(pl, cr.C2S, cr.S2C)
	p.mu.Unlock()
	tc.Write(wire)
	tc.Close()
}
