SPECIFICATION Spec
CONSTANTS
  NsPerSec = 1000
  FracUnits = 4096
  EraSecs = 64
  Epoch <- EpochScaled
  ForwardOnlyEraUnfold = FALSE
  WholeSecondUnfold = FALSE
  RefSecs <- RefFew
  RefNs <- RefNsGen
  Offs <- OffCls
  NsVals <- NsFew
INVARIANTS Emit
