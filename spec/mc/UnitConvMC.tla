---------------------------- MODULE UnitConvMC ----------------------------
EXTENDS UnitConv, Json
\* Case emitter (spec -> code): every complete input of the model, read by the
\* Go driver harness/c18 and concretised at the real constants.
Args == IF c[1] \in {"tv", "ci"} THEN <<WordOf(c[2], c[3])>> ELSE Tail(c)
Emit == (c # << >> /\ Len(c) = Arity(c[1]) + 1) =>
          PrintT(<<"CASE", ToJson([k |-> c[1], a |-> Args, w |-> W])>>)

\* cfg files cannot hold negative numbers or expressions
ValsExh  == {MinInt, MinInt + 1, -(H \div 2) - 1, -(H \div 2), -1001, -17, -16, -1, 0, 1, 16, 17, 1000,
             H \div 2 - 1, H \div 2, MaxInt - 1, MaxInt}
ValsDeep == ValsExh \cup {-1000, -999, -500, -15, -3, -2, 2, 3, 7, 15, 500, 999, 1001, H \div 4, -(H \div 4)}
ValsGen  == {-1001, -16, -1, 0, 1, 17, 1000}
ValsGenDeep == {MinInt, -(H \div 2), -1001, -1000, -16, -1, 0, 1, 2, 17, 999, H \div 4, MaxInt}
DriftValsExh == {-20000, -7, 0, 1, 3, 10, 999, 1000, 1001, 20000}
DriftValsGen == {-7, 0, 1, 10, 999, 20000}
NsValsExh == {0, 1, NsPerSec \div 2, NsPerSec - 2, NsPerSec - 1, NsPerSec, NsPerSec + 1,
              2 * NsPerSec - 1, 2 * NsPerSec, 4 * NsPerSec + 294}
NsValsGen == {0, 1, NsPerSec - 1}
NsValsGenDeep == {0, 1, NsPerSec \div 2, NsPerSec - 1, NsPerSec, 2 * NsPerSec + 1}
FqDensAll == {1, 2, 3, 7}
FqDensGen == {1, 3}
UtcValsAll == {-37, 0, 37, MaxInt}
UtcValsGen == {-37, 0}
=============================================================================
