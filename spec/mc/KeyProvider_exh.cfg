SPECIFICATION SpecExh
CONSTANTS
  Day = 4
  Gaps <- GapsExh
  Horizon = 40
  GenLen = 0
VIEW ViewExh
INVARIANTS TypeOK HistBelow CurrentPresent CurrentValid CurrentFresh GetOnlyValid IdsUnique CookieLifetime CookieUsable CarrierFits SealedByCurrent
PROPERTIES IdsIncreasing ACurrentValid ACurrentFresh AGetOnlyValid AIdsUnique ACookieLifetime ACookieUsable
