// C05 (NTS clause) driver: what the real NTS-enabled IPClient does with every
// datagram that reaches its socket while a request is outstanding.
//
// Rig (as harness/c11): per lane the real server.StartNTSKEServerIP +
// server.StartIPServer on a private loopback address sharing one
// ntske.Provider, the real client.IPClient (InterleavedMode, NTS enabled)
// driven through client.MeasureClockOffsetIP, and a UDP proxy owned by the
// harness between them (the NTS-KE server advertises the proxy's port).
//
// For each case enumerated by TLC from spec/NtpAccept.tla (cfg
// NtpAccept_nts_gen) the client's request is passed to the real server, the
// server's genuine authenticated response is held back, and the abstract
// datagrams of the case are concretised from it - NTP-level fields mutated as
// harness/c03/c05_test.go does, then the NTS part rebuilt per d.nts:
//
//	ok         re-authenticated under the right S2C key (nts.NewResponsePacket /
//	           nts.EncodePacket), so that only the NTP-level deviation is left
//	absent     the bare 48-byte NTP response
//	wrongUid   genuine format, right key, another unique identifier
//	badTag     one bit flipped in the ciphertext or in an authenticated byte
//	wrongKey   sealed under C2S or under a random key
//	truncated  cut inside the authenticator
//
// - and delivered before / instead of the genuine response.  The client's
// reaction per datagram (ok / skip / error) is decided WITHOUT its log (see
// lane.watch: return of the measurement call, the client's next request at
// the proxy, state of the client's socket and of the call's goroutine, the
// hooks VerifPrev and Fetcher.VerifData) and written in the record format of
// harness/c03 (c05rec) with ntson = true, tr = "ip-nts", for
// spec/trace/NtpAcceptTrace.tla.  Log records with today's names are only
// classified for an optional cross-check (field lg, strict section).
package c05nts

import (
	"bytes"
	"context"
	"crypto/ecdsa"
	"crypto/elliptic"
	"crypto/rand"
	"crypto/tls"
	"crypto/x509"
	"crypto/x509/pkix"
	"encoding/binary"
	"encoding/json"
	"fmt"
	"log/slog"
	"math/big"
	mrand "math/rand"
	"net"
	"net/netip"
	"os"
	"strconv"
	"strings"
	"sync"
	"testing"
	"time"

	"github.com/miscreant/miscreant.go"
	"github.com/prometheus/client_golang/prometheus"

	"example.com/scion-time/core/client"
	"example.com/scion-time/core/server"
	"example.com/scion-time/core/timebase"
	"example.com/scion-time/driver/clocks"
	"example.com/scion-time/net/ntp"
	"example.com/scion-time/net/nts"
	"example.com/scion-time/net/ntske"

	"verif/harness/c03/react"
	"verif/harness/c05nts/kepeer"
	"verif/harness/internal/vio"
)

// ------------------------------------------------- case / record (as harness/c03)
type dgram struct {
	Src     string `json:"src"`
	Dst     string `json:"dst"`
	L4      string `json:"l4"`
	Len     string `json:"len"`
	Li      int    `json:"li"`
	Vn      int    `json:"vn"`
	Mode    int    `json:"mode"`
	Stratum int    `json:"stratum"`
	Origin  string `json:"origin"`
	Txrx    string `json:"txrx"`
	Nts     string `json:"nts"`
}

type c05case struct {
	Il      bool              `json:"il"`
	Seen    []json.RawMessage `json:"seen"` // <<datagram, reaction>> pairs
	Rest    []dgram           `json:"rest"`
	Outcome string            `json:"outcome"`
	Idx     int               `json:"idx"` // position in the case file (records refer to it)
}

type c05rec struct {
	Ev    string `json:"ev"` // "dgram"
	Case  int    `json:"case"`
	Pos   int    `json:"pos"`
	Il    bool   `json:"il"` // the outstanding request really was interleaved
	Tr    string `json:"tr"`
	D     dgram  `json:"d"`
	Want  string `json:"want"` // reaction predicted by the specification ("" = not consumed there)
	Got   string `json:"got"`  // ok | skip | error | ignored | panic
	NtsOn bool   `json:"ntson"`
	How   string `json:"how"` // which concrete variant of the abstract datagram was sent
	Flt   bool   `json:"flt"` // the client had a pass-through filter
	Lg    string `json:"lg"`  // optional: reaction class according to log records with today's names ("" = none seen)
	Why   string `json:"why"` // diagnostics: the evidence the reaction was decided on
}

func (c *c05case) queue(t *testing.T) ([]dgram, []string) {
	var ds []dgram
	var want []string
	for _, raw := range c.Seen {
		var pair []json.RawMessage
		if err := json.Unmarshal(raw, &pair); err != nil || len(pair) != 2 {
			t.Fatalf("bad seen entry %s", raw)
		}
		var d dgram
		var w string
		json.Unmarshal(pair[0], &d)
		json.Unmarshal(pair[1], &w)
		ds, want = append(ds, d), append(want, w)
	}
	for _, d := range c.Rest {
		ds, want = append(ds, d), append(want, "")
	}
	return ds, want
}

// concretiseNTP builds the 48-byte NTP part of abstract datagram d from the
// genuine response g to request req (same rules as harness/c03 concretise).
func concretiseNTP(d dgram, g []byte, req *ntp.Packet, il bool, stale ntp.Time64, rng *mrand.Rand) []byte {
	b := append([]byte{}, g[:48]...)
	b[0] = byte(d.Li<<6 | d.Vn<<3 | d.Mode)
	b[1] = byte(d.Stratum)
	put := func(off int, t ntp.Time64) {
		binary.BigEndian.PutUint32(b[off:], t.Seconds)
		binary.BigEndian.PutUint32(b[off+4:], t.Fraction)
	}
	get := func(off int) ntp.Time64 {
		return ntp.Time64{Seconds: binary.BigEndian.Uint32(b[off:]), Fraction: binary.BigEndian.Uint32(b[off+4:])}
	}
	switch d.Origin {
	case "tx":
		put(24, req.TransmitTime)
	case "rx":
		put(24, req.ReceiveTime)
	case "stale":
		put(24, stale)
	default:
		put(24, ntp.Time64{Seconds: rng.Uint32() | 1, Fraction: rng.Uint32()})
	}
	t1 := get(32)
	if il && d.Origin == "rx" {
		t1 = req.OriginTime
	}
	switch d.Txrx {
	case "equal":
		put(40, t1)
	case "before":
		t := t1
		if t.Fraction >= 16 {
			t.Fraction -= 16
		} else {
			t.Seconds--
			t.Fraction = 0xfffffff0
		}
		put(40, t)
	default: // "after": make sure it is
		t := t1
		t.Fraction += 1 << 12
		if t.Fraction < 1<<12 {
			t.Seconds++
		}
		if !get(40).After(t1) {
			put(40, t)
		}
	}
	return b
}

// ------------------------------------------------------------- wire helpers
const (
	extUID    = 0x104
	extCookie = 0x204
	extAuth   = 0x404
)

// splitReply finds unique identifier and authenticator of a genuine reply.
func splitReply(b []byte) (uid []byte, authPos int, nonce, ct []byte, ok bool) {
	pos := 48
	for pos+4 <= len(b) {
		typ := binary.BigEndian.Uint16(b[pos:])
		l := int(binary.BigEndian.Uint16(b[pos+2:]))
		if l < 4 || pos+l > len(b) {
			return
		}
		body := b[pos+4 : pos+l]
		switch typ {
		case extUID:
			uid = body
		case extAuth:
			if len(body) < 4 {
				return
			}
			nl := int(binary.BigEndian.Uint16(body))
			cl := int(binary.BigEndian.Uint16(body[2:]))
			np := (nl + 3) &^ 3
			if 4+np+cl > len(body) {
				return
			}
			return uid, pos, body[4 : 4+nl], body[4+np : 4+np+cl], uid != nil
		}
		pos += l
	}
	return
}

func countCookies(s2c, nonce, ct, ad []byte) (int, bool) {
	a, err := miscreant.NewAEAD("AES-CMAC-SIV", s2c, 16)
	if err != nil || len(nonce) != 16 {
		return 0, false
	}
	pt, err := a.Open(nil, nonce, ct, ad)
	if err != nil {
		return 0, false
	}
	n, pos := 0, 0
	for pos+4 <= len(pt) {
		l := int(binary.BigEndian.Uint16(pt[pos+2:]))
		if binary.BigEndian.Uint16(pt[pos:]) != extCookie || l < 4 || pos+l > len(pt) {
			return n, false
		}
		n++
		pos += l
	}
	return n, true
}

// seal appends the NTS extension fields of a response to the 48-byte header
// with the repository's own response builder.
func seal(hdr []byte, cookies [][]byte, key, uid []byte) []byte {
	buf := append(make([]byte, 0, 2048), hdr[:48]...)
	pkt := nts.NewResponsePacket(cookies, key, uid)
	nts.EncodePacket(&buf, &pkt)
	return buf
}

// ---------------------------------------------------------------------- lane
type logRec struct {
	msg string
}

type keData struct{ c2s, s2c []byte }

// handler keeps the client's log records for the optional cross-check only
type handler struct {
	logs chan logRec
}

func (h *handler) Enabled(context.Context, slog.Level) bool { return true }
func (h *handler) WithAttrs([]slog.Attr) slog.Handler       { return h }
func (h *handler) WithGroup(string) slog.Handler            { return h }
func (h *handler) Handle(_ context.Context, r slog.Record) error {
	select {
	case h.logs <- logRec{r.Message}:
	default:
	}
	return nil
}

// callResult: what one MeasureClockOffsetIP call returned
type callResult struct {
	ts  time.Time
	off time.Duration
	err error
}

// recFilter: pass-through measurements.Filter that counts its calls (one call =
// one accepted exchange)
type recFilter struct {
	mu sync.Mutex
	n  int
}

func (f *recFilter) Do(t0, t1, t2, t3 time.Time) time.Duration {
	f.mu.Lock()
	f.n++
	f.mu.Unlock()
	return ntp.ClockOffset(t0, t1, t2, t3)
}
func (f *recFilter) Reset() {}
func (f *recFilter) take() int {
	if f == nil {
		return 0
	}
	f.mu.Lock()
	defer f.mu.Unlock()
	n := f.n
	f.n = 0
	return n
}

type lane struct {
	t     *testing.T
	idx   int
	ip    net.IP
	prov  *ntske.Provider
	proxy *net.UDPConn // the address the client talks to
	up    *net.UDPConn // towards the server
	other *net.UDPConn // another source address
	h     *handler
	log   *slog.Logger
	c     *client.IPClient
	flt   *recFilter      // the client's pass-through filter (odd lanes; nil: none)
	done  chan callResult // result of the running MeasureClockOffsetIP call, nil when none
	last  callResult      // result of the last call that returned
	root  int64           // goroutine of the running call
	ddl   time.Time       // the running call's deadline is not before this instant
	stash []byte          // a request taken off the proxy socket while a reaction was being watched
	sfrom *net.UDPAddr
	rng   *mrand.Rand
	// a client that turns down the server's genuine responses makes every call run
	// into its deadline: after three such calls in a row the lane goes on with short
	// deadlines and without trying to reach interleaved mode (the records still tell
	// what the client did with each crafted datagram)
	failed int
	fast   bool
	// TestC05Assoc (assoc_test.go): the scripted key-exchange peer that stands in for the
	// project's NTS-KE server, and the keys of the client's previous association
	ke      *kepeer.Peer
	old     *keData
	sc      *client.SCIONClient // non-nil: the client under test is the SCION client (scion_test.go), l.c is unused
	nocount bool // the running call is meant to fail: it does not count towards "failed"
}

const (
	srvPort   = 20125
	proxyPort = 20126
)

func selfSigned(ip net.IP) tls.Certificate {
	key, err := ecdsa.GenerateKey(elliptic.P256(), rand.Reader)
	if err != nil {
		panic(err)
	}
	tmpl := x509.Certificate{
		SerialNumber: big.NewInt(1), Subject: pkix.Name{CommonName: "c05nts"},
		NotBefore: time.Now().Add(-time.Hour), NotAfter: time.Now().Add(24 * time.Hour),
		KeyUsage: x509.KeyUsageDigitalSignature, ExtKeyUsage: []x509.ExtKeyUsage{x509.ExtKeyUsageServerAuth},
		IPAddresses: []net.IP{ip},
	}
	der, err := x509.CreateCertificate(rand.Reader, &tmpl, &tmpl, &key.PublicKey, key)
	if err != nil {
		panic(err)
	}
	return tls.Certificate{Certificate: [][]byte{der}, PrivateKey: key}
}

var discard = slog.New(slog.DiscardHandler)

func newLane(t *testing.T, idx int, cert tls.Certificate, seed int64, scripted bool) *lane {
	pid := os.Getpid()
	ip := net.IPv4(127, byte(128+(pid>>8)&63), byte(pid&255), byte(idx+1)).To4()
	oip := net.IPv4(127, byte(192+(pid>>8)&63), byte(pid&255), byte(idx+1)).To4()
	l := &lane{t: t, idx: idx, ip: ip, h: &handler{logs: make(chan logRec, 256)}, rng: mrand.New(mrand.NewSource(seed + int64(idx)))}
	l.log = slog.New(l.h)
	l.prov = ntske.NewProvider()
	ctx := context.Background()
	tlsCfg := &tls.Config{Certificates: []tls.Certificate{cert}, NextProtos: []string{"ntske/1"}, MinVersion: tls.VersionTLS13}
	if scripted {
		var err error
		mint := func(c2s, s2c []byte, n int) [][]byte { return l.mint(&keData{c2s: c2s, s2c: s2c}, n) }
		if l.ke, err = kepeer.New(&net.TCPAddr{IP: ip, Port: ntske.ServerPortIP}, cert, mint, seed+int64(idx)); err != nil {
			t.Fatal(err)
		}
	} else {
		server.StartNTSKEServerIP(ctx, discard, ip, proxyPort, tlsCfg, l.prov)
	}
	prometheus.DefaultRegisterer = prometheus.NewRegistry() // StartIPServer registers its counters once per call
	server.StartIPServer(ctx, discard, &net.UDPAddr{IP: ip, Port: srvPort}, 0, l.prov)
	var err error
	if l.proxy, err = net.ListenUDP("udp4", &net.UDPAddr{IP: ip, Port: proxyPort}); err != nil {
		t.Fatal(err)
	}
	if l.up, err = net.DialUDP("udp4", &net.UDPAddr{IP: ip}, &net.UDPAddr{IP: ip, Port: srvPort}); err != nil {
		t.Fatal(err)
	}
	if l.other, err = net.ListenUDP("udp4", &net.UDPAddr{IP: oip}); err != nil {
		t.Fatal(err)
	}
	l.newClient()
	return l
}

func (l *lane) newClient() {
	c := &client.IPClient{Log: l.log, InterleavedMode: true}
	if l.idx%2 == 1 {
		l.flt = &recFilter{}
		c.Filter = l.flt
	}
	c.Auth.Enabled = true
	c.Auth.NTSKEFetcher.TLSConfig = tls.Config{
		InsecureSkipVerify: true,
		ServerName:         l.ip.String(),
		MinVersion:         tls.VersionTLS13,
	}
	c.Auth.NTSKEFetcher.Port = strconv.Itoa(ntske.ServerPortIP)
	c.Auth.NTSKEFetcher.Log = l.log
	l.c = c
}

func (l *lane) startCall() {
	if l.done != nil {
		l.t.Fatalf("lane %d: call still running", l.idx)
	}
	done := make(chan callResult, 1)
	l.done = done
	started := make(chan int64, 1)
	dl := 3 * time.Second
	if l.fast {
		dl = 150 * time.Millisecond
	}
	l.ddl = time.Now().Add(dl)
	go func() {
		started <- react.GoID()
		defer func() {
			if x := recover(); x != nil {
				done <- callResult{err: fmt.Errorf("PANIC: %v", x)}
			}
		}()
		ctx, cancel := context.WithTimeout(context.Background(), dl)
		defer cancel()
		laddr := &net.UDPAddr{IP: l.ip}
		raddr := &net.UDPAddr{IP: l.ip, Port: proxyPort}
		if l.sc != nil {
			ts, off, err := l.measureSCION(ctx)
			done <- callResult{ts, off, err}
			return
		}
		ts, off, err := client.MeasureClockOffsetIP(ctx, l.log, l.c, laddr, raddr)
		done <- callResult{ts, off, err}
	}()
	l.root = <-started
}

// returned notes that the running call has ended with r.
func (l *lane) returned(r callResult) {
	l.done, l.last, l.stash = nil, r, nil
	if r.err != nil && l.nocount {
		// (TestC05Assoc: a call that fails because its key exchange is made to fail)
	} else if r.err != nil {
		if l.failed++; l.failed >= 3 {
			l.fast = true
		}
	} else {
		l.failed = 0
	}
}

// nextRequest waits for a request datagram of the running call; ok = false when
// the call ended instead.
func (l *lane) nextRequest(buf []byte) (req []byte, from *net.UDPAddr, ok bool) {
	if l.stash != nil {
		req, from, l.stash = l.stash, l.sfrom, nil
		return req, from, true
	}
	for {
		l.proxy.SetReadDeadline(time.Now().Add(2 * time.Millisecond))
		n, a, err := l.proxy.ReadFromUDP(buf)
		if err == nil {
			return bytes.Clone(buf[:n]), a, true
		}
		select {
		case r := <-l.done:
			l.returned(r)
			// a datagram may still sit in the socket: it belongs to an attempt that is over
			return nil, nil, false
		default:
		}
	}
}

// genuine obtains the real server's response to req.
func (l *lane) genuine(req []byte) []byte {
	buf := make([]byte, 4096)
	want := uidOf(req)
	for _, w := range []time.Duration{300 * time.Millisecond, 1500 * time.Millisecond, 4 * time.Second} {
		if _, err := l.up.Write(req); err != nil {
			l.t.Fatalf("proxy: write to server: %v", err)
		}
		deadline := time.Now().Add(w)
		for {
			l.up.SetReadDeadline(deadline)
			n, err := l.up.Read(buf)
			if err != nil {
				break
			}
			// after a slow answer the request went out again: the answer to the other copy
			// arrives some time later and is not the answer to a later request
			if want == nil || bytes.Equal(uidOf(buf[:n]), want) {
				return bytes.Clone(buf[:n])
			}
		}
	}
	l.t.Fatalf("lane %d: the server does not answer a genuine request", l.idx)
	return nil
}

// uidOf: the unique identifier of an NTS packet (nil: none)
func uidOf(b []byte) []byte {
	for pos := 48; pos+4 <= len(b); {
		typ := binary.BigEndian.Uint16(b[pos:])
		n := int(binary.BigEndian.Uint16(b[pos+2:]))
		if n < 4 || pos+n > len(b) {
			return nil
		}
		if typ == extUID {
			return b[pos+4 : pos+n]
		}
		pos += n
	}
	return nil
}

// finish serves the remaining attempts of the running call genuinely.
func (l *lane) finish() {
	buf := make([]byte, 4096)
	for l.done != nil {
		req, from, ok := l.nextRequest(buf)
		if !ok {
			return
		}
		l.proxy.WriteToUDP(l.genuine(req), from)
	}
}

func (l *lane) drainLogs() {
	for {
		select {
		case <-l.h.logs:
		default:
			return
		}
	}
}

// logClass: what log records with the names known today say about the datagram
// just delivered (optional cross-check; "" when none of them was seen).
func (l *lane) logClass() string {
	eval, fail, skip := false, false, false
	for {
		select {
		case lr := <-l.h.logs:
			switch lr.msg {
			case "evaluated response":
				eval = true
			case "failed to measure clock offset":
				fail = true
			case "received packet with unexpected type or structure", "received packet from unexpected source",
				"failed to decode packet payload", "failed to decode NTS packet", "failed to process NTS packet":
				skip = true
			}
			continue
		default:
		}
		break
	}
	switch {
	case eval:
		return "ok"
	case fail:
		return "error"
	case skip:
		return "skip"
	}
	return ""
}

const slack = 200 * time.Microsecond // kernel timestamps vs time.Now(): same clock, different reading points

// watch hands a datagram to the client's socket at dst (send) and decides from
// causal evidence - never from the log - what the client did with it:
//
//	the call returned                       -> attempt over
//	the client's next request at the proxy  -> attempt over
//	the socket at dst is gone               -> attempt over (one of the two above follows)
//	the socket has been read empty, is still there and the goroutine of the call is
//	parked in network I/O again             -> skip (it keeps waiting on the same socket)
//
// An attempt that is over reported a measurement (ok) iff the call returned one
// time-stamped within the delivery window of this datagram, or the client's filter
// was called, or its interleaved state (hook VerifPrev) took a receive time within
// that window; otherwise it ended with an error.
func (l *lane) watch(dst *net.UDPAddr, send func() error) (got, lg, why string) {
	if l.done == nil {
		send()
		return "ignored", "", "nocall"
	}
	ap := netip.AddrPortFrom(netip.AddrFrom4([4]byte(dst.IP.To4())), uint16(dst.Port))
	pap := netip.AddrPortFrom(netip.AddrFrom4([4]byte(l.ip.To4())), proxyPort)
	parked := func() (bool, bool) { return react.Goroutines().Parked(l.root) }
	// let the call park first (it has then read its transmit timestamp): stable receive accounting
	for t0 := time.Now(); time.Since(t0) < 30*time.Millisecond; time.Sleep(100 * time.Microsecond) {
		if p, present := parked(); p || !present {
			break
		}
	}
	st, err := react.UDPSure(ap)
	if err != nil {
		l.t.Fatal(err)
	}
	before := st[0]
	select {
	case r := <-l.done: // the call returned while the harness was getting ready (its deadline)
		l.returned(r)
		send()
		return "ignored", "", "nocall"
	default:
	}
	l.flt.take()
	l.logClass()
	del := time.Now()
	if err := send(); err != nil {
		l.t.Fatal(err)
	}
	if !before.Open {
		return "ignored", "", "closed"
	}
	start := time.Now()
	final := false
	var emptySince, unreadSince time.Time
	sleep := 30 * time.Microsecond
	buf := make([]byte, 4096)
loop:
	for {
		select {
		case r := <-l.done:
			l.returned(r)
			final = true
			break loop
		default:
		}
		tRead := time.Now() // (a reading of /proc/net/udp can take long when the host has many sockets)
		st, err := react.UDP(ap, pap)
		if err != nil {
			l.t.Fatal(err)
		}
		if st[1].RxQ > 0 {
			// the client's next request: the attempt is over
			l.proxy.SetReadDeadline(time.Now().Add(50 * time.Millisecond))
			if n, a, err := l.proxy.ReadFromUDP(buf); err == nil {
				l.stash, l.sfrom = bytes.Clone(buf[:n]), a
				break loop
			}
		}
		switch {
		case !st[0].Open || st[0].Inode != before.Inode:
			// gone, or not listed in this reading (no conclusion): the end of the attempt
			// shows as the client's next request or as the return of the call
		case st[0].RxQ > before.RxQ:
			// still in the socket: "ignored" only if seen so in readings that BEGAN 300 ms apart
			emptySince = time.Time{}
			if unreadSince.IsZero() {
				unreadSince = time.Now()
			} else if tRead.Sub(unreadSince) > 300*time.Millisecond && len(l.done) == 0 {
				return "ignored", l.logClass(), fmt.Sprintf("unread rxq %d > %d", st[0].RxQ, before.RxQ)
			}
		default:
			unreadSince = time.Time{}
			if emptySince.IsZero() {
				emptySince = time.Now()
			}
			p, present := parked()
			if present && (p || time.Since(emptySince) > 40*time.Millisecond) {
				st2, err := react.UDP(ap, pap)
				if err != nil {
					l.t.Fatal(err)
				}
				if len(l.done) == 0 && st2[1].RxQ == 0 && st2[0].Open && st2[0].Inode == before.Inode && st2[0].RxQ <= before.RxQ {
					return "skip", l.logClass(), fmt.Sprintf("parked=%v %v", p, time.Since(start).Round(time.Microsecond))
				}
			}
		}
		if time.Since(start) > 6*time.Second {
			l.t.Fatalf("lane %d: no evidence of what the client did with a datagram for %v", l.idx, time.Since(start))
		}
		time.Sleep(sleep)
		if sleep < 500*time.Microsecond {
			sleep += sleep / 2
		}
	}
	seen := time.Now()
	lg = l.logClass()
	in := func(x time.Time) bool { return !x.Before(del.Add(-slack)) && !x.After(seen.Add(slack)) }
	if final && l.last.err != nil && strings.HasPrefix(l.last.err.Error(), "PANIC") {
		return "panic", lg, ""
	}
	pv := l.verifPrev()
	nf := l.flt.take()
	byRet := final && l.last.err == nil && !l.last.ts.IsZero() && in(l.last.ts)
	byPrev := pv.Reference != "" && pv.CRxTime != (ntp.Time64{}) && in(ntp.TimeFromTime64(pv.CRxTime, seen))
	why = fmt.Sprintf("final=%v flt=%d ret=%v prev=%v %v", final, nf, byRet, byPrev, seen.Sub(del).Round(time.Microsecond))
	if nf > 0 || byRet || byPrev {
		return "ok", lg, why
	}
	if final && !seen.Before(l.ddl) {
		// returned without a measurement at or after its deadline: datagram or deadline, cannot be told
		return "ignored", lg, "deadline " + why
	}
	return "error", lg, why
}

func (l *lane) mint(k *keData, n int) [][]byte {
	key := l.prov.Current()
	sc := ntske.ServerCookie{Algo: ntske.AES_SIV_CMAC_256, S2C: k.s2c, C2S: k.c2s}
	var cs [][]byte
	for range n {
		ec, err := sc.EncryptWithNonce(key.Value, key.ID)
		if err != nil {
			l.t.Fatal(err)
		}
		cs = append(cs, ec.Encode())
	}
	return cs
}

// concretise: the bytes of abstract datagram d, derived from the genuine response g.
func (l *lane) concretise(d dgram, g []byte, req *ntp.Packet, il bool, stale ntp.Time64, k *keData, uid []byte, ncookies int) ([]byte, string) {
	hdr := concretiseNTP(d, g, req, il, stale, l.rng)
	var b []byte
	how := d.Nts
	switch d.Nts {
	case "absent":
		b = hdr
	case "ok":
		b = seal(hdr, l.mint(k, ncookies), k.s2c, uid)
	case "wrongUid":
		other := make([]byte, len(uid))
		rand.Read(other)
		if l.rng.Intn(2) == 0 { // a near miss: one bit away
			copy(other, uid)
			other[l.rng.Intn(len(other))] ^= 1 << uint(l.rng.Intn(8))
			how = "wrongUid:1bit"
		}
		b = seal(hdr, l.mint(k, ncookies), k.s2c, other)
	case "badTag":
		b = seal(hdr, l.mint(k, ncookies), k.s2c, uid)
		_, authPos, _, ct, ok := splitReply(b)
		if !ok {
			l.t.Fatal("cannot split a sealed reply")
		}
		switch l.rng.Intn(3) {
		case 0: // SIV tag / ciphertext
			off := len(b) - len(ct) + l.rng.Intn(len(ct))
			b[off] ^= 1 << uint(l.rng.Intn(8))
			how = "badTag:ciphertext"
		case 1: // an authenticated NTP header byte no acceptance rule looks at (root delay / dispersion / reference id)
			b[4+l.rng.Intn(12)] ^= 1 << uint(l.rng.Intn(8))
			how = "badTag:header"
		default: // nonce
			b[authPos+8+l.rng.Intn(16)] ^= 1 << uint(l.rng.Intn(8))
			how = "badTag:nonce"
		}
	case "wrongKey":
		key := k.c2s
		how = "wrongKey:c2s"
		if l.rng.Intn(2) == 0 {
			key = make([]byte, 32)
			rand.Read(key)
			how = "wrongKey:random"
		}
		ck := k
		if l.old != nil { // the keys (and cookies) of the client's previous association
			key, ck, how = l.old.s2c, l.old, "wrongKey:old"
		}
		b = seal(hdr, l.mint(ck, ncookies), key, uid)
	case "truncated":
		b = seal(hdr, l.mint(k, ncookies), k.s2c, uid)
		_, authPos, _, _, ok := splitReply(b)
		if !ok {
			l.t.Fatal("cannot split a sealed reply")
		}
		cut := authPos + 1 + l.rng.Intn(len(b)-authPos-1) // authPos < cut < len(b)
		if l.rng.Intn(3) == 0 {
			cut = len(b) - 1 - l.rng.Intn(4)
		}
		// The decoder zero-fills what a short datagram is missing: if every removed byte is
		// zero anyway (trailing zero bytes of the ciphertext, 1 in 256 for a one-byte cut;
		// padding), the "truncated" datagram reconstructs to the authentic one, verifies
		// under the S2C key and is rightly accepted - a fresh-sandbox run alarmed on exactly
		// that.  Truncation here means that something is really lost: at least one removed
		// byte is non-zero.
		for cut > authPos+1 && allZero(b[cut:]) {
			cut--
		}
		how = fmt.Sprintf("truncated:%d/%d", cut-authPos, len(b)-authPos)
		b = b[:cut]
	default:
		l.t.Fatalf("unknown nts kind %q", d.Nts)
	}
	if d.Len == "short" {
		b = b[:47]
	}
	return b, how
}

func (l *lane) runCase(c *c05case, out *vio.Out, stale *ntp.Time64) (nok int, il bool) {
	ds, want := c.queue(l.t)
	// fresh client now and then: datagrams that pass ProcessResponse but fail a later
	// check leave their cookies behind
	if len(l.c.Auth.NTSKEFetcher.VerifData().Cookie) > 16 {
		l.newClient()
	}
	if c.Il {
		for i := 0; i < 3 && !l.c.InInterleavedMode() && !l.fast; i++ {
			l.startCall()
			l.finish()
		}
	} else {
		l.c.ResetInterleavedMode()
	}
	buf := make([]byte, 4096)
	var reqb []byte
	var from *net.UDPAddr
	for try := 0; try < 4 && reqb == nil; try++ {
		l.drainLogs()
		l.startCall()
		var ok bool
		reqb, from, ok = l.nextRequest(buf)
		if !ok {
			reqb = nil
		}
	}
	if reqb == nil {
		l.t.Fatalf("lane %d: client sent no request in 4 calls", l.idx)
	}
	// the keys of the association the request was built with (hook; the client is
	// blocked reading its socket now, nothing writes the fetcher's data)
	kd := l.c.Auth.NTSKEFetcher.VerifData()
	k := &keData{c2s: kd.C2sKey, s2c: kd.S2cKey}
	if len(k.c2s) == 0 || len(k.s2c) == 0 {
		l.t.Fatalf("lane %d: the client's key exchange data hold no keys", l.idx)
	}
	var req ntp.Packet
	if err := ntp.DecodePacket(&req, reqb); err != nil {
		l.t.Fatal(err)
	}
	g := l.genuine(reqb)
	uid, authPos, nonce, ct, ok := splitReply(g)
	ncookies, ok2 := 0, false
	if ok {
		ncookies, ok2 = countCookies(k.s2c, nonce, ct, g[:authPos])
	}
	if !ok || !ok2 || ncookies == 0 {
		l.t.Fatalf("lane %d: the harness cannot open the server's genuine response (%d bytes)", l.idx, len(g))
	}
	il = req.ReceiveTime != (ntp.Time64{})
	pending := true
	for pos, d := range ds {
		if !pending {
			break
		}
		b, how := l.concretise(d, g, &req, il, *stale, k, uid, ncookies)
		sock := l.proxy
		if d.Src == "other" {
			sock = l.other
		}
		got, lg, why := l.watch(from, func() error { _, err := sock.WriteToUDP(b, from); return err })
		out.Emit(c05rec{Ev: "dgram", Case: c.Idx, Pos: pos, Il: il, Tr: "ip-nts", D: d, Want: want[pos], Got: got, NtsOn: true, How: how,
			Flt: l.flt != nil, Lg: lg, Why: why})
		if got == "ok" {
			nok++
		}
		if got == "ok" || got == "error" || got == "panic" {
			pending = false
		}
	}
	*stale = req.TransmitTime
	if pending {
		l.proxy.WriteToUDP(g, from)
	}
	l.finish()
	return nok, il
}

func TestC05Nts(t *testing.T) {
	cases := vio.ReadCases[c05case](t)
	out := vio.Create(t)
	defer out.Close()
	timebase.RegisterClock(clocks.NewSystemClock(discard, clocks.UnknownDrift))
	nl := 8
	if s := os.Getenv("VERIF_C05NTS_LANES"); s != "" {
		nl, _ = strconv.Atoi(s)
	}
	if nl > len(cases) {
		nl = len(cases)
	}
	if nl == 0 {
		t.Fatal("no cases")
	}
	lanes := make([]*lane, nl)
	for i := range lanes {
		pid := os.Getpid()
		ip := net.IPv4(127, byte(128+(pid>>8)&63), byte(pid&255), byte(i+1)).To4()
		lanes[i] = newLane(t, i, selfSigned(ip), vio.Seed(), false) // sequentially: swaps prometheus.DefaultRegisterer
	}
	var wg sync.WaitGroup
	var mu sync.Mutex
	nok, nil_, nrun := 0, 0, 0
	for li, l := range lanes {
		wg.Add(1)
		go func() {
			defer wg.Done()
			stale := ntp.Time64{Seconds: 0xdeadbeef, Fraction: 1}
			for ci := li; ci < len(cases); ci += nl {
				c := &cases[ci]
				c.Idx = ci
				ds, _ := c.queue(t)
				real := len(ds) > 0
				for _, d := range ds {
					if d.Dst != "client" || d.L4 != "udp" { // the kernel delivers nothing else to a UDP socket
						real = false
					}
				}
				if !real {
					continue
				}
				k, il := l.runCase(c, out, &stale)
				mu.Lock()
				nok += k
				nrun++
				if il {
					nil_++
				}
				mu.Unlock()
			}
		}()
	}
	wg.Wait()
	nfast := 0
	for _, l := range lanes {
		if l.fast {
			nfast++
		}
	}
	t.Logf("C05nts: %d cases run (of %d), %d accepted datagrams, %d interleaved requests, %d lanes (%d gave up on genuine responses)",
		nrun, len(cases), nok, nil_, nl, nfast)
	if nrun == 0 {
		t.Fatal("no realisable case")
	}
}

func allZero(b []byte) bool {
	for _, x := range b {
		if x != 0 {
			return false
		}
	}
	return true
}
