--------------------------- MODULE UnitConvTrace ---------------------------
(***************************************************************************)
(* Validation of what the real conversion functions returned (harness/c18) *)
(* against UnitConv.tla.  The module is instantiated twice:                *)
(*   Mo  at the scaled constants of the model-checking configurations, for *)
(*       records whose input is the exact image of a model value (img);    *)
(*   Re  at the real constants (10^9 ns/s, 2^16 sub-units, 6 x 8-bit       *)
(*       seconds, +-500 ppm << 16), for every record: 64-bit values arrive *)
(*       as base-1000 limbs, 48-bit seconds as base-256 digits.            *)
(* Records are independent; positions are visited as a 16-ary tree.        *)
(*   monitor (UnitConvTrace_mon.cfg): the property section of C18          *)
(*   strict  (UnitConvTrace_strict.cfg): equality with the transcribed     *)
(*           functions (representation, panics, truncation direction)      *)
(***************************************************************************)
EXTENDS Integers, Sequences, TLC, Json

VARIABLES c, l

Trace == ndJsonDeserialize("trace.ndjson")
N == Len(Trace)
\* word size of the model the cases were generated from (header record)
ModelW == Trace[1].w

Mo == INSTANCE UnitConv WITH W <- ModelW, NsPerSec <- 1000, SubUnits <- 16, PpmFrac <- 16, PpmUnits <- 1000,
        MaxScaledPPM <- 80, DigitBase <- 16, SecDigits <- 3,
        Vals <- {}, DriftVals <- {}, NsVals <- {}, FqDens <- {}, UtcVals <- {}
\* W = 64 is never evaluated at the real constants (TLC integers are 32 bit):
\* only the word-free operators and the limb forms are used through Re
Re == INSTANCE UnitConv WITH W <- 64, NsPerSec <- 1000000000, SubUnits <- 65536, PpmFrac <- 65536, PpmUnits <- 1000000,
        MaxScaledPPM <- 32768000, DigitBase <- 256, SecDigits <- 6,
        Vals <- {}, DriftVals <- {}, NsVals <- {}, FqDens <- {}, UtcVals <- {}

TInit == l = 0 /\ c = << >>
TNext == /\ \E j \in 1 .. 16 : l' = 16 * l + j /\ l' <= N
         /\ c' = <<Trace[l'].k>>
TSpec == TInit /\ [][TNext]_<<c, l>>

R == Trace[l]
Is(k) == l > 0 /\ R.k = k

\* ------------------------------------------------------------- monitor
\* sub-second part in [0, 10^9) and sec x 10^9 + sub-second = input
RNormalised == Is("tv") =>
  /\ R.usec_in_range /\ R.recomposes
  /\ Re!NormalisedLimbs(R.nl, R.secl, R.usecl)
  /\ (R.img => Mo!Normalised(R.n, [sec |-> R.sec, usec |-> R.usec]))

\* correction fields convert by dropping the 16 sub-nanosecond bits
RShiftDrops == Is("ci") =>
  /\ R.floor_ok
  /\ Re!ShiftDropsLimbs(R.il, R.ql)
  /\ (R.img => Mo!ShiftDrops(R.i, R.q))

\* time -> timestamp -> time is the identity over the 48-bit range
RTsRoundTrip == Is("ts") =>
  /\ R.in48 => (/\ ~R.panicked /\ R.b48 /\ R.eq
                /\ R.bd = R.sd /\ R.bnsr = R.nsr)    \* TsRoundTrip on the base-256 digits
  /\ R.img => Mo!TsRoundTrip([sec |-> R.sec, ns |-> R.ns], [sec |-> R.bsec, ns |-> R.bns])

\* timestamp -> time -> timestamp is the identity for nanoseconds < 10^9
RTsRevRoundTrip == (Is("tr") /\ R.valid) =>
             (/\ ~R.panicked
              /\ Re!TsRevRoundTrip([seconds |-> R.ib, ns |-> R.insr], [seconds |-> R.ob, ns |-> R.onsr]))

\* scaled ppm -> frequency -> scaled ppm within one unit over the kernel's range
RPpm == /\ Is("pp") => Re!PpmRoundTrip(R.sp, R.back)
        /\ Is("ppsweep") => (R.nbad = 0 /\ R.maxdev <= 1)

\* drift allowance = interval x drift per second (1 unit + float64 rounding)
RDrift == (Is("dr") /\ ~R.unknown) =>
                (/\ R.prop_ok
                 /\ (R.img => Mo!DriftProportional(R.drift, R.dur, R.got)))

\* offset and mean path delay recovered exactly
RFormula == (Is("fm") /\ R.dom) =>
           (/\ R.off_ok /\ R.mean_ok
            /\ Re!LimbsEq(R.offl, R.thl) /\ Re!LimbsEq(R.meanl, R.dl)
            /\ (R.img => Mo!FormulaExact(R.d, R.th, R.off, R.mean)))

\* -------------------------------------------------------------- strict
STimeval == (Is("tv") /\ R.img) =>
  LET tv == Mo!TimevalFromNsec(R.n) IN tv.sec = R.sec /\ tv.usec = R.usec
SShift == (Is("ci") /\ R.img) => R.q = Mo!DurationFromTimeInterval(R.i)
\* big-endian packing, nanoseconds copied, panic exactly outside the range, UTC
STimestamp == Is("ts") =>
  /\ R.panicked = ~R.in48
  /\ ~R.panicked => (R.tsb = R.sd /\ R.tsns = R.nsr /\ R.utc)
Rev(s) == [i \in 1 .. Len(s) |-> s[Len(s) + 1 - i]]
STimeFromTs == Is("tr") =>
  /\ R.utc /\ R.panicked = ~R.u48
  /\ R.unsr = R.insr % 1000000000
  \* seconds + carried nanoseconds, decided on the base-256 digits
  /\ R.u48 => Re!ZeroB([i \in 1 .. 6 |-> Rev(R.ub)[i] - Rev(R.ib)[i] - (IF i = 1 THEN R.insr \div 1000000000 ELSE 0)], 256)
  /\ (R.u48 /\ ~R.panicked) => (R.ob = R.ub /\ R.onsr = R.unsr)
\* float64 rounding can only lose one unit, toward zero
SPpm == /\ (Is("pp") /\ Re!InKernelRange(R.sp)) => (R.back = R.sp \/ R.back = R.sp - Re!Sgn(R.sp))
        /\ Is("ppsweep") => R.naway = 0
        /\ Is("fq") => Re!Abs(R.sp - Re!TDiv(R.num, R.den)) <= 1
SDrift == Is("dr") =>
  /\ R.unknown = R.is_max
  /\ (R.img /\ ~R.unknown) => Re!Abs(R.got - Mo!Drift(R.drift, R.dur)) <= 1
\* the four formulas as transcribed (wrap-around only under the embedding that preserves it)
SFormula == (Is("fm") /\ R.img /\ (R.wrapemb \/ Mo!NoOverflow(R.d, R.th, R.c1, R.c3))) =>
  /\ R.off = Mo!ClockOffset(R.x10, R.x32, R.c1, R.c3)
  /\ R.mean = Mo!MeanPathDelay(R.x10, R.x32, R.c1, R.c3)
  /\ (R.wrapemb \/ (Mo!InWord(R.d + R.th - R.utc) /\ Mo!InWord(R.d - R.th + R.utc))) =>
       (R.c2s = Mo!C2SDelay(R.x10, R.c1, R.utc) /\ R.s2c = Mo!S2CDelay(R.x32, R.c3, R.utc))
=============================================================================
