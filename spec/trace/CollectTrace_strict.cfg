SPECIFICATION TSpec
INVARIANTS SKnownScenario SMember SOfForm
