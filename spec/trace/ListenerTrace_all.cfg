SPECIFICATION TSpec
INVARIANTS ReplyIffValid ExactlyOne ToSender ReplyHeader NeverAnswersReply HistoryIndependence BoundedTraffic MCounted MRawReverse SReplies SPredicted SEcho SOther SPair SStage SStorePre SStorePost SAnc
