------------------------------ MODULE Collect ------------------------------
(***************************************************************************)
(* Measurement rounds of core/client/client.go on ONE collector value:     *)
(*                                                                         *)
(*   ReferenceClockClient.MeasureClockOffsets(ctx, refclks, ms)            *)
(*     CAS numOpsInProgress 0->1 (else panic "too many ...")               *)
(*     defer CAS numOpsInProgress 1->0 (else panic "inconsistent ...")     *)
(*     msc := make(chan Measurement)     -- unbuffered, ONE PER CALL       *)
(*     for each refclk: go { r := refclk.MeasureClockOffset(ctx); msc<-r } *)
(*     collectMeasurements(ctx, ms, msc):                                  *)
(*       i, j := 0, 0; n := len(ms)                                        *)
(*       loop: for i != n { select {                                       *)
(*           case m := <-msc: if m.Error == nil { if j != len(ms) {        *)
(*                               ms[j] = m; j++ } }; i++                   *)
(*           case <-ctx.Done(): break loop } }                             *)
(*       go func(n) { for n != 0 { <-msc; n-- } }(n - i)   -- drain        *)
(*       return j                                                          *)
(*                                                                         *)
(* and its caller core/sync/sync.go measureOffsetToRefClks                 *)
(*     ctx, cancel := context.WithTimeout(..., timeout); defer cancel()    *)
(* which is called once per synchronisation round, for ever.               *)
(*                                                                         *)
(* Processes (hand-written, PlusCal style: one pc per process, one action  *)
(* per label):                                                             *)
(*   Main      mpc: cas -> spawn -> loop -> godrain -> restore -> done     *)
(*   Sender(k) spc[k]: idle -> measuring -> sending -> done                *)
(*   Drain     dpc: none -> run -> done, counter dn                        *)
(*   Timer     the context's deadline timer; Caller: cancel() after return *)
(*   Main2     a second call on the same collector (zero clocks), issued   *)
(*             at an arbitrary instant after Main's CAS                    *)
(*   Tick      virtual time                                                *)
(*   NewRound  the caller starts the NEXT round on the same collector, at  *)
(*             an arbitrary instant (up to MaxGap units) after the         *)
(*             previous one returned and was cancelled.  What the previous *)
(*             rounds left behind stays alive and keeps running:           *)
(*               osnd  senders whose measurement call has not returned yet *)
(*                     (stragglers) or that are blocked in their send      *)
(*               odr   drain goroutines still waiting for such senders     *)
(*             each tied to the channel of the round that created it.      *)
(*             num (numOpsInProgress) is the only thing the collector      *)
(*             itself keeps.                                               *)
(*                                                                         *)
(* The rendezvous on an unbuffered channel is ONE step of two processes:   *)
(* a receiver (Main's loop, a drain) and a sender blocked ON THE SAME      *)
(* CHANNEL.  Channels are identified by the round that made them           *)
(* (Chan(r)); in the code as written a receiver of round r therefore only  *)
(* ever meets senders of round r.  The select is modelled by MRecv(k) and  *)
(* MCtx being separately enabled actions of the same label: whenever a     *)
(* sender is blocked in the send and ctx.Done() is closed, either may be   *)
(* taken, also at the same instant.  (Go commits a parked select to the    *)
(* case that fires first and chooses pseudo-randomly when several are      *)
(* ready on entry; both are refinements of this nondeterministic choice.)  *)
(*                                                                         *)
(* Time.  now counts from the start of the CURRENT round, 0..TEnd, the     *)
(* deadline is D = 2.  Clock k's measurement call returns at dl[k]: 1      *)
(* (before), 2 (at), 3 (after the deadline, ignoring ctx; during the next  *)
(* round if that starts at once), 5 (long after: after the next round's    *)
(* deadline), any larger member of DVals (the LATENESS of a straggler that *)
(* ignores its context; the configurations use 90, 7200, 259200 and        *)
(* 3000000 units: a minute and a half, two hours, three days, five weeks   *)
(* at the harness's one second per unit) or Never (blocks until            *)
(* ctx.Done(), then returns an error).                                     *)
(* Time is that of testing/synctest: it advances only when no process can  *)
(* take a step (Tick is enabled only when ~Busy) -- "maximal progress" --  *)
(* by one unit while the caller may still start the next round (now <= D + *)
(* MaxGap), afterwards straight to the next instant at which a measurement *)
(* call returns (the bubble's next timer), whatever the distance.  A       *)
(* behaviour therefore lasts until the last straggler has returned, and    *)
(* NoLeak is about what is left then.                                      *)
(* The statement "returns no later than the deadline" is about this        *)
(* virtual time; without it no implementation could satisfy it.            *)
(***************************************************************************)
EXTENDS Integers, Sequences, FiniteSets, TLC

CONSTANTS MaxClocks,  \* largest number of reference clocks of a round
          Rounds,     \* largest number of rounds on the one collector
          DVals,      \* finite completion times a clock may have
          Overlap,    \* BOOLEAN: is there a second, overlapping call (Main2)
          Hist,       \* BOOLEAN: keep the finished rounds in hist (generators)
          Fault       \* "none" = the code as written; other values are
                      \* single-site deviations used to show that the
                      \* property section is not vacuous (see CollectMC)

D      == 2
Never  == 9
MaxGap == 1
SetMax(S) == CHOOSE x \in S : \A y \in S : y <= x
SetMin(S) == CHOOSE x \in S : \A y \in S : x <= y
TEnd   == SetMax(DVals \cup {3})

VARIABLES
  rnd,                \* number of the current round (1 .. Rounds)
  n, dl, oc,          \* its scenario: #clocks, completion time, "ok"/"err"
  now, ctxDone,       \* virtual time since its start; its ctx.Done() closed
  num,                \* c.numOpsInProgress
  mpc, i, j, ms,      \* Main: pc, loop counters, result slice (0 = untouched)
  spc,                \* Sender pcs
  dpc, dn,            \* Drain
  p2,                 \* Main2: idle | in | done | panicked
  osnd, odr,          \* left behind by earlier rounds (sequences of records)
  \* history variables (used by the property section / generators only)
  got,                \* set of clocks whose result Main received
  rt,                 \* virtual time at which Main returned (-1: not yet)
  p2phase,            \* "none" | "during" | "after": was Main in progress
                      \* when Main2 executed its CAS
  gap, live,          \* when the current round started: time since the
                      \* previous return; #goroutines of earlier rounds alive
  hist                \* the finished rounds (Hist only)
scen  == <<n, dl, oc>>
mvars == <<mpc, i, j, ms>>
hvars == <<gap, live, hist>>
vars  == <<rnd, n, dl, oc, now, ctxDone, num, mpc, i, j, ms, spc, dpc, dn, p2, osnd, odr,
           got, rt, p2phase, gap, live, hist>>

Clocks == 1 .. n
InProgress == {"spawn", "loop", "godrain", "restore"}
Range(s) == {s[x] : x \in DOMAIN s}
\* the channel made by round r
Chan(r) == IF Fault = "sharedchan" THEN 0 ELSE r
RemoveAt(s, x) == SubSeq(s, 1, x - 1) \o SubSeq(s, x + 1, Len(s))

Scenarios(m) ==
  {sc \in [d : [1 .. m -> DVals \cup {Never}], o : [1 .. m -> {"ok", "err"}]] :
      \A k \in 1 .. m : sc.d[k] = Never => sc.o[k] = "err"}

Init ==
  /\ rnd = 1
  /\ n \in 0 .. MaxClocks
  /\ \E sc \in Scenarios(n) : dl = sc.d /\ oc = sc.o
  /\ now = 0 /\ ctxDone = FALSE /\ num = 0
  /\ mpc = "cas" /\ i = 0 /\ j = 0 /\ ms = [x \in 1 .. n |-> 0]
  /\ spc = [k \in 1 .. n |-> "idle"]
  /\ dpc = "none" /\ dn = 0
  /\ p2 = "idle" /\ got = {} /\ rt = -1 /\ p2phase = "none"
  /\ osnd = <<>> /\ odr = <<>> /\ gap = 0 /\ live = 0 /\ hist = <<>>

----------------------------------------------------------------------------
(* Main *)
MCas ==
  /\ mpc = "cas"
  /\ IF num = 0 \/ Fault = "noguard"
       THEN num' = 1 /\ mpc' = "spawn" /\ rt' = rt
       ELSE num' = num /\ mpc' = "panicked" /\ rt' = now
  /\ UNCHANGED <<rnd, scen, now, ctxDone, i, j, ms, spc, dpc, dn, p2, osnd, odr, got, p2phase, hvars>>

\* the `go` statements; a sender cannot do anything observable before its
\* measurement call returns, so starting all of them is one step
MSpawn ==
  /\ mpc = "spawn"
  /\ spc' = [k \in 1 .. n |-> "measuring"]
  /\ mpc' = "loop"
  /\ UNCHANGED <<rnd, scen, now, ctxDone, num, i, j, ms, dpc, dn, p2, osnd, odr, got, rt, p2phase, hvars>>

\* what the loop body does with a received measurement: ok = no error,
\* v = what is stored (the clock's number; 100*r + k for a clock of an
\* earlier round r)
Take(ok, v) ==
  IF Fault = "ij"
    THEN \* deviation: the loop counts stored results instead of received ones
         IF ok /\ j # n
           THEN ms' = [ms EXCEPT ![j + 1] = v] /\ j' = j + 1 /\ i' = i + 1
           ELSE UNCHANGED <<ms, j, i>>
    ELSE /\ IF ok /\ j # n
              THEN ms' = [ms EXCEPT ![j + 1] = v] /\ j' = j + 1
              ELSE UNCHANGED <<ms, j>>
         /\ i' = i + 1

\* case m := <-msc   (rendezvous with Sender k, which completes its send)
MRecv(k) ==
  /\ mpc = "loop" /\ i # n
  /\ spc[k] = "sending"
  /\ spc' = [spc EXCEPT ![k] = "done"]
  /\ got' = got \cup {k}
  /\ Take(oc[k] = "ok", k)
  /\ UNCHANGED <<rnd, scen, now, ctxDone, num, mpc, dpc, dn, p2, osnd, odr, rt, p2phase, hvars>>

\* the same, with a sender of an earlier round blocked on the same channel
\* (never enabled unless rounds share a channel)
MRecvOld(x) ==
  /\ mpc = "loop" /\ i # n
  /\ osnd[x].st = "sending" /\ osnd[x].c = Chan(rnd)
  /\ osnd' = RemoveAt(osnd, x)
  /\ Take(osnd[x].v # 0, osnd[x].v)
  /\ UNCHANGED <<rnd, scen, now, ctxDone, num, mpc, spc, dpc, dn, p2, odr, got, rt, p2phase, hvars>>

\* case <-ctx.Done(): break loop
MCtx ==
  /\ mpc = "loop" /\ i # n
  /\ ctxDone /\ Fault # "noctx"
  /\ mpc' = "godrain"
  /\ UNCHANGED <<rnd, scen, now, ctxDone, num, i, j, ms, spc, dpc, dn, p2, osnd, odr, got, rt, p2phase, hvars>>

\* for i != n  is false
MExit ==
  /\ mpc = "loop" /\ i = n
  /\ mpc' = "godrain"
  /\ UNCHANGED <<rnd, scen, now, ctxDone, num, i, j, ms, spc, dpc, dn, p2, osnd, odr, got, rt, p2phase, hvars>>

\* go func(n int){...}(n - i); return j
MGoDrain ==
  /\ mpc = "godrain"
  /\ CASE Fault = "nodrain"  -> dpc' = "done" /\ dn' = 0
       [] Fault = "drain_nj" -> dpc' = "run" /\ dn' = n - j
       [] OTHER              -> dpc' = "run" /\ dn' = n - i
  /\ mpc' = "restore"
  /\ UNCHANGED <<rnd, scen, now, ctxDone, num, i, j, ms, spc, p2, osnd, odr, got, rt, p2phase, hvars>>

\* deferred CAS 1 -> 0, then MeasureClockOffsets returns (or panics)
MRestore ==
  /\ mpc = "restore"
  /\ rt' = now
  /\ IF Fault = "norestore" THEN num' = num /\ mpc' = "done"
     ELSE IF num = 1 THEN num' = 0 /\ mpc' = "done"
     ELSE num' = num /\ mpc' = "panicked"
  /\ UNCHANGED <<rnd, scen, now, ctxDone, i, j, ms, spc, dpc, dn, p2, osnd, odr, got, p2phase, hvars>>

MainNext == MCas \/ MSpawn \/ (\E k \in Clocks : MRecv(k)) \/ (\E x \in DOMAIN osnd : MRecvOld(x))
            \/ MCtx \/ MExit \/ MGoDrain \/ MRestore

(* Sender k: refclk.MeasureClockOffset(ctx) returns *)
SReturn(k) ==
  /\ spc[k] = "measuring"
  /\ IF dl[k] = Never THEN ctxDone ELSE now >= dl[k]
  /\ spc' = [spc EXCEPT ![k] = "sending"]
  /\ UNCHANGED <<rnd, scen, now, ctxDone, num, mvars, dpc, dn, p2, osnd, odr, got, rt, p2phase, hvars>>

(* Drain *)
DRecv(k) ==
  /\ dpc = "run" /\ dn # 0
  /\ spc[k] = "sending"
  /\ spc' = [spc EXCEPT ![k] = "done"]
  /\ dn' = dn - 1
  /\ UNCHANGED <<rnd, scen, now, ctxDone, num, mvars, dpc, p2, osnd, odr, got, rt, p2phase, hvars>>

DRecvOld(x) ==
  /\ dpc = "run" /\ dn # 0
  /\ osnd[x].st = "sending" /\ osnd[x].c = Chan(rnd)
  /\ osnd' = RemoveAt(osnd, x)
  /\ dn' = dn - 1
  /\ UNCHANGED <<rnd, scen, now, ctxDone, num, mvars, spc, dpc, p2, odr, got, rt, p2phase, hvars>>

DExit ==
  /\ dpc = "run" /\ dn = 0
  /\ dpc' = "done"
  /\ UNCHANGED <<rnd, scen, now, ctxDone, num, mvars, spc, dn, p2, osnd, odr, got, rt, p2phase, hvars>>

DrainNext == (\E k \in Clocks : DRecv(k)) \/ (\E x \in DOMAIN osnd : DRecvOld(x)) \/ DExit

(* What earlier rounds left behind.  osnd[x] = [c: channel, t: time (in the  *)
(* current round's frame) at which the measurement call returns, st:        *)
(* "measuring" | "sending", v: 0 for an error result, else 100*round+clock]; *)
(* odr[y] = [c: channel, dn: receives still to do].  Finished ones are       *)
(* removed.                                                                  *)
OSReturn(x) ==
  /\ osnd[x].st = "measuring" /\ now >= osnd[x].t
  /\ osnd' = [osnd EXCEPT ![x].st = "sending"]
  /\ UNCHANGED <<rnd, scen, now, ctxDone, num, mvars, spc, dpc, dn, p2, odr, got, rt, p2phase, hvars>>

ODRecvOld(y, x) ==
  /\ odr[y].dn # 0
  /\ osnd[x].st = "sending" /\ osnd[x].c = odr[y].c
  /\ osnd' = RemoveAt(osnd, x)
  /\ odr' = [odr EXCEPT ![y].dn = @ - 1]
  /\ UNCHANGED <<rnd, scen, now, ctxDone, num, mvars, spc, dpc, dn, p2, got, rt, p2phase, hvars>>

\* an old drain meets a sender of the current round (never enabled unless
\* rounds share a channel)
ODRecvCur(y, k) ==
  /\ odr[y].dn # 0 /\ odr[y].c = Chan(rnd)
  /\ spc[k] = "sending"
  /\ spc' = [spc EXCEPT ![k] = "done"]
  /\ odr' = [odr EXCEPT ![y].dn = @ - 1]
  /\ UNCHANGED <<rnd, scen, now, ctxDone, num, mvars, dpc, dn, p2, osnd, got, rt, p2phase, hvars>>

ODExit(y) ==
  /\ odr[y].dn = 0
  /\ odr' = RemoveAt(odr, y)
  /\ UNCHANGED <<rnd, scen, now, ctxDone, num, mvars, spc, dpc, dn, p2, osnd, got, rt, p2phase, hvars>>

OldNext ==
  \/ \E x \in DOMAIN osnd : OSReturn(x)
  \/ \E y \in DOMAIN odr : ODExit(y) \/ (\E x \in DOMAIN osnd : ODRecvOld(y, x)) \/ (\E k \in Clocks : ODRecvCur(y, k))

(* the deadline timer of context.WithTimeout *)
Timer ==
  /\ now = D /\ ~ctxDone
  /\ ctxDone' = TRUE
  /\ UNCHANGED <<rnd, scen, now, num, mvars, spc, dpc, dn, p2, osnd, odr, got, rt, p2phase, hvars>>

(* the caller's deferred cancel() *)
Cancel ==
  /\ mpc \in {"done", "panicked"} /\ ~ctxDone
  /\ ctxDone' = TRUE
  /\ UNCHANGED <<rnd, scen, now, num, mvars, spc, dpc, dn, p2, osnd, odr, got, rt, p2phase, hvars>>

(* Main2: a call with zero clocks on the same collector.  Its CAS may be    *)
(* executed at any instant after Main's (it is not urgent).                 *)
Call2 ==
  /\ Overlap /\ p2 = "idle" /\ mpc # "cas"
  /\ p2phase' = IF mpc \in InProgress THEN "during" ELSE "after"
  /\ IF num = 0 \/ Fault = "noguard"
       THEN num' = 1 /\ p2' = "in"
       ELSE num' = num /\ p2' = "panicked"
  /\ UNCHANGED <<rnd, scen, now, ctxDone, mvars, spc, dpc, dn, osnd, odr, got, rt, hvars>>

\* empty loop, drain(0), deferred CAS back
Fin2 ==
  /\ p2 = "in"
  /\ IF num = 1 THEN num' = 0 /\ p2' = "done" ELSE num' = num /\ p2' = "panicked"
  /\ UNCHANGED <<rnd, scen, now, ctxDone, mvars, spc, dpc, dn, osnd, odr, got, rt, p2phase, hvars>>

(* The caller's next round on the same collector: any scenario, at any      *)
(* instant up to MaxGap after the previous round returned and its context   *)
(* was cancelled (not urgent, so also before goroutines that are ready to   *)
(* run have run).  The senders and the drain of the round that ends here    *)
(* join osnd / odr; times are re-based to the new round's start.            *)
SeqOf(f, m) == [x \in 1 .. m |-> f[x]]
Max0(x) == IF x < 0 THEN 0 ELSE x
RoundRec ==
  [n |-> n, d |-> SeqOf(dl, n), o |-> SeqOf(oc, n), gap |-> gap, live |-> live, rt |-> rt, j |-> j,
   prefix |-> SubSeq(ms, 1, j), phase |-> p2phase, refused |-> (p2 = "panicked")]
Leftover ==
  SelectSeq([k \in 1 .. n |->
               [c |-> Chan(rnd), st |-> spc[k],
                t |-> IF spc[k] = "sending" \/ dl[k] = Never THEN 0 ELSE Max0(dl[k] - now),
                v |-> IF oc[k] = "ok" THEN 100 * rnd + k ELSE 0]],
            LAMBDA s : s.st \in {"measuring", "sending"})
NewRoundWith(m, sc) ==
  /\ rnd < Rounds
  /\ mpc = "done" /\ ctxDone /\ p2 # "in"
  /\ now - rt <= MaxGap
  /\ rnd' = rnd + 1
  /\ osnd' = [x \in 1 .. Len(osnd) |-> [osnd[x] EXCEPT !.t = IF osnd[x].st = "sending" THEN 0 ELSE Max0(@ - now)]]
               \o Leftover
  /\ odr' = odr \o (IF dpc = "run" THEN <<[c |-> Chan(rnd), dn |-> dn]>> ELSE <<>>)
  /\ gap' = now - rt
  /\ live' = Len(osnd') + Len(odr')
  /\ hist' = IF Hist THEN Append(hist, RoundRec) ELSE hist
  /\ n' = m /\ dl' = sc.d /\ oc' = sc.o
  /\ ms' = [x \in 1 .. m |-> 0]
  /\ spc' = [k \in 1 .. m |-> "idle"]
  /\ now' = 0 /\ ctxDone' = FALSE
  /\ mpc' = "cas" /\ i' = 0 /\ j' = 0
  /\ dpc' = "none" /\ dn' = 0
  /\ p2' = "idle" /\ got' = {} /\ rt' = -1 /\ p2phase' = "none"
  /\ num' = num
NewRound == rnd < Rounds /\ \E m \in 0 .. MaxClocks : \E sc \in Scenarios(m) : NewRoundWith(m, sc)

(* everything that happens "now": explicit enabling condition of the urgent *)
(* actions (checked equal to ENABLED by the invariant BusyIsEnabled)        *)
OldSending(c) == \E x \in DOMAIN osnd : osnd[x].st = "sending" /\ osnd[x].c = c
CurSending == \E k \in Clocks : spc[k] = "sending"
Busy ==
  \/ mpc \in {"cas", "spawn", "godrain", "restore"}
  \/ mpc = "loop" /\ (i = n \/ (ctxDone /\ Fault # "noctx") \/ CurSending \/ OldSending(Chan(rnd)))
  \/ \E k \in Clocks : spc[k] = "measuring" /\ (IF dl[k] = Never THEN ctxDone ELSE now >= dl[k])
  \/ dpc = "run" /\ (dn = 0 \/ CurSending \/ OldSending(Chan(rnd)))
  \/ \E x \in DOMAIN osnd : osnd[x].st = "measuring" /\ now >= osnd[x].t
  \/ \E y \in DOMAIN odr : odr[y].dn = 0 \/ OldSending(odr[y].c) \/ (odr[y].c = Chan(rnd) /\ CurSending)
  \/ now = D /\ ~ctxDone
  \/ mpc \in {"done", "panicked"} /\ ~ctxDone
  \/ p2 = "in"

Urgent == MainNext \/ (\E k \in Clocks : SReturn(k)) \/ DrainNext \/ OldNext \/ Timer \/ Cancel \/ Fin2

\* instants at which a measurement call that is still running returns
Pending ==
  {dl[k] : k \in {q \in Clocks : spc[q] = "measuring" /\ dl[q] # Never}}
    \cup {osnd[x].t : x \in {y \in DOMAIN osnd : osnd[y].st = "measuring"}}
NextInstant ==
  IF now <= D + MaxGap THEN now + 1
  ELSE SetMin({t \in Pending : t > now} \cup {TEnd})
Tick ==
  /\ now < TEnd /\ ~Busy
  /\ now' = NextInstant
  /\ UNCHANGED <<rnd, scen, ctxDone, num, mvars, spc, dpc, dn, p2, osnd, odr, got, rt, p2phase, hvars>>

Next == Urgent \/ Call2 \/ NewRound \/ Tick

Fairness ==
  /\ WF_vars(MainNext)
  /\ \A k \in 1 .. MaxClocks : WF_vars(k \in Clocks /\ SReturn(k))
  /\ WF_vars(DrainNext) /\ WF_vars(OldNext)
  /\ WF_vars(Timer) /\ WF_vars(Cancel) /\ WF_vars(Fin2) /\ WF_vars(Tick)

Spec     == Init /\ [][Next]_vars
FairSpec == Spec /\ Fairness

----------------------------------------------------------------------------
(***************************************************************************)
(* Property section (C16).  Every clause is about the CURRENT round; as    *)
(* invariants they are therefore judged for each round of every history.   *)
(***************************************************************************)
Prefix == SubSeq(ms, 1, j)
MeasurementsReturned ==
  /\ mpc # "cas" /\ mpc # "spawn" /\ \A k \in Clocks : spc[k] \in {"sending", "done"}
  /\ \A x \in DOMAIN osnd : osnd[x].st # "measuring"            \* also those of earlier rounds
Returned == mpc \in {"done", "panicked"}      \* the call has come back (a panic unwinds it)
AllDone ==
  /\ Returned
  /\ \A k \in Clocks : spc[k] = "done"
  /\ dpc = "done"
  /\ osnd = <<>> /\ odr = <<>>
  /\ p2 # "in"

\* "returns no later than the round's deadline however slow, blocked or
\* failing individual clocks are"
ByDeadline ==
  /\ rt # -1 => rt <= D
  /\ now > D => Returned

\* "places each successful result that arrived in time exactly once at the
\* front of the result slice"
ExactlyOncePrefix ==
  /\ j \in 0 .. n
  /\ \A x, y \in 1 .. j : x # y => ms[x] # ms[y]                    \* once
  /\ Range(Prefix) = {k \in got : oc[k] = "ok"}                      \* the received successes (of this round's clocks)
  /\ \A x \in (j + 1) .. n : ms[x] = 0                               \* nothing else is written
InTimeCounted ==
  mpc = "done" =>
    /\ \A k \in Clocks : (oc[k] = "ok" /\ dl[k] < D) => k \in Range(Prefix)
    /\ \A k \in Range(Prefix) \cap Clocks : dl[k] <= rt

\* "leaves no goroutine behind once every clock's measurement call has
\* returned"  (liveness; checked under FairSpec without state constraint)
NoLeak == MeasurementsReturned ~> AllDone
\* safety twin: when nothing can happen any more, nobody is left blocked
NoStuckLeak == (now = TEnd /\ ~Busy) => AllDone

\* "starting a second collection on the same collector while one is in
\* progress is refused rather than silently interleaved"
SecondCallRefused ==
  /\ ~(p2 = "in" /\ mpc \in InProgress)
  /\ p2phase = "during" => p2 = "panicked"
CounterRestored ==
  /\ num = (IF mpc \in InProgress THEN 1 ELSE 0) + (IF p2 = "in" THEN 1 ELSE 0)
  /\ mpc # "panicked"
  /\ p2phase = "after" => p2 \in {"in", "done"}

----------------------------------------------------------------------------
(* What a round may show, in closed form (a lemma about Next, checked by    *)
(* TLC as the invariant OutcomeIsOfForm; used by the trace specification    *)
(* to explain rounds of scenarios that are too large to enumerate): the     *)
(* round returns when its last clock has answered if all answer before the  *)
(* deadline, else at the deadline; the prefix holds every success that was  *)
(* ready before the deadline and any of those ready at the deadline --      *)
(* whatever earlier rounds left behind.                                     *)
OutcomeForm(m, d, o, r, P) ==
  /\ r = IF \A k \in 1 .. m : d[k] < D THEN SetMax({0} \cup {d[k] : k \in 1 .. m}) ELSE D
  /\ {k \in 1 .. m : o[k] = "ok" /\ d[k] < D} \subseteq P
  /\ P \subseteq {k \in 1 .. m : o[k] = "ok" /\ d[k] <= D}
OutcomeIsOfForm == mpc = "done" => OutcomeForm(n, dl, oc, rt, Range(Prefix))

----------------------------------------------------------------------------
TypeOK ==
  /\ rnd \in 1 .. Rounds
  /\ n \in 0 .. MaxClocks /\ now \in 0 .. TEnd /\ ctxDone \in BOOLEAN /\ num \in 0 .. 1
  /\ mpc \in {"cas", "spawn", "loop", "godrain", "restore", "done", "panicked"}
  /\ i \in 0 .. n /\ j \in 0 .. n /\ dn \in 0 .. n
  /\ \A k \in Clocks : spc[k] \in {"idle", "measuring", "sending", "done"}
  /\ dpc \in {"none", "run", "done"}
  /\ p2 \in {"idle", "in", "done", "panicked"}
  /\ rt \in -1 .. TEnd
  /\ \A x \in DOMAIN osnd : osnd[x].st \in {"measuring", "sending"} /\ osnd[x].t \in 0 .. TEnd
  /\ \A y \in DOMAIN odr : odr[y].dn \in 0 .. MaxClocks
  /\ gap \in 0 .. MaxGap /\ live \in 0 .. (Rounds * (MaxClocks + 1))
BusyIsEnabled == Busy <=> ENABLED Urgent
=============================================================================
