SPECIFICATION TSpec
INVARIANTS TOneMessage TErrorIffBad TNoEarlyAnswer TResponseShape TCookiesSealSession TCookiesDistinct TKeyCurrent TStillServing
