package c08

import (
	"crypto/tls"
	"encoding/binary"
	"errors"
	"fmt"
	"io"
	"math/rand"
	"net"
	"sync"
	"time"
)

const keLabel = "EXPORTER-network-time-security"

func exportKeys(cs tls.ConnectionState) (c2s, s2c []byte, err error) {
	s2c, err = cs.ExportKeyingMaterial(keLabel, []byte{0, 0, 0, 0x0f, 1}, 32)
	if err != nil {
		return
	}
	c2s, err = cs.ExportKeyingMaterial(keLabel, []byte{0, 0, 0, 0x0f, 0}, 32)
	return
}

type keResult struct {
	cookies [][]byte
	errCode int // -1: none
	eom     bool
	n       int // bytes received
}

func parseKE(b []byte) keResult {
	r := keResult{errCode: -1, n: len(b)}
	for len(b) >= 4 {
		t := binary.BigEndian.Uint16(b) &^ 0x8000
		l := int(binary.BigEndian.Uint16(b[2:]))
		if len(b) < 4+l {
			break
		}
		body := b[4 : 4+l]
		switch t {
		case 0:
			r.eom = true
		case 2:
			if l >= 2 {
				r.errCode = int(binary.BigEndian.Uint16(body))
			}
		case 5:
			r.cookies = append(r.cookies, append([]byte(nil), body...))
		}
		b = b[4+l:]
	}
	return r
}

// keExchange performs one NTS-KE exchange with the server child. pre and the
// request bytes are chosen by the caller (well-formed for the sentinel).
func keExchange(addr string, pre string, req []byte, halfClose bool, timeout time.Duration) (res keResult, sess *session, err error) {
	res.errCode = -1
	d := net.Dialer{Timeout: timeout}
	raw, err := d.Dial("tcp", addr)
	if err != nil {
		return res, nil, fmt.Errorf("dial: %w", err)
	}
	defer raw.Close()
	raw.SetDeadline(time.Now().Add(timeout))
	switch pre {
	case "close":
		return res, nil, nil
	case "garbage":
		raw.Write(req)
		if tc, ok := raw.(*net.TCPConn); ok {
			tc.CloseWrite()
		}
		b, _ := io.ReadAll(raw)
		res.n = len(b)
		return res, nil, nil
	}
	cfg := &tls.Config{InsecureSkipVerify: true, MinVersion: tls.VersionTLS13, DynamicRecordSizingDisabled: true}
	if pre == "tls" {
		cfg.NextProtos = []string{"ntske/1"}
	}
	conn := tls.Client(raw, cfg)
	if err = conn.Handshake(); err != nil {
		return res, nil, fmt.Errorf("handshake: %w", err)
	}
	c2s, s2c, err := exportKeys(conn.ConnectionState())
	if err != nil {
		return res, nil, err
	}
	if len(req) > 0 {
		if _, err = conn.Write(req); err != nil {
			return res, nil, fmt.Errorf("write: %w", err)
		}
	}
	if halfClose {
		conn.CloseWrite()
	}
	b, rerr := io.ReadAll(conn)
	res = parseKE(b)
	if rerr != nil && !errors.Is(rerr, io.EOF) && len(b) == 0 {
		var ne net.Error
		if errors.As(rerr, &ne) && ne.Timeout() {
			return res, nil, fmt.Errorf("read: %w", rerr)
		}
	}
	return res, &session{c2s: c2s, s2c: s2c, cookies: res.cookies}, nil
}

// ------------------------------------------------------------ fake NTS-KE server
// (what the client child's Fetcher talks to)
type kePlan struct {
	pre    string
	stream []byte
}

type fakeKE struct {
	ln   net.Listener
	cert tls.Certificate
	mu   sync.Mutex
	plan *kePlan
	sess *session // keys of the last completed handshake
	wg   sync.WaitGroup
}

func newFakeKE(addr string) (*fakeKE, error) {
	ln, err := net.Listen("tcp", addr)
	if err != nil {
		return nil, err
	}
	f := &fakeKE{ln: ln, cert: selfSigned()}
	go f.loop()
	return f, nil
}

func (f *fakeKE) set(p *kePlan) {
	f.mu.Lock()
	f.plan = p
	f.sess = nil
	f.mu.Unlock()
}

func (f *fakeKE) session() *session {
	f.mu.Lock()
	defer f.mu.Unlock()
	return f.sess
}

func (f *fakeKE) close() { f.ln.Close() }

func (f *fakeKE) loop() {
	for {
		c, err := f.ln.Accept()
		if err != nil {
			return
		}
		f.mu.Lock()
		p := f.plan
		f.mu.Unlock()
		go f.serve(c, p)
	}
}

func (f *fakeKE) serve(c net.Conn, p *kePlan) {
	defer c.Close()
	c.SetDeadline(time.Now().Add(3 * time.Second))
	if p == nil {
		return
	}
	switch p.pre {
	case "close":
		return
	case "garbage":
		c.Write([]byte("HTTP/1.1 400 Bad Request\r\nConnection: close\r\n\r\n"))
		return
	}
	cfg := &tls.Config{Certificates: []tls.Certificate{f.cert}, MinVersion: tls.VersionTLS13, DynamicRecordSizingDisabled: true}
	if p.pre == "tls" {
		cfg.NextProtos = []string{"ntske/1"}
	}
	tc := tls.Server(c, cfg)
	if err := tc.Handshake(); err != nil {
		return
	}
	c2s, s2c, err := exportKeys(tc.ConnectionState())
	if err != nil {
		return
	}
	f.mu.Lock()
	f.sess = &session{c2s: c2s, s2c: s2c}
	f.mu.Unlock()
	if p.pre != "tls" {
		// the client gives up on the missing ALPN; nothing to answer
		io.Copy(io.Discard, tc)
		return
	}
	// read the client's request up to its end-of-message record
	buf := make([]byte, 0, 64)
	tmp := make([]byte, 256)
	for {
		n, err := tc.Read(tmp)
		buf = append(buf, tmp[:n]...)
		if parseKE(buf).eom || err != nil {
			break
		}
	}
	if len(p.stream) > 0 {
		tc.Write(p.stream)
	}
	tc.Close()
}

func keRng(seed int64, id int) *rand.Rand { return rand.New(rand.NewSource(seed*1000003 + int64(id))) }
