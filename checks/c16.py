"""C16 - a measurement round ends by its deadline, counts each result once, leaks nothing.

1. TLC decides the property section of spec/Collect.tla (safety + NoLeak under
   fairness) for every single round with <= 3 (quick) / <= 4 (thorough) clocks, and for
   every HISTORY of rounds on one collector (Collect_rounds*.cfg: the next round starts
   0 or 1 units after the previous return, while clocks, blocked senders and drain
   goroutines of earlier rounds are alive; clocks that answer during / at the deadline
   of / after the next round).
2. TLC generates what is replayed on the real code:
   a. (Emit; Collect_gen.cfg in the thorough tier) every reachable final outcome of
      every single-round scenario; grouped by scenario this is the scenario list and,
      per scenario, the SET of outcomes the code may show;
   b. (Collect_rgen.cfg, -simulate) histories of up to 3 rounds, <= 3 clocks each;
   c. (Collect_big.cfg, -simulate from InitBig) rounds with 5 .. 64 clocks of which a
      prefix / suffix / random subset is blocked.
3. harness/c16 runs every history on ONE real ReferenceClockClient in a synctest bubble.
4. CollectTrace.tla, one record per round: monitor = Collect's property section on the
   recorded round (VIOLATION); strict = membership in the TLC-computed set, or
   Collect!OutcomeForm for rounds of histories / large rounds (DRIFT).
"""
import collections, json, os, re
from concurrent.futures import ThreadPoolExecutor
import vlib

NEVER = 9
KIND = {(1, "ok"): 0, (1, "err"): 1, (2, "ok"): 2, (2, "err"): 3, (3, "ok"): 4, (3, "err"): 5, (NEVER, "err"): 6}
MON = ["RByDeadline", "RExactlyOncePrefix", "RInTimeCounted", "RNoLeak", "RSecondCallRefused", "RCounterRestored"]
ACTIONS = ["MCas", "MSpawn", "MCtx", "MExit", "MGoDrain", "MRestore", "DExit", "Timer", "Cancel", "Call2", "Fin2",
           "Tick", "MainNext", "DrainNext", "Urgent"]
# actions of the multi-round dimension that Collect_rounds.cfg must take
ROUND_ACTIONS = ["NewRound", "OldNext"]
# single-site deviations of the spec and the clause(s) TLC must refute for each
FAULTS = {"nodrain": "NoStuckLeak", "drain_nj": "NoStuckLeak", "noguard": "SecondCallRefused",
          "norestore": "CounterRestored", "noctx": "ByDeadline", "ij": None,
          "sharedchan": ("ExactlyOncePrefix", "InTimeCounted")}
# LATENESS of a straggler (completion time > deadline of a clock that ignores its context), in model units = seconds
# of virtual time after its round's start: CollectMC!LateVals and the two small values
LATE_CLASS = {3: "just_after", 5: "seconds", 90: "minutes", 7200: "hours", 259200: "days", 3000000: "weeks"}
FAR = ("minutes", "hours", "days", "weeks")


def blocked(d):
    return d > 2          # 3, 5, the lateness scale, NEVER


def scen_index(n, d, o):
    """Position of a scenario in allowed.ndjson (1-based, dense)."""
    off = sum(7 ** m for m in range(n))
    return off + sum(KIND[(d[k], o[k])] * 7 ** k for k in range(n)) + 1


def okey(rt, prefix, phase, refused):
    return (rt, tuple(sorted(prefix)), phase, bool(refused))


def lead(ms):
    j = 0
    while j < len(ms) and ms[j] != 0:
        j += 1
    return j


def scen_class(r):
    ks = sorted({{1: "before", 2: "at", 3: "after", 5: "longafter", NEVER: "never"}.get(x) or "late_" + LATE_CLASS.get(x, "other")
                 for x in r["d"]})
    return "n=%d %s" % (r["n"], "+".join(ks) if ks else "none")


def covered_actions(out, names):
    """Names among `names` of which NO disjunct was ever taken (TLC -coverage lists a line per disjunct)."""
    cov = collections.Counter()
    for a, c in re.findall(r"^<(\w+) line [^>]*of module Collect[^>]*>: (\d+):\d+", out, re.M):
        cov[a] = max(cov[a], int(c))
    return [a for a in names if cov[a] == 0]


def hist_key(rounds):
    return json.dumps([(r["n"], r["d"], r["o"], r["gap"]) for r in rounds])


def straggler_classes(rounds):
    """Spec side: when do clocks of round r that are still measuring at its return finish, in the time frame of
    round r+1 (which starts gap units after that return)?"""
    res = set()
    for a, b in zip(rounds, rounds[1:]):
        for d in a["d"]:
            if 2 < d != NEVER and d > a["rt"]:
                rel = d - a["rt"] - b["gap"]
                res.add("before_next_deadline" if rel < 2 else "at_next_deadline" if rel == 2 else "after_next_deadline")
                if rel < b["rt"]:
                    res.add("while_next_round_in_progress")
    return res


def lateness(rounds):
    """Spec side: the LATENESS dimension of a generated history: per round the classes of its stragglers (clocks that
    ignore their context and answer after the deadline)."""
    return [[LATE_CLASS.get(d, "other") for d in r["d"] if 2 < d != NEVER] for r in rounds]


def count_lateness(cnt, rounds, what):
    per = lateness(rounds)
    far = [[c for c in x if c in FAR] for x in per]
    for c in {c for x in per for c in x}:
        cnt["%s_with_a_straggler_%s_late" % (what, c)] += 1
    if sum(map(len, far)) == 1:
        cnt["%s_with_one_far_straggler" % what] += 1
    if sum(map(len, far)) >= 2:
        cnt["%s_with_several_far_stragglers" % what] += 1
    if any(len(x) >= 2 for x in far):
        cnt["%s_with_several_far_stragglers_in_one_round" % what] += 1
    if sum(1 for x in far if x) >= 2:
        cnt["%s_with_far_stragglers_in_several_rounds" % what] += 1
    if any(len(set(x)) >= 2 for x in far) or len({c for x in far for c in x}) >= 2:
        cnt["%s_with_far_stragglers_of_different_lateness" % what] += 1
    if far and far[-1] == [] and any(far[:-1]):
        cnt["%s_with_rounds_after_the_far_straggler_s_round" % what] += 1


def blocked_prefix(r):
    p = 0
    while p < r["n"] and blocked(r["d"][p]):
        p += 1
    return p




def run(ctx):
    ctx.specdir()
    ex = ThreadPoolExecutor(max_workers=4)
    try:
        _run(ctx, ex)
    finally:
        ex.shutdown(wait=True, cancel_futures=True)


def _run(ctx, ex):
    q = ctx.quick

    def bg(*a, **kw):
        return ex.submit(ctx.tlc, *a, specdir=ctx.private_specdir(), **kw)

    def launch():
        # ---- 1b/2b/2c run beside the single-round generator (at most 8 TLC workers in total)
        # histories of rounds on one collector, exhaustively at small scope
        f_rounds = bg("CollectMC", "Collect_rounds.cfg" if q else "Collect_rounds_deep.cfg", workers=3, timeout=900,
                      coverage=True, tag="rounds")
        # how LATE stragglers return (minutes .. days / weeks after the deadline), exhaustively at small scope
        f_late = bg("CollectMC", "Collect_late.cfg" if q else "Collect_late_deep.cfg", workers=2, timeout=900,
                    coverage=True, tag="late")
        # ... and sampled at a larger one, printed for the harness
        f_rgen = bg("CollectMC", "Collect_rgen.cfg", workers=1, timeout=900,
                    simulate="num=%d" % (1000 if q else 4000), depth=300, tag="gen-rounds")
        # rounds with many clocks
        f_big = bg("CollectMC", "Collect_big.cfg", workers=1, timeout=900,
                   simulate="num=%d" % (150 if q else 1200), depth=600, tag="gen-big")
        return f_rounds, f_rgen, f_big, f_late

    # ---- 1. design level, single rounds
    if q:
        f_rounds, f_rgen, f_big, f_late = launch()
    # quick: one run decides the clauses for <= 3 clocks AND prints the final outcomes (Emit is part of
    # Collect_exh.cfg); thorough: <= 4 clocks, the generator is a separate single-worker run
    r = ctx.tlc("CollectMC", "Collect_exh.cfg" if q else "Collect_deep.cfg", timeout=900, coverage=q,
                workers=1 if q else 8)
    maxn = 3 if q else 4
    ctx.log("TLC n<=%d: %d distinct states, safety clauses + NoLeak hold" % (maxn, r["distinct"]))
    if q:
        dead = covered_actions(r["out"], ACTIONS)
        if dead:
            raise vlib.Inconclusive("Collect.tla: actions never taken in %s: %s" % (r["cfg"], dead))
        g = r
    else:
        f_rounds, f_rgen, f_big, f_late = launch()
        # ---- 2a. scenarios and their allowed outcome sets, from TLC
        g = ctx.tlc("CollectMC", "Collect_gen.cfg", workers=1, timeout=900, tag="gen")
    outs = ctx.emitted(g["out"])
    by = collections.defaultdict(dict)
    scen = {}
    for o in outs:
        ix = scen_index(o["n"], o["d"], o["o"])
        scen[ix] = dict(id=ix, n=o["n"], d=o["d"], o=o["o"])
        by[ix][okey(o["rt"], o["prefix"], o["phase"], o["refused"])] = dict(
            rt=o["rt"], j=o["j"], prefix=sorted(o["prefix"]), phase=o["phase"], refused=o["refused"])
    if sorted(scen) != list(range(1, len(scen) + 1)) or len(scen) != sum(7 ** m for m in range(maxn + 1)):
        raise vlib.Inconclusive("generator did not cover all scenarios: %d" % len(scen))
    singles = [dict(id=ix, kind="single", rounds=[dict(n=scen[ix]["n"], d=scen[ix]["d"], o=scen[ix]["o"], gap=0)])
               for ix in sorted(scen)]
    ap = ctx.path("allowed.ndjson")
    vlib.write_ndjson(ap, [dict(scen[ix], outs=list(by[ix].values())) for ix in sorted(scen)])
    nallowed = sum(len(v) for v in by.values())
    ctx.log("TLC generator: %d single-round scenarios, %d allowed (scenario, outcome) pairs from %d final states"
            % (len(singles), nallowed, len(outs)))

    # ---- 1b. histories of rounds, design level
    rr = f_rounds.result()
    dead = covered_actions(rr["out"], ROUND_ACTIONS)
    if dead:
        raise vlib.Inconclusive("Collect.tla: actions of the multi-round dimension never taken in %s: %s" % (rr["cfg"], dead))
    ctx.log("TLC histories of rounds on one collector (%s): %d distinct states, every clause holds for every round"
            % (rr["cfg"], rr["distinct"]))
    rl = f_late.result()
    dead = covered_actions(rl["out"], ROUND_ACTIONS + ["Tick", "DrainNext"])
    if dead:
        raise vlib.Inconclusive("Collect.tla: actions of the lateness dimension never taken in %s: %s" % (rl["cfg"], dead))
    ctx.log("TLC lateness of stragglers over orders of magnitude (%s): %d distinct states, every clause holds for every "
            "round, NoLeak after the last straggler has returned" % (rl["cfg"], rl["distinct"]))
    # ---- 2b. histories for the harness; vacuity guards on the SPEC side
    hists, seenh = [], set()
    for h in ctx.emitted(f_rgen.result()["out"]):
        k = hist_key(h["rounds"])
        if k not in seenh:
            seenh.add(k)
            hists.append(h["rounds"])
    gen = collections.Counter()
    for rounds in hists:
        gen["histories"] += 1
        gen["rounds"] += len(rounds)
        gen["histories_of_%d_rounds" % len(rounds)] += 1
        if any(x["live"] > 0 for x in rounds):
            gen["histories_with_a_round_started_beside_live_goroutines"] += 1
        gen["rounds_started_beside_live_goroutines"] += sum(1 for x in rounds if x["live"] > 0)
        gen["rounds_started_one_unit_after_the_return"] += sum(1 for x in rounds[1:] if x["gap"] == 1)
        for c in straggler_classes(rounds):
            gen["histories_straggler_" + c] += 1
        count_lateness(gen, rounds, "histories")
    need = ["histories_with_a_round_started_beside_live_goroutines", "rounds_started_one_unit_after_the_return",
            "histories_straggler_before_next_deadline", "histories_straggler_at_next_deadline",
            "histories_straggler_after_next_deadline", "histories_straggler_while_next_round_in_progress",
            "histories_of_3_rounds"] + ["histories_with_a_straggler_%s_late" % c for c in LATE_CLASS.values()] + [
            "histories_with_one_far_straggler", "histories_with_several_far_stragglers",
            "histories_with_several_far_stragglers_in_one_round", "histories_with_far_stragglers_in_several_rounds",
            "histories_with_far_stragglers_of_different_lateness", "histories_with_rounds_after_the_far_straggler_s_round"]
    weak = [k for k in need if gen[k] < 10]
    if weak:
        raise vlib.Inconclusive("vacuous history generator (Collect_rgen.cfg): %s" % {k: gen[k] for k in weak})
    ctx.log("TLC generated %d distinct histories / %d rounds: %s" % (gen["histories"], gen["rounds"], dict(gen)))
    # ---- 2c. rounds with many clocks
    bigs, seenb = [], set()
    for h in ctx.emitted(f_big.result()["out"]):
        k = hist_key(h["rounds"])
        if k not in seenb:
            seenb.add(k)
            bigs.append(h["rounds"])
    bgen = collections.Counter()
    for rounds in bigs:
        x = rounds[0]
        p = blocked_prefix(x)
        nb = sum(1 for d in x["d"] if blocked(d))
        bgen["rounds"] += 1
        bgen["n=%d" % x["n"]] += 1
        count_lateness(bgen, rounds, "rounds")
        if 0 < p < x["n"] and nb == p:
            bgen["blocked_prefix"] += 1
            if any(x["d"][k] == 1 and x["o"][k] == "ok" for k in range(p, x["n"])):
                bgen["blocked_prefix_then_early_success"] += 1
            if p >= 4:
                bgen["blocked_prefix_of_4_or_more"] += 1
            if p >= 16:
                bgen["blocked_prefix_of_16_or_more"] += 1
        elif 0 < nb < x["n"] and all(blocked(d) for d in x["d"][x["n"] - nb:]):
            bgen["blocked_suffix"] += 1
        elif 0 < nb < x["n"]:
            bgen["blocked_subset"] += 1
        elif nb == x["n"]:
            bgen["all_blocked"] += 1
        else:
            bgen["none_blocked"] += 1
    weak = [k for k in ["n=5", "n=8", "n=9", "n=12", "n=17", "n=33", "n=64", "blocked_prefix_then_early_success",
                        "blocked_prefix_of_4_or_more", "blocked_prefix_of_16_or_more", "blocked_suffix",
                        "blocked_subset", "rounds_with_several_far_stragglers_in_one_round",
                        "rounds_with_far_stragglers_of_different_lateness"]
            + ["rounds_with_a_straggler_%s_late" % c for c in FAR] if bgen[k] < 3]
    if weak:
        raise vlib.Inconclusive("vacuous large-round generator (Collect_big.cfg): %s" % {k: bgen[k] for k in weak})
    ctx.log("TLC generated %d distinct rounds with 5..64 clocks: %s" % (len(bigs), dict(bgen)))
    strip = lambda rounds: [dict(n=x["n"], d=x["d"], o=x["o"], gap=x["gap"]) for x in rounds]
    cases = singles + [dict(id=0, kind="rounds", rounds=strip(h)) for h in hists] \
        + [dict(id=0, kind="big", rounds=strip(h)) for h in bigs]
    cp = ctx.path("cases.ndjson")
    vlib.write_ndjson(cp, cases)

    # thorough: three rounds and the spec's self-test run beside the Go driver (6 + 2 TLC workers)
    f_r3 = f_self = None
    if not q:
        f_r3 = bg("CollectMC", "Collect_rounds3.cfg", workers=6, timeout=1500, tag="rounds3")

        def selftest():
            sd = ctx.private_specdir()
            for f, clause in FAULTS.items():
                fr = ctx.tlc("CollectMC", "Collect_f_%s.cfg" % f, timeout=600, allow_violation=True, tag="fault:" + f,
                             workers=2, specdir=sd)
                want = (clause,) if isinstance(clause, str) else clause
                if not fr["violated"] or (want and fr["violated"] not in want):
                    raise vlib.Inconclusive("spec self-test: deviation %s should violate %s, TLC says %s"
                                            % (f, clause, fr["violated"]))
            return len(FAULTS)
        f_self = ex.submit(selftest)

    # ---- 3. the real code
    trace = ctx.path("trace.ndjson")
    rc, out = ctx.gotest("c16", "TestC16", env=dict(VERIF_IN=cp, VERIF_OUT=trace), timeout=1500)
    recs = vlib.read_ndjson(trace) if os.path.exists(trace) else []
    if rc != 0 and "exit status 3" in out and recs and recs[-1].get("hung"):
        # the driver gave up on a round that never came back; that round is the observation
        ctx.log("driver stopped at a round that did not return: %s" % recs[-1]["note"])
    elif rc != 0 or not recs:
        raise vlib.Inconclusive("go driver c16/TestC16 failed (rc=%d):\n%s" % (rc, "\n".join(out.splitlines()[-60:])))
    if not q:
        r3 = f_r3.result()
        ctx.log("TLC three rounds on one collector (%s): %d distinct states, every clause holds for every round"
                % (r3["cfg"], r3["distinct"]))
        ctx.log("spec self-test: %d single-site deviations of Collect.tla each refuted by TLC" % f_self.result())
    kinds = collections.Counter()
    for x in recs:
        kinds[x["kind"]] += x["count"]
    runs = sum(kinds.values())
    ctx.log("driver: %d rounds run on the real code (%s), %d distinct (history, phases, observation, round) records"
            % (runs, dict(kinds), len(recs)))

    # negative control of the binding: VERIF_C16_CORRUPT=<field> falsifies one
    # recorded field of one record; the monitor has to reject the trace
    cor = os.environ.get("VERIF_C16_CORRUPT")
    if cor:
        victim = next(x for x in recs if x["kind"] == "single" and x["n"] == 3 and lead(x["ms"]) == 2
                      and x["phase"] == "during")
        if cor == "ms":
            victim["ms"] = [victim["ms"][0], victim["ms"][0], 0]      # a result counted twice
        elif cor == "ms_tail":
            victim["ms"] = [victim["ms"][0], 0, victim["ms"][1]]      # a write beyond the prefix
        elif cor == "rt":
            victim["rt"], victim["late"] = 3, True
        elif cor == "leaked":
            victim["leaked"] = 1
        elif cor == "refused":
            victim["refused"] = False
        elif cor == "foreign":                                        # a result of an earlier round's clock
            victim = next(x for x in recs if x["kind"] == "rounds" and x["rnd"] == 2 and x["live"] > 0
                          and lead(x["ms"]) >= 1)
            victim["ms"][0] = 99
        elif cor == "swallowed":                                      # an in-time success of a later round missing
            victim = next(x for x in recs if x["kind"] == "rounds" and x["rnd"] == 2 and x["live"] > 0
                          and lead(x["ms"]) >= 1 and x["d"][x["ms"][0] - 1] == 1)
            victim["ms"] = victim["ms"][1:] + [0]
        elif cor == "big_late":
            victim = next(x for x in recs if x["kind"] == "big" and x["n"] >= 9)
            victim["rt"], victim["late"] = 3, True
        else:
            raise vlib.Inconclusive("unknown VERIF_C16_CORRUPT field " + cor)
        ctx.notes.append("trace corrupted on purpose: " + cor)
        vlib.write_ndjson(trace, recs)

    # ---- 4. trace validation
    extra = {"allowed.ndjson": ap}

    def strict():   # beside the monitor run, in its own copy of the spec directory (4 + 4 TLC workers)
        r = ctx.tlc("CollectTrace", "CollectTrace_strict.cfg", workers=4, timeout=900, allow_violation=True,
                    files=dict(extra, **{"trace.ndjson": trace}), tag="trace:CollectTrace_strict.cfg",
                    specdir=ctx.private_specdir())
        return not r["violated"], (ctx.trace_state_l(r["out"]) if r["violated"] else None), r["violated"], r["out"]
    f_strict = ex.submit(strict)
    ok, l, inv, tout = ctx.validate("CollectTrace", "CollectTrace_mon.cfg", trace, extra_files=extra)
    nval = len(recs)
    if not ok:
        nval = 0
        # one run per clause so that every violated clause is reported
        for m in MON:
            cfgp = ctx.path("CollectTrace_%s.cfg" % m)
            with open(cfgp, "w") as f:
                f.write("SPECIFICATION TSpec\nINVARIANTS %s\n" % m)
            ok1, l1, inv1, _ = ctx.validate("CollectTrace", os.path.basename(cfgp), trace,
                                            extra_files=dict(extra, **{os.path.basename(cfgp): cfgp}))
            if ok1:
                continue
            if not l1 or l1 > len(recs):
                raise vlib.Inconclusive("monitor %s failed but the record could not be identified:\n%s"
                                        % (m, tout[-1500:]))
            bad = recs[l1 - 1]
            hist = cases[bad["hid"] - 1]
            short = dict(bad, d="".join(map(str, bad["d"])), o="".join(x[0] for x in bad["o"])) if bad["n"] > 8 else bad
            ctx.violation("C16 %s MeasureClockOffsets" % m[1:],
                          "real MeasureClockOffsets violates %s in round %d of %d of a %s history (%d earlier measurement "
                          "calls still running at its start), scenario %s (d=%s o=%s phase=%s): rt=%s late=%s ms=%s "
                          "stable=%s leaked=%s exitdead=%s refused=%s mainpan=%s %s"
                          % (m[1:], bad["rnd"], bad["nrnd"], bad["kind"], bad["live"], scen_class(bad), short["d"],
                             short["o"], bad["phase"], bad["rt"], bad["late"], bad["ms"], bad["stable"], bad["leaked"],
                             bad["exitdead"], bad["refused"], bad["mainpan"], bad["note"][:300]),
                          dict(record=bad, history=hist))
        if not ctx.violations and not ctx.known:
            raise vlib.Inconclusive("monitor failed (%s) but no single clause did" % inv)
    sok, sl, sinv, sout = f_strict.result()
    if not sok:
        bad = recs[sl - 1] if sl and sl <= len(recs) else None
        ctx.drift.append("observation not among the outcomes of Collect!Next (%s): %s" % (sinv, bad))

    # ---- coverage of the allowed sets by what the scheduler actually did (enumerated single rounds)
    seen = collections.defaultdict(set)
    for x in recs:
        if x["returned"] and x["kind"] == "single":
            j = lead(x["ms"])
            seen[x["id"]].add(okey(x["rt"], x["ms"][:j], x["phase"], x["refused"]))
    reach = {ix: {k for k in v if not (scen[ix]["n"] == 0 and k[2] == "during")} for ix, v in by.items()}
    full = sum(1 for ix in reach if seen[ix] >= reach[ix])
    outside = sum(len(seen[ix] - set(by[ix])) for ix in by)
    nseen = sum(len(seen[ix] & reach[ix]) for ix in reach)
    nreach = sum(len(v) for v in reach.values())
    multi = sum(1 for ix in by if len({(k[0], k[1]) for k in seen[ix]}) > 1)
    ctx.log("observed %d of %d allowed (scenario, outcome) pairs; %d scenarios fully covered; %d scenarios showed "
            "more than one (rt, prefix) outcome; %d observations outside the allowed sets"
            % (nseen, nreach, full, multi, outside))
    # what the real histories exercised
    real = collections.Counter()
    for x in recs:
        if x["kind"] == "rounds" and x["rnd"] > 1:
            real["later_rounds"] += x["count"]
            if x["live"] > 0:
                real["later_rounds_started_beside_running_earlier_clocks"] += x["count"]
        if x["kind"] == "big":
            real["large_rounds"] += x["count"]
            real["large_rounds_n=%d" % x["n"]] += x["count"]
        far = {LATE_CLASS.get(d) for d in x["d"] if 2 < d != NEVER} & set(FAR)
        if far:
            real["rounds_with_far_stragglers"] += x["count"]
            if x["calls"] == x["n"]:    # NoLeak's premise: judged after the last straggler has returned
                real["rounds_with_far_stragglers_judged_after_the_last_one_returned"] += x["count"]
            for c in far:
                real["rounds_with_a_straggler_%s_late" % c] += x["count"]
    ctx.log("real histories: %s" % dict(real))
    if not ctx.violations and not ctx.known:
        if real["later_rounds_started_beside_running_earlier_clocks"] == 0 or real["large_rounds_n=64"] == 0 \
                or real["rounds_with_far_stragglers_judged_after_the_last_one_returned"] == 0:
            raise vlib.Inconclusive("vacuous replay: %s" % dict(real))
    nontrivial = len({(x["hid"], x["rnd"], x["phase"], x["rt"], tuple(x["ms"])) for x in recs if x["n"] >= 1})
    pick = [x for x in recs if x["kind"] == "single" and x["n"] == maxn and NEVER in x["d"] and 2 in x["d"]
            and x["phase"] == "during"][:1]
    hs = next((x["hid"] for x in recs if x["kind"] == "rounds" and x["rnd"] == 2 and x["live"] > 0 and x["n"] >= 2), None)
    pick += [x for x in recs if x["hid"] == hs][:3]
    pick += [dict(x, d="".join(map(str, x["d"])), o="".join(y[0] for y in x["o"]))
             for x in recs if x["kind"] == "big" and x["n"] >= 12][:1]
    ctx.notes.append(
        "dimension MULTI-ROUND histories on one collector: TLC decided every clause for every round of every history "
        "of %s (%d distinct states); TLC generated %d distinct histories / %d rounds, of which %d histories have a round "
        "that starts while goroutines of earlier rounds are alive (%d such rounds; stragglers finishing before / at / "
        "after the next round's deadline in %d / %d / %d histories, while the next round is in progress in %d); "
        "replayed: %d later rounds on the real code, %d of them started while earlier measurement calls were still running"
        % (rr["cfg"], rr["distinct"], gen["histories"], gen["rounds"],
           gen["histories_with_a_round_started_beside_live_goroutines"], gen["rounds_started_beside_live_goroutines"],
           gen["histories_straggler_before_next_deadline"], gen["histories_straggler_at_next_deadline"],
           gen["histories_straggler_after_next_deadline"], gen["histories_straggler_while_next_round_in_progress"],
           real["later_rounds"], real["later_rounds_started_beside_running_earlier_clocks"]))
    ctx.notes.append(
        "dimension NUMBER OF CLOCKS at real sizes: TLC generated %d distinct rounds with n in {5,8,9,12,17,33,64} (%s); "
        "%d with a blocked prefix followed by other clocks (%d of them followed by an early success, %d with a prefix of "
        ">= 4 and %d of >= 16 clocks), %d with a blocked suffix, %d with a blocked random subset; replayed %d large "
        "rounds on the real code"
        % (len(bigs), ", ".join("%s: %d" % (k, bgen[k]) for k in sorted(bgen, key=lambda s: (len(s), s)) if k.startswith("n=")),
           bgen["blocked_prefix"], bgen["blocked_prefix_then_early_success"], bgen["blocked_prefix_of_4_or_more"],
           bgen["blocked_prefix_of_16_or_more"], bgen["blocked_suffix"], bgen["blocked_subset"], real["large_rounds"]))
    ctx.notes.append(
        "dimension LATENESS of stragglers (how long after the deadline a clock that ignores its context returns: 3 / 5 / "
        "90 / 7200 / 259200 / 3000000 units = just after, seconds, minutes, hours, days, weeks of virtual time; Tick "
        "jumps to the next return as synctest does): TLC decided every clause incl. NoLeak for every history of %s (2 rounds, <= 2 clocks, "
        "completion times 1, %s or never; %d distinct states, behaviours last until the last straggler has returned); TLC generated %d histories with a "
        "straggler minutes / %d hours / %d days / %d weeks late, %d with one and %d with several such stragglers (%d "
        "with several in one round, %d in several rounds, %d of different lateness, %d with further rounds after the "
        "straggler's), and %d large rounds with several (%d of different lateness); replayed: %d rounds with such "
        "stragglers on the real code (minutes %d, hours %d, days %d, weeks %d), %d of them judged after every "
        "measurement call had returned"
        % (rl["cfg"], "90, 259200" if q else "3, 90, 7200, 259200, 3000000", rl["distinct"],
           gen["histories_with_a_straggler_minutes_late"],
           gen["histories_with_a_straggler_hours_late"], gen["histories_with_a_straggler_days_late"],
           gen["histories_with_a_straggler_weeks_late"], gen["histories_with_one_far_straggler"],
           gen["histories_with_several_far_stragglers"], gen["histories_with_several_far_stragglers_in_one_round"],
           gen["histories_with_far_stragglers_in_several_rounds"], gen["histories_with_far_stragglers_of_different_lateness"],
           gen["histories_with_rounds_after_the_far_straggler_s_round"],
           bgen["rounds_with_several_far_stragglers_in_one_round"], bgen["rounds_with_far_stragglers_of_different_lateness"],
           real["rounds_with_far_stragglers"], real["rounds_with_a_straggler_minutes_late"],
           real["rounds_with_a_straggler_hours_late"], real["rounds_with_a_straggler_days_late"],
           real["rounds_with_a_straggler_weeks_late"],
           real["rounds_with_far_stragglers_judged_after_the_last_one_returned"]))
    ctx.cov.update(
        evaluations=runs, distinct_nontrivial=nontrivial,
        rule="rounds run on the real MeasureClockOffsets under synctest with seeded scheduler perturbation and a second "
             "call during/after/never, from three TLC generators over Collect.tla: (a) every single-round scenario with "
             "0..%d clocks (per clock: result ready before/at/after the deadline with value or error, or blocked until "
             "cancellation), each run %s times; (b) TLC -simulate histories of up to 3 rounds on ONE collector (<= 3 "
             "clocks per round, clocks answering 1 .. 5 or 90 / 7200 / 259200 / 3000000 units after their round's start, the next round starting 0 or "
             "1 units after the previous return), each run %s times; (c) TLC -simulate rounds with 5..64 clocks of "
             "which a prefix/suffix/random subset is blocked (until cancellation, or late by up to 3000000 units), each run %s times; distinct_nontrivial = distinct "
             "(history, round, phase, return time, result slice) with at least one clock"
             % (maxn, "60" if q else "500", "8" if q else "24", "8" if q else "20"),
        traces_validated_against_impl=nval, exhaustive=True,
        scenarios=len(singles), allowed_pairs=nreach, allowed_pairs_observed=nseen,
        scenarios_fully_covered=full, scenarios_with_scheduler_dependent_outcome=multi,
        observations_outside_allowed=outside,
        histories_generated=dict(gen), large_rounds_generated=dict(bgen), real_histories=dict(real),
        samples=recs[:1] + pick + recs[-1:])
    ctx.assumptions += [
        "virtual time of testing/synctest = the maximal-progress time of Collect.tla (time advances only when every "
        "goroutine of the bubble is durably blocked)",
        "small scope for the exhaustive part: <= 3 (quick) / <= 4 (thorough) reference clocks in single rounds; histories "
        "of 2 rounds with <= 2 clocks (and 3 rounds in the thorough tier); completion times abstracted to "
        "before/at/after the deadline/long after/late by minutes or days (quick; hours and weeks too: thorough and the sampled histories)/never; the next round starts 0 or 1 units after the previous return",
        "rounds with 5..64 clocks and histories of 3 rounds with <= 3 clocks are sampled (TLC -simulate), not enumerated",
        "scripted clocks return by 3000000 units (five weeks of virtual time) or at ctx.Done; a history is observed "
        "until its last straggler has returned plus 20 units; the caller cancels after return as sync.measureOffsetToRefClks does",
        "goroutines left behind are detected by stack inspection (frames of core/client in the bubble) and, independently, "
        "by synctest's bubble-exit check, once per history after every clock of every round has returned",
        "a select is modelled as a free choice among ready cases; the real scheduler's choice is checked for membership "
        "(strict, DRIFT), the property clauses decide the verdict"]
