"""C06 - server replies are correct in basic and interleaved mode for every history."""
import serverstore


def run(ctx):
    serverstore.run(ctx, "C06")
