SPECIFICATION TSpec
INVARIANTS SOne SGroundTruth SAct SReply SResp SClient SNoStray SKey
