SPECIFICATION Spec
CONSTANTS
  Which = "ntimed"
  Caps = {1}
  Picks = {1}
  UnconfToo = FALSE
  Offs = {0}
  Rtds = {1}
  DistinctOnly = FALSE
  MaxEv = 26
  FilterAverage = 20
VIEW View
INVARIANTS RawWhen HistoryIndependent ResetIsInit RawBothFail NavgCounts TypeOK
