--------------------------- MODULE ListenerTrace ---------------------------
(***************************************************************************)
(* Validation of what the real listeners did (harness/c09) against         *)
(* Listener.tla.  Records are independent observations; positions          *)
(* 1..Len(Trace) are visited as a 16-ary tree so that all workers share    *)
(* the load.  The variables of Listener are BOUND to the recorded          *)
(* projection:                                                             *)
(*   k = "case": one datagram sent to listener R.srv from a fresh socket,  *)
(*               followed on the same socket (=> same listener socket, in  *)
(*               order) by the sentinel, a well-formed request; everything *)
(*               that came back before the sentinel's reply, and that reply*)
(*               => hist = <<case event, sentinel event>>: a history of two*)
(*               datagrams on one listener socket                          *)
(*   k = "pair": one datagram with the forged source address of the other  *)
(*               server; the packet counters of both servers afterwards    *)
(*               => ninj = 1, nsent = datagrams received by A and by B     *)
(*   k = "stage": per-stage totals of the listeners' log lines (strict only)*)
(*   k = "anc":   how often the listeners of one configuration logged that  *)
(*               no receive timestamp came with a datagram (strict only)    *)
(*   Circumstances of a case (Listener.tla 3a, 3b): R.conf = how the        *)
(*   addressed listener was started => conf; R.store = the class the        *)
(*   driver put the store into before the case (R.pre: what an inspection   *)
(*   found) => store; R.il, R.anc => fields of the request datagram.        *)
(*   The sender's source port class is part of R.src (and R.sc.sp): the     *)
(*   port the driver's socket was bound to.                                 *)
(*   monitor (ListenerTrace_mon.cfg): the PROPERTY SECTION of Listener     *)
(*   strict  (ListenerTrace_strict.cfg): the record is what Listener's     *)
(*           pipeline and reply construction compute                       *)
(***************************************************************************)
EXTENDS Integers, Sequences, FiniteSets, TLC, Json

Servers   == {"A", "B"}
B0s       == {}
Shapes    == {}
Vias      == {}
MaxInject == 0
Spoof     == FALSE
RestoreAtTop == TRUE
Confs     == {"sw", "hw"}
Stores    == {}
Ancs      == {}
SrcPorts  == {}
VARIABLES draft, net, hist, nsent, ninj, blen, conf, store, l
INSTANCE Listener

Trace == ndJsonDeserialize("trace.ndjson")
N == Len(Trace)

\* the request as sent
\* (records of IP cases carry no "sc" field)
DOf(R) == [Dgram(R.tp, R.src, R.dst, IF R.tp = "scion" THEN R.sc ELSE NoSc, Payload(R.b0, R.len, R.tr))
           EXCEPT !.il = R.il, !.anc = R.anc]
\* a datagram as received back
OOf(R, o) == Dgram(R.tp, o.src, o.dst, IF R.tp = "scion" THEN o.sc ELSE NoSc, [b0 |-> o.b0, len |-> o.len, tr |-> o.tr, st |-> o.st])
EvOf(R) == [srv |-> R.srv, d |-> DOf(R), out |-> [i \in DOMAIN R.out |-> OOf(R, R.out[i])]]
\* the sentinel: same addressing, version 4 / mode 3, 48 bytes or a valid NTS request
SentinelB0 == LVM(0, 4, 3)
SDOf(R) == [Dgram(R.tp, R.src, R.dst, IF R.tp = "scion" THEN R.sc ELSE NoSc, Payload(SentinelB0, R.slen, R.str))
            EXCEPT !.anc = R.anc]
SEvOf(R) == [srv |-> R.srv, d |-> SDOf(R), out |-> [i \in DOMAIN R.sout |-> OOf(R, R.sout[i])]]
\* the store of the addressed server when the case arrives ("asis": not
\* inspected; nothing Listener.tla computes for these cases depends on it)
PreOf(R) == IF R.store = "asis" THEN EmptyStore ELSE StoreInClass(R.store, CID(DOf(R)))

TInit == /\ l = 0 /\ draft = Idle /\ net = << >> /\ hist = << >> /\ nsent = 0 /\ ninj = 0
         /\ blen = [x \in Servers \X {"ip", "scion"} |-> BufCap(x[2])]
         /\ conf = [s \in Servers |-> "sw"] /\ store = [s \in Servers |-> EmptyStore]
TNext ==
  /\ \E j \in 1 .. 16 : l' = 16 * l + j /\ l' <= N
  /\ LET R == Trace[l']
     IN IF R.k = "case"
        THEN hist' = <<EvOf(R), SEvOf(R)>> /\ ninj' = 2 /\ nsent' = 2 + R.n + R.sn
        ELSE IF R.k = "pair"
        THEN hist' = << >> /\ ninj' = 1 /\ nsent' = R.arecv + R.brecv
        ELSE hist' = << >> /\ ninj' = 0 /\ nsent' = 0
  /\ LET R == Trace[l']
     IN IF R.k = "case"
        THEN /\ conf' = [s \in Servers |-> IF s = R.srv THEN R.conf ELSE "sw"]
             /\ store' = [s \in Servers |-> IF s = R.srv THEN PreOf(R) ELSE EmptyStore]
        ELSE conf' = [s \in Servers |-> "sw"] /\ store' = [s \in Servers |-> EmptyStore]
  /\ UNCHANGED <<draft, net, blen>>
TSpec == TInit /\ [][TNext]_<<draft, net, hist, nsent, ninj, blen, conf, store, l>>

R == Trace[l]
IsCase == l > 0 /\ R.k = "case"
IsPair == l > 0 /\ R.k = "pair"

\* ------------------------------------------------------------- monitor
\* ReplyIffValid, ExactlyOne, ToSender, ReplyHeader, NeverAnswersReply,
\* HistoryIndependence, BoundedTraffic are Listener's own invariants, evaluated
\* on the bound variables.  The sentinel event is judged like any other: it is a
\* well-formed request, so exactly one reply must have reached its socket
\* (R.sn = 0 is recorded only after 3 attempts from fresh sockets).
\* every datagram that came back was turned into an element of R.out / R.sout
MCounted == IsCase => (R.n = Len(R.out) /\ R.sn = Len(R.sout))
\* over SCION the reply's path is, byte for byte, what slayers' Reverse()
\* makes of the request's path (the projection in R.out[i].sc.path only keeps
\* segment structure, direction flags, segment ids and ingress ids)
MRawReverse == IsCase => ((\A i \in DOMAIN R.out : R.out[i].raw_ok) /\ (\A i \in DOMAIN R.sout : R.sout[i].raw_ok))

\* -------------------------------------------------------------- strict
\* with the whole receive buffer and what the addressed listener's configuration
\* makes of the ancillary data
SReplies == IsCase => \A k \in DOMAIN hist :
               hist[k].out = RepliesB(hist[k].srv, hist[k].d, BufCap(hist[k].d.tp), AncAt(conf[hist[k].srv], hist[k].d.anc))
SPredicted == IsCase => (/\ R.exp = Len(RepliesB(R.srv, DOf(R), BufCap(R.tp), AncAt(R.conf, R.anc)))
                         /\ R.drop = DropStageB(R.srv, DOf(R), BufCap(R.tp), AncAt(R.conf, R.anc)))
\* the reply's origin timestamp repeats the field of the request that handleRequest
\* picks for the store it finds (basic mode: transmit; interleaved: receive);
\* nothing else came back
SEcho  == IsCase => (/\ \A i \in DOMAIN R.out : R.out[i].org = ReplyOrigin(PreOf(R), DOf(R))
                     /\ \A i \in DOMAIN R.sout : R.sout[i].org = "tx")
SOther == IsCase => R.other = 0
\* cases with a store class: the inspection before the case found the class, and
\* the client's record after the case and the sentinel have been served is the
\* one handleRequest / updateTXTimestamp leave behind
SStorePre == (IsCase /\ R.obs) =>
  LET cl == ClassOf(R.store)
  IN R.pre.k = cl.k /\ R.pre.full = cl.full /\ R.pre.fill = cl.fill
SStorePost == (IsCase /\ R.obs /\ R.post_k >= 0) =>
  LET d  == DOf(R)
      s0 == store[R.srv]
      s1 == IF Accepts(R.srv, d) THEN ServeStore(s0, d, R.conf) ELSE s0
      s2 == ServeStore(s1, SDOf(R), R.conf)
  IN R.post_k = s2.rec[CID(d)]
\* k = "anc": a listener started with an interface name finds no receive
\* timestamp next to any datagram
SAnc == (l > 0 /\ R.k = "anc" /\ R.conf = "hw") => R.logged = R.predicted
\* k = "stage": how often the listeners' own log named a stage of the pipeline
\* during the case phase, against how often DropStage predicted it
SStage == (l > 0 /\ R.k = "stage") => R.logged = R.predicted
\* pair: the forged datagram reaches `to`; `to` answers it iff it is valid; the
\* other server receives that answer and stays silent
SPair == IsPair =>
  LET v  == IF Valid(Payload(R.b0, R.len, R.tr)) THEN 1 ELSE 0
      tr == IF R.dst.h = "A" THEN R.arecv ELSE R.brecv      \* received by the addressee
      ts == IF R.dst.h = "A" THEN R.asrv ELSE R.bsrv
      or == IF R.dst.h = "A" THEN R.brecv ELSE R.arecv      \* received by the forged sender
      os == IF R.dst.h = "A" THEN R.bsrv ELSE R.asrv
  IN tr = 1 /\ ts = v /\ or = v /\ os = 0
=============================================================================
