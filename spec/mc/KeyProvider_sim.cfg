SPECIFICATION SpecSim
CONSTANTS
  Day = 4
  Gaps <- GapsSim
  Horizon = 40
  GenLen = 30
INVARIANTS EmitSim
