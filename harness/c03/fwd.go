package c03

// What the client's end host attached to a delivered response (NtpExchange.tla,
// ClientRecv(m, fw)): over SCION the end-host forwarder may append its receive
// timestamp as end-to-end option 253, shaped like the control message the kernel
// hands out with SO_TIMESTAMPNS. The class comes from the schedule; the harness
// only makes it concrete relative to instants it knows to lie before the
// transmission of the outstanding request / after the socket's receive time.

import (
	"encoding/binary"
	"math/rand"
	"time"
)

const (
	solSocket        = 1
	scmTimestampNS   = 35
	soTimestampingNw = 65
)

func cmsgBytes(length uint64, level, typ uint32, data []byte) []byte {
	b := make([]byte, 16)
	binary.NativeEndian.PutUint64(b, length)
	binary.NativeEndian.PutUint32(b[8:], level)
	binary.NativeEndian.PutUint32(b[12:], typ)
	return append(b, data...)
}

func timespec(sec, nsec int64) []byte {
	b := make([]byte, 16)
	binary.NativeEndian.PutUint64(b, uint64(sec))
	binary.NativeEndian.PutUint64(b[8:], uint64(nsec))
	return b
}

// stampOpt: a well-formed forwarder stamp carrying ts.
func stampOpt(ts time.Time) []byte {
	return cmsgBytes(32, solSocket, scmTimestampNS, timespec(ts.Unix(), int64(ts.Nanosecond())))
}

// badOpt: option data that is no timestamp control message (none of the
// variants carries a value near the present).
func badOpt(rng *rand.Rand) ([]byte, string) {
	old := timespec(1000000000+int64(rng.Intn(1000000)), 0) // 2001
	switch rng.Intn(6) {
	case 0: // shorter than a control message header
		b := make([]byte, 1+rng.Intn(15))
		rng.Read(b)
		return b, "short"
	case 1: // declared length beyond the data
		return cmsgBytes(200+uint64(rng.Intn(1000)), solSocket, scmTimestampNS, old), "len"
	case 2: // a control message of another kind
		return cmsgBytes(32, uint32(2+rng.Intn(200)), uint32(rng.Intn(200)), old), "other"
	case 3: // SCM_TIMESTAMPNS of the wrong size
		return cmsgBytes(24, solSocket, scmTimestampNS, old[:8]), "size"
	case 4: // SO_TIMESTAMPING_NEW with both a software and a hardware stamp
		return cmsgBytes(64, solSocket, soTimestampingNw, append(append(append([]byte{}, old...), timespec(0, 0)...), old...)), "both"
	default: // declared length below the header size
		return cmsgBytes(uint64(rng.Intn(16)), solSocket, scmTimestampNS, old), "hdr"
	}
}

// fwdOption makes class fw concrete. before: an instant known to precede the
// transmission of the outstanding request; the stamp of class "inside" is taken
// here (the forwarder receives the datagram now), "after" lies beyond any
// receive time of this delivery. stamped reports whether ts is meaningful.
func fwdOption(fw string, before time.Time, rng *rand.Rand) (opt []byte, ts time.Time, stamped bool, variant string) {
	switch fw {
	case "inside":
		ts = time.Now().UTC()
		return stampOpt(ts), ts, true, ""
	case "before":
		back := []time.Duration{20 * time.Millisecond, time.Second, time.Hour}[rng.Intn(3)]
		ts = before.Add(-back).UTC()
		return stampOpt(ts), ts, true, back.String()
	case "after":
		ahead := []time.Duration{5 * time.Second, time.Hour}[rng.Intn(2)]
		ts = time.Now().Add(ahead).UTC()
		return stampOpt(ts), ts, true, ahead.String()
	case "bad":
		opt, variant = badOpt(rng)
		return opt, time.Time{}, false, variant
	}
	return nil, time.Time{}, false, ""
}
