SPECIFICATION TSpec
INVARIANTS MonitorClean
