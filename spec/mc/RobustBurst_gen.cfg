SPECIFICATION Spec
CONSTANTS
  NLoops = 1
  NSrcs = 4
  MaxSend = 4
  LookupLocked = TRUE
  Run = FALSE
INVARIANTS Emit
