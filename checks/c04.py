"""C04 - NTP timestamp conversion is exact to 1 ns within +-2^31 s, across eras.

spec/NtpTime.tla (transcription of net/ntp Time64FromTime / TimeFromTime64 with the
switch ForwardOnlyEraUnfold) -> TLC decides the property section at scaled constants,
Apalache decides the same formulas at the real constants, TLC enumerates the cases,
harness/c04 replays them (and Apalache's counterexamples) on the real functions at the
real constants, spec/trace/NtpTimeTrace.tla judges the recorded results (monitor) and
compares them with the transcription (strict).  The switches ForwardOnlyEraUnfold and
WholeSecondUnfold are FALSE by default; the TRUE settings (earlier forms of the code) are kept
as specification self-tests that must be refuted.
"""
import glob, json, os, re, shutil, subprocess, threading, time
import vlib

APA_TIMEOUT = 110


class Apa(threading.Thread):
    """One Apalache query on spec/mc/NtpTimeApa.tla (real constants), in the background."""

    def __init__(self, ctx, inv):
        super().__init__(daemon=True)
        self.ctx, self.inv = ctx, inv
        self.outcome, self.cex, self.wall = "not-run", None, 0.0
        self.dir = ctx.path("apa-" + inv)

    def run(self):
        d = self.ctx.specdir()
        t = time.time()
        try:
            p = subprocess.run(["timeout", str(APA_TIMEOUT), "apalache-mc", "check", "--length=0", "--init=Init",
                                "--next=Next", "--inv=" + self.inv, "--out-dir=" + self.dir,
                                "--run-dir=" + os.path.join(self.dir, "run"), "NtpTimeApa.tla"],
                               cwd=d, stdout=subprocess.PIPE, stderr=subprocess.STDOUT, text=True, errors="replace")
        except OSError as e:
            self.outcome = "unavailable (%s)" % e
            return
        self.wall = round(time.time() - t, 1)
        out = p.stdout
        if p.returncode == 124:
            self.outcome = "timeout"
        elif "The outcome is: NoError" in out:
            self.outcome = "holds"
        elif "The outcome is: Error" in out:
            self.outcome = "refuted"
            f = glob.glob(os.path.join(self.dir, "run", "violation1.itf.json")) or \
                glob.glob(os.path.join(self.dir, "**", "violation1.itf.json"), recursive=True) or \
                glob.glob(os.path.join(self.dir, "**", "violation.itf.json"), recursive=True)
            if f:
                st = json.load(open(f[0]))["states"][0]

                def num(v):
                    return int(v["#bigint"]) if isinstance(v, dict) else int(v)
                self.cex = {k: [num(v) for v in st[k]] for k in ("t0", "t", "u")}
        else:
            self.outcome = "tool-error: " + " | ".join(out.strip().splitlines()[-3:])


CLAUSE = {"RWithin1ns": "within-1ns", "RNeverLater": "never-later", "ROrder": "order", "RAgg": "sweep"}


def sig_of(inv, bad):
    """Structural signature: clause, observed composition, and on which side of an era
    boundary the time (for order: and its predecessor) lies relative to t0."""
    clause = CLAUSE.get(inv, inv)
    edge = " half-era-edge=%+d" % bad["sd"] if bad.get("sd") else ""
    if inv in ("ROrder", "RAgg"):
        return "C04 %s TimeFromTime64(Time64FromTime(t),t0) era-cross(prev,t)=(%+d,%+d)%s" % (
            clause, bad.get("pcross", 0), bad.get("cross", 0), edge)
    return "C04 %s TimeFromTime64(Time64FromTime(t),t0) era-cross=%+d%s" % (clause, bad.get("cross", 0), edge)


class Bg(threading.Thread):
    """ctx.tlc runs, one after the other, in the background; results or the exception
    are collected by get()."""

    def __init__(self, ctx, *runs):
        super().__init__(daemon=True)
        self.ctx, self.runs, self.res, self.exc = ctx, runs, [], None
        self.start()

    def run(self):
        try:
            for a, kw in self.runs:
                self.res.append(self.ctx.tlc(*a, **kw))
        except BaseException as e:  # re-raised in the main thread
            self.exc = e

    def get(self):
        self.join()
        if self.exc:
            raise self.exc
        return self.res


def run(ctx):
    q = ctx.quick
    ctx.specdir()
    # 0. Apalache at the real constants, in the background (specification-level only)
    invs = ["NsRoundTrip", "RoundTripRepaired", "RoundTripWholeSec"] + (
        [] if q else ["OrderRepaired", "OrderWholeSec", "RoundTripFaithful"])
    apas = [Apa(ctx, i) for i in invs] if shutil.which("apalache-mc") else []
    for a in apas:
        a.start()
    # the spec self-tests (earlier forms of the era unfolding) and the case generator run
    # next to the exhaustive configurations (at most 8 TLC workers in total: 6 + 1 + 1)
    bg_s = Bg(ctx,
              (("NtpTimeMC", "NtpTime_wholesec.cfg"), dict(workers=1, timeout=600, allow_violation=True, tag="selftest-whole-second")),
              (("NtpTimeMC", "NtpTime_faithful.cfg"), dict(workers=1, timeout=600, allow_violation=True, tag="selftest-forward-only")))
    bg_g = Bg(ctx, (("NtpTimeMC", "NtpTime_gen.cfg" if q else "NtpTime_gendeep.cfg"), dict(workers=1, timeout=900, tag="gen")))

    # 1. design level: the property section of NtpTime.tla must hold for the
    #    specification's default (the property is implementable by this algorithm)
    for cfg in (["NtpTime_exh.cfg"] if q else ["NtpTime_deep.cfg", "NtpTime_deepns.cfg"]):
        r = ctx.tlc("NtpTimeMC", cfg, workers=6, timeout=1200)
        ctx.log("TLC %s: %d distinct states in %.0fs, property section holds" % (cfg, r["distinct"], r["wall_s"]))
    # spec self-tests: the earlier forms must be refuted by the same property section;
    # their counterexamples are further cases for the real functions
    extra = []
    for rf in bg_s.get():
        if not rf["violated"]:
            raise vlib.Inconclusive("spec self-test failed: %s is not refuted" % rf["cfg"])
        m0 = re.findall(r"t0 = <<(-?\d+), (-?\d+)>>", rf["out"])
        mt = re.findall(r"/\\ t = <<(-?\d+), (-?\d+)>>", rf["out"])
        ctx.log("TLC %s (self-test): %s refuted as expected (t0=%s t=%s); case replayed on the real code" % (
            rf["cfg"], rf["violated"], m0[-1] if m0 else "?", mt[-1] if mt else "?"))
        ctx.notes.append("spec self-test %s: violates %s at scaled t0=%s t=%s" % (
            rf["cfg"], rf["violated"], m0[-1] if m0 else "?", mt[-1] if mt else "?"))
        if m0 and mt:
            r_, rn_ = map(int, m0[-1])
            s_, n_ = map(int, mt[-1])
            extra.append(dict(r=r_, rn=rn_, o=s_ - r_, n=n_, pos=(r_ + 33) % 64, era=(r_ + 33) // 64))

    # 2. spec -> code: TLC enumerates (reference, time) cases with the spec's results
    g = bg_g.get()[0]
    cases = extra + ctx.emitted(g["out"])
    if len(cases) < 5000:
        raise vlib.Inconclusive("case generator produced only %d cases" % len(cases))
    ntlc = len(cases)
    ctx.log("TLC generator: %d cases" % ntlc)

    # Apalache results; counterexamples become real-unit cases
    for a in apas:
        a.join(APA_TIMEOUT + 20)
        ctx.log("Apalache %s at the real constants: %s (%.1fs)%s" % (a.inv, a.outcome, a.wall, " cex=%s" % a.cex if a.cex else ""))
        ctx.notes.append("apalache %s: %s (%.1fs)" % (a.inv, a.outcome, a.wall))
        if a.inv in ("NsRoundTrip", "RoundTripRepaired", "OrderRepaired") and a.outcome == "refuted":
            raise vlib.Inconclusive("Apalache refutes %s on the repaired specification at the real constants: %s "
                                    "(specification needs attention; not a verdict about the code)" % (a.inv, a.cex))
        if a.cex:
            c = a.cex
            for tt in (c["t"], c["u"]):
                cases.append(dict(kind="real", src="apa", rr=c["t0"][0], rrn=c["t0"][1], ts=tt[0], tn=tt[1]))
    cp = ctx.path("cases.ndjson")
    vlib.write_ndjson(cp, cases)

    # 3. the real functions
    trace, out = ctx.godriver("c04", "TestC04", cases=cp, timeout=1500)
    recs = vlib.read_ndjson(trace)
    ctx.log("driver: %d records" % len(recs))
    evs = vlib.read_ndjson(trace + ".eval")
    # negative control of the binding (development aid): corrupt one recorded field of one
    # judged record, VERIF_C04_CORRUPT=d|b|pb ; the monitor must reject the trace
    cor = os.environ.get("VERIF_C04_CORRUPT")
    if cor:
        idx = [i for i, r in enumerate(recs) if r["k"] == "rt" and r["edge"] == "mid" and r["d"] == 0 and r["t"][2] > 5
               and r["pt"] != r["t"]]
        r = recs[idx[(ctx.seed * 7919) % len(idx)]]
        if cor == "d":
            r["d"] = 2
        elif cor == "b":      # one nanosecond late, consistently
            r["b"] = [r["b"][0], r["b"][1], r["b"][2] + 1]
            r["d"] = 1
        elif cor == "pb":     # predecessor's result after this one's
            r["pb"] = [r["b"][0], r["b"][1] + 1, r["b"][2]]
        ctx.log("CORRUPTED field %s of record %s" % (cor, r["real"]))

    # 3a. the driver's evaluator is the specification (complete table at the scaled constants)
    for i in range(0, len(evs), 120000):
        pp = ctx.path("eval.ndjson")
        vlib.write_ndjson(pp, evs[i:i + 120000])
        ok, l, inv, _ = ctx.validate("NtpTimeTrace", "NtpTimeTrace_eval.cfg", pp)
        if not ok:
            raise vlib.Inconclusive("driver evaluator differs from NtpTime.tla at the scaled constants: %s" % (
                evs[i + l - 1] if l else "?"))
    # and agrees with the values TLC printed with the cases
    by = {(e["r"], e["rn"], e["o"], e["n"]): e for e in evs}
    for c in cases[:ntlc]:
        if "s32" in c:
            e = by[(c["r"], c["rn"], c["o"], c["n"])]
            if any(e[k] != c[k] for k in ("s32", "frac", "nsec", "bf", "bw", "br")):
                raise vlib.Inconclusive("driver evaluator differs from TLC's table: %s vs %s" % (e, c))

    # 4. code -> spec: the monitor decides.  If TLC rejects a chunk it is run once more
    #    with -continue so that TLC names every violating record; they are reported once
    #    per (clause, structural class).
    nval, nbad = 0, 0
    chunk = 150000
    found = {}      # signature -> [count, first record, invariant]
    for i in range(0, len(recs), chunk):
        part = recs[i:i + chunk]
        pp = ctx.path("chunk.ndjson")
        vlib.write_ndjson(pp, part)
        ok, l, inv, tout = ctx.validate("NtpTimeTrace", "NtpTimeTrace_mon.cfg", pp)
        if ok:
            nval += len(part)
            continue
        r = ctx.tlc("NtpTimeTrace", "NtpTimeTrace_mon.cfg", workers=4, timeout=900, files={"trace.ndjson": pp},
                    allow_violation=True, extra=("-continue",), tag="trace:mon-continue")
        hits = []
        for blk in re.split(r"^Error: Invariant (?=\S+ is violated)", r["out"], flags=re.M)[1:]:
            ls = re.findall(r"^l = (\d+)\s*$", blk, re.M)
            if ls:
                hits.append((blk.split()[0], int(ls[-1])))
        if not hits or any(not (1 <= l_ <= len(part)) for _, l_ in hits):
            raise vlib.Inconclusive("cannot read TLC's list of violating records (first: %s at %s)" % (inv, l))
        badset = set()
        for inv_, l_ in hits:
            bad = part[l_ - 1]
            if inv_ == "RConsistent":
                raise vlib.Inconclusive("harness fault: inconsistent record %s" % bad)
            badset.add(l_)
            e = found.setdefault(sig_of(inv_, bad), [0, bad, inv_, i + l_])
            e[0] += 1
            if i + l_ < e[3]:       # deterministic example: the earliest record
                e[1], e[2], e[3] = bad, inv_, i + l_
        nbad += len(badset)
        nval += len(part) - len(badset)
    for sig, (cnt, bad, inv, _pos) in sorted(found.items()):
        real = bad.get("real")
        if bad["k"] == "rt":
            what = ("real ntp.TimeFromTime64(ntp.Time64FromTime(t), t0) violates %s on %d records, e.g. t0=%s.%09d "
                    "t=%s.%09d (unix s.ns) came back %s ns %s (digits back=%s, t=%s, prev=%s, back(prev)=%s relative "
                    "to t0's second)" % (
                        inv, cnt, real[0], int(real[1]), real[2], int(real[3]),
                        ">= 10^9" if abs(bad["d"]) >= 10 ** 9 else abs(bad["d"]),
                        "late" if bad["d"] > 0 else "early", bad["b"], bad["t"], bad["pt"], bad["pb"]))
        else:
            what = ("real round trip violates %s in %d sweep blocks, e.g. second t=%s for t0=%s (sub-second %d..%d): "
                    "min/max back-t = %d/%d ns, inversions=%d (+%d with the nanosecond before), first offending ns=%d" % (
                        inv, cnt, real[1], real[0], bad["n0"], bad["n1"], bad["mind"], bad["maxd"],
                        bad["inversions"], bad["pinv"], bad["first_bad"]))
        ctx.violation(sig, what, bad)
    # strict: the real results equal the transcription (the specification's default).
    # If not, the earlier forms are consulted so that the DRIFT line says whether the
    # code equals one of them.
    variants = [("NtpTimeTrace_strict.cfg", "default"), ("NtpTimeTrace_strictws.cfg", "WholeSecondUnfold=TRUE"),
                ("NtpTimeTrace_strictfwd.cfg", "ForwardOnlyEraUnfold=TRUE")]
    conforms, drift_ex = {}, {}
    for cfg, _name in variants:
        conforms[cfg] = True
        for i in range(0, len(recs), chunk):
            pp = ctx.path("chunk.ndjson")
            vlib.write_ndjson(pp, recs[i:i + chunk])
            ok, l, inv, tout = ctx.validate("NtpTimeTrace", cfg, pp)
            if not ok:
                conforms[cfg] = False
                drift_ex[cfg] = (inv, recs[i + l - 1] if l else None)
                break
        if conforms[cfg]:
            break
    if conforms["NtpTimeTrace_strict.cfg"]:
        ctx.log("strict: the real functions equal NtpTime.tla on all %d records" % len(recs))
        ctx.notes.append("code conforms to NtpTime (ForwardOnlyEraUnfold=FALSE, WholeSecondUnfold=FALSE)")
    else:
        inv, ex = drift_ex["NtpTimeTrace_strict.cfg"]
        exs = {k: ex[k] for k in ("k", "real", "t", "b", "bf", "bw", "br", "ds32", "dfrac", "misenc", "misr") if k in ex} if ex else "?"
        same = [name for cfg, name in variants[1:] if conforms.get(cfg)]
        if same:
            ctx.drift.append("real conversion differs from NtpTime.tla (%s) and equals the earlier variant %s on all "
                             "records, e.g. %s" % (inv, same[0], exs))
        else:
            ctx.drift.append("real conversion differs from NtpTime.tla and from its earlier variants (%s on %s)" % (inv, exs))

    rts = [r for r in recs if r["k"] == "rt"]
    aggs = [r for r in recs if r["k"] == "agg"]
    swept = sum(a["count"] for a in aggs)
    judged_cross = len([r for r in rts if r["cross"] != 0 and r["edge"] != "out"])
    ctx.log("records: %d round trips (%d across an era boundary inside the window), %d sweep blocks = %d sub-second values; "
            "%d accepted by the monitor, %d rejected in %d classes" % (len(rts), judged_cross, len(aggs), swept, nval, nbad, len(found)))
    if judged_cross < 1000 or not aggs or len(rts) < 3 * ntlc // 2:
        raise vlib.Inconclusive("driver coverage lost: %d records, %d across an era boundary, %d sweep blocks" % (
            len(rts), judged_cross, len(aggs)))
    ctx.cov.update(
        evaluations=len(rts) + swept,
        distinct_nontrivial=len({tuple(r["real"]) for r in rts if r["edge"] != "out"}),
        rule="TLC-enumerated (reference second class x reference sub-second x offset class x sub-second class) at "
             "NsPerSec=1000, FracUnits=2^12, EraSecs=2^6, eras 0..5, mapped to the real constants by 3 "
             "embeddings (scale 2^26 / 10^6; translation around the reference's sub-second part; boundary-sharp: era boundary +-{0,1,2}, offsets -2^31-1..-2^31+2, -2..2, "
             "2^31-3..2^31, ns 0..3, 232, 233, 10^9-4..10^9-1, multiples of 5^9, 2^k+-1; seeded fill) + Apalache "
             "counterexamples + seeded random (reference, offset, ns) + sweep blocks of 10^6 consecutive sub-second values "
             "(thorough: all 10^9 of 12 (reference, second) combinations, 4 of them at the two ends of the window); distinct = distinct real (t0, t) inside the window",
        traces_validated_against_impl=nval, exhaustive=True,
        sweep_values=swept, across_era_in_window=judged_cross,
        samples=[r for r in rts if r["cross"] == -1 and r["edge"] != "out"][:2]
                + [r for r in rts if r["cross"] == 1 and r["edge"] != "out"][:1]
                + [r for r in rts if r["src"] != "tlc"][:2] + rts[len(rts) // 2:len(rts) // 2 + 1] + aggs[:1])
    ctx.assumptions += [
        "TLC decides NtpTime.tla at scaled constants (1000, 2^12, 2^6, -33); the same formulas at the real constants "
        "(10^9, 2^32, 2^32, -2208988800) are decided by Apalache when available (specification level only)",
        "the window -2^31 s <= t - t0 < 2^31 s is judged in full at nanosecond granularity, for references with "
        "arbitrary sub-second parts",
        "references 1970-01-01 .. year 2580 (NTP eras 0..5)",
        "link between the driver's evaluator and NtpTime.tla at the real constants: same code as at the scaled "
        "constants, where TLC validates its complete table (strict mode only, never the verdict)"]
