SPECIFICATION HSpec
CONSTANTS
  Clients <- OneClient
  MaxExch = 5
  MaxDupReq = 0
  MaxDupResp = 2
  MaxInject = 4
  MaxTC = 2
  Thetas <- ThetasGen
  CtxCap = 2
  ServerMode = "paired"
  ReusePorts = FALSE
  LateRequests = FALSE
  SeqPerAttempt = FALSE
INVARIANTS Emit OneExchange HalfRTT AcceptOnlyMatching PairsOK CtxBounded CtxOwn RespOwn NoAnswer
