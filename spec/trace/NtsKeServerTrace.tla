------------------------- MODULE NtsKeServerTrace -------------------------
(***************************************************************************)
(* Validation of what scripted TLS clients observed of the real NTS-KE      *)
(* server (core/server StartNTSKEServerIP ... newNTSKEMsg, harness/x05)     *)
(* while playing behaviours generated from NtsKeServer.tla.  One record per *)
(* connection: the request class according to the specification's reference*)
(* acceptor (acc), how the client ended its stream, and what came back      *)
(* (message kind, records, each cookie opened with the provider's key it    *)
(* names and compared with the keys the CLIENT exported from its own TLS    *)
(* session).  "unobserved" (deadline, reset) is never judged.  Records are  *)
(* independent.                                                            *)
(***************************************************************************)
EXTENDS Integers, Sequences, TLC, Json

Trace == ndJsonDeserialize("trace.ndjson")
N == Len(Trace)
VARIABLE l
TInit == l = 0
TNext == \E j \in 1 .. 16 : l' = 16 * l + j /\ l' <= N
TSpec == TInit /\ [][TNext]_l
R == Trace[l]
On == l > 0 /\ R.ev = "conn"
Seen == On /\ R.got \in {"success", "error", "none", "garbled"}
\* the client kept its reading side until the server closed, and nobody interfered
Whole == Seen /\ R.end # "closed" /\ ~R.released

\* ------------------------------------------------------ monitor (property section)
TOneMessage == On => (R.nmsg <= 1 /\ R.closed # "no")
TErrorIffBad ==
  (Whole /\ R.acc \in {"good", "bad"}) =>
     /\ (R.got = "error") <=> (R.acc = "bad")
     /\ (R.got = "error") => (R.code = 1 /\ R.cookies = << >>)
     /\ (R.got = "success") <=> (R.acc = "good")
TNoEarlyAnswer == (On /\ R.acc = "going") => (~R.early /\ R.got \in {"none", "unobserved"})
CkRun(s) == Len(s) >= 1 /\ Len(s) <= 8 /\ \A i \in 1 .. Len(s) : s[i] = "ck"
TResponseShape ==
  /\ On => R.got # "garbled"
  /\ (On /\ R.got = "success") =>
       LET s == R.shape IN
       /\ Len(s) >= 6
       /\ SubSeq(s, 1, 4) = <<"np0", "a15", "srvL", "portN">>
       /\ CkRun(SubSeq(s, 5, Len(s) - 1))
       /\ s[Len(s)] = "eom"
TCookiesSealSession ==
  On => \A i \in 1 .. Len(R.cookies) :
          LET k == R.cookies[i] IN k.open /\ k.algo = 15 /\ k.c2s = "c2s:own" /\ k.s2c = "s2c:own"
TCookiesDistinct == On => \A i \in 1 .. Len(R.cookies) : ~R.cookies[i].dup
TKeyCurrent == On => \A i \in 1 .. Len(R.cookies) : R.cookies[i].open => (R.cookies[i].key >= R.k0 /\ R.cookies[i].key <= R.k1)
TStillServing == On => ~R.blocked

\* ----------------------------------------------------------------- strict
\* the connection ended as NtsKeServer.tla predicts (including requests with a wrong
\* declared body length: the reader's desynchronisation, deviation D1)
SOutcome == Whole => R.got = R.want
SCookieCount == (On /\ R.got = "success") => Len(R.cookies) = R.wantnck
=============================================================================
