---------------------------- MODULE RobustBurstMC ----------------------------
EXTENDS RobustBurst, Json
\* Burst emitter (Run = FALSE: the states are the compositions): every complete composition, read by
\* checks/c08.py, which hands one of the right class to every case of Robust.tla that has a burst.
Emit == (Len(comp) = MaxSend) => PrintT(<<"BURST", ToJson(comp)>>)
=============================================================================
