SPECIFICATION Spec
CONSTANTS
  W = 12
  NsPerSec = 1000
  SubUnits = 16
  PpmFrac = 16
  PpmUnits = 1000
  MaxScaledPPM = 80
  DigitBase = 16
  SecDigits = 3
  Vals <- ValsGen
  DriftVals <- DriftValsGen
  NsVals <- NsValsGen
  FqDens <- FqDensGen
  UtcVals <- UtcValsGen
INVARIANTS Emit
