SPECIFICATION Spec
CONSTANTS
  U = 1000
  OneMs = 2
  OffMax = 20
  PB = 500000
  SatSecs = 2001
  Advs <- AdvsSmall
  Offs <- OffsSmall
  Weights <- WeightsSmall
  AllowSat = TRUE
  BumpDen = 2
  InitClkEpochs = {0, 1}
  MaxLen = 4
  RawMags <- RawMagsOne
  StepUsesDoubleInv = FALSE
  DurationWraps = FALSE
  Jumps <- JumpsSmall
  StepAt = {1, 2, 3}
  MaxInDo = 2
  ReadsNowFirst = FALSE
  StepDen = 4
VIEW ViewGen
INVARIANTS Emit
