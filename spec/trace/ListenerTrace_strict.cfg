SPECIFICATION TSpec
INVARIANTS SReplies SPredicted SEcho SOther SPair SStage SStorePre SStorePost SAnc
