// C09 driver: sends every abstract datagram enumerated by TLC (spec/Listener.tla,
// Listener_gen*.cfg) to the REAL listeners (server.StartIPServer,
// server.StartSCIONServer) on loopback and records what comes back, for
// ListenerTrace.tla (monitor + strict).
//
// "No reply" is decided by order, not by a timeout: each case is sent from a
// fresh socket and is followed, from the same socket, by a well-formed
// sentinel request. Same 4-tuple => same SO_REUSEPORT listener goroutine =>
// processed in order; everything that arrives before the sentinel's reply
// (recognised by its origin timestamp) is the listener's answer to the case.
//
// The listeners run in this process; a panic of a listener goroutine kills the
// test binary and the check reports INCONCLUSIVE (crash sites are C08's).
//
// Circumstances of arrival (Listener.tla sections 3a, 3b):
//   - listener configuration: every server runs a second pair of listeners
//     started with the loopback interface's NAME (localHost.Zone): hardware
//     timestamping is requested on an interface that has none, so datagrams
//     arrive without a receive-timestamp control message and no transmit
//     timestamp is ever delivered ("hw");
//   - store class: before each attempt of a case with a store class the
//     process-wide timestamp store is put into that class, relative to the
//     sending client, through the `verif` hooks of core/server (known client
//     with k exchanges, request referring to one of them, store full with 2^20
//     items and the oldest one evictable / not evictable), the class is
//     verified by inspection (rec.pre) and the client's record is inspected
//     again after the listener has finished the exchange (rec.post_k).
//
// The sender's source port (Listener.tla SrcPortNames): a case of class
//   - "eph" is sent from a socket bound to port 0 (as before),
//   - "p123" from port 123 (ntp.ServerPortIP), "priv" from another port below
//     1024 (chosen per seed), "lport" from the port NUMBER of the addressed
//     listener - each on the sending worker's own loopback address (every
//     worker of that phase is a host of its own, so that the fixed ports do
//     not collide). Over SCION the SCION/UDP source port is the same port.
//
// A port that cannot be bound here (no CAP_NET_BIND_SERVICE, taken) makes the
// case unobserved: nothing is sent, nothing is recorded for it, and the
// "port" record of the class counts it.
package c09

import (
	"bytes"
	"context"
	"encoding/binary"
	"fmt"
	"log/slog"
	"math/rand"
	"net"
	"net/netip"
	"os"
	"sort"
	"strconv"
	"sync"
	"sync/atomic"
	"testing"
	"time"

	"github.com/google/gopacket"
	"github.com/miscreant/miscreant.go"
	"github.com/prometheus/client_golang/prometheus"
	"github.com/scionproto/scion/pkg/addr"
	"github.com/scionproto/scion/pkg/slayers"
	"github.com/scionproto/scion/pkg/slayers/path"
	"github.com/scionproto/scion/pkg/slayers/path/empty"
	"github.com/scionproto/scion/pkg/slayers/path/scion"

	"example.com/scion-time/base/metrics"
	"example.com/scion-time/core/server"
	"example.com/scion-time/core/timebase"
	"example.com/scion-time/driver/clocks"
	"example.com/scion-time/net/ntp"
	"example.com/scion-time/net/nts"
	"example.com/scion-time/net/ntske"

	"verif/harness/internal/vio"
)

// ---------------------------------------------------------------- model types

type aseg struct {
	Cons bool  `json:"cons"`
	Sid  int   `json:"sid"`
	Hops []int `json:"hops"`
}

type apath struct {
	Kind string `json:"kind"`
	Ci   int    `json:"ci"`
	Ch   int    `json:"ch"`
	Segs []aseg `json:"segs"`
}

type atrailer struct {
	Walk   bool   `json:"walk"`
	Ext    string `json:"ext"`
	UID    string `json:"uid"`
	Auth   string `json:"auth"`
	Cookie string `json:"cookie"`
	Nck    int    `json:"nck"`
	After  bool   `json:"after"`
}

// a case as printed by ListenerMC!Emit
type tcase struct {
	Tp   string   `json:"tp"`
	B0   int      `json:"b0"`
	Len  int      `json:"len"`
	Tr   string   `json:"tr"`
	Pk   string   `json:"pk"`
	Fam  string   `json:"fam"`
	From string   `json:"from"`
	To   string   `json:"to"`
	T    atrailer `json:"t"`
	Nat  int      `json:"nat"`
	Path apath    `json:"path"`
	Sc   asc      `json:"sc"`
	Exp  int      `json:"exp"`
	Drop string   `json:"drop"`
	// circumstances of arrival
	Conf  string `json:"conf"`  // listener configuration: "sw" | "hw"
	Store string `json:"store"` // store class ("asis": left as the run left it)
	Cls   acls   `json:"cls"`   // what the class means
	Il    bool   `json:"il"`    // the request refers to an exchange on record
	Anc   string `json:"anc"`   // what the listener finds next to the datagram: "ts" | "none"
	Org   string `json:"org"`   // which request field the reply's origin repeats
	// the sender: source port class ("eph" | "p123" | "priv" | "lport") and the
	// endpoint it sends from (Listener.tla SrcPortOf)
	Sp  string `json:"sp"`
	Src aep    `json:"src"`
}

// a store class (Listener.tla ClassOf)
type acls struct {
	K    int    `json:"k"`
	Il   bool   `json:"il"`
	Full bool   `json:"full"`
	Fill string `json:"fill"`
}

// the store as inspected through the hooks right before an attempt
type apre struct {
	K    int    `json:"k"`    // exchanges on record for the client (0: no item)
	Full bool   `json:"full"` // len(tss) == tssCap
	Fill string `json:"fill"` // full: "old" the oldest item of another client is evictable | "fresh" it is not; else "none"
}

type aep struct {
	H string `json:"h"`
	P string `json:"p"`
}

type asc struct {
	Sia  string `json:"sia"`
	Sh   string `json:"sh"`
	St   string `json:"st"` // host address type: "v4" (T4Ip) | "v6" (T16Ip)
	Sp   string `json:"sp"`
	Dia  string `json:"dia"`
	Dh   string `json:"dh"`
	Dt   string `json:"dt"`
	Dp   string `json:"dp"`
	Path apath  `json:"path"`
}

// a datagram that came back
type arep struct {
	B0    int    `json:"b0"`  // first payload byte, -1 if none
	St    int    `json:"st"`  // stratum byte, -1 if none
	Len   int    `json:"len"` // payload length
	Tr    string `json:"tr"`  // "none" | "nts_resp" (something follows the header)
	Src   aep    `json:"src"` // underlay source of the reply
	Dst   aep    `json:"dst"` // the socket it arrived at
	Sc    *asc   `json:"sc,omitempty"` // SCION only
	Echo  bool   `json:"echo"`   // origin timestamp = request's transmit timestamp
	Org   string `json:"org"`    // the request field the origin timestamp repeats: "tx" | "rx" | "none"
	RawOK bool   `json:"raw_ok"` // SCION: path bytes == slayers Reverse() of the request's path
}

// record layouts consumed by ListenerTrace.tla
type rec struct {
	K     string `json:"k"` // "case"
	ID    int    `json:"id"`
	Rep   int    `json:"rep"`
	Srv   string `json:"srv"`
	Tp    string `json:"tp"`
	B0    int    `json:"b0"`
	Len   int    `json:"len"`
	Tr    string `json:"tr"`
	Pk    string `json:"pk"`
	Src   aep    `json:"src"`
	Sp    string `json:"sp"` // the sender's source port class (Src.P is the port it means)
	Dst   aep    `json:"dst"`
	Sc    *asc   `json:"sc,omitempty"` // SCION only
	Exp   int    `json:"exp"`
	Drop  string `json:"drop"`
	N     int    `json:"n"`
	Out   []arep `json:"out"`
	Other int    `json:"other"` // undecodable / non-UDP datagrams that came back
	// the sentinel: second datagram on the same socket, a well-formed request
	Slen  int    `json:"slen"` // its length (48: plain, 252: NTS)
	Str   string `json:"str"`  // its trailer class ("none" | "nts_ok")
	Sn    int    `json:"sn"`   // replies to it that reached the socket (0 after 3 attempts | 1)
	Sout  []arep `json:"sout"`
	Tries int    `json:"tries"`
	// circumstances of arrival
	Conf  string `json:"conf"`
	Store string `json:"store"`
	Il    bool   `json:"il"`
	Anc   string `json:"anc"`
	Obs   bool   `json:"obs"`    // pre / post_k were inspected (cases with a store class)
	Pre   apre   `json:"pre"`    // the store before the (last) attempt
	PostK int    `json:"post_k"` // exchanges on record after the sentinel's exchange was finished; -1: not observed
}

// packet counters of both servers after one forged datagram
type prec struct {
	K     string `json:"k"` // "pair"
	ID    int    `json:"id"`
	Srv   string `json:"srv"`
	Tp    string `json:"tp"`
	B0    int    `json:"b0"`
	Len   int    `json:"len"`
	Tr    string `json:"tr"`
	Pk    string `json:"pk"`
	Src   aep    `json:"src"`
	Dst   aep    `json:"dst"`
	Exp   int    `json:"exp"`
	Drop  string `json:"drop"`
	ARecv int    `json:"arecv"`
	BRecv int    `json:"brecv"`
	ASrv  int    `json:"asrv"`
	BSrv  int    `json:"bsrv"`
}

var emptyPath = apath{Kind: "empty", Segs: []aseg{}}

// ------------------------------------------------------------------- servers

// countHandler attributes the listeners' own log lines to the stages of
// Listener.tla's pipeline (DropStage) and counts them.
type countHandler struct {
	mu sync.Mutex
	m  map[string]int
}

var stageOfMsg = map[string]string{
	"failed to decode packet":           "scion",
	"failed to decode packet payload":   "ntp.DecodePacket",
	"failed to get cookie":              "FirstCookie",
	"failed to decode cookie":           "EncryptedServerCookie.Decode",
	"failed to get key":                 "provider.Get",
	"failed to decrypt cookie":          "EncryptedServerCookie.Decrypt",
	"failed to process NTS packet":      "nts.ProcessRequest",
	"failed to validate packet payload": "ntp.ValidateRequest",
	"received request":                  "none",
}

func (h *countHandler) Enabled(context.Context, slog.Level) bool { return true }
func (h *countHandler) WithAttrs([]slog.Attr) slog.Handler       { return h }
func (h *countHandler) WithGroup(string) slog.Handler            { return h }
func (h *countHandler) Handle(_ context.Context, r slog.Record) error {
	st, ok := stageOfMsg[r.Message]
	if r.Message == "failed to decode NTS packet" {
		st, ok = "nts.DecodePacket:?", true
		r.Attrs(func(a slog.Attr) bool {
			if e, isErr := a.Value.Any().(error); a.Key == "error" && isErr {
				switch e.Error() {
				case "packet does not contain a unique identifier":
					st = "nts.DecodePacket:errNoUniqueID"
				case "packet does not contain an authenticator":
					st = "nts.DecodePacket:errNoAuthenticator"
				case "unexpected extension header length":
					st = "nts.DecodePacket:errUnexpectedExtHdrLength"
				case "UniqueIdentifier.ID < 32 bytes":
					st = "nts.DecodePacket:errShortUniqueID"
				}
			}
			return true
		})
	}
	if !ok {
		st = "log:" + r.Message
	}
	h.mu.Lock()
	h.m[st]++
	h.mu.Unlock()
	return nil
}

func (h *countHandler) snapshot() map[string]int {
	h.mu.Lock()
	defer h.mu.Unlock()
	r := map[string]int{}
	for k, v := range h.m {
		r[k] = v
	}
	return r
}

// what Listener.tla predicts for the datagrams sent so far to one server's
// listeners (per attempt)
func (s *srv) predict(stage string) {
	s.pred.mu.Lock()
	s.pred.m[stage]++
	s.pred.mu.Unlock()
}

// stage record: how often the listeners logged a stage vs. the prediction
type srec struct {
	K         string `json:"k"` // "stage"
	Conf      string `json:"conf"`
	Stage     string `json:"stage"`
	Logged    int    `json:"logged"`
	Predicted int    `json:"predicted"`
}

// ancillary-data record: how often the listeners of one configuration found
// no receive timestamp next to a datagram vs. the datagrams sent to them
type ancrec struct {
	K         string `json:"k"` // "anc"
	Conf      string `json:"conf"`
	Stage     string `json:"stage"` // "rxtimestamp" (common layout with "stage")
	Logged    int    `json:"logged"`
	Predicted int    `json:"predicted"` // hw: every datagram; sw: none
	Sent      int    `json:"sent"`
}

const msgNoRxTimestamp = "log:failed to read packet rx timestamp"

type srv struct {
	name      string
	conf      string // "sw": started without an interface name | "hw": with the loopback interface's name
	pred      *countHandler
	sent      atomic.Int64 // datagrams sent to its listeners
	ip        net.IP
	ip6       netip.Addr // the host's IPv6 address in SCION headers (never on the underlay)
	ntpPort   int
	scionPort int
	ia        addr.IA
	prov      *ntske.Provider
	reg       *prometheus.Registry
	logs      *countHandler
}

// model host "C" as one worker of the driver embodies it
type client struct {
	ip4 net.IP
	ip6 netip.Addr // its IPv6 address in SCION headers (never on the underlay)
}

var (
	hostC  = &client{ip6: netip.MustParseAddr("fd00:1:2:3:4:5:6:c")}
	iaC    = addr.MustParseIA("1-ff00:0:110")
	srvs   = map[string]*srv{} // started without an interface name
	srvsHw = map[string]*srv{} // started with the loopback interface's name
	hwDead = map[string]bool{} // transport -> the hw listener did not answer the preflight request (recorded)
)

func inst(name, conf string) *srv {
	if conf == "hw" {
		return srvsHw[name]
	}
	return srvs[name]
}

// the client identity under which the listeners file a request (server_ip.go:
// srcAddr.Addr().String(); server_scion.go: SrcIA.String() + "," + srcAddr.String())
func (cl *client) id(tp, st string) string {
	if tp == "ip" {
		return v4(cl.ip4).String()
	}
	if st == "v6" {
		return iaC.String() + "," + cl.ip6.String()
	}
	return iaC.String() + "," + v4(cl.ip4).String()
}

func (cl *client) ids() []string {
	return []string{cl.id("ip", "v4"), cl.id("scion", "v4"), cl.id("scion", "v6")}
}

func loopbackName(t testing.TB) string {
	ifs, err := net.Interfaces()
	if err != nil {
		t.Fatalf("net.Interfaces: %v", err)
	}
	for _, i := range ifs {
		if i.Flags&net.FlagLoopback != 0 && i.Flags&net.FlagUp != 0 {
			return i.Name
		}
	}
	t.Fatalf("no loopback interface")
	return ""
}

func freePort(t testing.TB, ip net.IP) int {
	c, err := net.ListenUDP("udp4", &net.UDPAddr{IP: ip})
	if err != nil {
		t.Fatalf("cannot bind %v: %v", ip, err)
	}
	defer c.Close()
	p := c.LocalAddr().(*net.UDPAddr).Port
	if p == 30041 {
		return freePort(t, ip)
	}
	return p
}

func startServer(t testing.TB, name string, ip net.IP, ia string, conf string) *srv {
	s := &srv{name: name, conf: conf, ip: ip, ia: addr.MustParseIA(ia), pred: &countHandler{m: map[string]int{}}}
	s.ip6 = netip.MustParseAddr("fd00:1:2:3:4:5:6:" + map[string]string{"A": "a", "B": "b"}[name])
	// the listeners register their counters with promauto on the default
	// registerer: give each server its own registry so that two servers can
	// live in one process and their counters can be read separately
	s.reg = prometheus.NewRegistry()
	prometheus.DefaultRegisterer = s.reg
	s.prov = ntske.NewProvider()
	s.ntpPort = freePort(t, ip)
	s.scionPort = freePort(t, ip)
	for s.scionPort == s.ntpPort {
		s.scionPort = freePort(t, ip)
	}
	s.logs = &countHandler{m: map[string]int{}}
	log := slog.New(s.logs)
	ctx := context.Background()
	// Start*Server hand localHost.Zone to udp.EnableTimestamping as the interface name
	zone := ""
	if conf == "hw" {
		zone = loopbackName(t)
	}
	server.StartIPServer(ctx, log, &net.UDPAddr{IP: ip, Port: s.ntpPort, Zone: zone}, 0, s.prov)
	server.StartSCIONServer(ctx, log, "", &net.UDPAddr{IP: ip, Port: s.scionPort, Zone: zone}, 0, s.prov)
	if conf == "hw" {
		srvsHw[name] = s
	} else {
		srvs[name] = s
	}
	return s
}

func (s *srv) counter(name string) int {
	mfs, err := s.reg.Gather()
	if err != nil {
		panic(err)
	}
	for _, mf := range mfs {
		if mf.GetName() == name {
			return int(mf.GetMetric()[0].GetCounter().GetValue())
		}
	}
	panic("no counter " + name)
}

func (s *srv) ep(tp string) aep {
	if tp == "ip" {
		return aep{s.name, "ntp"}
	}
	return aep{s.name, "sntp"}
}

func (s *srv) udpAddr(tp string) *net.UDPAddr {
	if tp == "ip" {
		return &net.UDPAddr{IP: s.ip, Port: s.ntpPort}
	}
	return &net.UDPAddr{IP: s.ip, Port: s.scionPort}
}

// ------------------------------------------------------------ payload builder

const (
	extUID    = 0x104
	extCookie = 0x204
	extPlaceh = 0x304
	extAuth   = 0x404
)

var unknownTypes = []uint16{0x0001, 0x0002, 0x2005, 0x8104, 0x0504, 0xfffe, 0x4104, 0x0204 ^ 0x8000}

var sentinelSeq atomic.Uint64

// sentinel: version 4, mode 3, receive == transmit timestamp (basic mode for
// certain), transmit timestamp = 0xA5 0x5A <48-bit counter>
func sentinel(s *srv, withNTS bool, rng *rand.Rand) ([]byte, []byte) {
	b := make([]byte, 48, nts.MaxPacketLen)
	b[0] = 0x23
	binary.BigEndian.PutUint64(b[40:], 0xA55A<<48|sentinelSeq.Add(1)&0xffffffffffff)
	copy(b[32:40], b[40:48])
	mark := append([]byte{}, b[40:48]...)
	if withNTS {
		// a valid NTS request (252 bytes) from the repository's own encoder
		c2s, s2c := randBytes(rng, 32), randBytes(rng, 32)
		key := s.prov.Current()
		plain := ntske.ServerCookie{Algo: 15, S2C: s2c, C2S: c2s}
		ec, err := plain.EncryptWithNonce(key.Value, key.ID)
		if err != nil {
			panic(err)
		}
		pool := make([][]byte, 8)
		for i := range pool {
			pool[i] = ec.Encode()
		}
		pkt, _ := nts.NewRequestPacket(ntske.Data{C2sKey: c2s, S2cKey: s2c, Cookie: pool, Algo: 15})
		nts.EncodePacket(&b, &pkt)
		if len(b) != 252 {
			panic("NTS sentinel is not 252 bytes long")
		}
	}
	return b, mark
}

func randBytes(rng *rand.Rand, n int) []byte {
	b := make([]byte, n)
	for i := range b {
		b[i] = byte(rng.Intn(256))
	}
	return b
}

func field(typ uint16, body []byte) []byte {
	if len(body)%4 != 0 {
		panic("unpadded extension field body")
	}
	b := make([]byte, 4+len(body))
	binary.BigEndian.PutUint16(b[0:], typ)
	binary.BigEndian.PutUint16(b[2:], uint16(len(b)))
	copy(b[4:], body)
	return b
}

// a well-formed walk of extension fields of unknown type covering exactly n
// bytes (n >= 28, n % 4 == 0); every field is at least 28 bytes long, so the
// decoder of the pinned tree never sees a length below 4
func unknownWalk(rng *rand.Rand, n int) []byte {
	if n < 28 || n%4 != 0 {
		panic(fmt.Sprintf("unknownWalk(%d)", n))
	}
	var b []byte
	for n > 0 {
		l := n
		if n >= 56 && rng.Intn(3) != 0 {
			l = 28 + 4*rng.Intn((n-56)/4+1)
		}
		b = append(b, field(unknownTypes[rng.Intn(len(unknownTypes))], randBytes(rng, l-4))...)
		n -= l
	}
	return b
}

func seal(key, nonce, ad []byte) []byte {
	a, err := miscreant.NewAEAD("AES-CMAC-SIV", key, 16)
	if err != nil {
		panic(err)
	}
	return a.Seal(nil, nonce, nil, ad)
}

// the concrete payload of a case; the second result is the request's transmit
// timestamp field (nil if the payload is shorter than a header). origin, if
// not nil, becomes the origin timestamp field (a receive timestamp the server
// has on record: interleaved mode).
func buildPayload(c *tcase, s *srv, rng *rand.Rand, origin []byte) ([]byte, []byte) {
	hdr := randBytes(rng, 48)
	hdr[0] = byte(c.B0)
	if hdr[40] == 0xA5 { // never looks like a sentinel
		hdr[40] = 0x5A
	}
	if origin != nil {
		copy(hdr[24:32], origin)
	}
	if bytes.Equal(hdr[32:40], hdr[40:48]) { // receive != transmit field: not "basic mode for certain"
		hdr[39] ^= 1
	}
	tx := append([]byte{}, hdr[40:48]...)
	t := c.T
	switch c.Tr {
	case "none":
		if c.Len > 48 {
			panic("bad case")
		}
		if c.Len < 48 {
			tx = nil
		}
		return hdr[:c.Len], tx
	case "short":
		return append(hdr, randBytes(rng, c.Len-48)...), tx
	case "garbage":
		return append(hdr, unknownWalk(rng, c.Len-48)...), tx
	}
	// structured trailers
	c2s, s2c := randBytes(rng, 32), randBytes(rng, 32)
	key := s.prov.Current()
	plain := ntske.ServerCookie{Algo: 15, S2C: s2c, C2S: c2s}
	ec, err := plain.EncryptWithNonce(key.Value, key.ID)
	if err != nil {
		panic(err)
	}
	switch t.Cookie {
	case "unkkey":
		ec.ID = uint16(key.ID + 1000)
	case "badct":
		ec.Ciphertext[rng.Intn(len(ec.Ciphertext))] ^= 1 << uint(rng.Intn(8))
	}
	cookie := ec.Encode()
	if len(cookie) != 124 {
		panic("cookie length is not the 124 bytes Listener.tla assumes")
	}
	nat := c.Nat // NatLen of Listener.tla; checked against what is built below
	if c.Len == nat && (c.Tr == "nts_ok" || c.Tr == "nts_ok_ph") {
		// natural length: the repository's own encoder (8 / 6 cookies in the
		// client's pool => 0 / 2 placeholders)
		pool := make([][]byte, 9-t.Nck)
		for i := range pool {
			pool[i] = cookie
		}
		pkt, _ := nts.NewRequestPacket(ntske.Data{C2sKey: c2s, S2cKey: s2c, Cookie: pool, Algo: 15})
		buf := append(make([]byte, 0, nts.MaxPacketLen), hdr...)
		nts.EncodePacket(&buf, &pkt)
		if len(buf) != c.Len {
			panic(fmt.Sprintf("nts.EncodePacket produced %d bytes, the model says %d", len(buf), c.Len))
		}
		return buf, tx
	}
	b := append([]byte{}, hdr...)
	if c.Len != nat {
		b = append(b, unknownWalk(rng, c.Len-nat)...)
	}
	if t.Ext == "lt4" {
		// a field whose Length is below the 4 bytes of its own header
		f := randBytes(rng, 28)
		binary.BigEndian.PutUint16(f[2:], uint16(rng.Intn(4)))
		b = append(b, f...)
	}
	switch t.UID {
	case "ok":
		b = append(b, field(extUID, randBytes(rng, 32))...)
	case "short":
		b = append(b, field(extUID, randBytes(rng, 24))...)
	}
	for i := 0; i < t.Nck; i++ {
		if i == 0 && t.Cookie == "undecodable" {
			b = append(b, field(extCookie, []byte{0, byte(rng.Intn(256)), 0, 0})...)
		} else if i == 0 {
			b = append(b, field(extCookie, cookie)...)
		} else {
			b = append(b, field(extPlaceh, make([]byte, 124))...)
		}
	}
	if t.Auth != "none" {
		k := c2s
		if t.Auth == "wrongkey" {
			k = randBytes(rng, 32)
		}
		nonce := randBytes(rng, 16)
		ct := seal(k, nonce, b)
		if t.Auth == "badmac" {
			ct[rng.Intn(len(ct))] ^= 1 << uint(rng.Intn(8))
		}
		body := []byte{0, 16, 0, 16}
		if t.Auth == "badnonce" {
			body = []byte{0, 12, 0, 20} // same 32 bytes, split 12 + 20
		}
		body = append(body, nonce...)
		body = append(body, ct...)
		b = append(b, field(extAuth, body)...)
		if t.Auth == "adtamper" {
			b[1+rng.Intn(39)] ^= 1 << uint(rng.Intn(8)) // a header byte other than the first and the transmit time
		}
	}
	if t.After {
		b = append(b, unknownWalk(rng, 28)...)
	}
	if len(b) != c.Len {
		panic(fmt.Sprintf("built %d bytes for case %+v", len(b), *c))
	}
	return b, tx
}

// ------------------------------------------------------------------- SCION

func buildPath(p apath, rng *rand.Rand) (path.Path, path.Type) {
	if p.Kind == "empty" {
		return empty.Path{}, empty.PathType
	}
	d := &scion.Decoded{}
	d.PathMeta.CurrINF = uint8(p.Ci)
	d.PathMeta.CurrHF = uint8(p.Ch)
	d.NumINF = len(p.Segs)
	for i, sg := range p.Segs {
		d.PathMeta.SegLen[i] = uint8(len(sg.Hops))
		d.NumHops += len(sg.Hops)
		d.InfoFields = append(d.InfoFields, path.InfoField{ConsDir: sg.Cons, SegID: uint16(sg.Sid),
			Timestamp: uint32(rng.Int63())})
		for _, h := range sg.Hops {
			hf := path.HopField{ConsIngress: uint16(h), ConsEgress: uint16(h + 100), ExpTime: uint8(rng.Intn(256))}
			copy(hf.Mac[:], randBytes(rng, 6))
			d.HopFields = append(d.HopFields, hf)
		}
	}
	return d, scion.PathType
}

func pathBytes(p path.Path) []byte {
	b := make([]byte, p.Len())
	if err := p.SerializeTo(b); err != nil {
		panic(err)
	}
	return b
}

func v4(ip net.IP) netip.Addr {
	a, _ := netip.AddrFromSlice(ip.To4())
	return a
}

// the address of host h ("C", "A", "B") of SCION address type t ("v4" | "v6")
func hostOf(h, t string, cl *client) netip.Addr {
	if h == "C" {
		if t == "v6" {
			return cl.ip6
		}
		return v4(cl.ip4)
	}
	if t == "v6" {
		return srvs[h].ip6
	}
	return v4(srvs[h].ip)
}

// SCION/UDP packet; returns the bytes and the serialized path
func buildSCION(srcIA, dstIA addr.IA, srcIP, dstIP netip.Addr, srcPort, dstPort int, p path.Path, pt path.Type,
	payload []byte) ([]byte, []byte) {
	var sl slayers.SCION
	sl.FlowID = 1
	sl.NextHdr = slayers.L4UDP
	sl.PathType = pt
	sl.SrcIA, sl.DstIA = srcIA, dstIA
	if err := sl.SetSrcAddr(addr.HostIP(srcIP)); err != nil {
		panic(err)
	}
	if err := sl.SetDstAddr(addr.HostIP(dstIP)); err != nil {
		panic(err)
	}
	sl.Path = p
	var ul slayers.UDP
	ul.SrcPort, ul.DstPort = uint16(srcPort), uint16(dstPort)
	ul.SetNetworkLayerForChecksum(&sl)
	buf := gopacket.NewSerializeBuffer()
	opts := gopacket.SerializeOptions{ComputeChecksums: true, FixLengths: true}
	if err := gopacket.SerializeLayers(buf, opts, &sl, &ul, gopacket.Payload(payload)); err != nil {
		panic(err)
	}
	return append([]byte{}, buf.Bytes()...), pathBytes(p)
}

func iaName(ia addr.IA) string {
	if ia == iaC {
		return "iaC"
	}
	for _, s := range srvs {
		if ia == s.ia {
			return "ia" + s.name
		}
	}
	return "?"
}

func typeName(t slayers.AddrType) string {
	switch t {
	case slayers.T4Ip:
		return "v4"
	case slayers.T16Ip:
		return "v6"
	}
	return "?"
}

// inverse of hostOf on (address type, raw bytes); "?" if it is nobody's address
func hostName(t slayers.AddrType, raw []byte, cl *client) string {
	tn := typeName(t)
	if tn == "?" {
		return "?"
	}
	for _, h := range []string{"C", "A", "B"} {
		if bytes.Equal(raw, hostOf(h, tn, cl).AsSlice()) {
			return h
		}
	}
	return "?"
}

func projectPath(p path.Path) apath {
	switch x := p.(type) {
	case empty.Path:
		return emptyPath
	case *scion.Raw:
		d, err := x.ToDecoded()
		if err != nil {
			return apath{Kind: "undecodable", Segs: []aseg{}}
		}
		return projectPath(d)
	case *scion.Decoded:
		r := apath{Kind: "scion", Ci: int(x.PathMeta.CurrINF), Ch: int(x.PathMeta.CurrHF), Segs: []aseg{}}
		k := 0
		for i := 0; i < x.NumINF; i++ {
			sg := aseg{Cons: x.InfoFields[i].ConsDir, Sid: int(x.InfoFields[i].SegID), Hops: []int{}}
			for j := 0; j < int(x.PathMeta.SegLen[i]); j++ {
				sg.Hops = append(sg.Hops, int(x.HopFields[k].ConsIngress))
				k++
			}
			r.Segs = append(r.Segs, sg)
		}
		return r
	}
	return apath{Kind: "other", Segs: []aseg{}}
}

type scionReply struct {
	ok      bool
	sc      asc
	payload []byte
	pathRaw []byte
}

func decodeSCION(b []byte, myPort int, myName string, srvPort int, cl *client) scionReply {
	var (
		sl   slayers.SCION
		hbh  slayers.HopByHopExtnSkipper
		e2e  slayers.EndToEndExtn
		ul   slayers.UDP
		scmp slayers.SCMP
	)
	parser := gopacket.NewDecodingLayerParser(slayers.LayerTypeSCION, &sl, &hbh, &e2e, &ul, &scmp)
	parser.IgnoreUnsupported = true
	decoded := make([]gopacket.LayerType, 0, 4)
	if err := parser.DecodeLayers(b, &decoded); err != nil {
		return scionReply{}
	}
	if len(decoded) != 2 || decoded[1] != slayers.LayerTypeSCIONUDP {
		return scionReply{}
	}
	pn := func(p uint16) string {
		switch int(p) {
		case myPort:
			return myName // (class "lport": the listener's port number, "sntp", either way)
		case srvPort:
			return "sntp"
		}
		return "?"
	}
	return scionReply{ok: true, payload: ul.Payload, pathRaw: pathBytes(sl.Path),
		sc: asc{Sia: iaName(sl.SrcIA), Sh: hostName(sl.SrcAddrType, sl.RawSrcAddr, cl), St: typeName(sl.SrcAddrType), Sp: pn(ul.SrcPort),
			Dia: iaName(sl.DstIA), Dh: hostName(sl.DstAddrType, sl.RawDstAddr, cl), Dt: typeName(sl.DstAddrType), Dp: pn(ul.DstPort),
			Path: projectPath(sl.Path)}}
}

// ------------------------------------------------------------- store classes

// tracker follows the operations of the listeners on one client's record
// (server.VerifTrace: called at the end of handleRequest "H" and of
// updateTXTimestamp "U", under the store's lock): done is true when the
// updateTXTimestamp call belonging to the latest handleRequest call has returned.
type tracker struct {
	lastH atomic.Int64
	done  atomic.Bool
}

var tracked sync.Map // client identity -> *tracker

func installTrace() {
	server.VerifTrace = func(op, clientID string, _ *ntp.Packet, rxt, _ *time.Time, _ *ntp.Packet) {
		v, ok := tracked.Load(clientID)
		if !ok {
			return
		}
		tr := v.(*tracker)
		if op == "H" {
			tr.lastH.Store(rxt.UnixNano())
			tr.done.Store(false)
		} else if rxt.UnixNano() == tr.lastH.Load() {
			tr.done.Store(true)
		}
	}
}

// fillers: clients outside the model. "f<i>": newest receive time one hour
// ahead (never evictable), "o<i>": one hour back (evicted first).
var (
	nFresh int
	oldSeq int
)

func addFiller(key string, at time.Time) {
	var req, resp ntp.Packet
	var txt time.Time
	server.VerifHandleRequest(key, &req, &at, &txt, &resp)
}

func storeSize() (n int) {
	server.VerifLocked(func() { n, _ = server.VerifSizesLocked() })
	return
}

func topUp() {
	far := time.Now().Add(time.Hour)
	for n := storeSize(); n < server.VerifTssCap; n++ {
		addFiller("f"+strconv.Itoa(nFresh), far.Add(time.Duration(nFresh)))
		nFresh++
	}
}

func dropFresh() {
	if nFresh > 0 {
		nFresh--
		server.VerifRemove("f" + strconv.Itoa(nFresh))
	}
}

// the store as handleRequest will find it for a request of client cid
func inspect(cid string) (pre apre) {
	server.VerifLocked(func() {
		if it, ok := server.VerifLookupLocked(cid); ok {
			pre.K = it.N
		}
		n, _ := server.VerifSizesLocked()
		pre.Full = n == server.VerifTssCap
		pre.Fill = "none"
		if !pre.Full {
			return
		}
		// the least recently active item of another client: the root of the
		// heap, or one of its children if the root is this client's item
		now64 := ntp.Time64FromTime(time.Now())
		found := false
		var best ntp.Time64
		for i := 0; i < 3 && i < n; i++ {
			x, _ := server.VerifQueueAtLocked(i)
			if x.Key != cid && (!found || x.Qval.Before(best)) {
				best, found = x.Qval, true
			}
		}
		if found && !best.After(now64) {
			pre.Fill = "old"
		} else {
			pre.Fill = "fresh"
		}
	})
	return
}

// prepStore puts the store into the class of case c relative to client cid
// and returns what an inspection then finds; origin is the receive timestamp
// of one of the client's exchanges on record (class with il), else nil.
func prepStore(c *tcase, cid string, who *client) (pre apre, origin []byte) {
	// (under its other identities this worker is "another client" whose item is old)
	for _, id := range who.ids() {
		server.VerifRemove(id)
	}
	cl := c.Cls
	if cl.Full && cl.K > 0 && storeSize() == server.VerifTssCap {
		dropFresh() // room for the client's own item
	}
	base := time.Now().Add(-10 * time.Second)
	for i := 0; i < cl.K; i++ {
		var req, resp ntp.Packet
		rxt := base.Add(time.Duration(i) * time.Millisecond)
		var txt time.Time
		server.VerifHandleRequest(cid, &req, &rxt, &txt, &resp)
		txt1 := txt.Add(time.Microsecond) // a kernel transmit timestamp was read
		server.VerifUpdateTXTimestamp(cid, rxt, &txt1)
		if cl.Il && i == cl.K/2 {
			t64 := ntp.Time64FromTime(rxt)
			origin = make([]byte, 8)
			binary.BigEndian.PutUint32(origin[0:], t64.Seconds)
			binary.BigEndian.PutUint32(origin[4:], t64.Fraction)
		}
	}
	if cl.Full {
		if cl.Fill == "old" {
			topUp()
			if inspect(cid).Fill != "old" {
				dropFresh()
				addFiller("o"+strconv.Itoa(oldSeq), time.Now().Add(-time.Hour).Add(time.Duration(oldSeq)))
				oldSeq++
			}
		}
		topUp()
	}
	return inspect(cid), origin
}

// ------------------------------------------------------------------ one case

const (
	maxTries     = 3
	sentinelWait = 2 * time.Second
)

// cl: the client this worker embodies; tr: its tracker (cases with a store class)
// nil: the case's source port could not be bound here (unobserved, counted in unbound)
func runCase(id, rep int, c *tcase, rng *rand.Rand, cl *client, tr *tracker) *rec {
	s := inst(c.To, c.Conf)
	r := &rec{K: "case", ID: id, Rep: rep, Srv: s.name, Tp: c.Tp, B0: c.B0, Len: c.Len, Tr: c.Tr, Pk: c.Pk,
		Src: c.Src, Sp: c.Sp, Dst: s.ep(c.Tp), Exp: c.Exp, Drop: c.Drop, Out: []arep{},
		Conf: c.Conf, Store: c.Store, Il: c.Il, Anc: c.Anc, Pre: apre{Fill: "none"}, PostK: -1}
	cid := cl.id(c.Tp, c.Sc.St)
	for try := 1; try <= maxTries; try++ {
		r.Tries = try
		r.Out, r.Sout, r.N, r.Other, r.Sn = []arep{}, []arep{}, 0, 0, 0
		var origin []byte
		if c.Store != "asis" {
			r.Obs = true
			r.Pre, origin = prepStore(c, cid, cl)
		}
		// a fresh source port; it must differ from the listeners' port numbers,
		// otherwise the port abstraction (eph / ntp / sntp) has no exact inverse
		var conn *net.UDPConn
		var myPort int
		dst := s.udpAddr(c.Tp)
		for c.Sp == "eph" {
			var err error
			conn, err = net.ListenUDP("udp4", &net.UDPAddr{IP: cl.ip4})
			if err != nil {
				panic(err)
			}
			myPort = conn.LocalAddr().(*net.UDPAddr).Port
			if myPort != s.ntpPort && myPort != s.scionPort && myPort != 30041 && myPort != privPort {
				break
			}
			conn.Close()
		}
		if c.Sp != "eph" {
			// a port of the case's class on this worker's own address
			switch c.Sp {
			case "p123":
				myPort = ntp.ServerPortIP
			case "priv":
				myPort = privPort
			case "lport":
				myPort = dst.Port
			default:
				panic("unknown source port class " + c.Sp)
			}
			var err error
			if cl.ip4 != nil {
				conn, err = net.ListenUDP("udp4", &net.UDPAddr{IP: cl.ip4, Port: myPort})
			}
			if cl.ip4 == nil || err != nil {
				noteUnbound(c.Sp, err)
				return nil
			}
		}
		payload, tx := buildPayload(c, s, rng, origin)
		var rx []byte
		if tx != nil {
			rx = append([]byte{}, payload[32:40]...)
		}
		// the sentinel alternates between a plain and an NTS request, so that a
		// well-formed request LONGER than the case follows it on the same socket too
		r.Slen, r.Str = 48, "none"
		if (id+rep+try)%2 == 1 {
			r.Slen, r.Str = 252, "nts_ok"
		}
		sent, mark := sentinel(s, r.Slen == 252, rng)
		wire, swire := payload, sent
		var wantPath, swantPath []byte
		if c.Tp == "scion" {
			// SCION/UDP around the payload; also what the reply's path must be:
			// slayers' own Reverse() of a copy of the request's path
			wrap := func(pl []byte) ([]byte, []byte) {
				p, pt := buildPath(c.Path, rng)
				w, pb := buildSCION(iaC, s.ia, hostOf("C", c.Sc.St, cl), hostOf(s.name, c.Sc.Dt, cl), myPort, s.scionPort, p, pt, pl)
				want := pb
				if c.Path.Kind != "empty" {
					raw := &scion.Raw{}
					if err := raw.DecodeFromBytes(append([]byte{}, pb...)); err != nil {
						panic(err)
					}
					rv, err := raw.Reverse()
					if err != nil {
						panic(err)
					}
					want = pathBytes(rv)
				}
				return w, want
			}
			wire, wantPath = wrap(payload)
			swire, swantPath = wrap(sent)
			sc := c.Sc
			r.Sc = &sc
		}
		if _, err := conn.WriteToUDP(wire, dst); err != nil {
			panic(err)
		}
		if _, err := conn.WriteToUDP(swire, dst); err != nil {
			panic(err)
		}
		s.predict(c.Drop)
		s.predict("none") // the sentinel
		s.sent.Add(2)
		conn.SetReadDeadline(time.Now().Add(sentinelWait))
		buf := make([]byte, 16384)
		for r.Sn == 0 && r.N < 16 {
			n, from, err := conn.ReadFromUDP(buf)
			if err != nil {
				break // deadline
			}
			pl := buf[:n]
			o := arep{RawOK: true, Dst: r.Src, Src: aep{"?", "?"}} // it arrived at the sending socket
			if from.IP.Equal(s.ip) && from.Port == dst.Port {
				o.Src = s.ep(c.Tp)
			}
			var pathRaw []byte
			if c.Tp == "scion" {
				d := decodeSCION(pl, myPort, r.Src.P, s.scionPort, cl)
				if !d.ok {
					r.Other++
					continue
				}
				pl = d.payload
				o.Sc = &d.sc
				pathRaw = d.pathRaw
			}
			isSentinel := len(pl) >= 48 && bytes.Equal(pl[24:32], mark)
			o.B0, o.St, o.Len, o.Tr = -1, -1, len(pl), "none"
			if len(pl) > 0 {
				o.B0 = int(pl[0])
			}
			if len(pl) > 1 {
				o.St = int(pl[1])
			}
			if len(pl) > 48 {
				o.Tr = "nts_resp"
			}
			if isSentinel {
				o.Echo, o.Org = true, "tx"
				o.RawOK = c.Tp != "scion" || bytes.Equal(pathRaw, swantPath)
				r.Sout = []arep{o}
				r.Sn = 1
				break
			}
			o.Echo = tx != nil && len(pl) >= 48 && bytes.Equal(pl[24:32], tx)
			o.Org = "none"
			if o.Echo {
				o.Org = "tx"
			} else if rx != nil && len(pl) >= 48 && bytes.Equal(pl[24:32], rx) {
				o.Org = "rx"
			}
			o.RawOK = c.Tp != "scion" || bytes.Equal(pathRaw, wantPath)
			r.Out = append(r.Out, o)
			r.N++
		}
		if r.Sn == 1 {
			conn.Close() // everything sent to this socket has been read
			if r.Obs && tr != nil {
				// the sentinel's reply is here, so its handleRequest call has returned;
				// the client's record is final once the matching updateTXTimestamp call has
				for end := time.Now().Add(100 * time.Millisecond); !tr.done.Load() && time.Now().Before(end); {
					time.Sleep(50 * time.Microsecond)
				}
				if tr.done.Load() {
					r.PostK = inspect(cid).K
				}
			}
			break
		}
		// the attempt timed out: late datagrams may still be on their way to this
		// port, so it must not be handed to another case's socket; keep it bound
		graveMu.Lock()
		graveyard = append(graveyard, conn)
		graveMu.Unlock()
		if c.Sp != "eph" {
			// the fixed port stays bound on this address: the worker (a host of
			// its own in this phase) moves to a spare address
			cl.ip4 = spareIP()
		}
	}
	return r
}

var (
	graveMu   sync.Mutex
	graveyard []*net.UDPConn
	// source port classes
	privPort int                 // the port of class "priv" in this run
	spareIP  func() net.IP       // a loopback address nobody has used yet (nil: none left)
	unbMu    sync.Mutex
	unbound  = map[string]int{}    // class -> cases whose port could not be bound
	unbWhy   = map[string]string{} // class -> first error
	portDone = map[string]int{}    // class -> case records written
)

func noteUnbound(class string, err error) {
	unbMu.Lock()
	unbound[class]++
	if _, ok := unbWhy[class]; !ok {
		if err != nil {
			unbWhy[class] = err.Error()
		} else {
			unbWhy[class] = "no spare loopback address left"
		}
	}
	unbMu.Unlock()
}

// port record: how many generated cases of one source port class were sent
// (their port could be bound) and how many were not
type portrec struct {
	K         string `json:"k"` // "port"
	Conf      string `json:"conf"`
	Stage     string `json:"stage"` // the class (common layout with "stage")
	Logged    int    `json:"logged"`    // case records written
	Predicted int    `json:"predicted"` // cases generated (x repetitions)
	Unbound   int    `json:"unbound"`
	Port      int    `json:"port"` // the port number used (lport: 0, it depends on the listener)
	Why       string `json:"why"`
}

// ------------------------------------------------------------- pair (A <-> B)

// sends one UDP datagram whose IP source address and port are those of
// listener `from` (a raw socket bound to its address)
func sendForged(from, to *net.UDPAddr, payload []byte) error {
	rc, err := net.ListenIP("ip4:udp", &net.IPAddr{IP: from.IP})
	if err != nil {
		return err
	}
	defer rc.Close()
	b := make([]byte, 8+len(payload))
	binary.BigEndian.PutUint16(b[0:], uint16(from.Port))
	binary.BigEndian.PutUint16(b[2:], uint16(to.Port))
	binary.BigEndian.PutUint16(b[4:], uint16(len(b)))
	copy(b[8:], payload) // checksum 0: not computed (IPv4)
	_, err = rc.WriteToIP(b, &net.IPAddr{IP: to.IP})
	return err
}

type counts struct{ arecv, brecv, asrv, bsrv int }

func snapshot(tp string) counts {
	a, b := srvs["A"], srvs["B"]
	if tp == "ip" {
		return counts{a.counter(metrics.IPServerPktsReceivedN), b.counter(metrics.IPServerPktsReceivedN),
			a.counter(metrics.IPServerReqsServedN), b.counter(metrics.IPServerReqsServedN)}
	}
	return counts{a.counter(metrics.SCIONServerPktsReceivedN), b.counter(metrics.SCIONServerPktsReceivedN),
		a.counter(metrics.SCIONServerReqsServedN), b.counter(metrics.SCIONServerReqsServedN)}
}

func (c counts) sub(d counts) counts {
	return counts{c.arecv - d.arecv, c.brecv - d.brecv, c.asrv - d.asrv, c.bsrv - d.bsrv}
}

func runPair(id int, c *tcase, rng *rand.Rand) (*prec, error) {
	from, to := srvs[c.From], srvs[c.To]
	r := &prec{K: "pair", ID: id, Srv: to.name, Tp: c.Tp, B0: c.B0, Len: c.Len, Tr: c.Tr, Pk: c.Pk,
		Src: from.ep(c.Tp), Dst: to.ep(c.Tp), Exp: c.Exp, Drop: c.Drop}
	payload, _ := buildPayload(c, to, rng, nil)
	wire := payload
	if c.Tp == "scion" {
		p, pt := buildPath(c.Path, rng)
		wire, _ = buildSCION(from.ia, to.ia, hostOf(from.name, c.Sc.St, hostC), hostOf(to.name, c.Sc.Dt, hostC), from.scionPort, to.scionPort, p, pt, payload)
	}
	before := snapshot(c.Tp)
	if err := sendForged(from.udpAddr(c.Tp), to.udpAddr(c.Tp), wire); err != nil {
		return nil, err
	}
	// wait until the counters have not moved for `grace` (a server that answers
	// a reply makes them run away, which is what the monitor looks for)
	const grace = 6 * time.Millisecond
	deadline := time.Now().Add(1500 * time.Millisecond)
	last, lastChange := before, time.Now()
	for time.Now().Before(deadline) {
		time.Sleep(300 * time.Microsecond)
		cur := snapshot(c.Tp)
		if cur != last {
			last, lastChange = cur, time.Now()
			if d := cur.sub(before); d.arecv+d.brecv > 50 {
				break // run-away traffic
			}
			continue
		}
		// quiet for `grace`, and either the state Listener.tla predicts has been
		// reached or a scheduling delay can no longer explain its absence
		d := cur.sub(before)
		tr, ts, or := d.arecv, d.asrv, d.brecv
		if c.To == "B" {
			tr, ts, or = d.brecv, d.bsrv, d.arecv
		}
		reached := tr >= 1 && (c.Exp == 0 || (ts >= 1 && or >= 1))
		if cur != before && time.Since(lastChange) > grace && (reached || time.Since(lastChange) > 250*time.Millisecond) {
			break
		}
	}
	d := last.sub(before)
	r.ARecv, r.BRecv, r.ASrv, r.BSrv = d.arecv, d.brecv, d.asrv, d.bsrv
	if d.arecv+d.brecv == 0 {
		return nil, fmt.Errorf("forged datagram never arrived (case %+v)", *c)
	}
	return r, nil
}

// ----------------------------------------------------------------------- test

func TestC09(t *testing.T) {
	all := vio.ReadCases[tcase](t)
	var pairs []tcase
	if p := os.Getenv("VERIF_PAIRS"); p != "" {
		pairs = vio.ReadCasesFrom[tcase](t, p)
	}
	out := vio.Create(t)
	defer out.Close()

	timebase.RegisterClock(clocks.NewSystemClock(slog.New(slog.DiscardHandler), clocks.UnknownDrift))
	// private loopback addresses: nothing else on this machine talks to them
	h := uint32(os.Getpid())*2654435761 ^ uint32(time.Now().UnixNano())
	base := net.IPv4(127, byte(1+(h>>8)%250), byte(h>>16), 0).To4()
	mk := func(last byte) net.IP { ip := append(net.IP{}, base...); ip[3] = last; return ip }
	hostC.ip4 = mk(3)
	// class "priv": a privileged port other than 123, per seed
	privPort = 200 + int((vio.Seed()*37)%800)
	var spare atomic.Int32
	spareIP = func() net.IP {
		if n := spare.Add(1); n <= 180 {
			return mk(byte(63 + n))
		}
		return nil
	}
	startServer(t, "A", mk(1), "1-ff00:0:111", "sw")
	startServer(t, "B", mk(2), "1-ff00:0:112", "sw")
	// server A once more, its listeners started with an interface name (own ports)
	startServer(t, "A", mk(1), "1-ff00:0:111", "hw")

	// the cases by phase: store left as the run leaves it | a store class that
	// does not need a full store | one that does
	// | sent from a port of a class other than "eph"
	var cases, storeA, storeB, ported []int
	for i := range all {
		if all[i].Sp == "" { // (hand-written case files without the field)
			all[i].Sp, all[i].Src = "eph", aep{"C", "eph"}
		}
		switch {
		case all[i].Sp != "eph":
			if all[i].Store != "asis" {
				t.Fatalf("case %d: source port class %s with store class %s is not supported by the driver", i, all[i].Sp, all[i].Store)
			}
			ported = append(ported, i)
		case all[i].Store == "asis":
			cases = append(cases, i)
		case all[i].Cls.Full:
			storeB = append(storeB, i)
		default:
			storeA = append(storeA, i)
		}
	}

	// preflight: a plain valid request must be answered on both transports,
	// otherwise every case would run into the sentinel time-out
	pre := 0
	for _, conf := range []string{"sw", "hw"} {
		for _, tp := range []string{"ip", "scion"} {
			c := tcase{Tp: tp, B0: 0x23, Len: 48, Tr: "none", Pk: "empty", Fam: "44", From: "C", To: "A", Path: emptyPath, Exp: 1, Drop: "none",
				Sc:   asc{"iaC", "C", "v4", "eph", "iaA", "A", "v4", "sntp", emptyPath},
				Conf: conf, Store: "asis", Cls: acls{Fill: "none"}, Anc: map[string]string{"sw": "ts", "hw": "none"}[conf], Org: "tx",
				Sp: "eph", Src: aep{"C", "eph"}}
			r := runCase(-1, 0, &c, vio.Rand(), hostC, nil)
			out.Emit(r)
			pre++
			if r.Sn != 1 && conf == "sw" {
				t.Logf("C09 preflight: no reply to a plain valid %s request reached the sender (recorded)", tp)
				t.Logf("C09 records=%d cases=0 pairs=0 aborted=1 skipped=0", pre)
				return
			}
			if r.Sn != 1 {
				// recorded; the cases addressed to this listener would all time out
				t.Logf("C09 preflight: the %s listener started with an interface name did not answer a plain valid request (recorded)", tp)
				hwDead[tp] = true
			}
		}
	}

	reps := 1
	if vio.Thorough() {
		reps = 2
	}
	const workers = 12
	var wg sync.WaitGroup
	var lost, done, skipped atomic.Int64
	// runs the cases idx[w], idx[w+n], ... on n workers; worker w embodies client cl(w)
	phase := func(idx []int, n, reps int, cl func(w int) (*client, *tracker), maxLost int64) {
		for w := 0; w < n; w++ {
			wg.Add(1)
			go func(w int) {
				defer wg.Done()
				rng := rand.New(rand.NewSource(vio.Seed()*1000 + int64(w)))
				c, tr := cl(w)
				for rep := 0; rep < reps; rep++ {
					for k := w; k < len(idx); k += n {
						if lost.Load() > maxLost {
							return // the monitor has plenty to look at
						}
						tc := &all[idx[k]]
						if tc.Conf == "hw" && hwDead[tc.Tp] {
							skipped.Add(1)
							continue
						}
						r := runCase(idx[k], rep, tc, rng, c, tr)
						if r == nil {
							continue // source port not bindable here: unobserved, counted
						}
						if r.Sn != 1 {
							lost.Add(1)
						}
						out.Emit(r)
						done.Add(1)
						if tc.Sp != "eph" {
							unbMu.Lock()
							portDone[tc.Sp]++
							unbMu.Unlock()
						}
					}
				}
			}(w)
		}
		wg.Wait()
	}
	phase(cases, workers, reps, func(int) (*client, *tracker) { return hostC, nil }, 24)

	// cases sent from port 123 / another privileged port / the listener's port
	// number: every worker is a host of its own (address .40+w), so that the
	// same fixed port can be bound by all of them at once
	if lost.Load() == 0 && len(ported) > 0 {
		pcl := make([]*client, workers)
		for w := range pcl {
			pcl[w] = &client{ip4: mk(byte(40 + w)), ip6: netip.MustParseAddr("fd00:1:2:3:4:5:6:" + strconv.FormatInt(int64(0x200+w), 16))}
		}
		phase(ported, workers, reps, func(w int) (*client, *tracker) { return pcl[w], nil }, 24)
		gen := map[string]int{}
		for _, i := range ported {
			gen[all[i].Sp] += reps
		}
		unbMu.Lock()
		for cls, n := range gen {
			pr := &portrec{K: "port", Conf: "sw", Stage: cls, Logged: portDone[cls], Predicted: n, Unbound: unbound[cls], Why: unbWhy[cls],
				Port: map[string]int{"p123": ntp.ServerPortIP, "priv": privPort}[cls]}
			out.Emit(pr)
			pre++
		}
		unbMu.Unlock()
	}

	// per-stage totals of the case phase (exact only if no attempt timed out:
	// otherwise it is unknown what the listener did with the lost datagrams)
	if lost.Load() == 0 && len(graveyard) == 0 {
		time.Sleep(20 * time.Millisecond) // log lines of the last iterations
		for _, s := range []*srv{srvs["A"], srvsHw["A"]} {
			logged, pred := s.logs.snapshot(), s.pred.snapshot()
			keys := map[string]bool{}
			for k := range logged {
				keys[k] = true
			}
			for k := range pred {
				keys[k] = true
			}
			for k := range keys {
				if len(k) > 4 && k[:4] == "log:" {
					continue // not a stage of the pipeline (timestamping diagnostics etc.)
				}
				out.Emit(&srec{K: "stage", Conf: s.conf, Stage: k, Logged: logged[k], Predicted: pred[k]})
				pre++
			}
		}
	}

	npair, bad := 0, 0
	rng := vio.Rand()
	for i := range pairs {
		if bad >= 3 {
			break // run-away traffic already recorded; further deltas would be polluted by it
		}
		if lost.Load() > 0 {
			// some listener socket stopped answering well-formed requests (recorded
			// above); the servers' counters are no basis for the pair experiment then
			t.Logf("C09 pair experiment skipped: %d sentinels unanswered", lost.Load())
			break
		}
		r, err := runPair(i, &pairs[i], rng)
		if err != nil {
			t.Fatalf("pair experiment not possible here: %v", err)
		}
		if r.ARecv+r.BRecv > 2 {
			bad++
		}
		out.Emit(r)
		npair++
	}

	// cases with a store class. Each worker is a client of its own (its record
	// in the store is its own business); the classes that need a full store run
	// on one worker, after the store has been filled up with 2^20 fillers.
	if lost.Load() == 0 && len(storeA)+len(storeB) > 0 {
		installTrace()
		const sworkers = 8
		cls := make([]*client, sworkers)
		trs := make([]*tracker, sworkers)
		for w := range cls {
			cls[w] = &client{ip4: mk(byte(16 + w)), ip6: netip.MustParseAddr("fd00:1:2:3:4:5:6:" + strconv.FormatInt(int64(0x100+w), 16))}
			trs[w] = &tracker{}
			for _, id := range cls[w].ids() {
				tracked.Store(id, trs[w])
			}
		}
		phase(storeA, sworkers, 1, func(w int) (*client, *tracker) { return cls[w], trs[w] }, 6)
		if lost.Load() == 0 && len(storeB) > 0 {
			t0 := time.Now()
			// nobody of the run so far stays behind as an old item
			server.VerifReset(nil)
			topUp()
			t.Logf("C09 store filled up: %d fillers in %v", nFresh, time.Since(t0))
			// classes whose fillers are all fresh first: an old filler, once there, stays until evicted
			sort.SliceStable(storeB, func(i, j int) bool {
				return all[storeB[i]].Cls.Fill != "old" && all[storeB[j]].Cls.Fill == "old"
			})
			phase(storeB, 1, 1, func(w int) (*client, *tracker) { return cls[w], trs[w] }, 6)
		}
	}

	// how often the listeners found no receive timestamp next to a datagram
	if lost.Load() == 0 && len(graveyard) == 0 {
		time.Sleep(20 * time.Millisecond)
		for _, s := range []*srv{srvs["A"], srvsHw["A"]} {
			n := int(s.sent.Load())
			r := &ancrec{K: "anc", Conf: s.conf, Stage: "rxtimestamp", Logged: s.logs.snapshot()[msgNoRxTimestamp], Sent: n}
			if s.conf == "hw" {
				r.Predicted = n
			}
			out.Emit(r)
			pre++
		}
	}
	t.Logf("C09 records=%d cases=%d pairs=%d aborted=%d skipped=%d", pre+int(done.Load())+npair, done.Load(), npair, lost.Load(), skipped.Load())
}
