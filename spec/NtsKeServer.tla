---------------------------- MODULE NtsKeServer ----------------------------
(***************************************************************************)
(* X05 - the SERVER side of the NTS key exchange (RFC 8915 section 4):      *)
(*   core/server/ntske.go      newNTSKEMsg                                  *)
(*   core/server/ntske_ip.go   StartNTSKEServerIP, runNTSKEServerTLS,       *)
(*                             handleKeyExchangeTLS, writeNTSKEErrorMsgTLS  *)
(*   net/ntske                 ReadData, ExportKeys, cookies.go, provider.go*)
(* One action per step of the code.  Every accepted connection is handled   *)
(* by its own goroutine; the handlers share only the key provider (and the  *)
(* process-wide random source the cookie nonces come from).                 *)
(*                                                                         *)
(* The request is modelled at the level the code reads it: a stream of      *)
(* 16-bit words (every NTS-KE header field is one word; the bodies we send  *)
(* are whole words).  ReadData reads a header of two words (type, body      *)
(* length) and then                                                         *)
(*   - End of Message: returns at once (the declared body is NOT read),     *)
(*   - Next Protocol / AEAD / Port / Error: ONE word, whatever the header    *)
(*     declared (DEVIATION D1: a declared length other than 2 desynchronises*)
(*     the framing - the surplus body words are read as the next header),   *)
(*   - Cookie / Server / unknown non-critical: the declared number of bytes,*)
(*   - Warning (type 3) has no case: it is an UNKNOWN record (DEVIATION D2; *)
(*     critical -> error, non-critical -> swallowed),                       *)
(*   - unknown critical: error.                                             *)
(* DEVIATION D3: the server never looks at what was negotiated: data.Algo   *)
(* is stored and not used; the answer is NTPv4 / AEAD 15 whatever the       *)
(* client offered (even nothing at all: a lone End of Message is answered   *)
(* with eight cookies).                                                     *)
(* DEVIATION D4: there is no read deadline: a silent client occupies its    *)
(* handler goroutine for ever (it does not block other clients).            *)
(* Not modelled: EncryptWithNonce / Pack failing (errNoCookie, error code   *)
(* 2): crypto/rand does not fail and the provider's keys have the right     *)
(* length, so these branches are unreachable from outside.                  *)
(*                                                                         *)
(* Reduction: a client sends its next piece only when the reader cannot     *)
(* make progress with what it has (the reader's result depends on the byte  *)
(* stream only, not on how it is cut into segments); what matters is the    *)
(* interleaving ACROSS connections (provider, nonces, stalls).              *)
(***************************************************************************)
EXTENDS Integers, Sequences, FiniteSets, TLC

CONSTANTS Conn,      \* connection identities (also the symbolic TLS session secret)
          MaxLen,    \* records a client sends at most
          MaxIll,    \* records with a declared length that is not the natural one (all connections)
          MaxRot,    \* provider rotations
          Kinds,     \* record alphabet of the clients
          Cuts,      \* where a client may truncate: subset of {"hdr", "body"}
          Ends,      \* how a client may end its stream: subset of {"half", "fin", "closed"}
          NCk,       \* cookies per response (8 in the code)
          Fault      \* "none" or the name of a seeded fault (fault variants only)

AllKinds == {"np", "a15", "aX", "ck", "srv", "port", "warn", "e0", "e1", "e2", "eX", "uc", "un", "eom"}
ASSUME Kinds \subseteq AllKinds

CRIT == 32768
NtpPort == 123         \* model value of the localPort given to StartNTSKEServerIP
KePort == 4460

\* wire image (words) of a record; ill = the declared length is not the natural one:
\* fixed-size kinds declare 4 and carry the value plus one surplus word that looks like
\* the type field of a critical End of Message; eom declares a body of 2 bytes
Words(k, ill) ==
  CASE k = "np"   -> IF ill THEN <<CRIT + 1, 4, 0, CRIT>> ELSE <<CRIT + 1, 2, 0>>
    [] k = "a15"  -> IF ill THEN <<CRIT + 4, 4, 15, CRIT>> ELSE <<CRIT + 4, 2, 15>>
    [] k = "aX"   -> IF ill THEN <<CRIT + 4, 4, 17, CRIT>> ELSE <<CRIT + 4, 2, 17>>
    [] k = "port" -> IF ill THEN <<7, 4, 123, CRIT>> ELSE <<7, 2, 123>>
    [] k = "ck"   -> <<5, 4, 7, 7>>
    [] k = "srv"  -> <<6, 4, 7, 7>>
    [] k = "warn" -> <<CRIT + 3, 2, 0>>
    [] k = "e0"   -> <<CRIT + 2, 2, 0>>
    [] k = "e1"   -> <<CRIT + 2, 2, 1>>
    [] k = "e2"   -> <<CRIT + 2, 2, 2>>
    [] k = "eX"   -> <<CRIT + 2, 2, 9>>
    [] k = "uc"   -> <<CRIT + 99, 2, 7>>
    [] k = "un"   -> <<99, 2, 7>>
    [] k = "eom"  -> IF ill THEN <<CRIT, 2, 7>> ELSE <<CRIT, 0>>
CanIll(k) == k \in {"np", "a15", "aX", "port", "eom"}

VARIABLES
  cst,     \* client side of c: "idle", "dialed", "open", "half", "fin", "closed"
  nsent,   \* records sent
  acc,     \* reference acceptor (record level, RFC framing): "going", "good", "bad", "ill"
  buf,     \* words delivered to the server and not yet consumed by ReadData
  pc,      \* handler: "none", "accepted", "reading", "readok", "readfail", "exported",
           \*          "built", "replied", "errored", "closed"
  keys,    \* data.C2sKey / data.S2cKey of the handler
  msg,     \* the ExchangeMsg built by newNTSKEMsg
  wrote,   \* messages written to the connection (what the client can read)
  kwin,    \* provider keys that were current between accept and write of c
  cur,     \* provider: id of the current key
  nonce,   \* random source: nonces drawn so far
  shared,  \* (fault "shared" only) plaintext cookie kept in a package variable
  nill     \* ill-framed records sent so far

vars == <<cst, nsent, acc, buf, pc, keys, msg, wrote, kwin, cur, nonce, shared, nill>>

NoKeys == [c2s |-> <<"none", 0>>, s2c |-> <<"none", 0>>]
\* what BOTH ends export from the TLS session of connection c (RFC 8915 section 5.1)
KeysOf(c) == [c2s |-> <<"c2s", c>>, s2c |-> <<"s2c", c>>]

Init ==
  /\ cst = [c \in Conn |-> "idle"] /\ nsent = [c \in Conn |-> 0]
  /\ acc = [c \in Conn |-> "going"] /\ buf = [c \in Conn |-> << >>]
  /\ pc = [c \in Conn |-> "none"] /\ keys = [c \in Conn |-> NoKeys]
  /\ msg = [c \in Conn |-> << >>] /\ wrote = [c \in Conn |-> << >>]
  /\ kwin = [c \in Conn |-> {}] /\ cur = 1 /\ nonce = 0 /\ shared = NoKeys /\ nill = 0

\* ------------------------------------------------------------ the reader
Drop(s, n) == SubSeq(s, n + 1, Len(s))
BodyWords(len) == (len + 1) \div 2
Type(b) == b[1] % CRIT
\* words the next step of ReadData needs (header included)
Need(b) ==
  IF Len(b) < 2 THEN 2
  ELSE LET t == Type(b) IN
       IF t = 0 THEN 2
       ELSE IF t \in {1, 2, 4, 7} THEN 3
       ELSE IF t \in {5, 6} THEN 2 + BodyWords(b[2])
       ELSE IF b[1] >= CRIT THEN 2 ELSE 2 + BodyWords(b[2])
CanRead(c) == Len(buf[c]) >= Need(buf[c])
\* result of that step: "more" (loop), "ok" (End of Message), "fail"
Step(b) ==
  LET t == Type(b) IN
  IF t = 0 THEN "ok"
  ELSE IF t = 2 THEN "fail"
  ELSE IF t \in {1, 4, 5, 6, 7} THEN "more"
  ELSE IF b[1] >= CRIT THEN "fail" ELSE "more"

\* ------------------------------------------------------------ clients
Active(c) == pc[c] \in {"accepted", "reading", "readok", "readfail", "exported", "built"}
Waiting(c) == cst[c] = "open" /\ pc[c] = "reading" /\ ~CanRead(c)

Dial(c) ==
  /\ cst[c] = "idle"
  /\ cst' = [cst EXCEPT ![c] = "dialed"]
  /\ UNCHANGED <<nsent, acc, buf, pc, keys, msg, wrote, kwin, cur, nonce, shared, nill>>

AccNext(a, k, ill) ==
  IF a # "going" THEN a
  ELSE IF ill THEN "ill"
  ELSE IF k \in {"e0", "e1", "e2", "eX", "uc", "warn"} THEN "bad"
  ELSE IF k = "eom" THEN "good" ELSE "going"

ClientSend(c, k, ill) ==
  /\ Waiting(c) /\ nsent[c] < MaxLen
  /\ (ill => (CanIll(k) /\ nill < MaxIll))
  /\ buf' = [buf EXCEPT ![c] = @ \o Words(k, ill)]
  /\ nsent' = [nsent EXCEPT ![c] = @ + 1]
  /\ acc' = [acc EXCEPT ![c] = AccNext(@, k, ill)]
  /\ nill' = IF ill THEN nill + 1 ELSE nill
  /\ UNCHANGED <<cst, pc, keys, msg, wrote, kwin, cur, nonce, shared>>

\* part of a record, then end of stream (TLS close_notify): "hdr" = first word only,
\* "body" = everything but the last word
ClientCut(c, k, at) ==
  /\ Waiting(c) /\ nsent[c] < MaxLen /\ at \in Cuts
  /\ (at = "body" => Len(Words(k, FALSE)) >= 3)
  /\ buf' = [buf EXCEPT ![c] = @ \o (IF at = "hdr" THEN <<Words(k, FALSE)[1]>>
                                        ELSE SubSeq(Words(k, FALSE), 1, Len(Words(k, FALSE)) - 1))]
  /\ nsent' = [nsent EXCEPT ![c] = @ + 1]
  /\ acc' = [acc EXCEPT ![c] = IF @ = "going" THEN "bad" ELSE @]
  /\ cst' = [cst EXCEPT ![c] = "half"]
  /\ UNCHANGED <<pc, keys, msg, wrote, kwin, cur, nonce, shared, nill>>

\* end of stream at a record boundary: "half" = close_notify, reading side kept open;
\* "fin" = TCP FIN without close_notify (what the server sees of a client that goes
\* away), reading side kept open; "closed" = the client closes the connection
ClientEnd(c, e) ==
  /\ Waiting(c) /\ e \in Ends
  /\ cst' = [cst EXCEPT ![c] = e]
  /\ acc' = [acc EXCEPT ![c] = IF @ = "going" THEN "bad" ELSE @]
  /\ UNCHANGED <<nsent, buf, pc, keys, msg, wrote, kwin, cur, nonce, shared, nill>>

\* ------------------------------------------------------------ the server
\* runNTSKEServerTLS: l.Accept, go handleKeyExchangeTLS
AcceptGuard(c) ==
  /\ cst[c] = "dialed" /\ pc[c] = "none"
  /\ (Fault = "seq" => \A d \in Conn : pc[d] \in {"none", "closed"})
Accept(c) ==
  /\ AcceptGuard(c)
  /\ pc' = [pc EXCEPT ![c] = "accepted"]
  /\ kwin' = [kwin EXCEPT ![c] = {cur}]
  /\ UNCHANGED <<cst, nsent, acc, buf, keys, msg, wrote, cur, nonce, shared, nill>>

\* the first Read of the handler runs the TLS handshake
Handshake(c) ==
  /\ pc[c] = "accepted"
  /\ pc' = [pc EXCEPT ![c] = "reading"]
  /\ cst' = [cst EXCEPT ![c] = "open"]
  /\ UNCHANGED <<nsent, acc, buf, keys, msg, wrote, kwin, cur, nonce, shared, nill>>

\* one iteration of the loop of ReadData
ReadRecord(c) ==
  /\ pc[c] = "reading" /\ CanRead(c)
  /\ LET b == buf[c] r == Step(b) IN
     /\ buf' = [buf EXCEPT ![c] = Drop(b, Need(b))]
     /\ pc' = [pc EXCEPT ![c] = CASE r = "ok" -> "readok" [] r = "fail" -> "readfail" [] OTHER -> "reading"]
  /\ UNCHANGED <<cst, nsent, acc, keys, msg, wrote, kwin, cur, nonce, shared, nill>>

\* the stream ends before the words the reader needs (io.EOF / io.ErrUnexpectedEOF)
ReadFail(c) ==
  /\ pc[c] = "reading" /\ ~CanRead(c) /\ cst[c] \in {"half", "fin", "closed"}
  /\ pc' = [pc EXCEPT ![c] = "readfail"]
  /\ UNCHANGED <<cst, nsent, acc, buf, keys, msg, wrote, kwin, cur, nonce, shared, nill>>

ErrMsg(code) == <<[t |-> "err", v |-> code]>>
WriteError(c) ==
  /\ pc[c] = "readfail"
  /\ wrote' = [wrote EXCEPT ![c] = Append(@, ErrMsg(IF Fault = "code2" THEN 2 ELSE 1))]
  /\ pc' = [pc EXCEPT ![c] = IF Fault = "after" THEN "readok" ELSE "errored"]
  /\ UNCHANGED <<cst, nsent, acc, buf, keys, msg, kwin, cur, nonce, shared, nill>>

\* ExportKeys(conn.ConnectionState(), &data)
Export(c) ==
  /\ pc[c] = "readok"
  /\ keys' = [keys EXCEPT ![c] = IF Fault = "swap" THEN [c2s |-> KeysOf(c).s2c, s2c |-> KeysOf(c).c2s] ELSE KeysOf(c)]
  /\ shared' = IF Fault = "shared" THEN KeysOf(c) ELSE shared
  /\ pc' = [pc EXCEPT ![c] = "exported"]
  /\ UNCHANGED <<cst, nsent, acc, buf, msg, wrote, kwin, cur, nonce, nill>>

\* newNTSKEMsg: key := provider.Current(); 8 x EncryptWithNonce (fresh 16 random bytes each)
Cookie(k, n, pt) == [t |-> "ck", key |-> k, nonce |-> n, algo |-> 15, c2s |-> pt.c2s, s2c |-> pt.s2c]
Build(c) ==
  /\ pc[c] = "exported"
  /\ LET k  == IF Fault = "stale" THEN 1 ELSE cur
         pt == IF Fault = "shared" THEN shared ELSE keys[c]
         ck == [i \in 1 .. NCk |-> Cookie(k, IF Fault = "nonce" THEN nonce + 1 ELSE nonce + i, pt)] IN
     msg' = [msg EXCEPT ![c] = <<[t |-> "np", v |-> 0], [t |-> "aead", v |-> 15],
                                 [t |-> "srv", v |-> "local"],
                                 [t |-> "port", v |-> IF Fault = "port" THEN KePort ELSE NtpPort]>>
                               \o ck \o <<[t |-> "eom"]>>]
  /\ nonce' = nonce + NCk
  /\ pc' = [pc EXCEPT ![c] = "built"]
  /\ UNCHANGED <<cst, nsent, acc, buf, keys, wrote, kwin, cur, shared, nill>>

Write(c) ==
  /\ pc[c] = "built"
  /\ wrote' = [wrote EXCEPT ![c] = Append(@, msg[c])]
  /\ pc' = [pc EXCEPT ![c] = "replied"]
  /\ UNCHANGED <<cst, nsent, acc, buf, keys, msg, kwin, cur, nonce, shared, nill>>

\* defer conn.Close()
Close(c) ==
  /\ pc[c] \in {"replied", "errored"}
  /\ pc' = [pc EXCEPT ![c] = "closed"]
  /\ UNCHANGED <<cst, nsent, acc, buf, keys, msg, wrote, kwin, cur, nonce, shared, nill>>

\* provider.Current() hands out a newer key from now on (keyRenewalInterval passed; the
\* NTP server shares the provider and may be the one that triggers it)
Rotate ==
  /\ cur < 1 + MaxRot
  /\ cur' = cur + 1
  /\ kwin' = [c \in Conn |-> IF Active(c) THEN kwin[c] \cup {cur + 1} ELSE kwin[c]]
  /\ UNCHANGED <<cst, nsent, acc, buf, pc, keys, msg, wrote, nonce, shared, nill>>

ClientStep(c) ==
  \/ Dial(c)
  \/ \E k \in Kinds, ill \in BOOLEAN : ClientSend(c, k, ill)
  \/ \E k \in Kinds, at \in Cuts : ClientCut(c, k, at)
  \/ \E e \in Ends : ClientEnd(c, e)
ServerStep(c) ==
  \/ Accept(c) \/ Handshake(c) \/ ReadRecord(c) \/ ReadFail(c) \/ WriteError(c)
  \/ Export(c) \/ Build(c) \/ Write(c) \/ Close(c)
Next == (\E c \in Conn : ClientStep(c) \/ ServerStep(c)) \/ Rotate
Spec == Init /\ [][Next]_vars /\ \A c \in Conn : WF_vars(ServerStep(c))

(***************************************************************************)
(* PROPERTY SECTION (ours; stated on what a client can observe)             *)
(***************************************************************************)
IsErr(m) == Len(m) = 1 /\ m[1].t = "err"
IsSuccess(m) == Len(m) >= 1 /\ m[Len(m)].t = "eom" /\ ~IsErr(m)
CookiesOf(m) == {i \in 1 .. Len(m) : m[i].t = "ck"}

\* at most one message per connection
OneMessage == \A c \in Conn : Len(wrote[c]) <= 1

\* Error(1) iff the request is not accepted; success iff it is; an error message carries
\* no cookie (requests with a wrong declared length - D1 - are not judged)
ErrorIffBad ==
  \A c \in Conn : (wrote[c] # << >> /\ acc[c] # "ill") =>
     LET m == wrote[c][1] IN
     /\ IsErr(m) <=> acc[c] = "bad"
     /\ IsErr(m) => (m[1].v = 1 /\ CookiesOf(m) = {})
     /\ IsSuccess(m) <=> acc[c] = "good"
\* nothing is written while the request is still incomplete
NoEarlyAnswer == \A c \in Conn : acc[c] = "going" => wrote[c] = << >>

ResponseShape ==
  \A c \in Conn : \A j \in 1 .. Len(wrote[c]) :
     LET m == wrote[c][j] IN
     ~IsErr(m) =>
       /\ Len(m) >= 6 /\ Len(m) <= 13
       /\ m[1] = [t |-> "np", v |-> 0] /\ m[2] = [t |-> "aead", v |-> 15]
       /\ m[3] = [t |-> "srv", v |-> "local"] /\ m[4] = [t |-> "port", v |-> NtpPort]
       /\ \A i \in 5 .. Len(m) - 1 : m[i].t = "ck"
       /\ m[Len(m)].t = "eom"

CookiesSealSession ==
  \A c \in Conn : \A j \in 1 .. Len(wrote[c]) : \A i \in CookiesOf(wrote[c][j]) :
     LET k == wrote[c][j][i] IN
     /\ k.key \in 1 .. cur /\ k.algo = 15
     /\ k.c2s = KeysOf(c).c2s /\ k.s2c = KeysOf(c).s2c

AllCookies == UNION {{<<c, j, i>> : i \in CookiesOf(wrote[c][j])} : <<c, j>> \in {x \in Conn \X (1 .. 2) : x[2] <= Len(wrote[x[1]])}}
CookiesDistinct ==
  \A x, y \in AllCookies : x # y => wrote[x[1]][x[2]][x[3]] # wrote[y[1]][y[2]][y[3]]

KeyCurrent ==
  \A c \in Conn : \A j \in 1 .. Len(wrote[c]) : \A i \in CookiesOf(wrote[c][j]) :
     wrote[c][j][i].key \in kwin[c]

\* the accept loop is never held up by another connection's handler ...
StillServingSafe == \A c \in Conn : (cst[c] = "dialed" /\ pc[c] = "none") => ENABLED Accept(c)
\* ... so a complete request is answered whatever the other clients do (or do not do)
StillServing ==
  /\ \A c \in Conn : (cst[c] = "dialed") ~> (pc[c] # "none")
  /\ \A c \in Conn : (acc[c] = "good") ~> (Len(wrote[c]) >= 1 /\ IsSuccess(wrote[c][1]))
\* and the connection is closed after the message
ThenCloses == \A c \in Conn : (wrote[c] # << >>) ~> (pc[c] = "closed")

TypeOK ==
  /\ \A c \in Conn : Len(buf[c]) <= 12 /\ Len(wrote[c]) <= 2
  /\ cur \in 1 .. 1 + MaxRot
=============================================================================
