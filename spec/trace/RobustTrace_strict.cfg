SPECIFICATION TSpec
INVARIANTS SExplained
