--------------------------- MODULE MultipathTrace ---------------------------
(***************************************************************************)
(* Validation of what the real MeasureClockOffsetSCION / crypto.Sample /   *)
(* crypto.RandIntn did (harness/c15) against Multipath.tla.                *)
(* Records are independent (one per round / call); positions are visited   *)
(* as a 16-ary tree so that TLC's workers share them.  A "uniformity       *)
(* group" is a run of consecutive records (gpos = 1..glen, same gid) in    *)
(* which the scripted random words range over ALL tuples of (0..L-1)^D, L  *)
(* a multiple of every modulus a correct sampler can use; it is judged at  *)
(* its first record.                                                       *)
(* A round record with src = "pather" is one of several rounds that drew   *)
(* their paths from the table of one real scion.Pather (sid: the           *)
(* behaviour, rnd: its number there, since: rounds since the last refresh  *)
(* of the table); its `offered` is what the scripted daemon answered at    *)
(* that refresh, so the clauses below judge such a round against the       *)
(* table-level offer, whatever earlier rounds did with their slices.       *)
(*   monitor (MultipathTrace_mon):    the property section of C15          *)
(*   strict  (MultipathTrace_strict): the record is what Multipath.tla     *)
(*                                    computes for the scripted words      *)
(***************************************************************************)
EXTENDS Integers, Sequences, FiniteSets, TLC, Json

VARIABLE l

M == INSTANCE Multipath WITH
       MaxClients <- 0, MaxPaths <- 0, ThetaVecs <- {}, AllCompletions <- FALSE, FW <- 8,
       MaxRounds <- 1, MaxRefresh <- 1, PrivateSlice <- TRUE, KeepHist <- FALSE,
       table <- << >>, round <- 1, nref <- 1, hist <- << >>,
       pc <- "done", offered <- << >>, theta <- << >>, nc <- 0, mode0 <- << >>, mode <- << >>,
       ps <- << >>, sps <- << >>, nsps <- 0, ci <- 0, k <- 0, rng <- << >>, picks <- << >>,
       resets <- << >>, fresets <- << >>, launched <- {}, outcome <- << >>, order <- << >>,
       ms <- << >>, cancelled <- FALSE, ret <- [err |-> "none", off |-> 0]

Trace == ndJsonDeserialize("trace.ndjson")
N == Len(Trace)

TInit == l = 0
TNext == \E j \in 1 .. 16 : l' = 16 * l + j /\ l' <= N
TSpec == TInit /\ [][TNext]_l

R == Trace[l]
IsRound  == l > 0 /\ R.kind = "round"
IsSample == l > 0 /\ R.kind = "sample"
IsWord   == l > 0 /\ R.kind = "word"
Range(f) == {f[x] : x \in DOMAIN f}
Cl(r) == 1 .. r.nc

\* a client counts as reset when the first request it put on the wire was a
\* basic one, or - if it sent nothing - when no exchange is on record afterwards
Rst(r) == [c \in Cl(r) |-> IF r.asg[c] # 0 THEN r.first_basic[c] ELSE r.after_empty[c]]
KeptSet(r) == {c \in Cl(r) : M!Kept(r.offered, r.mode, r.asg, c)}

\* ------------------------------------------------------------- monitor
RDistinct == IsRound =>
  \A c, d \in Cl(R) : c # d => Range(R.probed[c]) \cap Range(R.probed[d]) = {}
RStickyKept   == IsRound => M!StickyKeptP(R.offered, R.mode, R.asg)
RElseReset    == IsRound => M!ElseResetP(R.offered, R.mode, R.asg, Rst(R), R.freset)
RParticipants == IsRound => M!ParticipantsP(R.offered, R.mode, R.asg)
\* one value per participating client: the value its measurement produced
\* (observed at the client's filter), zero if it produced none
RFtm == (IsRound /\ R.judged) =>
  /\ R.raw_ok
  /\ M!Part(R.asg) # {} => R.ret_near
  /\ M!FtmP(R.meas, [c \in Cl(R) |-> IF R.asg[c] # 0 THEN c ELSE 0], {c \in Cl(R) : R.okc[c]},
            [err |-> R.err, off |-> R.ret])
RNoPathError == IsRound => (Len(R.offered) = 0 => R.err \in {"nopath", "other"})
RWordRange   == IsWord => R.res \in 0 .. (R.n - 1)

\* uniformity groups
Binom(n, kk) == M!Fact(n) \div (M!Fact(kk) * M!Fact(n - kk))
RECURSIVE Pow(_, _)
Pow(b, e) == IF e = 0 THEN 1 ELSE b * Pow(b, e - 1)
Grp == l .. (l + R.glen - 1)
\* the scripted words of the group are every tuple of (0..L-1)^D exactly once
\* and no call read past them
GroupComplete ==
  /\ l + R.glen - 1 <= N
  /\ R.glen = Pow(R.L, R.D)
  /\ \A i \in Grp : /\ Trace[i].kind = R.kind /\ Trace[i].gid = R.gid /\ Trace[i].gpos = i - l + 1
                    /\ Trace[i].nread >= 0 /\ Trace[i].nread <= R.D
                    /\ Len(Trace[i].v) = R.D /\ \A x \in 1 .. R.D : Trace[i].v[x] \in 0 .. (R.L - 1)
  /\ Cardinality({Trace[i].v : i \in Grp}) = R.glen
EqualCounts(cand, kk, chosen(_)) ==
  \A S \in M!KSubsets(cand, kk) :
    Cardinality({i \in Grp : chosen(i) = S}) * Binom(Cardinality(cand), kk) = R.glen
\* the clients without a kept path receive a uniformly drawn subset of the
\* paths the keeping clients left over
RUniformRounds == (IsRound /\ R.gpos = 1 /\ R.glen > 0) =>
  LET same == \A i \in Grp : /\ Trace[i].nc = R.nc /\ Trace[i].offered = R.offered /\ Trace[i].mode = R.mode
                             /\ KeptSet(Trace[i]) = KeptSet(R)
                             /\ \A c \in KeptSet(R) : Trace[i].asg[c] = R.asg[c]
      cand == DOMAIN R.offered \ {R.asg[c] : c \in KeptSet(R)}
      kk == M!Min2(R.nc - Cardinality(KeptSet(R)), Cardinality(cand))
      chosen(i) == {Trace[i].asg[c] : c \in Cl(R) \ KeptSet(R)} \ {0}
  IN (GroupComplete /\ same) => EqualCounts(cand, kk, chosen)
RUniformSample == (IsSample /\ R.gpos = 1 /\ R.glen > 0) =>
  LET kk == M!Min2(R.k, R.n)
      chosen(i) == Range(SubSeq(Trace[i].res, 1, Trace[i].kret))
  IN (GroupComplete /\ \A i \in Grp : Trace[i].k = R.k /\ Trace[i].n = R.n /\ Trace[i].errnil)
       => EqualCounts(1 .. R.n, kk, chosen)

\* -------------------------------------------------------------- strict
\* RandIntn results the specification's Sample(kk, n) obtains from the word residues v
RngOf(v, kk, n) ==
  [d \in 1 .. (n - kk) |-> IF kk + d < 2 THEN 0 ELSE v[IF kk = 0 THEN d - 1 ELSE d] % (kk + d)]
RECURSIVE PicksOf(_, _, _)
PicksOf(kk, r, d) ==
  IF d > Len(r) THEN << >>
  ELSE (IF r[d] < kk THEN << <<r[d], kk + d - 1>> >> ELSE << >>) \o PicksOf(kk, r, d + 1)

\* the table the round drew from was filled from the answer Multipath.tla's Refresh/PathsDone installed
SOffered == IsRound => (R.offered = R.exp_offered /\ (R.src = "pather" => R.nans = R.nref))
SAssign == IsRound => (R.asg = R.exp_asg /\ \A c \in Cl(R) : Len(R.probed[c]) <= 1)
SResets == IsRound => \A c \in Cl(R) :
  /\ R.freset[c] = R.exp_resets[c]
  /\ R.fr_empty[c]
  /\ Rst(R)[c] = (R.exp_resets[c] = 1)
  /\ R.stray = 0
SRet == (IsRound /\ R.judged) =>
  /\ R.err = R.exp_err
  /\ (R.exp_off > -900) => (R.ret = R.exp_off)
  /\ \A c \in Cl(R) : /\ R.okc[c] = (R.asg[c] # 0 /\ R.scripted[c] = 0)
                      /\ R.okc[c] => R.meas[c] = R.theta[R.asg[c]]
SWordsRead == (IsRound \/ IsSample) => R.nread = R.D
SGroups == ((IsRound \/ IsSample) /\ R.gpos = 1 /\ R.glen > 0) => GroupComplete
SSample == IsSample =>
  LET kk == M!SampleK(R.k, R.n)
      r == RngOf(R.v, kk, R.n)
      id == [p \in 1 .. R.n |-> p]
  IN /\ R.errnil /\ R.kret = kk
     /\ R.res = M!SampleRun(id, kk, kk, r)
     /\ R.picks = [i \in 1 .. kk |-> <<i - 1, i - 1>>] \o PicksOf(kk, r, 1)
SWord == IsWord =>
  /\ R.raw_ok
  /\ R.small =>
       IF R.n < 2 THEN R.limbs = << >> /\ R.res = 0
       ELSE /\ Len(R.limbs) >= 1
            /\ \A i \in 1 .. Len(R.limbs) :
                 M!LimbAccepts(16, R.n, R.limbs[i][1], R.limbs[i][2]) = (i = Len(R.limbs))
            /\ R.res = M!LimbResult(16, R.n, R.limbs[Len(R.limbs)][1], R.limbs[Len(R.limbs)][2])
=============================================================================
