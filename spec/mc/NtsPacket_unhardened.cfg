SPECIFICATION Spec
CONSTANTS
  MaxNf = 3
  Roles <- RolesAll
  PlaceholderTypedAsCookie = FALSE
  UidChecked = TRUE
  AdWhole = TRUE
  Hardened = FALSE
  StopAtAuth = TRUE
  CtLenExact = TRUE
  LenChoices <- LenChoicesExh
  TruncMax = 4
INVARIANTS TypeOK Sound Complete CookieBinding AuthenticOnly
