--------------------------- MODULE KeyProviderMC ---------------------------
(***************************************************************************)
(* Model-checking wrapper for KeyProvider.tla.                             *)
(*   SpecExh : the specification as is (no history sequence); the property *)
(*             section is decided exhaustively within Horizon.             *)
(*   SpecDeep: the same with finer time units; instead of fingerprinting    *)
(*             the latest issue of every key, one issue (any one, chosen   *)
(*             nondeterministically) is tracked and CookieLifetime is      *)
(*             checked for it - complete, because a violation involves one *)
(*             issue and one look-up.                                      *)
(*   SpecGenCookie: cookie walks (Advance / Current+seal / Open) for every  *)
(*             class of the randomness source (KeyProvider_gencookie.cfg).  *)
(*   SpecGen : the same transition relation with the sequence of events    *)
(*             recorded in `hist`; Emit prints every behaviour of GenLen   *)
(*             events (exhaustive enumeration, or `-simulate`) with the    *)
(*             specification's results; the Go driver replays them on the  *)
(*             real Provider.                                              *)
(***************************************************************************)
EXTENDS KeyProvider, Sequences, Json

CONSTANTS GenLen      \* number of events per emitted behaviour
VARIABLES hist,     \* sequence of events (generator configurations only)
          tracked,  \* << >> or id :> [t, nb, na, val]: one issue followed by SpecDeep
          pick      \* weight of Current() among the random successors of SpecSim (else 0)

allvars == <<now, keys, currentID, generatedAt, ret, issued, seen, cookies, draw, hist, tracked, pick>>

MCInit == Init /\ hist = << >> /\ tracked = << >> /\ pick = 0
SpecExh == MCInit /\ [][Next /\ UNCHANGED <<hist, tracked, pick>>]_allvars

\* a Current() may be the tracked issue, once
Track == \/ UNCHANGED tracked
         \/ /\ tracked = << >> /\ ret'.op = "cur"
            /\ tracked' = IssuedAfter(<< >>, ret')
\* (only presentations of the tracked cookie are judged, and `cookies` is not
\* part of ViewDeep: the other cookies are not presented here)
DeepNext == \/ \E d \in Gaps : Advance(d)
            \/ Current
            \/ \E id \in ProbeIds : Get(id)
            \/ \E j \in DOMAIN tracked : Open(CookieId(j))
SpecDeep == MCInit /\ [][DeepNext /\ Track /\ UNCHANGED <<hist, pick>>]_allvars
TrackedLifetime  == /\ CookieLifetimeFor(ret, tracked)
                    /\ CookieUsableFor(ret, [c \in {CookieId(j) : j \in DOMAIN tracked} |->
                                               tracked[CHOOSE j \in DOMAIN tracked : CookieId(j) = c]])
ATrackedLifetime == [][TrackedLifetime']_allvars

\* VIEW for the exhaustive configurations.  History entries that can no longer
\* oblige or forbid anything (issued more than 2 days ago and generated more
\* than 3 days ago - the property's own figures, not the code's constants) are
\* dropped from the fingerprint.  This is sound: the property section is still
\* evaluated on the full state entered by every transition; two states with
\* the same view have the same implementation state and the same history of
\* every key inside those windows, and an entry outside them can make a later
\* state fail only through a Get that answers with a key older than 3 days
\* (that same state fails GetOnlyValid) or through a new key that reuses an old
\* identifier (excluded by HistBelow and IdsIncreasing).
Live(t, nb) == t + 2 * Day >= now \/ nb + 3 * Day >= now
\* (`draw` is left out of both views: no action and no clause of KeyProvider.tla
\* reads it - the specification's provider does not depend on the leading bytes
\* of its randomness - so the four initial states have identical futures)
ViewExh == <<now, keys, currentID, generatedAt,
             [i \in {j \in DOMAIN issued : Live(issued[j].t, issued[j].nb)} |-> issued[i]],
             [i \in {j \in DOMAIN cookies : Live(cookies[j].t, cookies[j].nb)} |-> cookies[i]],
             {k \in seen : Live(k.nb, k.nb)}>>
\* (a tracked issue that left its windows is "spent": unlike << >> it cannot be
\* replaced by a later issue, so the two must not share a fingerprint)
ViewDeep == <<now, keys, currentID, generatedAt,
              IF \A j \in DOMAIN tracked : Live(tracked[j].t, tracked[j].nb) THEN tracked ELSE <<"spent">>,
              {k \in seen : Live(k.nb, k.nb)}>>
HistBelow == (\A k \in seen : k.id <= currentID) /\ (\A i \in DOMAIN issued : i <= currentID)
             /\ (\A c \in DOMAIN cookies : c <= currentID)

ACurrentValid   == [][CurrentValid']_allvars
ACurrentFresh   == [][CurrentFresh']_allvars
AGetOnlyValid   == [][GetOnlyValid']_allvars
AIdsUnique      == [][IdsUnique']_allvars
ACookieLifetime == [][CookieLifetime']_allvars
ACookieUsable   == [][CookieUsable']_allvars

\* one recorded event: a clock step [op "adv", d, t] or the returned value
AdvEv == [op |-> "adv", arg |-> now' - now, t |-> now', ok |-> TRUE, id |-> 0, nb |-> 0, na |-> 0, val |-> 0, cid |-> 0]
\* generator normal form: never two clock steps in a row (they merge into one)
LastIsAdv == Len(hist) > 0 /\ hist[Len(hist)].op = "adv"
GenNext ==
  /\ Len(hist) < GenLen
  /\ \/ ~LastIsAdv /\ (\E d \in Gaps : Advance(d)) /\ hist' = Append(hist, AdvEv)
     \/ Current /\ hist' = Append(hist, ret')
     \/ (\E id \in ProbeIds : Get(id)) /\ hist' = Append(hist, ret')
SpecGen == MCInit /\ draw = "real" /\ [][GenNext /\ UNCHANGED <<tracked, pick>>]_allvars
\* the cookie walk: every behaviour of GenLen events over clock steps, issues
\* (Current + seal) and presentations of the cookies held, for every class of
\* the randomness source
GenCookieNext ==
  /\ Len(hist) < GenLen
  /\ \/ ~LastIsAdv /\ (\E d \in Gaps : Advance(d)) /\ hist' = Append(hist, AdvEv)
     \/ Current /\ hist' = Append(hist, ret')
     \/ (\E c \in DOMAIN cookies : Open(c)) /\ hist' = Append(hist, ret')
SpecGenCookie == MCInit /\ [][GenCookieNext /\ UNCHANGED <<tracked, pick>>]_allvars
\* (a cookie walk ends with a presentation)
EmitCookie == (Len(hist) = GenLen /\ hist[GenLen].op = "open") =>
          PrintT(<<"CASE", ToJson([day |-> Day, draw |-> draw, h |-> hist])>>)
\* behaviours end with a call (a trailing clock step observes nothing)
Emit == (Len(hist) = GenLen /\ ~LastIsAdv) =>
          PrintT(<<"CASE", ToJson([day |-> Day, draw |-> draw, h |-> hist])>>)

\* `tlc -simulate` picks uniformly among the successor states: Current() is
\* given the weight SimW, look-ups are limited to the newest identifiers, 0 and
\* the next one, so that long random behaviours rotate and retire keys.
SimW == 6
SimIds == {i \in ProbeIds : i = 0 \/ i + 4 > currentID}
\* (the simulator evaluates the "invariant" on every candidate successor, so a
\* behaviour is printed by a final step that has exactly one successor)
SimDone == 99
SimNext ==
  \/ /\ Len(hist) < GenLen
     /\ \/ ~LastIsAdv /\ (\E d \in Gaps : Advance(d)) /\ hist' = Append(hist, AdvEv) /\ pick' = 0
        \/ Current /\ hist' = Append(hist, ret') /\ pick' \in 1 .. SimW
        \/ (\E id \in SimIds : Get(id)) /\ hist' = Append(hist, ret') /\ pick' = 0
        \/ (\E c \in SimIds \cap DOMAIN cookies : Open(c)) /\ hist' = Append(hist, ret') /\ pick' = 0
  \/ /\ Len(hist) = GenLen /\ pick # SimDone /\ pick' = SimDone
     /\ UNCHANGED <<now, keys, currentID, generatedAt, ret, issued, seen, cookies, draw, hist>>
SpecSim == MCInit /\ [][SimNext /\ UNCHANGED tracked]_allvars
EmitSim == pick = SimDone => PrintT(<<"CASE", ToJson([day |-> Day, draw |-> draw, h |-> hist])>>)

\* ---- constant sets (cfg files cannot hold expressions)
GapsExh  == 1 .. 20                                  \* 6 h .. 5 days in 6-hour units
GapsDeep == (1 .. 17) \cup {23, 24, 25, 32, 40}      \* 3-hour units: 3 h .. 51 h, 3 d +- 3 h, 4 d, 5 d
GapsHour == {23, 24, 25, 47, 48, 49, 71, 72, 73, 120} \* hours around the 1/2/3-day marks, 5 d
GapsGen  == {1, 4, 5, 8, 12, 13}                     \* 6 h, 24 h, 30 h, 48 h, 72 h, 78 h
GapsSim  == {1, 2, 3, 4, 5, 7, 8, 9, 11, 12, 13, 16, 20}
GapsSimDeep == {1, 5, 12, 23, 24, 25, 30, 47, 48, 49, 60, 71, 72, 73, 96, 120}
=============================================================================
