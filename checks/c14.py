"""C14 - wire codecs are exact inverses and preserve field kinds.

spec/Wire.tla         layout tables (NTP, CSPTP message / request TLV / response TLV), LVM accessors,
                      NTS extension fields, server cookies, NTS-KE record encoding
spec/NtsKeStream.tla  ntske.ReadData reading through bufio from a transport that segments the stream
spec/WireHist.tla     histories of 2..3 codec calls in one process (one or two goroutines) over an allocator that
                      may or may not hand out fresh storage: the results of earlier calls stay valid
                      (Wire.tla property section (f): HistRoundTrip at the end of the history, ResultsStable)

1. TLC decides the property section on both modules (exhaustive, small scope; switches PlaceholderTypedAsCookie /
   ShortCookieRead = FALSE = the code).  Spec self-test: with the old switches (the code before fixes 69cd14a /
   b190383, *_faithful.cfg) TLC must find the violation - never a verdict about the code.  Likewise the histories
   with a recycling allocator (WireHist_recycle_*.cfg) must violate HistRoundTrip and ResultsStable.
2. TLC enumerates the cases (field x value class / sweep, packet shapes, cookie shapes, first bytes) and the
   behaviours (message x segmentation; plan of calls x schedule) that harness/c14 replays on the real codecs.
3. WireTrace.tla / NtsKeStreamTrace.tla validate what the real code did: monitor = property section
   (VIOLATION), strict = record explained by the specification under one of the switch settings (DRIFT).
"""
import copy, json, os, shutil, threading
from concurrent.futures import ThreadPoolExecutor

import vlib

WIRE_MON = ["RLayRoundTrip", "RLayReencode", "RLaybReencode", "RLaypRoundTrip", "RLvmAgree", "RLvmSetGet", "RNtsKinds",
            "RNtsValues", "RNtsAuth", "RNtsAligned", "RSck", "RCrypt"]
WIRE_STRICT = ["SLayBytes", "SLayFull", "SLayb", "SLayp", "SLvm", "SNtsEnc", "SNtsDec", "SSck"]
HIST_MON = ["RHistRoundTrip", "RResultsStable"]
HIST_STRICT = ["SHistSched", "SHistValues"]
KE_MON = ["RSegmentationIndependent", "RKeRoundTrip"]
KE_STRICT = ["SStream", "SNoExtraFetch", "SResult"]


# --------------------------------------------------------------------------- helpers
class Lane:
    """A private copy of the spec directory so that several TLC runs can read differently named/filled
    trace files at the same time (vlib.Ctx.tlc always works in ctx.specdir())."""
    _n = 0
    _lock = threading.Lock()

    def __init__(self, ctx):
        with Lane._lock:
            Lane._n += 1
            n = Lane._n
        self.dir = ctx.path("lane%d" % n)
        shutil.copytree(ctx.specdir(), self.dir)
        self.ctx = copy.copy(ctx)          # shares tlc_runs / scratch; only specdir differs
        self.ctx.specdir = lambda: self.dir

    def validate(self, module, spec, consts, invs, recs, trace_name, timeout, workers=3, heap=None):
        cfg = "lane_%s.cfg" % module
        with open(os.path.join(self.dir, cfg), "w") as f:
            f.write("SPECIFICATION %s\n" % spec)
            if consts:
                f.write("CONSTANTS\n" + "".join("  %s\n" % c for c in consts))
            f.write("INVARIANTS " + " ".join(invs) + "\n")
        tp = os.path.join(self.dir, trace_name)
        vlib.write_ndjson(tp, recs)
        return self.ctx.validate(module, cfg, tp, trace_name=trace_name, timeout=timeout, workers=workers, heap=heap)


def chunks(recs, weight, limit):
    """split into pieces whose total weight stays below limit"""
    out, cur, w = [], [], 0
    for r in recs:
        x = weight(r)
        if cur and w + x > limit:
            out.append(cur)
            cur, w = [], 0
        cur.append(r)
        w += x
    if cur:
        out.append(cur)
    return out


def pad4(n):
    return (n + 3) // 4 * 4


def rec_weight(r):
    return len(json.dumps(r, separators=(",", ":")))


def wire_class(r):
    k = r.get("k")
    if k == "lay":
        # the field(s) that did not survive; the swept field itself when nothing else is known
        return "lay %s.%s" % (r["m"], "+".join(r.get("diff") or [r["f"]]))
    if k == "layb":
        return "layb %s" % r["m"]
    if k == "layp":
        return "layp %s reused-destination %s" % (r["m"], "+".join(r.get("diff") or ["?"])[:80])
    if k == "hist":
        x = hist_bad_call(r) or r["calls"][0]
        return "hist result of %s.%s %s" % (x["cd"], x["op"], "changed after its call returned" if x["end"] != x["ret"] else "invalid")
    if k == "nts":
        i = r["in"]
        return "nts %s cookies=%s placeholders=%s%s" % ("api" if r["src"].startswith("api") else "fields",
                                                        "0" if not i["ck"] else ">0", "0" if not i["ph"] else ">0",
                                                        " placeholder-body=non-zero" if any(any(b) for b in i["ph"]) else "")
    return k


PH_CLASSES = ["zero", "first", "last", "rand"]


def ph_class(body):
    """body-content class of a placeholder body as recorded (display / counting only)"""
    nz = [j for j, x in enumerate(body) if x]
    if not nz:
        return "zero"
    if nz == [0]:
        return "first"
    if nz == [len(body) - 1]:
        return "last"
    return "rand"


def ph_case_stats(cases):
    """what the generated NTS cases exercise in the body-content dimension (specification side)"""
    st = dict(nts_cases=0, nonzero_body_cases=0, api_nonzero_body_cases=0, by_class={c: 0 for c in PH_CLASSES}, by_class_len={})
    for c in cases:
        if c.get("k") not in ("nts", "ntsapi"):
            continue
        st["nts_cases"] += 1
        phb = c.get("phb") or []
        lens = c["ph"] if c["k"] == "nts" else [c["cl"]] * len(phb)
        if any(b != "zero" for b in phb):
            st["nonzero_body_cases"] += 1
            st["api_nonzero_body_cases"] += c["k"] == "ntsapi"
        for b, n in zip(phb, lens):
            st["by_class"][b] = st["by_class"].get(b, 0) + 1
            k = "%s/%d" % (b, n)
            st["by_class_len"][k] = st["by_class_len"].get(k, 0) + 1
    return st


def hist_bad_call(r):
    """display only: the first call of a history whose result looks wrong"""
    for x in r["calls"]:
        if x["err"] != "nil" or x["rterr"] != "nil" or x["end"] != x["ret"]:
            return x
    return None


def hist_plan(r):
    return " ; ".join("%d: thread %d %s.%s%s" % (i + 1, x["th"], x["cd"], x["op"], " of result %d" % x["src"] if x["src"] else "")
                      for i, x in enumerate(r["calls"]))


HCODECS = ["ntp", "csptp", "reqtlv", "resptlv", "nts", "sck", "eck", "crypt", "ke"]


def hist_stats(hs):
    """what a set of histories (generated plans or replayed records) exercises - the new dimension, counted"""
    st = dict(histories=len(hs), three_calls=0, same_codec_twice=0, mixed_codecs=0, two_goroutines=0, overlapping=0,
              decode_of_earlier_result=0, encode_then_later_encode_same_codec=0, decode_then_later_decode_same_codec=0)
    cds = set()
    for h in hs:
        calls, sched = h["calls"], h["sched"]
        cds |= {x["cd"] for x in calls}
        sites = [(x["cd"], x["op"]) for x in calls]
        st["three_calls"] += len(calls) >= 3
        st["same_codec_twice"] += len({x["cd"] for x in calls}) < len(calls)
        st["mixed_codecs"] += len({x["cd"] for x in calls}) > 1
        st["two_goroutines"] += len({x["th"] for x in calls}) > 1
        st["overlapping"] += any(sched[j]["e"] == "B" and sched[j - 1]["e"] == "B" for j in range(1, len(sched)))
        st["decode_of_earlier_result"] += any(x["src"] for x in calls)
        st["encode_then_later_encode_same_codec"] += any(s[1] == "enc" and sites.count(s) > 1 for s in sites)
        st["decode_then_later_decode_same_codec"] += any(s[1] == "dec" and sites.count(s) > 1 for s in sites)
    st["codecs"] = sorted(cds, key=lambda c: HCODECS.index(c) if c in HCODECS else 99)
    return st


def ke_class(r):
    kinds = sorted({x["t"] for x in r["recs"]})
    return "ke %s" % ("cookie-record" if "ck" in kinds else "+".join(kinds))


def replay_of(r):
    """what is needed to run the case again (contents are seeded / random: shapes only)"""
    if "k" not in r:
        return dict(kind="ke", mode=r["mode"], recs=r["recs"], plan=r["plan"], cuts=r["cuts"])
    if r["k"] == "nts":
        i = r["in"]
        return dict(kind="nts", src=r["src"], uid=len(i["uid"]), ck=[len(c) for c in i["ck"]], ph=[len(c) for c in i["ph"]],
                    phb=[ph_class(c) for c in i["ph"]], pt=[len(c) for c in i["pt"]])
    if r["k"] == "lay":
        return {k: r[k] for k in ("k", "m", "ssds", "base", "f", "w", "off", "mode", "pre", "vs")}
    if r["k"] == "hist":
        return dict(kind="hist", mode=r["mode"], sched=r["sched"],
                    calls=[{k: x[k] for k in ("th", "op", "cd", "src", "v")} for x in r["calls"]])
    return r


def short(r, n=900):
    s = json.dumps(r, separators=(",", ":"))
    return s if len(s) <= n else s[:n] + "...(%d bytes)" % len(s)


def monitor_all(ctx, pool, module, spec, consts, invs, recs, trace_name, classify, limit, timeout):
    """Monitor-mode validation of all records.  Every violated invariant is reported once (first failing
    record), then dropped from the configuration and the rest is validated again, so that one defect does
    not hide another.  Returns (#records that went through a complete run, violations found)."""
    parts = chunks(recs, rec_weight, limit)
    found = {}

    def one(part):
        lane = Lane(ctx)
        todo = list(invs)
        res = []
        while todo:
            ok, l, inv, out = lane.validate(module, spec, consts, todo, part, trace_name, timeout)
            if ok:
                break
            if inv not in todo or not l:
                raise vlib.Inconclusive("trace validation of %s stopped on %r at l=%r:\n%s" % (module, inv, l, out[-1500:]))
            res.append((inv, part[l - 1]))
            todo.remove(inv)
        return res

    for res in pool.map(one, parts):
        for inv, bad in res:
            found.setdefault((inv, classify(bad)), bad)
    # TLC's breadth-first search with several workers reports any one of the failing records: for a stable
    # replay file try the smallest record of the same class that looks alike, confirmed by TLC on its own
    for (inv, cls), bad in list(found.items()):
        pred = LOOKS_LIKE.get(inv)
        if pred is None:
            continue
        cands = sorted((r for r in recs if pred(r)), key=lambda r: (classify(r), rec_weight(r), json.dumps(r, sort_keys=True)))
        if cands and cands[0] != bad:
            ok, l, inv2, out = Lane(ctx).validate(module, spec, consts, [inv], [cands[0]], trace_name, timeout, workers=1)
            if not ok and inv2 == inv:
                del found[(inv, cls)]
                found[(inv, classify(cands[0]))] = cands[0]
    return len(recs), found


# choice of the displayed counterexample only (never the verdict)
LOOKS_LIKE = {
    "RResultsStable": lambda r: r.get("k") == "hist" and any(x["end"] != x["ret"] for x in r["calls"]),
    "RHistRoundTrip": lambda r: r.get("k") == "hist" and hist_bad_call(r) is not None,
    "RSegmentationIndependent": lambda r: r["data"] != r["data0"] or r["err"] != r["err0"],
    "RNtsKinds": lambda r: r.get("k") == "nts" and r["encerr"] == "nil" and (len(r["dec"]["ck"]) != len(r["in"]["ck"]) or len(r["dec"]["ph"]) != len(r["in"]["ph"])),
}


def strict_all(ctx, pool, module, spec, consts, invs, recs, trace_name, limit, timeout):
    """Strict-mode validation; returns None if every record is explained, else (inv, record)."""
    parts = chunks(recs, rec_weight, limit)

    def one(part):
        lane = Lane(ctx)
        ok, l, inv, out = lane.validate(module, spec, consts, invs, part, trace_name, timeout)
        if ok:
            return None
        return (inv, part[l - 1] if l else None)

    for r in pool.map(one, parts):
        if r is not None:
            return r
    return None


def both_all(ctx, pool, module, spec, consts, mon, strict, recs, trace_name, classify, limit, timeout):
    """Monitor and strict invariants of independent records.  One run with all of them first: when every record passes
    (the usual case) both questions are answered.  Otherwise they are asked apart, as before: the monitor invariants
    decide (every violated one reported), the strict ones only report drift.
    Returns (#records through a complete monitor run, violations, first strict failure or None)."""
    if strict_all(ctx, pool, module, spec, consts, mon + strict, recs, trace_name, limit, timeout) is None:
        return len(recs), {}, None
    n, found = monitor_all(ctx, pool, module, spec, consts, mon, recs, trace_name, classify, limit, timeout)
    return n, found, strict_all(ctx, pool, module, spec, consts, strict, recs, trace_name, limit, timeout)


# --------------------------------------------------------------------------- the check
def run(ctx):
    q = ctx.quick
    ctx.specdir()
    top = ThreadPoolExecutor(max_workers=12)      # independent TLC runs / the two drivers, side by side
    lanes = ThreadPoolExecutor(max_workers=6)     # trace validation: pieces of a trace in private directories
    try:
        return _run(ctx, q, top, lanes)
    finally:
        top.shutdown(wait=True)
        lanes.shutdown(wait=True)


def _run(ctx, q, pool, lanes):
    # 1 + 2. design level, and the case / behaviour generators (independent TLC runs, side by side)
    f_wgen = pool.submit(ctx.tlc, "WireMC", "Wire_gen.cfg" if q else "Wire_gendeep.cfg", workers=1, timeout=900, tag="gen")
    kgens = ["NtsKeStream_gen.cfg"] if q else ["NtsKeStream_gendeep.cfg", "NtsKeStream_gendeep4.cfg", "NtsKeStream_genwide.cfg"]
    f_kgens = [pool.submit(ctx.tlc, "NtsKeStreamMC", g, workers=1, timeout=900, tag="gen") for g in kgens]
    # histories: 2 calls of any two codecs on one or two goroutines; 3 calls over a group of three codecs (quick: the
    # group of the seed, one goroutine; thorough: every group, two goroutines)
    hgens = ["WireHist_gen.cfg", "WireHist_gen3%s.cfg" % "abc"[ctx.seed % 3]] if q else \
            ["WireHist_gen.cfg", "WireHist_gendeep3a.cfg", "WireHist_gendeep3b.cfg", "WireHist_gendeep3c.cfg"]
    f_hgens = [pool.submit(ctx.tlc, "WireHistMC", g, workers=1, timeout=900, tag="gen") for g in hgens]
    f_exh = [(pool.submit(ctx.tlc, "WireMC", "Wire_exh.cfg" if q else "Wire_deep.cfg", workers=3 if q else 6, timeout=1500), "Wire")]
    for g in (["NtsKeStream_exh.cfg"] if q else ["NtsKeStream_deep.cfg", "NtsKeStream_wide.cfg"]):
        f_exh.append((pool.submit(ctx.tlc, "NtsKeStreamMC", g, workers=2 if q else 4, timeout=1500), "NtsKeStream"))
    for g in (["WireHist_exh.cfg", "WireHist_exh3.cfg"] if q else ["WireHist_exh.cfg", "WireHist_deep.cfg"]):
        f_exh.append((pool.submit(ctx.tlc, "WireHistMC", g, workers=2 if q else 4, timeout=1500), "WireHist"))
    wcases = ctx.emitted(f_wgen.result()["out"])
    kcases = []
    for f in f_kgens:
        kcases += ctx.emitted(f.result()["out"])
    hcases, seen = [], set()
    for f in f_hgens:
        for h in ctx.emitted(f.result()["out"]):
            key = json.dumps(h, sort_keys=True)
            if key not in seen:
                seen.add(key)
                hcases.append(h)
    if len(wcases) < 1000 or len(kcases) < 3000 or len(hcases) < 1000:
        raise vlib.Inconclusive("case generators produced only %d wire cases / %d stream behaviours / %d histories" %
                                (len(wcases), len(kcases), len(hcases)))
    # vacuity guards on the specification side: what the generated histories exercise
    hstat = hist_stats(hcases)
    for k in ("same_codec_twice", "mixed_codecs", "two_goroutines", "overlapping", "three_calls", "decode_of_earlier_result",
              "encode_then_later_encode_same_codec"):
        if not hstat[k]:
            raise vlib.Inconclusive("generated histories exercise no %s" % k)
    if hstat["codecs"] != HCODECS:
        raise vlib.Inconclusive("generated histories cover only the codecs %s" % hstat["codecs"])
    # ... and the NTS cases in the body-content dimension (bodies the decoder may ignore: cookie placeholders)
    pstat = ph_case_stats(wcases)
    for cl in PH_CLASSES:
        if not pstat["by_class"].get(cl):
            raise vlib.Inconclusive("generated NTS cases hold no placeholder body of class %s" % cl)
    if len({k.split("/")[1] for k in pstat["by_class_len"] if not k.startswith("zero/")}) < 2 or not pstat["api_nonzero_body_cases"]:
        raise vlib.Inconclusive("generated NTS cases vary non-zero placeholder bodies over fewer than two lengths / not in "
                                "real-sized requests: %s" % pstat)
    ctx.log("TLC generated %d codec cases, %d (message, segmentation) behaviours and %d histories of calls %s; "
            "placeholder bodies %s" % (len(wcases), len(kcases), len(hcases), hstat, pstat))
    # the variants with the old switches (the code before the two fixes): spec self-test, see below
    f_wfa = pool.submit(ctx.tlc, "WireMC", "Wire_faithful.cfg", workers=2, timeout=600, allow_violation=True, tag="selftest-old-switches")
    f_kfa = pool.submit(ctx.tlc, "NtsKeStreamMC", "NtsKeStream_faithful.cfg", workers=2, timeout=600, allow_violation=True,
                        tag="selftest-old-switches")
    # histories over a recycling allocator: both clauses of (f) must reject them
    f_hrec = [(pool.submit(ctx.tlc, "WireHistMC", "WireHist_recycle_%s.cfg" % x, workers=2, timeout=600, allow_violation=True,
                           tag="selftest-recycling-allocator"), inv) for x, inv in (("rt", "PHistRoundTrip"), ("st", "PResultsStable"))]

    # 3. the real codecs
    wp, kp, hp = ctx.path("wcases.ndjson"), ctx.path("kcases.ndjson"), ctx.path("hcases.ndjson")
    vlib.write_ndjson(wp, wcases)
    vlib.write_ndjson(kp, kcases)
    vlib.write_ndjson(hp, hcases)
    f_wdrv = pool.submit(ctx.godriver, "c14", "TestC14Wire$", out_name="wire_rec.ndjson", cases=wp, timeout=900)
    wtrace, wout = f_wdrv.result()
    f_kdrv = pool.submit(ctx.godriver, "c14", "TestC14Ke$", out_name="ke_rec.ndjson", cases=kp, timeout=900)
    f_hdrv = pool.submit(ctx.godriver, "c14", "TestC14Hist$", out_name="hist_rec.ndjson", cases=hp, timeout=900)
    ktrace, kout = f_kdrv.result()
    htrace, hout = f_hdrv.result()
    wrecs = vlib.read_ndjson(wtrace)
    krecs = vlib.read_ndjson(ktrace)
    hrecs = vlib.read_ndjson(htrace)
    kinds = {}
    for r in wrecs:
        kinds[r["k"]] = kinds.get(r["k"], 0) + 1
    modes = {}
    for r in krecs:
        modes[r["mode"]] = modes.get(r["mode"], 0) + 1
    hmodes = {}
    for r in hrecs:
        hmodes[r["mode"]] = hmodes.get(r["mode"], 0) + 1
    ctx.log("driver: %d codec records %s, %d stream reads %s, %d histories %s" % (len(wrecs), kinds, len(krecs), modes, len(hrecs), hmodes))
    for k in ("lay", "layb", "layp", "lvm", "nts", "sck", "eck", "crypt"):
        if not kinds.get(k):
            raise vlib.Inconclusive("driver produced no %s record" % k)
    if not modes.get("mem") or not modes.get("tls"):
        raise vlib.Inconclusive("driver produced no in-memory / no TLS stream read")
    if len(hrecs) < len(hcases) or not hmodes.get("inline") or not hmodes.get("goroutines"):
        raise vlib.Inconclusive("driver replayed %d of %d histories %s" % (len(hrecs), len(hcases), hmodes))
    # the replayed packets carry the generated body classes (the driver fills the contents)
    prec = dict(nonzero_body_packets=0, by_class={c: 0 for c in PH_CLASSES})
    for r in wrecs:
        if r["k"] == "nts":
            cls = [ph_class(b) for b in r["in"]["ph"]]
            prec["nonzero_body_packets"] += any(c != "zero" for c in cls)
            for c in cls:
                prec["by_class"][c] += 1
    if prec["nonzero_body_packets"] < pstat["nonzero_body_cases"] or any(
            prec["by_class"][c] < pstat["by_class"][c] for c in ("first", "last")):
        raise vlib.Inconclusive("driver replayed %s placeholder bodies, generated were %s" % (prec, pstat))
    nvals = sum(len(r["fl"]) for r in wrecs if r["k"] == "lay")
    if nvals == 0 or any(not all(x & 1 for x in r["fl"]) for r in wrecs if r["k"] == "lay"):
        raise vlib.Inconclusive("layout records without claimed values")

    # 4. code -> spec
    limit = 6_000_000 if q else 16_000_000      # bytes of ndjson per TLC run
    tmo = 900
    outer = pool
    f_wb = outer.submit(both_all, ctx, lanes, "WireTrace", "TSpec", [], WIRE_MON, WIRE_STRICT, wrecs, "wire_trace.ndjson", wire_class, limit, tmo)
    f_km = outer.submit(monitor_all, ctx, lanes, "NtsKeStreamTrace", "MonSpec", ["ShortCookieRead = FALSE"], KE_MON, krecs,
                        "ke_trace.ndjson", ke_class, limit, tmo)
    # strict, stream reader: the variant a glance at the records suggests is tried first (order only; the
    # other one is tried when it does not explain every read)
    first = any(r["data"] != r["data0"] or r["err"] != r["err0"] for r in krecs)
    ks = {}

    def ke_strict():
        for sw in (first, not first):
            ks[sw] = strict_all(ctx, lanes, "NtsKeStreamTrace", "StrictSpec", ["ShortCookieRead = %s" % str(sw).upper()],
                                KE_STRICT, krecs, "ke_trace.ndjson", limit, tmo)
            if ks[sw] is None:
                break
    f_ks = outer.submit(ke_strict)
    f_hb = outer.submit(both_all, ctx, lanes, "WireTrace", "TSpec", [], HIST_MON, HIST_STRICT, hrecs, "wire_trace.ndjson", wire_class, limit, tmo)
    # (the exhaustive runs and the self-tests went on beside the drivers and the validation)
    for f, what in f_exh:
        r = f.result()
        ctx.log("TLC exhaustive %s (%s): %d distinct states, property section holds" %
                (what, r["cfg"], r["distinct"]))
    # spec self-test: the variants with the old switches must be rejected by the property section
    for f, what, sw in ((f_wfa, "Wire", "PlaceholderTypedAsCookie"), (f_kfa, "NtsKeStream", "ShortCookieRead")):
        r = f.result()
        if not r["violated"]:
            raise vlib.Inconclusive("spec self-test: %s with %s=TRUE satisfies the property section (the property section or "
                                    "the bounds of %s have lost their teeth)" % (what, sw, r["cfg"]))
        ctx.notes.append("spec self-test: %s with %s=TRUE (the code before the fix) violates %s, as it must" % (what, sw, r["violated"]))
        ctx.log(ctx.notes[-1])
    for f, inv in f_hrec:
        r = f.result()
        if r["violated"] != inv:
            raise vlib.Inconclusive("spec self-test: histories over a recycling allocator (%s) do not violate %s (got %r): clause (f) "
                                    "of the property section or the bounds have lost their teeth" % (r["cfg"], inv, r["violated"]))
        ctx.notes.append("spec self-test: WireHist with Recycle=TRUE (an allocator that hands out storage the caller still holds) "
                         "violates %s, as it must" % inv)
        ctx.log(ctx.notes[-1])

    nw, wfound, d = f_wb.result()
    nk, kfound = f_km.result()
    nh, hfound, dh = f_hb.result()
    f_ks.result()
    for (inv, cls), bad in sorted(hfound.items()):
        x = hist_bad_call(bad) or bad["calls"][0]
        n = sum(1 for r in hrecs if hist_bad_call(r) is not None)
        ctx.violation("C14 %s %s" % (inv, cls),
                      "real codecs violate %s in a history of calls [%d of %d replayed histories hold a result that is invalid or "
                      "has changed at the end of the history; this one (%s): %s -- call %d returned %s, at the end of the history "
                      "the caller finds %s%s]: %s" %
                      (inv, n, len(hrecs), bad["mode"], hist_plan(bad), bad["calls"].index(x) + 1, short(x["ret"], 300),
                       short(x["end"], 300), "" if x["err"] == "nil" and x["rterr"] == "nil" else " (error: %s / %s)" % (x["err"], x["rterr"]),
                       short(bad, 600)), replay_of(bad))
    for (inv, cls), bad in sorted(wfound.items()):
        extra = ""
        if bad["k"] == "nts" and inv == "RNtsKinds":
            n = sum(1 for r in wrecs if r["k"] == "nts" and r["encerr"] == "nil" and
                    (len(r["dec"]["ck"]) != len(r["in"]["ck"]) or len(r["dec"]["ph"]) != len(r["in"]["ph"])))
            extra = " [%d of %d NTS packets decode with different numbers of cookies/placeholders than encoded; this one: " \
                    "encoded %d cookie(s) + %d placeholder(s), decoded %d cookie(s) + %d placeholder(s)]" % (
                        n, kinds["nts"], len(bad["in"]["ck"]), len(bad["in"]["ph"]), len(bad["dec"]["ck"]), len(bad["dec"]["ph"]))
        ctx.violation("C14 %s %s" % (inv, cls), "real codec output violates %s%s: %s" % (inv, extra, short(bad)), replay_of(bad))
    for (inv, cls), bad in sorted(kfound.items()):
        n = sum(1 for r in krecs if r["data"] != r["data0"] or r["err"] != r["err0"])
        extra = "%d of %d reads differ from the unsegmented read; " % (n, len(krecs)) if inv == "RSegmentationIndependent" else ""
        ctx.violation("C14 %s %s" % (inv, cls),
                      "real ntske.ReadData violates %s [%sthis one: cuts %s -> %s / %s, in one piece -> %s / %s]: %s" %
                      (inv, extra, bad["cuts"], bad["data"], bad["err"], bad["data0"], bad["err0"], short(bad)), replay_of(bad))

    # strict: which variant of the specification explains the code
    variant = {}
    if d:
        ctx.drift.append("codec record differs from Wire.tla (%s): %s" % (d[0], short(d[1], 400)))
    if dh:
        ctx.drift.append("history of calls differs from WireHist.tla / Wire.tla (%s): %s" % (dh[0], short(dh[1], 400)))
    def ph_type(r):      # type tag of the first placeholder field on the wire (information for the evidence file)
        o = 4 + pad4(len(r["in"]["uid"])) + sum(4 + pad4(len(c)) for c in r["in"]["ck"])
        return r["enc"][o] * 256 + r["enc"][o + 1]
    ph = {ph_type(r) for r in wrecs if r["k"] == "nts" and r["encerr"] == "nil" and r["in"]["ph"]}
    variant["PlaceholderTypedAsCookie"] = {0x204: True, 0x304: False}.get(next(iter(ph)), "?") if len(ph) == 1 else "?"
    if ks.get(True, 0) is None:
        variant["ShortCookieRead"] = True
    elif ks.get(False, 0) is None:
        variant["ShortCookieRead"] = False
    else:
        variant["ShortCookieRead"] = "?"
        ctx.drift.append("stream read explained by neither variant of NtsKeStream.tla (as written: %s on %s; repaired: %s on %s)" %
                         (ks[True][0], short(ks[True][1], 300), ks[False][0], short(ks[False][1], 300)))
    ctx.notes.append("implementation matches specification variant %s" % variant)
    ctx.log(ctx.notes[-1])

    if os.environ.get("VERIF_C14_SELFTEST"):
        selftest(ctx, wrecs, krecs, hrecs)

    # observations outside the claim (reported, never judged)
    unal = [r for r in wrecs if r["k"] == "nts" and r["encerr"] == "nil" and
            (len(r["in"]["uid"]) % 4 or any(len(c) % 4 for c in r["in"]["ck"]))]
    unal_pad = sum(1 for r in unal if r["dec"]["uid"] != r["in"]["uid"] or r["dec"]["ck"][:len(r["in"]["ck"])] != r["in"]["ck"])
    smallpt = [r for r in wrecs if r["k"] == "nts" and r["in"]["pt"] and any(len(c) < 24 for c in r["in"]["pt"])]
    smallpt_lost = sum(1 for r in smallpt if r["rec"] != r["in"]["pt"])
    multi = [r for r in krecs if any(x["t"] == "ae" and len(x["body"]) != 1 for x in r["recs"])]
    ctx.notes += [
        "observation: %d NTS packets with a unique identifier / cookie length that is not a multiple of 4; %d of them decode to "
        "the zero-padded value (outside the claim: the project emits multiples of 4)" % (len(unal), unal_pad),
        "observation: %d response packets carrying cookies shorter than 24 bytes in the authenticator; in %d of them "
        "ProcessRequest does not recover all cookies (loop condition len-pos >= 28; real cookies are 124 bytes)" % (len(smallpt), smallpt_lost),
        "observation: %d stream reads of messages with an AEAD record listing != 1 algorithms (ReadData reads 2 body bytes "
        "whatever BodyLen says; the project emits exactly one algorithm); %d of them end with an error" %
        (len(multi), sum(1 for r in multi if r["err0"] != "nil")),
    ]

    def key(r):
        if r.get("k") == "hist":
            return json.dumps(["hist", r["mode"], r["rep"], r["sched"], [[x[k] for k in ("th", "op", "cd", "src", "v")] for x in r["calls"]]])
        if "k" in r:
            return json.dumps([r.get(x) for x in ("k", "m", "ssds", "base", "f", "mode", "pre", "vs", "b", "x", "in", "keyid", "src", "prev", "vals")],
                              sort_keys=True)
        return json.dumps([r["mode"], r["stream"], r["cuts"]])
    # distinct non-trivial evaluations: distinct (message, field, condition, base pattern, value) observations of
    # the layout codecs + distinct other records (kind, inputs) + distinct (stream, observed segmentation) reads
    layvals = set()
    for r in wrecs:
        if r["k"] == "lay":
            for i in range(len(r["fl"])):
                v = tuple(r["vs"][i]) if r["mode"] == "classes" else tuple(r["pre"]) + (i,)
                layvals.add((r["m"], r["f"], r["ssds"], r["base"] if r["base"] != "rand" else json.dumps(r["vals0"], sort_keys=True), v))
    distinct = len(layvals) + len({key(r) for r in wrecs if r["k"] != "lay"}) + len({key(r) for r in krecs}) + len({key(r) for r in hrecs})
    hrstat = hist_stats(hrecs)
    ncalls = sum(len(r["calls"]) for r in hrecs)
    ctx.notes.append("histories of calls (results of earlier calls stay valid): TLC generated %d histories (plan x schedule) - %s; "
                     "the driver replayed %d (%d calls: every result copied at return and at the end of the history, %d of them "
                     "on two goroutines, %d with calls running at the same time), all judged by RHistRoundTrip (end-of-history "
                     "values) and RResultsStable (end = at return)" %
                     (len(hcases), ", ".join("%s=%s" % (k, v) for k, v in hstat.items()), len(hrecs), ncalls,
                      hrstat["two_goroutines"], hrstat["overlapping"]))
    ctx.log(ctx.notes[-1])
    ctx.notes.append("contents of bodies the decoder may ignore (cookie placeholders; EncodePacket emits no other such field): "
                     "TLC generated %d NTS cases, %d of them with a non-zero placeholder body (%d real-sized NewRequestPacket "
                     "requests with 124-byte bodies); placeholder bodies by class %s, by class/length %s; the driver replayed "
                     "%d packets with a non-zero placeholder body (bodies by observed class %s) through the real EncodePacket / "
                     "DecodePacket / ProcessRequest, judged by the unchanged RNtsKinds / RNtsValues / RNtsAuth / RNtsAligned" %
                     (pstat["nts_cases"], pstat["nonzero_body_cases"], pstat["api_nonzero_body_cases"], pstat["by_class"],
                      dict(sorted(pstat["by_class_len"].items())), prec["nonzero_body_packets"], prec["by_class"]))
    ctx.log(ctx.notes[-1])
    small = [r for r in wrecs if r["k"] in ("lvm", "sck") and rec_weight(r) < 1500][:2] + \
            [r for r in wrecs if r["k"] == "nts" and rec_weight(r) < 2500][:1] + \
            [dict(r, vs=r["vs"][:4], eb=r["eb"][:4], db=r["db"][:4], fl=r["fl"][:4], declen=r["declen"][:4], note="first 4 values shown")
             for r in wrecs if r["k"] == "lay" and r["mode"] == "classes"][:1] + \
            [r for r in krecs if r["mode"] == "mem" and len(r["cuts"]) > 1 and rec_weight(r) < 1500][:2] + \
            [r for r in krecs if r["mode"] == "tls" and rec_weight(r) < 1500][:1] + \
            [r for r in hrecs if r["mode"] == "goroutines" and all(x["cd"] in ("sck", "ke") for x in r["calls"]) and rec_weight(r) < 2500][:1]
    ctx.cov.update(
        evaluations=len(wrecs) + len(krecs) + nvals + ncalls, distinct_nontrivial=distinct,
        rule="codec records: TLC-enumerated (message type, field, base pattern) x value list (all 256 values of every 8-bit "
             "field; 16-bit fields swept over all low bytes for the high bytes of the tier (all 256 in thorough); "
             "{0, max, sign boundaries, 2^k, 2^k+-1} for every width) + masked byte patterns decoded and re-encoded + "
             "values decoded into a destination holding a previously decoded value (TLC-enumerated pairs of (flag, base pattern) "
             "classes incl. flag set -> flag clear, plus seeded random contents) + all 256 first bytes x 20 setter calls + NTS packet shapes (unique id / cookie / placeholder / encrypted "
             "cookie lengths, NewRequestPacket / NewResponsePacket) with seeded contents, placeholder bodies by content class "
             "{all zero, one non-zero byte first / last, random} (one placeholder of a non-zero class at every position, or all random) "
             "+ cookie shapes; stream reads: every "
             "TLC behaviour (message of <= MaxRecs records + end of message, every segmentation into <= MaxChunks reads) "
             "replayed through a chunking io.Reader, a subset over an in-memory TLS connection written in explicit "
             "pieces, plus real-sized server messages (8 x 124-byte cookies) under seeded cuts; histories of calls: every "
             "TLC behaviour of WireHist.tla (plan of 2 calls over all 9 codecs x {enc, dec} on one or two goroutines, plans of 3 "
             "calls over groups of 3 codecs (quick: the group of the seed on one goroutine; thorough: all groups on two "
             "goroutines), decodes of environment-written encodings and of results of earlier calls, "
             "every schedule of Begin/End events up to the order inside a run of concurrent events) replayed on the real codecs "
             "with seeded contents, the caller holding every result until the end. evaluations = records + "
             "per-value observations inside layout records + calls inside histories; distinct = distinct (kind, inputs) records",
        traces_validated_against_impl=nw + nk + nh, exhaustive=True, samples=small,
        records=dict(codec=kinds, stream=modes, layout_values=nvals, histories=hmodes, history_calls=ncalls),
        histories=dict(generated=hstat, replayed=hrstat), placeholder_bodies=dict(generated=pstat, replayed=prec),
        spec_variant=variant)
    ctx.assumptions += [
        "decoding into a reused destination is judged for the fixed-layout decoders (ntp.DecodePacket, csptp.DecodeMessage / "
        "DecodeRequestTLV / DecodeResponseTLV; the CSPTP client reuses its Message and ResponseTLV variables); nts.DecodePacket "
        "appends to the destination's slices and every caller passes a fresh nts.Packet, so it is decoded into fresh values only",
        "unique identifiers / cookies: value round trip claimed for lengths that are multiples of 4 (what the project emits); "
        "other lengths are reported as observations",
        "AEAD records: claimed for exactly one algorithm (what client and server emit)",
        "fields of ResponseTLV.ServerStateDS belong to the value only when TLVFlagServerStateDS is set",
        "the authenticator's nonce and ciphertext are random: compared through ProcessRequest (authentication succeeds, "
        "encrypted cookies recovered), not byte by byte",
        "transport chunks and cookie bodies are smaller than bufio's 4096-byte buffer",
        "small scope: <= 3 extension fields of each kind, streams of <= 3 (quick) / 4 (thorough) records cut into <= 3 / 4 reads",
        "histories: 2..3 calls on <= 2 goroutines; the order of calls that run at the same time is not controlled (no hooks "
        "inside the codecs): such histories are replayed as released together (thorough: those of two calls twice); buffers the codecs ask "
        "the caller for (csptp.Encode*, the destination structs) are fresh per call - reuse by the caller is the caller's business "
        "(reused decode destinations: see layp); an input is never written to after it was passed, so decoded values may share "
        "memory with their input (ServerCookie.Decode does)",
    ]


# --------------------------------------------------------------------------- negative control on the trace
def selftest(ctx, wrecs, krecs, hrecs):
    """Corrupt one recorded field of an accepted record and require the monitor to reject it."""
    pool = ThreadPoolExecutor(max_workers=1)

    def first(pred, recs):
        for r in recs:
            if pred(r):
                return copy.deepcopy(r)
        raise vlib.Inconclusive("selftest: no suitable record")

    tests = []
    r = first(lambda r: r["k"] == "lay" and r["w"] == 2 and all(x & 7 == 7 for x in r["fl"]), wrecs)
    r["db"][3][1] ^= 1
    tests.append(("WireTrace", "TSpec", [], WIRE_MON, r, "wire_trace.ndjson", "RLayRoundTrip"))
    r = first(lambda r: r["k"] == "lvm", wrecs)
    r["vn"] = (r["vn"] + 1) % 8
    tests.append(("WireTrace", "TSpec", [], WIRE_MON, r, "wire_trace.ndjson", "RLvmAgree"))
    r = first(lambda r: r["k"] == "sck" and r["in"]["x"], wrecs)
    r["dec"]["x"][0] ^= 255
    tests.append(("WireTrace", "TSpec", [], WIRE_MON, r, "wire_trace.ndjson", "RSck"))
    r = first(lambda r: r["k"] == "nts" and not r["in"]["ph"] and r["in"]["ck"] and len(r["in"]["ck"][0]) % 4 == 0 and
              len(r["in"]["uid"]) % 4 == 0 and all(len(c) % 4 == 0 for c in r["in"]["ck"]), wrecs)
    r["dec"]["ck"][0][0] ^= 1
    tests.append(("WireTrace", "TSpec", [], WIRE_MON, r, "wire_trace.ndjson", "RNtsValues"))
    r = first(lambda r: r["data"] == r["data0"] and r["err"] == r["err0"], krecs)
    r["data"]["port"] += 1
    tests.append(("NtsKeStreamTrace", "MonSpec", ["ShortCookieRead = FALSE"], KE_MON, r, "ke_trace.ndjson", "RSegmentationIndependent"))
    # a removed event: the reader must have made a transport read the record no longer shows (strict mode)
    r = first(lambda r: r["mode"] == "mem" and len(r["cuts"]) >= 3 and r["err"] == "nil" and
              not any(x["t"] == "ck" for x in r["recs"]), krecs)
    del r["cuts"][-1]
    tests.append(("NtsKeStreamTrace", "StrictSpec", ["ShortCookieRead = FALSE"], KE_STRICT, r, "ke_trace.ndjson", None))
    # a history whose first result is not at the end what it was at return / whose decoded value is another value
    r = first(lambda r: r["calls"][0]["op"] == "enc" and r["calls"][0]["cd"] == "sck", hrecs)
    r["calls"][0]["end"][5] ^= 1
    tests.append(("WireTrace", "TSpec", [], HIST_MON, r, "wire_trace.ndjson", "RResultsStable"))
    r = first(lambda r: r["calls"][-1]["op"] == "dec" and r["calls"][-1]["cd"] == "eck" and r["calls"][-1]["val"]["x"], hrecs)
    r["calls"][-1]["end"]["x"][0] ^= 1
    r["calls"][-1]["ret"]["x"][0] ^= 1
    tests.append(("WireTrace", "TSpec", [], HIST_MON, r, "wire_trace.ndjson", "RHistRoundTrip"))
    for module, spec, consts, invs, rec, tn, want in tests:
        lane = Lane(ctx)
        ok, l, inv, out = lane.validate(module, spec, consts, invs, [rec], tn, 300)
        if ok or (want is not None and inv != want):
            raise vlib.Inconclusive("selftest: corrupted %s record not rejected by %s (got %r)" % (rec.get("k", "ke"), want, inv))
        print("SELFTEST corrupted %s record rejected by %s" % (rec.get("k", "ke"), inv), flush=True)
    pool.shutdown()
