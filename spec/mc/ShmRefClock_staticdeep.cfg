SPECIFICATION SpecStatic
CONSTANTS
  WriterKind = "proto"
  Mode = 0
  NSamples = 0
  MaxCalls = 1
  MaxRetries = 8
  DlKinds <- DlBoth
  ReadOrder <- AddrOrder
  AtomicAttempt = TRUE
  RecordHist = TRUE
  SModes <- ModesFull
  SValids <- ValidsFull
  SPairs <- PairsFull
  SCounts = {7}
INVARIANTS EmitStatic
