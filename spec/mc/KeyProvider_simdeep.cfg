SPECIFICATION SpecSim
CONSTANTS
  Day = 24
  Gaps <- GapsSimDeep
  Horizon = 480
  GenLen = 40
INVARIANTS EmitSim
