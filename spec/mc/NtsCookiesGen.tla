---------------------------- MODULE NtsCookiesGen ----------------------------
(***************************************************************************)
(* Behaviour generator for the C11 conformance driver.  Every generated    *)
(* step is a step of NtsCookies!Next; what is emitted is the schedule the  *)
(* environment contributes: clock jumps (key rotation / retirement),       *)
(* which datagram of each exchange is lost, and requests of other clients  *)
(* (number of cookie/placeholder fields, length of the unique identifier). *)
(* and what the network does with the replies it has seen: an earlier      *)
(* reply (the src-th newest one) handed to the waiting client pre times     *)
(* before the genuine reply or the deadline, and once more (post) after the *)
(* call has returned.  Foreign requests carry a cookie under the kb-th      *)
(* newest key the provider holds (kb = 0: under the key handed out now).    *)
(* Each behaviour is run with one client (tr: the IP client or the SCION    *)
(* client, chosen with the initial state).  For the SCION client the        *)
(* network may also hand the waiting client scmp SCMP messages of type styp *)
(* before the genuine reply or the deadline - before (sfirst) or after the  *)
(* earlier replies of the same exchange; at most two extra datagrams per    *)
(* exchange (the second one ends the call).                                 *)
(* The server answers each request in an NTP header state hdr ("sync", or   *)
(* unsynchronised: "li3" / "str0" / "str16"; chosen per exchange from        *)
(* HdrStates, only where the request is going to reach the server).          *)
(* `stat` counts, on the specification's side, how often a behaviour        *)
(* exercises these dimensions (vacuity guards of the checks).               *)
(*   Exhaustive = FALSE (tlc -simulate): one random decision per step,     *)
(*     drawn with RandomElement and bound through singleton \E; a per-     *)
(*     behaviour bias steers the loss rate so that every pool level 8..1   *)
(*     and the empty pool (re-keying) are visited:                         *)
(*       bias 0..3  each exchange loses a datagram with probability b/4    *)
(*       bias 4     exchanges fail until the pool is down to one cookie,   *)
(*                  the request with seven placeholders goes through       *)
(*       bias 5     every exchange fails (pool runs empty, re-keying)      *)
(*   Exhaustive = TRUE (breadth-first): all schedules of MaxEx exchanges.  *)
(***************************************************************************)
EXTENDS NtsCookies, Json, FiniteSets
CONSTANTS Exhaustive, Biases, TickPct, ProbePct, StalePct, ExInj, ScmpPct, ExScmp, HdrPct
VARIABLES hist, bias, plan, stat, kex
gvars == <<vars, hist, bias, plan, stat, kex>>

Pick(S) == RandomElement(S)
Drops == {"none", "req", "resp"}
NoPlan == [drop |-> "none", pre |-> 0, post |-> 0, src |-> 0, scmp |-> 0, sfirst |-> FALSE, styp |-> "none", hdr |-> "sync"]
Stat0 == [same |-> 0,     \* earlier replies of the current association handed to the waiting client ...
          before |-> 0,   \* ... of these: while the genuine reply was on its way, which the client then got
          dup |-> 0,      \* ... of these: replies the client had received before (else: replies that had been lost)
          other |-> 0,    \* replies of an earlier association handed to the waiting client
          second |-> 0,   \* deliveries that ended the call (retry already spent)
          stray |-> 0,    \* deliveries after the call had returned
          oldserve |-> 0, \* requests served whose cookie is sealed under a key that is not the one handed out now
          span1 |-> 0,    \* requests served one rotation after the association's key exchange
          span2 |-> 0,    \* ... two or more rotations after it, with a served request in between
          had1 |-> 0,
          oldprobe |-> 0, \* foreign requests answered whose cookie is sealed under an older key
          sx |-> 0,         \* requests sent by the SCION client
          sxstore |-> 0,    \* ... exchanges of the SCION client that succeeded
          sxrekey |-> 0,    \* key exchanges run by the SCION client's fetcher
          scmp |-> 0,       \* SCMP messages handed to the waiting SCION client ...
          scmpbefore |-> 0, \* ... of these: while the genuine reply was on its way, which the client then got
          scmpinstead |-> 0,\* ... of these: when nothing genuine was on its way (request or reply lost, no reply)
          scmpmixed |-> 0,  \* ... of these: in an exchange in which an earlier reply was handed over as well
          scmpsecond |-> 0, \* ... of these: deliveries that ended the call (retry already spent)
          unsync |-> 0,      \* authentic replies of an unsynchronised server taken in by the client (cookies stored, call refused) ...
          unclean |-> 0,     \* ... of these: in a history without any loss so far (the pool must be back at eight)
          unrun |-> 0,       \* ... of these: directly after another one (runs of such replies)
          unthen |-> 0,      \* successful exchanges directly after one (mixed with normal ones)
          unlow |-> 0,       \* ... of these (unsync): answering a request that carried placeholders (pool below eight before)
          unlost |-> 0,      \* replies of an unsynchronised server that were lost or not taken in (earlier datagrams spent the retries)
          unli3 |-> 0, unstr0 |-> 0, unstr16 |-> 0,   \* (unsync by header state)
          unscion |-> 0,     \* (unsync taken in by the SCION client)
          lastun |-> 0]

TickChoices ==
  LET avail == {d \in Ticks : now + d <= Horizon}
  IN IF Exhaustive THEN {0} \cup avail
     ELSE {IF avail # {} /\ Pick(1 .. 100) <= TickPct THEN Pick(avail) ELSE 0}
\* (takes the state as a parameter: TLC would evaluate a constant-level
\* definition only once, and with it the random draw)
ProbeChoices(k) ==
  IF Exhaustive THEN {0} \cup ProbeNs
  ELSE {IF ProbeNs # {} /\ Pick(1 .. 100) <= ProbePct THEN Pick(ProbeNs) ELSE 0}
UidChoices(k) == IF Exhaustive THEN ProbeUids ELSE {Pick(ProbeUids)}
\* the cookie of a foreign request: 0 = fresh, j = under the j-th newest key held
NKeys == Cardinality(DOMAIN prov.keys)
KbChoices(k) == IF Exhaustive THEN {0, NKeys} ELSE {Pick(0 .. NKeys)}   \* (exhaustive: fresh, or under the oldest key held)
KeyAt(j) == CHOOSE i \in DOMAIN prov.keys : Cardinality({x \in DOMAIN prov.keys : x > i}) = j - 1
DropChoices(p) ==
  IF Exhaustive THEN Drops
  ELSE LET r == Pick(1 .. 100)
           which == IF r % 2 = 0 THEN "req" ELSE "resp"
       IN {IF bias = 5 THEN which
           ELSE IF bias = 4 THEN (IF p >= 2 THEN which ELSE "none")
           ELSE IF r <= 25 * bias THEN which ELSE "none"}
\* what the network does with an earlier reply during / after this exchange: <<pre, post>>
InjTable == << <<1, 0>>, <<1, 0>>, <<1, 0>>, <<1, 0>>, <<2, 0>>, <<0, 1>>, <<1, 1>> >>
NOld == IF Len(old) <= MaxOld THEN Len(old) ELSE MaxOld
InjChoices(k) ==
  IF NOld = 0 THEN {<<0, 0>>}
  ELSE IF Exhaustive THEN ExInj
  ELSE {IF Pick(1 .. 100) <= StalePct THEN InjTable[Pick(1 .. Len(InjTable))] ELSE <<0, 0>>}
\* SCMP messages for the waiting SCION client: <<count, before the earlier replies?, type>>;
\* pre is the number of earlier replies already planned for this exchange
ScmpSeq == <<"unreach", "echorep", "param">>
ScmpChoices(k, npre) ==
  IF tr # "scion" \/ ScmpTypes = {} THEN {<<0, FALSE, "none">>}
  ELSE IF Exhaustive
       THEN {<<0, FALSE, "none">>} \cup
            {<<c, f, ScmpSeq[(k % 3) + 1]>> : c \in {x \in ExScmp : x > 0 /\ x + npre <= 2},
                                             f \in (IF npre > 0 THEN BOOLEAN ELSE {TRUE})}
       ELSE {IF npre < 2 /\ Pick(1 .. 100) <= ScmpPct
             THEN <<Pick(1 .. (2 - npre)), npre = 0 \/ Pick(BOOLEAN), Pick(ScmpTypes)>>
             ELSE <<0, FALSE, "none">>}
\* the NTP header state of the server's answer (only where the request is not lost)
Unsynced == HdrStates \ {"sync"}
\* (exhaustive: in the exchanges in which the network delivers nothing else)
HdrChoices(k, dr, plain) ==
  IF dr = "req" \/ Unsynced = {} THEN {"sync"}
  ELSE IF Exhaustive THEN (IF plain /\ dr = "none" THEN HdrStates ELSE {"sync"})
  ELSE {IF Pick(1 .. 100) <= HdrPct THEN Pick(Unsynced) ELSE "sync"}
SrcChoices(k) == IF NOld = 0 THEN {0} ELSE IF Exhaustive THEN {1} ELSE {Pick(1 .. NOld)}   \* (exhaustive: the newest one)
\* the src-th newest reply to an earlier request
NStale == Cardinality({i \in DOMAIN old : IsStale(i)})
SrcIdx == NStale + 1 - plan.src
SrcIdxIdle == Len(old) + 1 - plan.src - (IF Len(old) > 0 /\ old[Len(old)].ex = nex THEN 1 ELSE 0)

Finished == nex = MaxEx /\ phase = "idle" /\ plan.post = 0

Op(op, d, n, u, kb, pl) ==
  [op |-> op, d |-> d, n |-> n, u |-> u, kb |-> kb, drop |-> pl.drop, pre |-> pl.pre, post |-> pl.post, src |-> pl.src,
   scmp |-> pl.scmp, sfirst |-> pl.sfirst, styp |-> pl.styp, hdr |-> pl.hdr]

GIdle ==
  \E t \in TickChoices :
    IF t > 0
    THEN Tick(t) /\ hist' = Append(hist, Op("tick", t, 0, 0, 0, NoPlan)) /\ UNCHANGED <<plan, stat, kex>>
    ELSE IF pool = << >>
    THEN /\ Rekey /\ kex' = prov'.cur
         /\ stat' = [stat EXCEPT !.had1 = 0, !.sxrekey = @ + (IF tr = "scion" THEN 1 ELSE 0)]
         /\ UNCHANGED <<hist, plan>>
    ELSE \E pr \in ProbeChoices(nex) :
      IF pr > 0
      THEN \E u \in UidChoices(nex), kb \in KbChoices(nex) :
             /\ Probe(pr, u, IF kb = 0 THEN 0 ELSE KeyAt(kb))
             /\ hist' = Append(hist, Op("probe", 0, pr, u, kb, NoPlan))
             /\ stat' = [stat EXCEPT !.oldprobe = @ + (IF rep'.k = "probe" /\ rep'.ck # prov'.cur THEN 1 ELSE 0)]
             /\ UNCHANGED <<plan, kex>>
      ELSE \E dr \in DropChoices(Len(pool)), inj \in InjChoices(nex), sr \in SrcChoices(nex) :
           \E sc \in ScmpChoices(nex, inj[1]) : \E hd \in HdrChoices(nex, dr, inj = <<0, 0>> /\ sc[1] = 0) :
             /\ SendRequest
             /\ plan' = [drop |-> dr, pre |-> inj[1], post |-> inj[2], src |-> IF inj = <<0, 0>> THEN 0 ELSE sr,
                         scmp |-> sc[1], sfirst |-> sc[2], styp |-> sc[3], hdr |-> hd]
             /\ hist' = Append(hist, Op("x", 0, 0, 0, 0, plan'))
             /\ stat' = [stat EXCEPT !.sx = @ + (IF tr = "scion" /\ obs' = "send" THEN 1 ELSE 0)]
             /\ UNCHANGED kex

GServe ==
  /\ ServerHandle(plan.hdr)
  /\ stat' = IF obs' # "serve" THEN stat
             ELSE LET sp == prov'.cur - kex IN
                  [stat EXCEPT !.oldserve = @ + (IF net.cookie.key # prov'.cur THEN 1 ELSE 0),
                               !.span1 = @ + (IF sp = 1 THEN 1 ELSE 0),
                               !.span2 = @ + (IF sp >= 2 /\ stat.had1 = 1 THEN 1 ELSE 0),
                               !.had1 = IF sp = 1 THEN 1 ELSE @]

GReplay ==
  /\ Replay(SrcIdx)
  /\ plan' = [plan EXCEPT !.pre = @ - 1]
  /\ LET o == old[SrcIdx]
         sm == o.sess = sess
         rc == Len(o.cookies) > 0 /\ (o.cookies[1].id \in used \/ o.cookies[1].id \in Ids(pool))
     IN stat' = [stat EXCEPT !.same = @ + (IF sm THEN 1 ELSE 0),
                             !.before = @ + (IF sm /\ tries = 0 /\ phase = "resp" /\ plan.drop = "none" /\ plan.pre = 1 /\ plan.scmp = 0 THEN 1 ELSE 0),
                             !.dup = @ + (IF sm /\ rc THEN 1 ELSE 0),
                             !.other = @ + (IF sm THEN 0 ELSE 1),
                             !.second = @ + (IF obs' = "fail" THEN 1 ELSE 0)]

\* the next extra datagram of the current exchange is an SCMP message
ScmpNext == plan.scmp > 0 /\ (plan.sfirst \/ plan.pre = 0)
GScmp ==
  /\ Scmp(plan.styp)
  /\ plan' = [plan EXCEPT !.scmp = @ - 1]
  /\ stat' = [stat EXCEPT !.scmp = @ + 1,
                          !.scmpbefore = @ + (IF tries = 0 /\ phase = "resp" /\ plan.drop = "none" /\ plan.scmp = 1 /\ plan.pre = 0 THEN 1 ELSE 0),
                          !.scmpinstead = @ + (IF phase = "wait" THEN 1 ELSE 0),
                          !.scmpmixed = @ + (IF plan.src > 0 THEN 1 ELSE 0),
                          !.scmpsecond = @ + (IF obs' = "fail" THEN 1 ELSE 0)]

GNext ==
  /\ ~Finished
  /\ UNCHANGED bias
  /\ \/ phase = "idle" /\ plan.post = 0 /\ GIdle
     \/ /\ phase = "idle" /\ plan.post > 0
        /\ Stray(SrcIdxIdle) /\ plan' = [plan EXCEPT !.post = 0]
        /\ stat' = [stat EXCEPT !.stray = @ + 1] /\ UNCHANGED <<hist, kex>>
     \/ phase = "req"  /\ (IF plan.drop = "req" THEN LoseRequest /\ UNCHANGED stat ELSE GServe) /\ UNCHANGED <<hist, plan, kex>>
     \/ phase \in {"resp", "wait"} /\ ScmpNext /\ GScmp /\ UNCHANGED <<hist, kex>>
     \/ phase \in {"resp", "wait"} /\ ~ScmpNext /\ plan.pre > 0 /\ GReplay /\ UNCHANGED <<hist, kex>>
     \/ /\ phase = "resp" /\ plan.pre = 0 /\ plan.scmp = 0
        /\ (IF plan.drop = "resp" THEN LoseResponse ELSE ClientReceive)
        /\ LET un == obs' = "fail" /\ ~rep.bad /\ ~Synced(rep.hdr)     \* taken in, stored, refused
               B(x) == IF x THEN 1 ELSE 0
           IN stat' = [stat EXCEPT !.sxstore = @ + B(tr = "scion" /\ obs' = "store"),
                                   !.unsync = @ + B(un),
                                   !.unclean = @ + B(un /\ clean),
                                   !.unrun = @ + B(un /\ stat.lastun = 1),
                                   !.unthen = @ + B(obs' = "store" /\ stat.lastun = 1),
                                   !.unlow = @ + B(un /\ pre < PoolMax),
                                   !.unlost = @ + B(obs' = "loseresp" /\ ~Synced(rep.hdr)),
                                   !.unli3 = @ + B(un /\ rep.hdr = "li3"),
                                   !.unstr0 = @ + B(un /\ rep.hdr = "str0"),
                                   !.unstr16 = @ + B(un /\ rep.hdr = "str16"),
                                   !.unscion = @ + B(un /\ tr = "scion"),
                                   !.lastun = B(un)]
        /\ UNCHANGED <<hist, plan, kex>>
     \/ phase = "wait" /\ plan.pre = 0 /\ plan.scmp = 0 /\ Timeout /\ UNCHANGED <<hist, plan, stat, kex>>

HInit == Init /\ hist = << >> /\ plan = NoPlan /\ bias \in Biases /\ stat = Stat0 /\ kex = 0
HSpec == HInit /\ [][GNext]_gvars

\* every generated step is a step of the specification
StepOfSpec == [][Next]_vars

Emit == Finished => PrintT(<<"CASE", ToJson([bias |-> bias, tr |-> tr, ops |-> hist, stat |-> stat])>>)
BiasAll  == 0 .. 5
BiasOne  == {0}
BiasLow  == {0, 1}
GTicks   == {1, 2, 3, 5, 6}
GTicksX  == {6}
GTicksRot == {1, 2, 3}      \* (rotation-heavy walks for C12: no jump retires every key at once)
GProbesRot == {1, 2, 8}
GUidsRot == {32, 64}
GProbes  == {1, 2, 5, 7, 8, 9, 10, 12}
GProbesX == {8}
GUids    == {32, 36, 64, 160, 200, 300, 320}
GUidsX   == {200}
NoProbes == {}
InjNone  == {<<0, 0>>}
TrIP     == {"ip"}
TrSCION  == {"scion"}
TrBoth   == {"ip", "scion"}
ScmpAll  == {"unreach", "echorep", "param"}
ScmpNone == {}
ScmpX    == {0, 1}
ScmpX2   == {0, 1, 2}
ScmpX0   == {0}
HdrAll   == {"sync", "li3", "str0", "str16"}
HdrSync  == {"sync"}
HdrLi    == {"sync", "li3"}
HdrStr0  == {"sync", "str0"}
HdrStr16 == {"sync", "str16"}
InjX     == {<<0, 0>>, <<1, 0>>}
=============================================================================
