----------------------------- MODULE CollectMC -----------------------------
EXTENDS Collect, Json, Randomization
(***************************************************************************)
(* Model-checking wrapper for Collect.tla (C16).                           *)
(*   Collect_exh.cfg    1 round, n <= 3, overlapping call, safety + NoLeak  *)
(*                      + Emit (quick tier: decides and generates in one    *)
(*                      run)                                                *)
(*   Collect_deep.cfg   1 round, n <= 4, overlapping call, safety + NoLeak  *)
(*   Collect_gen.cfg    1 round, n <= 4: every reachable final observable   *)
(*                      outcome of every scenario is printed once (Emit);   *)
(*                      grouped by scenario this is the SET of outcomes the *)
(*                      real code may show for that scenario.               *)
(*   Collect_rounds.cfg       histories of rounds on ONE collector, every   *)
(*   Collect_rounds_deep.cfg  clause for every round whatever is still     *)
(*   Collect_rounds3.cfg      alive from earlier rounds; clocks that       *)
(*                      answer 3 or 5 units after their round's start      *)
(*                      (during / at the deadline of / after the next      *)
(*                      round), the next round starting 0 or 1 units after *)
(*                      the previous return.  rounds: 2 rounds, n <= 2,    *)
(*                      completion times 1 3 5 Never, overlapping call     *)
(*                      (quick); rounds_deep: the same with 1 2 3 5 Never; *)
(*                      rounds3: 3 rounds, n <= 2, 1 3 5 Never, no         *)
(*                      overlapping call (both thorough)                   *)
(*   Collect_late.cfg   LATENESS of stragglers, exhaustively: 2 rounds,     *)
(*   Collect_late_deep.cfg  n <= 2, clocks that ignore their context and    *)
(*                      answer 90 or 259200 units after their round's start *)
(*                      (late_deep, thorough: 3, 90, 7200, 259200 or        *)
(*                      3000000: just after the deadline ... five weeks     *)
(*                      after it), one or two of them per round, in one or  *)
(*                      both rounds; NoLeak is decided on behaviours that   *)
(*                      last until the last one has returned                *)
(*   Collect_rgen.cfg   -simulate: histories of up to 3 rounds, n <= 3,     *)
(*                      completion times 1 2 3 5 and the lateness scale,    *)
(*                      printed at their end (EmitHist) for the harness     *)
(*   Collect_big.cfg    -simulate from InitBig: one round with 5 .. 64      *)
(*                      clocks of which a prefix / suffix / random subset   *)
(*                      is blocked (EmitHist)                               *)
(*   Collect_f_*.cfg    single-site deviations; each must violate the named *)
(*                      clause (the property section is not vacuous);       *)
(*                      f_sharedchan: 2 rounds that share one channel       *)
(***************************************************************************)

\* final states: everything done and the clock at its end.  The observable
\* outcome of a round: return time, j, the prefix, and what happened to the
\* second call.
Final == AllDone /\ now = TEnd /\ ~Busy
Emit == Final =>
  PrintT(<<"CASE", ToJson([n |-> n, d |-> SeqOf(dl, n), o |-> SeqOf(oc, n),
                           rt |-> rt, j |-> j, prefix |-> Prefix,
                           phase |-> p2phase, refused |-> (p2 = "panicked")])>>)
\* a whole history: the finished rounds and the current (last) one
EmitHist == Final => PrintT(<<"CASE", ToJson([rounds |-> Append(hist, RoundRec)])>>)

----------------------------------------------------------------------------
(* History generator (-simulate).  TLC's random walk picks uniformly among  *)
(* the successors of a state; with NewRound enumerating every scenario the  *)
(* next round would nearly always start at the first instant it can.  Here  *)
(* NewRound draws ONE scenario per number of clocks, so that starting the   *)
(* next round competes on equal terms with letting time or the goroutines   *)
(* of the previous round go on.                                             *)
\* (TLC evaluates constant-level expressions once; the draw has to mention a variable)
Draw(S) == RandomElement({x \in S : rnd > 0})
PickScen(m) ==
  LET dd == [k \in 1 .. m |-> Draw(DVals \cup {Never})]
  IN [d |-> dd, o |-> [k \in 1 .. m |-> IF dd[k] = Never THEN "err" ELSE IF Draw(1 .. 3) <= 2 THEN "ok" ELSE "err"]]
NextGen == Urgent \/ Call2 \/ Tick \/ (\E m \in 0 .. MaxClocks : NewRoundWith(m, PickScen(m)))
SpecGen == Init /\ [][NextGen]_vars

----------------------------------------------------------------------------
(* Rounds with many clocks.  The scenario is not enumerated (7^64) but      *)
(* drawn by shape: which clocks are blocked (a prefix, a suffix, a random   *)
(* subset of a size around the powers of two, where batches, semaphores and *)
(* buffer capacities have their edges), how the blocked ones behave and how *)
(* the others do.  The behaviour from there on is Collect's Next.           *)
BigN    == {5, 8, 9, 12, 17, 33, 64}
Edges   == {0, 1, 2, 3, 4, 5, 7, 8, 9, 11, 15, 16, 17, 31, 32, 33, 48, 63, 64}
LateVals == {90, 7200, 259200, 3000000}          \* the lateness scale of the generators (units after the start)
BKinds  == {"late", "vlate", "xlate", "never", "mix"}   \* blocked: 3 | 5 | each one of LateVals | Never | any of these
FKinds  == {"early", "mix"}                      \* others: 1 ok | 1 or 2, ok or err
BlockedSet(m, shape, p) ==
  CASE shape = "prefix" -> 1 .. p
    [] shape = "suffix" -> (m - p + 1) .. m
    [] OTHER            -> RandomSubset(p, 1 .. m)
BlockedD(bk) ==
  CASE bk = "late" -> 3 [] bk = "vlate" -> 5 [] bk = "never" -> Never
    [] bk = "xlate" -> RandomElement(LateVals)
    [] OTHER -> RandomElement({3, 5, Never} \cup LateVals)
InitBig ==
  /\ rnd = 1
  /\ n \in BigN
  /\ \E shape \in {"prefix", "suffix", "subset"}, p \in Edges, bk \in BKinds, fk \in FKinds :
       /\ p <= n
       \* (a singleton \E binds the drawn set once; a LET would draw it again at every use)
       /\ \E B \in {BlockedSet(n, shape, p)} :
            dl = [k \in 1 .. n |-> IF k \in B THEN BlockedD(bk)
                                    ELSE IF fk = "early" THEN 1 ELSE RandomElement({1, 2})]
       /\ oc = [k \in 1 .. n |-> IF dl[k] = Never THEN "err"
                                  ELSE IF dl[k] > 2 \/ fk = "early" THEN "ok"
                                  ELSE IF RandomElement(1 .. 3) <= 2 THEN "ok" ELSE "err"]
  /\ now = 0 /\ ctxDone = FALSE /\ num = 0
  /\ mpc = "cas" /\ i = 0 /\ j = 0 /\ ms = [x \in 1 .. n |-> 0]
  /\ spc = [k \in 1 .. n |-> "idle"]
  /\ dpc = "none" /\ dn = 0
  /\ p2 = "idle" /\ got = {} /\ rt = -1 /\ p2phase = "none"
  /\ osnd = <<>> /\ odr = <<>> /\ gap = 0 /\ live = 0 /\ hist = <<>>
SpecBig == InitBig /\ [][Next]_vars
=============================================================================
