SPECIFICATION TSpec
INVARIANTS RContain RMedianIn ROrderInv RReorders RRaw RMidOK RTsBetween RErrNil
