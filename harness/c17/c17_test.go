// C17 driver: replays the behaviours enumerated by TLC from spec/Filters.tla
// on the real client.LuckyPacketFilter and client.NtimedFilter, adds seeded
// random histories and the repository's seven lucky-packet example inputs,
// and records every event in model units for spec/trace/FiltersTrace.tla
// (monitor = property section of Filters.tla, strict = equality with the
// algorithmic specification).
//
// Ntimed behaviours carry a schedule of clock steps inside Do calls ("a step
// lands after the k-th Epoch() read of the j-th Do"), replayed through the
// registered fake clock whose Epoch() is scripted per read; every Do record
// says what its reads returned (q) and where steps landed inside it (ks).
// Each group first runs its references (fresh filter, samples only, no
// step) for every place where "the samples seen since" can begin, then the
// behaviour itself.
package c17

import (
	"context"
	"log/slog"
	"math/rand"
	"reflect"
	"sync/atomic"
	"testing"
	"time"

	"example.com/scion-time/core/client"
	"example.com/scion-time/core/timebase"

	"verif/harness/internal/vio"
)

// ---------------------------------------------------------------- fake clock
// timebase.RegisterClock can be called once per process; the epoch of the
// registered clock is what NtimedFilter reads through timebase.Epoch().
//
// Interleaving with the goroutine that steps the clock is scripted per read:
// while a Do is in progress (arm ... disarm) every Epoch() call is counted,
// and a clock step scheduled "after the k-th read of this Do" is performed at
// the beginning of the (k+1)-th Epoch() call, before the value is loaded -
// exactly what the filter's goroutine sees when the sync loop steps the
// clock between the two reads.  Steps whose place is not reached (the Do
// makes fewer reads) are handed back and performed after Do has returned.
// Everything runs on one goroutine; the script makes the schedule exact.
type fakeClock struct {
	epoch  atomic.Uint64
	armed  bool
	reads  int      // Epoch() reads since arm
	script []int    // read counts after which a step lands, ascending
	vals   []uint64 // value returned by each read since arm
	done   []int    // read counts at which a step actually landed inside the Do
	total  int      // all Epoch() reads while armed, plus reads counted by count (statistics)
	count  bool     // count reads although not armed (lucky packet runs)
	nowCnt int      // Now() calls
}

func (c *fakeClock) Epoch() uint64 {
	if c.count || c.armed {
		c.total++
	}
	if !c.armed {
		return c.epoch.Load()
	}
	for len(c.script) > 0 && c.script[0] <= c.reads {
		c.epoch.Add(1) // the other goroutine's Step lands here
		c.done = append(c.done, c.reads)
		c.script = c.script[1:]
	}
	c.reads++
	v := c.epoch.Load()
	c.vals = append(c.vals, v)
	return v
}

// arm starts counting the reads of one Do with the given schedule.
func (c *fakeClock) arm(st []int) {
	c.armed, c.reads = true, 0
	c.script = append(c.script[:0], st...)
	c.vals, c.done = c.vals[:0], c.done[:0]
}

// disarm returns the values read, the places where steps landed inside the
// Do and the number of scheduled steps that were not reached.
func (c *fakeClock) disarm() (q, ks []int, left int) {
	c.armed = false
	q, ks = []int{}, []int{}
	for _, v := range c.vals {
		q = append(q, int(v))
	}
	ks = append(ks, c.done...)
	left = len(c.script)
	c.script = c.script[:0]
	return
}

func (c *fakeClock) Now() time.Time                               { c.nowCnt++; return time.Unix(1700000000, 0) }
func (c *fakeClock) Drift(time.Duration) time.Duration            { return 0 }
func (c *fakeClock) Step(time.Duration)                           { c.epoch.Add(1) }
func (c *fakeClock) Adjust(time.Duration, time.Duration, float64) {}
func (c *fakeClock) Sleep(time.Duration)                          {}

var clock = &fakeClock{}

func init() { timebase.RegisterClock(clock) }

// -------------------------------------------------------------------- cases
type cev struct {
	T   string `json:"t"` // "s" sample, "r" Reset, "e" clock epoch change
	Off int64  `json:"off"`
	Rtd int64  `json:"rtd"`
	Out int64  `json:"out"`
	Fl  bool   `json:"fl"`
	Fh  bool   `json:"fh"`
	Br  int    `json:"br"`
	N   int    `json:"n"`
	St  []int  `json:"st"` // ntimed "s": a clock step lands after the St[i]-th Epoch() read of this Do
}

type tcase struct {
	M    string `json:"m"` // "lucky" | "ntimed"
	Cap  int    `json:"cap"`
	K    int    `json:"k"`
	Clk0 int    `json:"clk0"`
	Ev   []cev  `json:"ev"`
}

// ------------------------------------------------------------------ records
// Two layouts (lucky: l*, ntimed: n*); TLC reads only the fields it names for
// the event kind, and no field is ever null.
type lrec struct {
	Ev   string  `json:"ev"`  // lnew ls lr
	Src  string  `json:"src"` // gen | rand | example
	Cap  int     `json:"cap"`
	K    int     `json:"k"`
	Off  int64   `json:"off"`  // model units
	Rtd  int64   `json:"rtd"`  // model units
	Sc   int64   `json:"sc"`   // record units per model unit of offset (1 or 2)
	Out  int64   `json:"out"`  // record units
	WObs bool    `json:"wobs"` // f.state could be read (reflection) and mapped back exactly
	WOff []int64 `json:"woff"` // record units
	WRtd []int64 `json:"wrtd"` // model units
	Emb  int     `json:"emb"`
}

type nrec struct {
	Ev    string  `json:"ev"`    // ngroup nnew ns nr ne
	Src   string  `json:"src"`   // gen | rand
	Role  string  `json:"role"`  // ref: fresh filter, no clock step, no reset (reference) | main
	St    []int   `json:"st"`    // the schedule: clock steps after the St[i]-th Epoch() read of this Do
	Q     []int   `json:"q"`     // the values the Epoch() reads of this Do returned, in order
	Ks    []int   `json:"ks"`    // for each clock step that landed inside this Do: the number of reads made before it
	Clk   int     `json:"clk"`   // clock epoch when the event happened
	ID    int     `json:"id"`    // identity of the concrete sample within its group
	LogOK bool    `json:"logok"` // the filter's "filtered response" record was found
	Fl    bool    `json:"fl"`    // lo < loLim   (from that record)
	Fh    bool    `json:"fh"`    // hi > hiLim
	Br    int     `json:"br"`    // branch       (from that record)
	NObs  bool    `json:"nobs"`  // f.navg / f.epoch could be read (reflection)
	Navg  int     `json:"navg"`
	FEp   int     `json:"fep"`
	Inb   bool    `json:"inb"` // sample certainly within the learned bounds (decided on the inputs only)
	Err   int64   `json:"err"` // |Do(...) - raw offset| in ns, clipped to 2^30
	Tol   int64   `json:"tol"` // 1 ns + 1e-9 * |raw offset|
	O     []int64 `json:"o"`   // Do(...) as three chunks of its 64-bit pattern
	Scale int     `json:"scale"`
}

type rec = lrec

func newRec(ev, src string) *lrec {
	return &lrec{Ev: ev, Src: src, Sc: 1, WOff: []int64{}, WRtd: []int64{}}
}

func newNRec(ev, src string) *nrec {
	return &nrec{Ev: ev, Src: src, Role: "-", O: []int64{0, 0, 0}, St: []int{}, Q: []int{}, Ks: []int{}}
}

var tbase = time.Date(2025, 3, 4, 5, 6, 7, 890, time.UTC)

// stamps returns four timestamps with ClockOffset = off and RoundTripDelay =
// rtd exactly (rtd even), client transmit time t and server processing time p.
func stamps(t time.Time, off, rtd, p int64) (cTx, sRx, sTx, cRx time.Time) {
	if rtd%2 != 0 {
		panic("odd round-trip delay")
	}
	cTx = t
	sRx = cTx.Add(time.Duration(off + rtd/2))
	sTx = sRx.Add(time.Duration(p))
	cRx = cTx.Add(time.Duration(rtd + p))
	// self-check of the concretisation with plain integer arithmetic
	a, b := int64(sRx.Sub(cTx)), int64(sTx.Sub(cRx))
	if (a+b)%2 != 0 || (a+b)/2 != off || int64(cRx.Sub(cTx))-int64(sTx.Sub(sRx)) != rtd {
		panic("concretisation is not exact")
	}
	return
}

// ------------------------------------------------------------- lucky packet
type oemb struct{ a, b int64 } // offset: real = a*model + b ; a = 1 or even
type remb struct{ c, d int64 } // delay:  real = c*model + d ; even, >= 0, c > 0

var oembs = []oemb{
	{1, 0}, {1, 7}, {1, -1000000001}, {2, 0}, {1000, -12345}, {1000000, 0},
	{1 << 40, 3}, {1 << 56, -(1 << 58)}, {1 << 55, 1 << 59},
}
var rembs = []remb{{2, 0}, {2000, 100}, {1 << 30, 0}, {1000000, 0}, {1 << 52, 2}}

func (e oemb) sc() int64 {
	if e.a == 1 {
		return 1
	}
	return 2
}

// inv maps a real offset to record units (model units * sc)
func (e oemb) inv(v int64) (int64, bool) {
	u := e.a / e.sc()
	d := v - e.b
	if d%u != 0 {
		return 0, false
	}
	return d / u, true
}

func (e remb) inv(v int64) (int64, bool) {
	d := v - e.d
	if d%e.c != 0 {
		return 0, false
	}
	return d / e.c, true
}

// observeWin reads the unexported window of the filter if it is still called
// `state` with fields `off` and `rtd` (strict mode only; absence is fine).
func observeWin(f *client.LuckyPacketFilter, oe oemb, re remb) (woff, wrtd []int64, ok bool) {
	woff, wrtd = []int64{}, []int64{}
	defer func() {
		if recover() != nil {
			woff, wrtd, ok = []int64{}, []int64{}, false
		}
	}()
	st := reflect.ValueOf(f).Elem().FieldByName("state")
	if !st.IsValid() || st.Kind() != reflect.Slice {
		return woff, wrtd, false
	}
	for i := 0; i < st.Len(); i++ {
		o, r := st.Index(i).FieldByName("off"), st.Index(i).FieldByName("rtd")
		if !o.IsValid() || !r.IsValid() {
			return []int64{}, []int64{}, false
		}
		ov, ok1 := oe.inv(o.Int())
		rv, ok2 := re.inv(r.Int())
		if !ok1 || !ok2 {
			return []int64{}, []int64{}, false
		}
		woff, wrtd = append(woff, ov), append(wrtd, rv)
	}
	return woff, wrtd, true
}

type lstats struct{ runs, events, inexact int }

// Epoch() / Now() calls made by the lucky packet filter (it is expected to
// make none: the interleaving dimension of the clock does not exist for it)
var luckyClockCalls int

func watchLucky() func() {
	t0, n0 := clock.total, clock.nowCnt
	clock.count = true
	return func() {
		clock.count = false
		luckyClockCalls += (clock.total - t0) + (clock.nowCnt - n0)
	}
}

// runLucky drives a fresh real filter through the events; nil if some output
// has no exact inverse image (counted, never judged).
func runLucky(capa, k int, evs []cev, oi, ri int, src string, rng *rand.Rand) []*rec {
	oe, re := oembs[oi], rembs[ri]
	defer watchLucky()()
	var f *client.LuckyPacketFilter
	if capa == 0 {
		f = &client.LuckyPacketFilter{} // unconfigured: the zero value
	} else {
		f = client.NewLuckyPacketFilter(capa, k)
	}
	h := newRec("lnew", src)
	h.Cap, h.K, h.Emb, h.Sc = capa, k, oi*16+ri, oe.sc()
	res := []*rec{h}
	for _, e := range evs {
		switch e.T {
		case "r":
			f.Reset()
			r := newRec("lr", src)
			r.Cap, r.K, r.Emb, r.Sc = capa, k, h.Emb, oe.sc()
			r.WOff, r.WRtd, r.WObs = observeWin(f, oe, re)
			res = append(res, r)
		case "s":
			t := tbase.Add(time.Duration(rng.Int63n(1 << 40)))
			p := rng.Int63n(1 << 20)
			cTx, sRx, sTx, cRx := stamps(t, oe.a*e.Off+oe.b, re.c*e.Rtd+re.d, p)
			out := f.Do(cTx, sRx, sTx, cRx)
			r := newRec("ls", src)
			r.Cap, r.K, r.Emb, r.Sc = capa, k, h.Emb, oe.sc()
			r.Off, r.Rtd = e.Off, e.Rtd
			var ok bool
			if r.Out, ok = oe.inv(int64(out)); !ok {
				return nil
			}
			r.WOff, r.WRtd, r.WObs = observeWin(f, oe, re)
			res = append(res, r)
		default:
			panic("unknown lucky event " + e.T)
		}
	}
	return res
}

// the seven example inputs of core/client/filter_flash_test.go (TestFilter0..6),
// milliseconds: {cTx, sRx, sTx, cRx}
type exm [4]int64

var (
	exA  = exm{0, 19, 19, 40}
	exB  = exm{0, 21, 21, 40}
	exX  = exm{0, 10, 10, 20}
	ex6a = exm{0, 29, 29, 60}
	ex6d = exm{0, 31, 31, 60}
)
var examples = []struct {
	cap, k int
	in     []exm
}{
	{0, 0, []exm{{0, 10, 10, 20}}},
	{0, 0, []exm{{0, 9, 9, 20}}},
	{0, 0, []exm{{0, 11, 11, 20}}},
	{3, 1, []exm{exX, exA, exA, exA}},
	{5, 1, []exm{exA, exA, exX, exA, exA, exA}},
	{5, 5, []exm{exA, exA, exB, exB, exX}},
	{5, 3, []exm{ex6a, exA, exB, ex6d, exX}},
}

func runExamples(out *vio.Out, st *lstats) {
	const ms = int64(time.Millisecond)
	oe, re := oemb{ms, 0}, remb{ms, 0}
	defer watchLucky()()
	var t0 time.Time
	at := func(d int64) time.Time { return t0.Add(time.Duration(d) * time.Millisecond) }
	for _, ex := range examples {
		var f *client.LuckyPacketFilter
		if ex.cap == 0 {
			f = &client.LuckyPacketFilter{}
		} else {
			f = client.NewLuckyPacketFilter(ex.cap, ex.k)
		}
		h := newRec("lnew", "example")
		h.Cap, h.K, h.Sc, h.Emb = ex.cap, ex.k, 2, 255
		recs := []*rec{h}
		good := true
		for _, m := range ex.in {
			// model values of the sample by integer arithmetic on the inputs
			s2 := (m[1] - m[0]) + (m[2] - m[3]) // 2*offset in ms
			rtd := (m[3] - m[0]) - (m[2] - m[1])
			if s2%2 != 0 {
				good = false
				break
			}
			o := f.Do(at(m[0]), at(m[1]), at(m[2]), at(m[3]))
			r := newRec("ls", "example")
			r.Cap, r.K, r.Sc, r.Emb = ex.cap, ex.k, 2, 255
			r.Off, r.Rtd = s2/2, rtd
			var ok bool
			if r.Out, ok = oe.inv(int64(o)); !ok {
				good = false
				break
			}
			r.WOff, r.WRtd, r.WObs = observeWin(f, oe, re)
			recs = append(recs, r)
		}
		if !good {
			st.inexact++
			continue
		}
		for _, r := range recs {
			out.Emit(r)
		}
		st.runs++
		st.events += len(recs)
	}
}

func randLuckyHistory(rng *rand.Rand) (int, int, []cev) {
	capa, k := 1+rng.Intn(8), 1+rng.Intn(10)
	if rng.Intn(12) == 0 {
		capa, k = 0, 0
	}
	n := 1 + rng.Intn(30)
	distinct := rng.Intn(3) != 0
	perm := rng.Perm(40)
	evs := make([]cev, 0, n)
	for i := 0; i < n; i++ {
		if rng.Intn(9) == 0 {
			evs = append(evs, cev{T: "r"})
			continue
		}
		e := cev{T: "s", Off: int64(rng.Intn(17) - 8)}
		if distinct {
			e.Rtd = int64(1 + perm[i])
		} else {
			e.Rtd = int64(1 + rng.Intn(6))
		}
		evs = append(evs, e)
	}
	return capa, k, evs
}

// ------------------------------------------------------------------- ntimed
type logRec struct {
	n                    int // attributes found
	br                   int64
	lo, hi, loLim, hiLim float64
}

type capHandler struct{ last *logRec }

func (h *capHandler) Enabled(context.Context, slog.Level) bool { return true }
func (h *capHandler) WithAttrs([]slog.Attr) slog.Handler       { return h }
func (h *capHandler) WithGroup(string) slog.Handler            { return h }
func (h *capHandler) Handle(_ context.Context, r slog.Record) error {
	if r.Message != "filtered response" {
		return nil
	}
	lr := &logRec{}
	r.Attrs(func(a slog.Attr) bool {
		switch {
		case a.Key == "branch" && a.Value.Kind() == slog.KindInt64:
			lr.br = a.Value.Int64()
			lr.n++
		case a.Key == "lo [s]" && a.Value.Kind() == slog.KindFloat64:
			lr.lo = a.Value.Float64()
			lr.n++
		case a.Key == "hi [s]" && a.Value.Kind() == slog.KindFloat64:
			lr.hi = a.Value.Float64()
			lr.n++
		case a.Key == "loLim [s]" && a.Value.Kind() == slog.KindFloat64:
			lr.loLim = a.Value.Float64()
			lr.n++
		case a.Key == "hiLim [s]" && a.Value.Kind() == slog.KindFloat64:
			lr.hiLim = a.Value.Float64()
			lr.n++
		}
		return true
	})
	h.last = lr
	return nil
}

type nsample struct {
	cTx, sRx, sTx, cRx time.Time
	lo, hi             int64 // cTx - sRx, cRx - sTx in ns (the Ntimed convention)
	raw                int64 // NTP clock offset in ns = -(lo+hi)/2
}

type nevent struct {
	t        string // s r e
	id       int
	s        nsample
	ifl, ifh bool  // the class the concretiser aimed at
	st       []int // schedule of clock steps inside this Do (see cev.St)
}

const margin = int64(100000) // 100 us

func evenIn(rng *rand.Rand, lo, hi int64) int64 { // even value in [lo, hi]
	v := lo + rng.Int63n(hi-lo+1)
	return v &^ 1
}

// concretiser of the model's sample classes: (fl, fh) = sample below the low
// limit / above the high limit. seg = samples since the last reset.
type concretiser struct {
	rng   *rand.Rand
	scale int64 // magnitude of the first sample of a segment, ns
	seg   []nsample
}

func (c *concretiser) reset() { c.seg = c.seg[:0] }

func mkSample(rng *rand.Rand, lo, hi int64) nsample {
	// lo = -(off + rtd/2), hi = -off + rtd/2  (both even)
	rtd := hi - lo
	off := -(lo + hi) / 2
	if rtd%2 != 0 {
		panic("parity")
	}
	t := tbase.Add(time.Duration(rng.Int63n(1 << 40)))
	// processing time; must keep rtd + p representable, sign of rtd is free
	p := rng.Int63n(1 << 20)
	s := nsample{lo: lo, hi: hi, raw: off}
	s.cTx = t
	s.sRx = t.Add(time.Duration(off + rtd/2))
	s.sTx = s.sRx.Add(time.Duration(p))
	s.cRx = t.Add(time.Duration(rtd + p))
	if int64(s.cTx.Sub(s.sRx)) != lo || int64(s.cRx.Sub(s.sTx)) != hi {
		panic("ntimed concretisation is not exact")
	}
	return s
}

func (c *concretiser) next(fl, fh, repeat bool) nsample {
	rng := c.rng
	var lo, hi int64
	if len(c.seg) == 0 {
		// limits are exactly 0: failLo <=> lo < 0, failHi <=> hi > 0
		m := c.scale
		g1, g2 := evenIn(rng, m/2+2, m+2), evenIn(rng, m/2+2, m+2)
		switch {
		case fl && fh:
			lo, hi = -g1, g2
		case fl && !fh:
			lo, hi = -g1-g2, -evenIn(rng, 0, g1/2)
		case !fl && fh:
			lo, hi = evenIn(rng, 0, g1/2), g1+g2
		default:
			if rng.Intn(2) == 0 {
				lo, hi = 0, 0
			} else {
				lo, hi = g1, -g2 // negative round-trip delay
			}
		}
	} else {
		lmin, lmax, hmin, hmax := c.seg[0].lo, c.seg[0].lo, c.seg[0].hi, c.seg[0].hi
		for _, s := range c.seg {
			lmin, lmax = min(lmin, s.lo), max(lmax, s.lo)
			hmin, hmax = min(hmin, s.hi), max(hmax, s.hi)
		}
		last := c.seg[len(c.seg)-1]
		g1, g2 := evenIn(rng, margin, 3*margin), evenIn(rng, margin, 3*margin)
		// 3*noise <= 1.5*(range of the earlier values); keep everything below 2^60
		extL, extH := 2*(lmax-lmin), 2*(hmax-hmin)
		if extL > 1<<57 || lmin < -(1<<59) {
			extL = 0
		}
		if extH > 1<<57 || hmax > 1<<59 {
			extH = 0
		}
		if fl {
			lo = lmin - extL - g1
		} else if repeat {
			lo = last.lo
		} else {
			lo = lmax + g1
		}
		if fh {
			hi = hmax + extH + g2
		} else if repeat {
			hi = last.hi
		} else {
			hi = hmin - g2
		}
	}
	s := mkSample(rng, lo, hi)
	c.seg = append(c.seg, s)
	return s
}

// inBounds decides on the inputs alone whether the sample certainly lies
// within the learned limits: the running averages alo / ahi are convex
// combinations of the earlier lo / hi values since the last reset and the
// limits are alo - 3*noise <= alo and ahi + 3*noise >= ahi.
func inBounds(prev []nsample, s nsample) bool {
	if len(prev) == 0 {
		return false
	}
	same, nested := true, true
	for _, p := range prev {
		if p.lo != s.lo || p.hi != s.hi {
			same = false
		}
		if !(s.lo >= p.lo+1000 && s.hi <= p.hi-1000) {
			nested = false
		}
	}
	return same || nested
}

func chunks(v int64) []int64 {
	u := uint64(v)
	return []int64{int64(u >> 43), int64((u >> 22) & (1<<21 - 1)), int64(u & (1<<22 - 1))}
}

func observeN(f *client.NtimedFilter) (navg, fep int, ok bool) {
	defer func() {
		if recover() != nil {
			navg, fep, ok = 0, 0, false
		}
	}()
	v := reflect.ValueOf(f).Elem()
	a, e := v.FieldByName("navg"), v.FieldByName("epoch")
	if !a.IsValid() || !e.IsValid() || a.Kind() != reflect.Float64 || e.Kind() != reflect.Uint64 {
		return 0, 0, false
	}
	x := a.Float()
	if x != float64(int(x)) || x < 0 || x > 1000 || e.Uint() > 1<<30 {
		return 0, 0, false
	}
	return int(x), int(e.Uint()), true
}

type nstats struct {
	groups, runs, refs, samples, nolog, realised, judgedInb, judgedCnt int
	branch                                                             [5]int
	// the interleaving dimension
	schedDos, schedSteps int    // Do calls with a schedule / scheduled steps (main runs)
	inDoDos, inDoSteps   int    // Do calls inside which >= 1 step landed / steps that landed inside a Do
	between              int    // steps that landed between two Epoch() reads of one Do
	leftSteps            int    // scheduled steps whose place the Do did not reach (performed after it returned)
	reads                [4]int // Do calls by number of Epoch() reads (0, 1, 2, >= 3)
}

// runNtimed drives a fresh real filter through the events with the clock
// epoch starting at clk0, emitting one record per event.  role "ref": the
// events are samples only and no schedule is applied.
func runNtimed(out *vio.Out, evs []nevent, clk0 uint64, src, role string, scale int, st *nstats) {
	clock.epoch.Store(clk0)
	h := &capHandler{}
	f := client.NewNtimedFilter(slog.New(h))
	r := newNRec("nnew", src)
	r.Clk, r.Scale, r.Role = int(clk0), scale, role
	out.Emit(r)
	// seg: samples of Do calls entered since the last reset / clock step; amb: the
	// sample whose Do was in progress when the last clock step landed (if any)
	var seg, amb []nsample
	step := func() {
		clock.Step(0)
		seg, amb = seg[:0], amb[:0]
		r := newNRec("ne", src)
		r.Clk, r.Role = int(clock.Epoch()), role
		r.Navg, r.FEp, r.NObs = observeN(f)
		out.Emit(r)
	}
	for _, e := range evs {
		switch e.t {
		case "r":
			f.Reset()
			seg, amb = seg[:0], amb[:0]
			r := newNRec("nr", src)
			r.Clk, r.Role = int(clock.Epoch()), role
			r.Navg, r.FEp, r.NObs = observeN(f)
			out.Emit(r)
		case "e":
			step()
		case "s":
			h.last = nil
			s := e.s
			var sched []int
			if role == "main" {
				sched = e.st
			}
			clock.arm(sched)
			o := int64(f.Do(s.cTx, s.sRx, s.sTx, s.cRx))
			q, ks, left := clock.disarm()
			r := newNRec("ns", src)
			r.Clk, r.ID, r.Scale, r.Role = int(clock.Epoch()), e.id, scale, role
			r.Q, r.Ks = q, ks
			r.St = append(r.St, sched...)
			st.reads[min(len(q), 3)]++
			if len(sched) > 0 {
				st.schedDos++
				st.schedSteps += len(sched)
				st.leftSteps += left
			}
			if len(ks) > 0 {
				st.inDoDos++
				st.inDoSteps += len(ks)
				for _, k := range ks {
					if k > 0 && k < len(q) {
						st.between++
					}
				}
			}
			if lr := h.last; lr != nil && lr.n == 5 && lr.br >= 1 && lr.br <= 4 {
				r.LogOK, r.Br = true, int(lr.br)
				r.Fl, r.Fh = lr.lo < lr.loLim, lr.hi > lr.hiLim
				st.branch[r.Br]++
				if r.Fl == e.ifl && r.Fh == e.ifh {
					st.realised++
				}
			} else {
				st.nolog++
			}
			r.Navg, r.FEp, r.NObs = observeN(f)
			// against every sample that may count as seen since (the largest reading):
			// nested in / equal to all of them implies the same for every smaller reading
			prev := append(append([]nsample{}, amb...), seg...)
			r.Inb = inBounds(prev, s)
			d := o - s.raw // |o|, |raw| < 2^62
			if d < 0 {
				d = -d
			}
			r.Err = min(d, 1<<30)
			a := s.raw
			if a < 0 {
				a = -a
			}
			r.Tol = 1 + a/1000000000
			r.O = chunks(o)
			if r.Inb {
				st.judgedInb++
			}
			if len(prev)+1 <= 3 {
				st.judgedCnt++
			}
			if len(ks) > 0 {
				// the clock was stepped while this Do was in progress
				seg, amb = seg[:0], append(amb[:0], s)
			} else {
				seg = append(seg, s)
			}
			st.samples++
			out.Emit(r)
			for i := 0; i < left; i++ {
				step() // the place was not reached: the step lands after Do has returned
			}
		}
	}
	st.runs++
	if role == "ref" {
		st.refs++
	}
}

var nscales = []int64{2000, 2000000, 20000000, 1000000000, 1000 * 1000000000, 1 << 50, 1 << 56}

// runNtimedGroup concretises one behaviour (classes -> timestamps).  First
// the references: for every place where "the samples seen since" can begin
// (after a Reset, after a clock step, at and after a sample whose Do has a
// clock step scheduled inside it) the samples that follow, up to the next
// such place, are run on a fresh filter without any clock step.  Then the
// behaviour itself, with its schedule of clock steps inside Do calls: the
// metamorphic pairs "H1 . reset-or-clock-step . H2" vs "fresh . H2".
func runNtimedGroup(out *vio.Out, evs []cev, clk0 int, src string, rng *rand.Rand, si int, st *nstats) {
	c := &concretiser{rng: rng, scale: nscales[si]}
	nev := make([]nevent, len(evs))
	for i, e := range evs {
		nev[i] = nevent{t: e.T, id: i + 1}
		switch e.T {
		case "s":
			rep := !e.Fl && !e.Fh && e.N == 1 // N = 1 marks "repeat the previous sample" in random histories
			if src == "gen" {
				rep = !e.Fl && !e.Fh && rng.Intn(3) == 0
			}
			// a clock step inside this Do: the classes of this and the following samples
			// are realised relative to the samples since the step (this sample counted on
			// either side) or relative to everything so far (outliers for a filter that
			// missed the step)
			mode := -1
			if len(e.St) > 0 {
				mode = rng.Intn(3)
			}
			if mode == 0 {
				c.reset()
			}
			nev[i].s = c.next(e.Fl, e.Fh, rep)
			nev[i].ifl, nev[i].ifh = e.Fl, e.Fh
			nev[i].st = e.St
			if mode == 1 {
				c.reset()
			}
		case "r", "e":
			c.reset()
		default:
			panic("unknown ntimed event " + e.T)
		}
	}
	out.Emit(newNRec("ngroup", src))
	st.groups++
	// references
	starts := make([]bool, len(nev)+1)
	for i, e := range nev {
		if e.t != "s" {
			starts[i+1] = true
		} else if len(e.st) > 0 {
			starts[i], starts[i+1] = true, true
		}
	}
	for a := 0; a < len(nev); a++ {
		if !starts[a] || nev[a].t != "s" {
			continue
		}
		b := a + 1
		for b < len(nev) && nev[b].t == "s" {
			b++
			if len(nev[b-1].st) > 0 {
				break // a reading of the samples since ends with the sample whose Do the next step lands in
			}
		}
		runNtimed(out, nev[a:b], uint64(rng.Intn(3))*uint64(1+rng.Intn(1000)), src, "ref", si, st)
	}
	// the behaviour
	runNtimed(out, nev, uint64(clk0), src, "main", si, st)
}

func randNtimedHistory(rng *rand.Rand) []cev {
	n := 4 + rng.Intn(50)
	evs := make([]cev, 0, n)
	mode := rng.Intn(3)
	for i := 0; i < n; i++ {
		switch x := rng.Intn(40); {
		case x == 0:
			evs = append(evs, cev{T: "r"})
			continue
		case x == 1:
			evs = append(evs, cev{T: "e"})
			continue
		}
		e := cev{T: "s"}
		if rng.Intn(10) == 0 {
			// clock steps inside this Do: before the first read, between reads, after the last
			e.St = []int{rng.Intn(4)}
			if rng.Intn(4) == 0 {
				e.St = append(e.St, e.St[0]+1+rng.Intn(2))
			}
		}
		switch mode {
		case 0: // mostly quiet: nested / repeated samples, rare outliers
			if rng.Intn(8) == 0 {
				e.Fl, e.Fh = rng.Intn(2) == 0, rng.Intn(2) == 0
			} else if rng.Intn(2) == 0 {
				e.N = 1
			}
		case 1: // identical repetition, then outliers
			if i%12 < 8 {
				e.N = 1
			} else {
				e.Fl, e.Fh = rng.Intn(2) == 0, rng.Intn(2) == 0
			}
		default:
			e.Fl, e.Fh = rng.Intn(2) == 0, rng.Intn(2) == 0
		}
		evs = append(evs, e)
	}
	return evs
}

// --------------------------------------------------------------------- main
func TestC17(t *testing.T) {
	cases := vio.ReadCases[tcase](t)
	out := vio.Create(t)
	defer out.Close()
	rng := vio.Rand()
	var ls lstats
	var ns nstats

	// the repository's seven example inputs first
	runExamples(out, &ls)

	const nemb = 2
	li, ni := 0, 0
	for _, c := range cases {
		switch c.M {
		case "lucky":
			// a = 1 (real truncation) always, plus rotating others
			ois := []int{li % 3}
			for k := 1; k < nemb; k++ {
				if !vio.Thorough() && li%3 != 0 {
					break // quick: a second embedding for every third behaviour
				}
				ois = append(ois, 3+(li+k*5)%(len(oembs)-3))
			}
			for _, oi := range ois {
				ri := (li + oi) % len(rembs)
				rs := runLucky(c.Cap, c.K, c.Ev, oi, ri, "gen", rng)
				if rs == nil {
					ls.inexact++
					continue
				}
				for _, r := range rs {
					out.Emit(r)
				}
				ls.runs++
				ls.events += len(rs)
			}
			li++
		case "ntimed":
			runNtimedGroup(out, c.Ev, c.Clk0, "gen", rng, ni%len(nscales), &ns)
			ni++
		default:
			t.Fatalf("unknown machine %q", c.M)
		}
	}

	// code -> spec: seeded random histories (longer windows, ties, saturation of navg)
	nl, nn := 300, 60
	if vio.Thorough() {
		nl, nn = 6000, 1500
	}
	for i := 0; i < nl; i++ {
		capa, k, evs := randLuckyHistory(rng)
		oi := rng.Intn(len(oembs))
		rs := runLucky(capa, k, evs, oi, rng.Intn(len(rembs)), "rand", rng)
		if rs == nil {
			ls.inexact++
			continue
		}
		for _, r := range rs {
			out.Emit(r)
		}
		ls.runs++
		ls.events += len(rs)
	}
	for i := 0; i < nn; i++ {
		runNtimedGroup(out, randNtimedHistory(rng), rng.Intn(2), "rand", rng, rng.Intn(len(nscales)), &ns)
	}

	t.Logf("C17STATS lucky_runs=%d lucky_events=%d lucky_inexact=%d ntimed_groups=%d ntimed_runs=%d ntimed_refs=%d ntimed_samples=%d nolog=%d realised=%d judged_inb=%d judged_cnt=%d b1=%d b2=%d b3=%d b4=%d"+
		" sched_dos=%d sched_steps=%d indo_dos=%d indo_steps=%d between_reads=%d after_return=%d reads0=%d reads1=%d reads2=%d reads3p=%d lucky_clock_calls=%d",
		ls.runs, ls.events, ls.inexact, ns.groups, ns.runs, ns.refs, ns.samples, ns.nolog, ns.realised, ns.judgedInb, ns.judgedCnt,
		ns.branch[1], ns.branch[2], ns.branch[3], ns.branch[4],
		ns.schedDos, ns.schedSteps, ns.inDoDos, ns.inDoSteps, ns.between, ns.leftSteps,
		ns.reads[0], ns.reads[1], ns.reads[2], ns.reads[3], luckyClockCalls)
	if ls.runs == 0 || ns.samples == 0 {
		t.Fatal("no record produced")
	}
}
