------------------------------ MODULE Multipath ------------------------------
(***************************************************************************)
(* SCION multipath measurement rounds and the path table they draw from:   *)
(*   core/client/client.go       MeasureClockOffsetSCION,                  *)
(*                               collectMeasurements                       *)
(*   core/client/client_scion.go InterleavedModePath, ResetInterleavedMode *)
(*   base/crypto/crypto.go       Sample, RandIntn (randInt31)              *)
(*   core/measurements           FaultTolerantMidpoint (via Midpoint.tla)  *)
(*   net/scion/pather.go         Pather.Paths, update (the path table)     *)
(*   timeservice.go              ntpReferenceClockSCION.MeasureClockOffset *)
(*                                                                         *)
(* A behaviour is a sequence of rounds that share one path table:          *)
(*   AddPath/PathsDone   update(): the daemon's answer replaces the table  *)
(*                       (Refresh starts the next one, between rounds)     *)
(*   AddClient           the clients of the round and their interleaved-   *)
(*                       mode state (any; several reference clocks share   *)
(*                       the table of their destination)                   *)
(*   Call                ps := pather.Paths(ia): the round's working slice *)
(*                       is whatever the table holds now                   *)
(* followed by the statements of MeasureClockOffsetSCION, one action each: *)
(*   Sticky/ResetClient  first loop, one client per step, swap-remove      *)
(*   SampleCopy/Draw     crypto.Sample with its pick(dst, src) callback,   *)
(*                       one RandIntn result per step (nondeterministic)   *)
(*   NoPath / AssignRest the errNoPath test and the second loop            *)
(*   Launch              one goroutine per assigned path                   *)
(*   Complete(c, ok)     one receive of collectMeasurements' select loop   *)
(*   Cancel              the ctx.Done() branch of that loop                *)
(*   Return              FaultTolerantMidpoint over ms                     *)
(*   NextRound           the next call of MeasureClockOffset               *)
(*                                                                         *)
(* Paths are identified by their index 1..Len(offered) in the daemon's     *)
(* answer at the last refresh (fingerprints may repeat, indices do not);   *)
(* the table and the working slice hold such indices.  The function        *)
(* selects in place (swap-remove, Sample's picks): with PrivateSlice (the  *)
(* code: Pather.Paths returns a copy) these writes stay in the round, with *)
(* PrivateSlice = FALSE they land in the table's array and the next round  *)
(* starts from them (Multipath_alias.cfg: the property section fails).     *)
(* Clients are 1..nc in slice order.  Offsets are small even integers (one *)
(* unit = half a second in the harness), so every midpoint is exact.       *)
(* Property C15 is the section "Property section" below.                   *)
(***************************************************************************)
EXTENDS Integers, Sequences, FiniteSets, TLC

CONSTANTS MaxClients,      \* clients per round 0..MaxClients
          MaxPaths,        \* offered paths per round 0..MaxPaths
          ThetaVecs,       \* set of sequences (length >= MaxPaths): clock offset behind path index p
          AllCompletions,  \* TRUE: every completion order/outcome and Cancel; FALSE: all succeed, client order
          FW,              \* word size handed to Midpoint.tla (offsets lie well inside 2^(FW-2))
          MaxRounds,       \* rounds per behaviour
          MaxRefresh,      \* refreshes of the path table per behaviour (the first one fills it)
          PrivateSlice,    \* TRUE (the code): a round works on a copy of the table; FALSE: on the table's array
          KeepHist         \* TRUE: remember the finished rounds (generator of multi-round behaviours)

MP == INSTANCE Midpoint WITH W <- FW, Vals <- {}, MaxN <- 0, s <- << >>

Gone  == MaxPaths + 1      \* a fingerprint that is never offered (the previous path was withdrawn)
Fresh == 0                 \* InterleavedModePath() = "": not in interleaved mode

VARIABLES
  pc,        \* control state
  offered,   \* Seq(fingerprint): the daemon's answer at the last refresh; path index p has fingerprint offered[p]
  table,     \* Seq(path index): p.paths[dst], what Pather.Paths hands out
  round,     \* number of the current round (1..MaxRounds)
  nref,      \* refreshes so far
  hist,      \* history: refreshes and finished rounds (only with KeepHist)
  theta,     \* Seq(Int): clock offset of the server as seen over path index p
  nc,        \* number of clients
  mode0,     \* Seq: per client Fresh or the fingerprint of its previous exchange, at call time
  mode,      \* the same, current (ResetInterleavedMode sets Fresh)
  ps,        \* Seq(path index): the working slice ps (swap-remove, then Sample's picks)
  sps,       \* Seq(path index or 0): sps, 0 = nil
  nsps,
  ci,        \* loop counter: client index (first loop), i of Sample's second loop (0-based)
  k,         \* Sample's k after clamping
  rng,       \* the integers returned by RandIntn(i+1), i = k..n-1, in call order
  picks,     \* history: pick(dst, src) calls, 0-based as in the code
  resets,    \* per client: ResetInterleavedMode calls
  fresets,   \* per client: Filter.Reset calls
  launched,  \* set of clients with a measurement goroutine
  outcome,   \* per client "none" | "pending" | "ok" | "fail" | "late"
  order,     \* history: <<client, ok>> in the order collectMeasurements received them
  ms,        \* Seq(Int): ms[0..j) of collectMeasurements (successful results in arrival order)
  cancelled, \* the ctx.Done() branch was taken
  ret        \* NoRet | [err |-> "none" | "nopath", off |-> Int]

sess == <<round, nref, hist>>
vars == <<pc, offered, theta, nc, mode0, mode, ps, sps, nsps, ci, k, rng, picks, resets, fresets,
          launched, outcome, order, ms, cancelled, ret, table, sess>>

NoRet == [err |-> "running", off |-> 0]
Clients == 1 .. nc
Range(f) == {f[x] : x \in DOMAIN f}
Min2(a, b) == IF a <= b THEN a ELSE b
Zeros(n) == [x \in 1 .. n |-> 0]

(***************************************************************************)
(* base/crypto/crypto.go                                                   *)
(***************************************************************************)
\* randInt31 at word size w (code: w = 32, n <= 2^31 - 1).
\*   t := uint32(-n) % uint32(n)        = (2^w - n) mod n = 2^w mod n
\*   loop: x := next word; if x > t break      (a word x <= t is rejected)
\*   return x % n
\* n < 2 returns 0 without reading a word.
RandT(w, n)       == (2 ^ w) % n
RandAccepts(w, n, x) == x > RandT(w, n)
RandResult(n, x)  == x % n
RandAccepted(w, n) == {x \in 0 .. (2 ^ w - 1) : RandAccepts(w, n, x)}
RandCount(w, n, r) == Cardinality({x \in RandAccepted(w, n) : RandResult(n, x) = r})

\* the same two functions on a 2h-bit word given as two h-bit limbs (hi, lo);
\* at h = 16 this is the code's 32-bit word in TLC's 32-bit integers (n < 2^15)
LimbT(h, n)          == (((2 ^ h) % n) * ((2 ^ h) % n)) % n
LimbAccepts(h, n, hi, lo) == hi > 0 \/ lo > LimbT(h, n)
LimbResult(h, n, hi, lo)  == (((hi % n) * ((2 ^ h) % n)) + (lo % n)) % n

\* Sample(ctx, k, n, pick): k is clamped to n; pick(i, i) for i < k; then for
\* i = k..n-1: j := RandIntn(i+1); if j < k { pick(j, i) }.  With the callback
\* of MeasureClockOffsetSCION, pick(dst, src) is ps[dst] = ps[src].
\* (i, j 0-based as in the code; TLA+ sequences are 1-based.)
SampleK(kk, n) == Min2(kk, n)
Pick(psv, dst, src) == [psv EXCEPT ![dst + 1] = psv[src + 1]]
SampleStep(psv, kk, i, j) == IF j < kk THEN Pick(psv, j, i) ELSE psv

\* the whole second loop for a given sequence r of RandIntn results
RECURSIVE SampleRun(_, _, _, _)
SampleRun(psv, kk, i, r) ==
  IF i = Len(psv) THEN psv
  ELSE SampleRun(SampleStep(psv, kk, i, r[i - kk + 1]), kk, i + 1, r)

\* all result sequences RandIntn can deliver for Sample(kk, n) (kk <= n)
RngSeqs(kk, n) == {r \in [1 .. (n - kk) -> 0 .. (n - 1)] : \A d \in 1 .. (n - kk) : r[d] <= kk + d - 1}

(***************************************************************************)
(* Input of the round (spread over several steps for TLC's workers).       *)
(* Fingerprints are introduced in order of first occurrence (any other     *)
(* naming is a renaming of these).                                         *)
(***************************************************************************)
Init ==
  /\ pc = "paths" /\ offered = << >> /\ theta = << >> /\ nc = 0
  /\ mode0 = << >> /\ mode = << >> /\ ps = << >> /\ sps = << >> /\ nsps = 0
  /\ ci = 0 /\ k = 0 /\ rng = << >> /\ picks = << >>
  /\ resets = << >> /\ fresets = << >> /\ launched = {} /\ outcome = << >>
  /\ order = << >> /\ ms = << >> /\ cancelled = FALSE /\ ret = NoRet
  /\ table = << >> /\ round = 1 /\ nref = 1 /\ hist = << >>

MaxFpOf(o) == IF o = << >> THEN 0 ELSE MP!Max(Range(o))

AddPath ==
  /\ pc = "paths" /\ Len(offered) < MaxPaths
  /\ \E f \in 1 .. (MaxFpOf(offered) + 1) : offered' = Append(offered, f)
  /\ UNCHANGED <<pc, theta, nc, mode0, mode, ps, sps, nsps, ci, k, rng, picks, resets, fresets,
                 launched, outcome, order, ms, cancelled, ret, table, sess>>

\* update(): p.paths = paths (the table is replaced as a whole, under the mutex)
Identity(n) == [p \in 1 .. n |-> p]
PathsDone ==
  /\ pc = "paths" /\ pc' = "clients"
  /\ table' = Identity(Len(offered))
  /\ hist' = IF KeepHist THEN Append(hist, [ev |-> "refresh", offered |-> offered]) ELSE hist
  /\ UNCHANGED <<offered, theta, nc, mode0, mode, ps, sps, nsps, ci, k, rng, picks, resets, fresets,
                 launched, outcome, order, ms, cancelled, ret, round, nref>>

AddClient ==
  /\ pc = "clients" /\ nc < MaxClients
  /\ \E m \in {Fresh, Gone} \cup Range(offered) :
       /\ mode0' = Append(mode0, m)
       /\ mode' = Append(mode, m)
  /\ nc' = nc + 1
  /\ UNCHANGED <<pc, offered, theta, ps, sps, nsps, ci, k, rng, picks, resets, fresets,
                 launched, outcome, order, ms, cancelled, ret, table, sess>>

\* timeservice.go: ps = c.pather.Paths(c.remoteAddr.IA), handed to MeasureClockOffsetSCION;
\* entry of MeasureClockOffsetSCION: sps := make([]snet.Path, len(ntpcs)); nsps := 0
Call ==
  /\ pc = "clients" /\ pc' = "sticky"
  /\ \E tv \in ThetaVecs : theta' = SubSeq(tv, 1, Len(offered))
  /\ ps' = table
  /\ sps' = Zeros(nc) /\ nsps' = 0 /\ ci' = 1
  /\ resets' = Zeros(nc) /\ fresets' = Zeros(nc)
  /\ outcome' = [c \in 1 .. nc |-> "none"]
  /\ UNCHANGED <<offered, nc, mode0, mode, k, rng, picks, launched, order, ms, cancelled, ret, table, sess>>

(***************************************************************************)
(* First loop: for i, c := range ntpcs                                     *)
(***************************************************************************)
\* the first j with Fingerprint(ps[j]) = pf, or 0
FirstMatch(psv, pf) ==
  LET J == {j \in DOMAIN psv : offered[psv[j]] = pf}
  IN IF J = {} THEN 0 ELSE MP!Min(J)

\* ps[j] = ps[len(ps)-1]; ps = ps[:len(ps)-1]
SwapRemove(psv, j) == SubSeq([psv EXCEPT ![j] = psv[Len(psv)]], 1, Len(psv) - 1)

\* The working slice is a prefix view ps[:len] of one array.  When that array
\* is the table's own (PrivateSlice = FALSE), every element write is a write
\* to the table; the truncation changes the view only.
Written(tb, newps) ==
  IF PrivateSlice THEN tb
  ELSE [i \in DOMAIN tb |-> IF i <= Len(newps) THEN newps[i] ELSE tb[i]]

Sticky ==
  /\ pc = "sticky" /\ ci <= nc
  /\ mode[ci] # Fresh
  /\ LET j == FirstMatch(ps, mode[ci]) IN
     /\ j # 0
     /\ sps' = [sps EXCEPT ![ci] = ps[j]]
     /\ ps' = SwapRemove(ps, j)
     /\ table' = Written(table, SwapRemove(ps, j))
  /\ nsps' = nsps + 1
  /\ ci' = ci + 1
  /\ UNCHANGED <<pc, offered, theta, nc, mode0, mode, k, rng, picks, resets, fresets,
                 launched, outcome, order, ms, cancelled, ret, sess>>

\* if sps[i] == nil { c.ResetInterleavedMode(); if c.Filter != nil { c.Filter.Reset() } }
ResetClient ==
  /\ pc = "sticky" /\ ci <= nc
  /\ mode[ci] = Fresh \/ FirstMatch(ps, mode[ci]) = 0
  /\ mode' = [mode EXCEPT ![ci] = Fresh]
  /\ resets' = [resets EXCEPT ![ci] = @ + 1]
  /\ fresets' = [fresets EXCEPT ![ci] = @ + 1]
  /\ ci' = ci + 1
  /\ UNCHANGED <<pc, offered, theta, nc, mode0, ps, sps, nsps, k, rng, picks,
                 launched, outcome, order, ms, cancelled, ret, table, sess>>

(***************************************************************************)
(* n, err := crypto.Sample(ctx, len(sps)-nsps, len(ps), pick)              *)
(***************************************************************************)
SampleCopy ==
  /\ pc = "sticky" /\ ci = nc + 1
  /\ LET kk == SampleK(nc - nsps, Len(ps)) IN
     /\ k' = kk
     /\ ci' = kk                      \* i of the second loop starts at k
     /\ picks' = [i \in 1 .. kk |-> <<i - 1, i - 1>>]
  /\ pc' = "sample"
  /\ UNCHANGED <<offered, theta, nc, mode0, mode, ps, sps, nsps, rng, resets, fresets,
                 launched, outcome, order, ms, cancelled, ret, table, sess>>

Draw ==
  /\ pc = "sample" /\ ci # Len(ps)
  /\ \E j \in 0 .. ci :               \* j, err := RandIntn(ctx, i+1)
       /\ rng' = Append(rng, j)
       /\ ps' = SampleStep(ps, k, ci, j)
       /\ table' = Written(table, SampleStep(ps, k, ci, j))
       /\ picks' = IF j < k THEN Append(picks, <<j, ci>>) ELSE picks
  /\ ci' = ci + 1
  /\ UNCHANGED <<pc, offered, theta, nc, mode0, mode, sps, nsps, k, resets, fresets,
                 launched, outcome, order, ms, cancelled, ret, sess>>

\* if nsps+n == 0 { return errNoPath }
NoPath ==
  /\ pc = "sample" /\ ci = Len(ps)
  /\ nsps + k = 0
  /\ ret' = [err |-> "nopath", off |-> 0]
  /\ pc' = "done"
  /\ UNCHANGED <<offered, theta, nc, mode0, mode, ps, sps, nsps, ci, k, rng, picks, resets, fresets,
                 launched, outcome, order, ms, cancelled, table, sess>>

\* for i, j := 0, 0; j != n; j++ { for sps[i] != nil { i++ }; sps[i] = ps[j]; nsps++ }
FreeClients(sp) ==
  LET F == {c \in DOMAIN sp : sp[c] = 0}
  IN [x \in 1 .. Cardinality(F) |-> CHOOSE c \in F : Cardinality({d \in F : d < c}) = x - 1]
AssignRest ==
  /\ pc = "sample" /\ ci = Len(ps)
  /\ nsps + k # 0
  /\ LET fc == FreeClients(sps) IN
     sps' = [c \in DOMAIN sps |->
               IF \E j \in 1 .. k : fc[j] = c THEN ps[CHOOSE j \in 1 .. k : fc[j] = c] ELSE sps[c]]
  /\ nsps' = nsps + k
  /\ pc' = "launch"
  /\ UNCHANGED <<offered, theta, nc, mode0, mode, ps, ci, k, rng, picks, resets, fresets,
                 launched, outcome, order, ms, cancelled, ret, table, sess>>

(***************************************************************************)
(* ms := make([]Measurement, nsps); one goroutine per client with a path;  *)
(* collectMeasurements(ctx, ms, msc); FaultTolerantMidpoint(ms)            *)
(***************************************************************************)
Launch ==
  /\ pc = "launch"
  /\ launched' = {c \in Clients : sps[c] # 0}
  /\ outcome' = [c \in Clients |-> IF sps[c] # 0 THEN "pending" ELSE "none"]
  /\ pc' = "collect"
  /\ UNCHANGED <<offered, theta, nc, mode0, mode, ps, sps, nsps, ci, k, rng, picks, resets, fresets,
                 order, ms, cancelled, ret, table, sess>>

\* case m := <-msc: if m.Error == nil { ms[j] = m; j++ }; i++
\* (a successful measurement over path p yields the offset theta[p])
Pending == {c \in launched : outcome[c] = "pending"}
Complete(c, ok) ==
  /\ pc = "collect" /\ ~cancelled
  /\ c \in Pending
  /\ AllCompletions \/ (ok /\ c = MP!Min(Pending))
  /\ outcome' = [outcome EXCEPT ![c] = IF ok THEN "ok" ELSE "fail"]
  /\ ms' = IF ok THEN Append(ms, theta[sps[c]]) ELSE ms
  /\ order' = Append(order, <<c, ok>>)
  /\ UNCHANGED <<pc, offered, theta, nc, mode0, mode, ps, sps, nsps, ci, k, rng, picks, resets, fresets,
                 launched, cancelled, ret, table, sess>>

\* case <-ctx.Done(): break loop   (the remaining results are drained, never used)
Cancel ==
  /\ pc = "collect" /\ ~cancelled /\ AllCompletions
  /\ Pending # {}
  /\ cancelled' = TRUE
  /\ outcome' = [c \in Clients |-> IF outcome[c] = "pending" THEN "late" ELSE outcome[c]]
  /\ UNCHANGED <<pc, offered, theta, nc, mode0, mode, ps, sps, nsps, ci, k, rng, picks, resets, fresets,
                 launched, order, ms, ret, table, sess>>

\* m := FaultTolerantMidpoint(ms); return m.Timestamp, m.Offset, m.Error
\* ms has nsps entries; the entries collectMeasurements did not fill are zero values
Padded == ms \o Zeros(nsps - Len(ms))
Return ==
  /\ pc = "collect"
  /\ cancelled \/ Pending = {}
  /\ ret' = [err |-> "none", off |-> MP!FTM(Padded)]
  /\ pc' = "done"
  /\ UNCHANGED <<offered, theta, nc, mode0, mode, ps, sps, nsps, ci, k, rng, picks, resets, fresets,
                 launched, outcome, order, ms, cancelled, table, sess>>

(***************************************************************************)
(* Between rounds.  The next call of MeasureClockOffset (by this or by     *)
(* another reference clock of the same destination) finds the table as it  *)
(* is; the refresher (StartPather's ticker goroutine) may have replaced it *)
(* in between.  What a finished round leaves behind is forgotten, except   *)
(* the table.                                                              *)
(***************************************************************************)
\* the round selected in place: its working slice is no longer a prefix of the table it started from
Dirty == \E i \in DOMAIN ps : ps[i] # i
Summary ==
  [ev |-> "round", nc |-> nc, offered |-> offered, mode |-> mode0, theta |-> theta, rng |-> rng, k |-> k,
   asg |-> sps, picks |-> picks, resets |-> resets, fresets |-> fresets, order |-> order,
   cancelled |-> cancelled, outcome |-> outcome, err |-> ret.err, off |-> ret.off, dirty |-> Dirty]

EndRound(nextpc) ==
  /\ pc = "done" /\ round < MaxRounds
  /\ round' = round + 1
  /\ hist' = IF KeepHist THEN Append(hist, Summary) ELSE hist
  /\ pc' = nextpc
  /\ theta' = << >> /\ nc' = 0 /\ mode0' = << >> /\ mode' = << >> /\ ps' = << >> /\ sps' = << >> /\ nsps' = 0
  /\ ci' = 0 /\ k' = 0 /\ rng' = << >> /\ picks' = << >> /\ resets' = << >> /\ fresets' = << >>
  /\ launched' = {} /\ outcome' = << >> /\ order' = << >> /\ ms' = << >> /\ cancelled' = FALSE /\ ret' = NoRet

NextRound == EndRound("clients") /\ UNCHANGED <<offered, table, nref>>

\* update() asks the daemon again; its answer is built by AddPath and installed by PathsDone
Refresh ==
  /\ nref < MaxRefresh
  /\ EndRound("paths")
  /\ offered' = << >> /\ nref' = nref + 1
  /\ UNCHANGED table

Next ==
  \/ AddPath \/ PathsDone \/ AddClient \/ Call
  \/ Sticky \/ ResetClient \/ SampleCopy \/ Draw \/ NoPath \/ AssignRest
  \/ Launch \/ (\E c \in Clients, ok \in BOOLEAN : Complete(c, ok)) \/ Cancel \/ Return
  \/ NextRound \/ Refresh

Spec == Init /\ [][Next]_vars

(***************************************************************************)
(* Property section (C15).  Everything here is phrased over the input of   *)
(* the round (offered: the paths the daemon offered at the last refresh of *)
(* the table the round draws from; mode0, theta), which of these paths     *)
(* each participating client                                               *)
(* probed (asg), which clients were reset (rst / frst), which clients'     *)
(* measurements succeeded (okc) and what the round returned; the same      *)
(* operators are evaluated on recorded rounds by MultipathTrace.tla.       *)
(***************************************************************************)
\* participating clients: those that probe a path
Part(asg) == {c \in DOMAIN asg : asg[c] # 0}

\* every participating client probes over a different path (path indices)
DistinctP(asg) == \A c, d \in Part(asg) : c # d => asg[c] # asg[d]

\* client c kept the path of its previous exchange
Kept(off, m0, asg, c) == m0[c] # Fresh /\ asg[c] # 0 /\ off[asg[c]] = m0[c]

\* a client in interleaved mode keeps its previous path while that path is
\* still offered: of the clients whose previous exchange used fingerprint f,
\* as many keep a path with fingerprint f as there are such paths (each path
\* serves one client only)
StickyKeptP(off, m0, asg) ==
  \A f \in Range(off) \cup (Range(m0) \ {Fresh}) :
    Cardinality({c \in DOMAIN m0 : m0[c] = f /\ Kept(off, m0, asg, c)})
      = Min2(Cardinality({c \in DOMAIN m0 : m0[c] = f}), Cardinality({p \in DOMAIN off : off[p] = f}))

\* ... and is otherwise reset together with its filter
ElseResetP(off, m0, asg, rst, frst) ==
  \A c \in DOMAIN m0 : (m0[c] # Fresh /\ ~Kept(off, m0, asg, c)) => (rst[c] /\ frst[c] >= 1)

\* no more clients take part than there are paths (and no fewer than possible)
ParticipantsP(off, m0, asg) == Cardinality(Part(asg)) = Min2(Len(m0), Len(off))

\* the reported offset is the fault-tolerant midpoint over one value per
\* participating client (the measured offset, the zero value if the
\* measurement did not deliver one); no error is reported then
ValuesOf(th, asg, okc) ==
  LET P == Part(asg)
      sq == [x \in 1 .. Cardinality(P) |-> CHOOSE c \in P : Cardinality({d \in P : d < c}) = x - 1]
  IN [x \in DOMAIN sq |-> IF sq[x] \in okc THEN th[asg[sq[x]]] ELSE 0]
FtmP(th, asg, okc, r) ==
  Part(asg) # {} => (r.err = "none" /\ r.off = MP!FTM(ValuesOf(th, asg, okc)))

\* the round reports an error when no path is available
NoPathErrorP(off, r) == Len(off) = 0 => r.err # "none"

\* --- as invariants of this specification
Assigned == pc \in {"launch", "collect", "done"} /\ ret.err # "nopath"
OkSet    == {c \in Clients : outcome[c] = "ok"}
Rst      == [c \in Clients |-> resets[c] >= 1 /\ mode[c] = Fresh]

Distinct        == Assigned => DistinctP(sps)
StickyKept      == Assigned => StickyKeptP(offered, mode0, sps)
ElseResetWithFilter == Assigned => ElseResetP(offered, mode0, sps, Rst, fresets)
Participants    == Assigned => ParticipantsP(offered, mode0, sps)
LaunchedAreParticipants == pc \in {"collect", "done"} /\ ret.err # "nopath" => launched = Part(sps)
OneValuePerParticipant ==
  (pc = "done" /\ ret.err # "nopath") => (Len(Padded) = Cardinality(Part(sps)) /\ FtmP(theta, sps, OkSet, ret))
NoPathError     == pc = "done" => (NoPathErrorP(offered, ret) /\ (ret.err = "nopath" => Part(sps) = {}))

\* implementation facts the harness relies on (not part of C15)
TypeOK ==
  /\ pc \in {"paths", "clients", "sticky", "sample", "launch", "collect", "done"}
  /\ pc # "paths" => Len(ps) <= Len(offered)
  /\ pc # "paths" => \A x \in DOMAIN ps : ps[x] \in DOMAIN offered
  /\ pc \in {"sticky"} => (\A x, y \in DOMAIN ps : x # y => ps[x] # ps[y])
  /\ round \in 1 .. MaxRounds /\ nref \in 1 .. MaxRefresh
\* between refreshes every round starts from the daemon's answer: no round leaves anything in the table
TableIntact == pc # "paths" => table = Identity(Len(offered))
ResetExactlyNonSticky ==
  Assigned => \A c \in Clients :
    /\ resets[c] = (IF mode[c] # Fresh THEN 0 ELSE 1) /\ fresets[c] = resets[c]
    /\ mode[c] # Fresh => Kept(offered, mode0, sps, c)

(***************************************************************************)
(* Uniformity (counting statements; checked by TLC as ASSUMEs of           *)
(* MultipathMC for ranges of n, k, W).                                     *)
(***************************************************************************)
RECURSIVE Fact(_)
Fact(n) == IF n <= 1 THEN 1 ELSE n * Fact(n - 1)
KSubsets(S, kk) == {T \in SUBSET S : Cardinality(T) = kk}

\* Every result sequence of RngSeqs(kk, n) has the same weight
\* prod_{i=kk}^{n-1} 1/(i+1) when RandIntn is uniform.  Then the selection is
\* uniform iff every kk-subset of the n candidates is produced by the same
\* number of sequences, which must be |RngSeqs| / C(n, kk) = (n - kk)!.
UniformSubsets(n, kk) ==
  LET id == [p \in 1 .. n |-> p]
      chosen(r) == Range(SubSeq(SampleRun(id, kk, kk, r), 1, kk))
  IN /\ Cardinality(RngSeqs(kk, n)) * Fact(kk) = Fact(n)
     /\ \A S \in KSubsets(1 .. n, kk) :
          Cardinality({r \in RngSeqs(kk, n) : chosen(r) = S}) = Fact(n - kk)

\* RandIntn at word size w, 2 <= n < 2^(w-1) (the code: n <= MaxInt32 at w = 32):
\* every residue is produced by q or q-1 accepted words (q = (2^w - t)/n), the
\* only short one is residue t - the rejected word x = t itself.  The distance
\* of any residue's probability from 1/n is below 1/(accepted words) <= 2^-(w-1).
RandUniform(w, n) ==
  LET t == RandT(w, n)
      q == (2 ^ w - t) \div n
      acc == RandAccepted(w, n)
      A == Cardinality(acc)
      cnt == [r \in 0 .. (n - 1) |-> Cardinality({x \in acc : RandResult(n, x) = r})]
  IN /\ (2 ^ w - t) % n = 0
     /\ A = n * q - 1
     /\ \A r \in 0 .. (n - 1) : cnt[r] = RandCount(w, n, r) \/ w > 6     \* (same count, cheaper form)
     /\ \A r \in 0 .. (n - 1) : cnt[r] = (IF r = t THEN q - 1 ELSE q)
     /\ \A r \in 0 .. (n - 1) :                       \* | count/A - 1/n | * (n * A) < n  <=>  < 1/A
          LET d == n * cnt[r] - A IN -n < d /\ d < n
     /\ 2 * A >= 2 ^ w - 2                            \* A >= 2^(w-1) - 1
\* the limb form agrees with the direct one (checked at h = 2..4, used at h = 16)
LimbEquiv(h, n) ==
  /\ LimbT(h, n) = RandT(2 * h, n)
  /\ \A hi, lo \in 0 .. (2 ^ h - 1) :
       /\ LimbAccepts(h, n, hi, lo) = RandAccepts(2 * h, n, hi * 2 ^ h + lo)
       /\ LimbResult(h, n, hi, lo) = RandResult(n, hi * 2 ^ h + lo)
=============================================================================
