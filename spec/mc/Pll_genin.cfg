SPECIFICATION Spec
CONSTANTS
  U = 1000
  OneMs = 2
  OffMax = 20
  PB = 500000
  SatSecs = 2001
  Advs <- AdvsSmall
  Offs <- OffsIn
  Weights <- WeightsIn
  AllowSat = TRUE
  BumpDen = 2
  InitClkEpochs = {0, 1}
  MaxLen = 5
  RawMags <- RawMagsOne
  StepUsesDoubleInv = FALSE
  DurationWraps = FALSE
  Jumps <- JumpsSmall
  StepAt = {1, 2, 3}
  MaxInDo = 1
  ReadsNowFirst = FALSE
  StepDen = 4
VIEW ViewGen
INVARIANTS Emit
