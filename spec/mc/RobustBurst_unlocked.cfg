SPECIFICATION Spec
CONSTANTS
  NLoops = 2
  NSrcs = 2
  MaxSend = 2
  LookupLocked = FALSE
  Run = TRUE
INVARIANTS TypeOK NeverDead
