"""C02 - fault-tolerant midpoint and median stay within the correct values."""
import random, re
from concurrent.futures import ThreadPoolExecutor

import vlib

SELFTESTS = [("MidpointConc_shared.cfg", "CContain"), ("MidpointConc_sharedrace.cfg", "CRaceFree"),
             ("MidpointConc_sharedpanic.cfg", "CReturns"), ("MidpointConc_overlap.cfg", "NoOverlap")]
UNDER_TEST = ("example.com/scion-time/base/timemath.", "example.com/scion-time/core/measurements.")


class _Jobs:
    """Independent TLC jobs run side by side, each in a private copy of the spec
    directory, in the order given; tr[key] waits for that job's result (the
    exhaustive runs go on while the drivers replay the generated cases)."""

    def __init__(self, ctx, jobs):
        ctx.specdir()
        self.ex = ThreadPoolExecutor(max_workers=4)
        self.fut = {}
        for key, module, cfg, kw in jobs:
            self.fut[key] = self.ex.submit(ctx.tlc, module, cfg, specdir=ctx.private_specdir(), **kw)

    def __getitem__(self, key):
        return self.fut[key].result()

    def close(self):
        self.ex.shutdown(wait=True, cancel_futures=True)


def _race_reports(out):
    """Race detector reports -> list of dicts(fns=[frame of the code under test in
    each access stack or None], driver_block=bool, text)."""
    res = []
    for blk in re.findall(r"WARNING: DATA RACE\n(.*?)\n==================", out, re.S):
        secs = re.split(r"\n\s*\n", blk)
        acc = [s for s in secs if re.match(r"\s*(Previous )?(read|write|atomic read|atomic write) at ", s, re.I)]
        fns = []
        for s in acc:
            m = [f for f in re.findall(r"^\s+(\S+)\(\)\s*$", s, re.M) if f.startswith(UNDER_TEST)]
            fns.append(m[0] if m else None)
        loc = [s for s in secs if s.lstrip().startswith("Location is heap block")]
        driver_block = bool(loc) and not any(f.startswith(UNDER_TEST)
                                             for f in re.findall(r"^\s+(\S+)\(\)\s*$", loc[0], re.M))
        res.append(dict(fns=fns, driver_block=driver_block, text=blk[:3000]))
    return res


def run(ctx):
    q = ctx.quick
    # 1. design level, exhaustively: the property section of Midpoint.tla (one
    #    call), of MidpointConc.tla (k concurrent callers, all interleavings),
    #    the self-tests of MidpointConc (shared scratch buffer: TLC must find each
    #    clause violated; two calls do overlap), and the generators
    jobs = [("gen", "MidpointMC", "Midpoint_gen.cfg" if q else "Midpoint_gendeep.cfg",
             dict(workers=1, timeout=900, tag="gen")),
            ("gen2", "MidpointConcMC", "MidpointConc_gen.cfg", dict(workers=1, timeout=900, tag="gen")),
            ("gen3", "MidpointConcMC", "MidpointConc_gen3.cfg" if q else "MidpointConc_gendeep3.cfg",
             dict(workers=1, timeout=900, tag="gen")),
            ("seq", "MidpointMC", "Midpoint_exh.cfg" if q else "Midpoint_deep.cfg", dict(timeout=900, workers=4)),
            ("conc2", "MidpointConcMC", "MidpointConc_exh.cfg" if q else "MidpointConc_deep.cfg",
             dict(timeout=900, workers=4)),
            ("conc3", "MidpointConcMC", "MidpointConc_exh3.cfg" if q else "MidpointConc_deep3.cfg",
             dict(timeout=900, workers=4))]
    for cfg, inv in SELFTESTS:
        jobs.append((cfg, "MidpointConcMC", cfg, dict(workers=2, timeout=300, allow_violation=True, tag="selftest")))
    tr = _Jobs(ctx, jobs)
    try:
        _run(ctx, tr)
    finally:
        tr.close()


def _run(ctx, tr):
    q = ctx.quick
    # 2. spec -> code: TLC enumerates the inputs with the spec's results ...
    cases = ctx.emitted(tr["gen"]["out"])
    if len(cases) < 1000:
        raise vlib.Inconclusive("case generator produced only %d cases" % len(cases))
    cp = ctx.path("cases.ndjson")
    vlib.write_ndjson(cp, cases)
    # ... and the concurrent rounds (callers' inputs in disjoint bands, variants, operations)
    r2, r3 = ctx.emitted(tr["gen2"]["out"]), ctx.emitted(tr["gen3"]["out"])
    if len(r2) < 1000 or len(r3) < 1000:
        raise vlib.Inconclusive("round generator produced only %d + %d rounds" % (len(r2), len(r3)))
    rnd = random.Random(ctx.seed)
    rounds = rnd.sample(r2, 240 if q else 1500) + rnd.sample(r3, 80 if q else 800)
    rnd.shuffle(rounds)
    same_fn = sum(1 for r in rounds if len({(c["v"], c["op"]) for c in r["callers"]}) < len(r["callers"]))
    with_far = sum(1 for r in rounds if any(abs(v) == 15 for c in r["callers"] for v in c["s"]))
    if same_fn < 10:
        raise vlib.Inconclusive("only %d sampled rounds have two callers in the same function" % same_fn)
    rp = ctx.path("rounds.ndjson")
    vlib.write_ndjson(rp, rounds)
    # 3. real code under embeddings and input orders
    trace, out = ctx.godriver("c02", "TestC02$", cases=cp)
    recs = vlib.read_ndjson(trace)
    ctx.log("driver: %d records from %d cases" % (len(recs), len(cases)))
    # 3b. real code, k goroutines released together, back-to-back calls
    reps = 4000 if q else 6000
    ctrace, cout = ctx.godriver("c02", "TestC02Conc$", cases=rp, out_name="conc.ndjson", env={"C02_REPS": str(reps)},
                                extra=("-v",))
    crecs = vlib.read_ndjson(ctrace)
    m = re.search(r"C02CONC rounds=(\d+) calls=(\d+) records=(\d+) inexact-skips=(\d+) rounds-overlapped=(\d+)", cout)
    if not m:
        raise vlib.Inconclusive("concurrent driver printed no summary:\n" + cout[-2000:])
    nrounds, ncalls, ncrec, nskip, nover = map(int, m.groups())
    ctx.log("concurrent driver: %d rounds, %d calls, %d distinct records, %d rounds with overlapping callers"
            % (nrounds, ncalls, ncrec, nover))
    if nover < nrounds * 0.9:
        raise vlib.Inconclusive("callers overlapped in only %d of %d concurrent rounds" % (nover, nrounds))
    # 3c. the same rounds under the race detector (fewer, shorter)
    races, race_note = _race(ctx, rounds[:60 if q else 400], soft=q)
    ctx.log(race_note)
    for cfg, inv in SELFTESTS:
        if tr[cfg]["violated"] != inv:
            raise vlib.Inconclusive("self-test of MidpointConc.tla: TLC did not find %s violated in %s (found: %s); "
                                    "the concurrent model has no teeth" % (inv, cfg, tr[cfg]["violated"]))
    # 4. code -> spec: monitor decides, strict reports drift
    nval = 0
    chunk = 60000
    parts = [recs[i:i + chunk] for i in range(0, len(recs), chunk)]
    parts += [crecs[i:i + chunk] for i in range(0, len(crecs), chunk)]
    if races:
        parts.append(races)
    paths = []
    for i, part in enumerate(parts):
        pp = ctx.path("chunk%d.ndjson" % i)
        vlib.write_ndjson(pp, part)
        paths.append(pp)
    res = ctx.validate_parallel("MidpointTrace", "MidpointTrace_mon.cfg", paths, jobs=4)
    clean = []
    for k, (ok, l, inv, tout) in enumerate(res):
        part = parts[k]
        if not ok:
            bad = part[l - 1] if l else None
            kind = bad["k"] if bad else "?"
            if kind == "race":
                ctx.violation("C02 %s %s" % (inv, bad["fn"]),
                              "race detector: two concurrent calls on disjoint inputs touch the same memory "
                              "(%s / %s)" % (bad["fn"], bad["fn2"]), bad)
                continue
            conc = bool(bad and bad.get("conc"))
            ctx.violation("C02 %s %s%s" % (inv, kind, " concurrent" if conc else ""),
                          "real %s result%s violates %s: %s"
                          % (kind, " of a call made while other goroutines were calling on their own inputs"
                             if conc else "", inv, bad), bad)
            continue
        nval += len(part)
        clean.append((k, paths[k]))
    if clean:
        sres = ctx.validate_parallel("MidpointTrace", "MidpointTrace_strict.cfg", [p for _, p in clean], jobs=4)
        for (k, _), (ok, l, inv, tout) in zip(clean, sres):
            if not ok:
                part = parts[k]
                ctx.drift.append("record %s differs from Midpoint.tla (%s)" % (part[l - 1] if l else "?", inv))
    ctx.log("TLC exhaustive: %d distinct states (one call), %d + %d (2 and 3 concurrent callers, all interleavings)"
            % (tr["seq"]["distinct"], tr["conc2"]["distinct"], tr["conc3"]["distinct"]))
    allrecs = recs + crecs
    distinct = len({(x["k"], tuple(x["s"]), x["emb"]) for x in allrecs})
    ctx.cov.update(
        evaluations=len(recs) + ncalls, distinct_nontrivial=distinct,
        rule="every sequence over the config's value set with length 1..MaxN (TLC-enumerated, exhaustive) x "
             "value embeddings a*v+b up to +-(2^62-1) x input orders (identity, reverse, seeded permutations); "
             "plus concurrent rounds: a seeded sample of all (callers' input multisets in disjoint bands with <= f "
             "arbitrary values, variant, operation) combinations for 2 and 3 callers, each replayed from k "
             "goroutines released together, every call recorded (equal outcomes of one caller and order merged "
             "with a count); distinct = distinct (variant, ordered input, embedding)",
        traces_validated_against_impl=nval, exhaustive=True,
        samples=recs[:2] + recs[len(recs) // 2:len(recs) // 2 + 1] + crecs[:1] + crecs[-2:])
    ctx.notes += [
        "concurrent callers (spec/MidpointConc.tla): TLC explored all interleavings of 2 callers (%d states) and 3 "
        "callers (%d states); self-tests with ONE shared scratch buffer: TLC found CContain, CRaceFree and CReturns "
        "violated and two calls in progress at once reachable" % (tr["conc2"]["distinct"], tr["conc3"]["distinct"]),
        "generated rounds: %d with 2 callers, %d with 3 callers; replayed %d (seeded sample), of which %d have two "
        "callers in the same function and %d hold arbitrary (faulty) values; %d calls in %d rounds, %d rounds with "
        "all callers calling at the same time; %d distinct records judged by the clauses of MidpointTrace, "
        "%d calls not expressible in model units (not judged)"
        % (len(r2), len(r3), len(rounds), same_fn, with_far, ncalls, nrounds, nover, len(crecs), nskip),
        race_note]
    ctx.assumptions += ["affine embeddings commute with sort/midpoint (inexact inverse images are skipped, never judged)",
                        "small-scope: n <= 5 (quick) / 7-8 (thorough) over 5-7 model values",
                        "concurrent rounds: the schedule of the goroutines is the Go runtime's (many repetitions, no "
                        "control over the interleaving); all interleavings are explored on the specification only"]


def _race(ctx, rounds, soft):
    """Concurrent driver built with -race. Returns (race records, note)."""
    rp = ctx.path("rounds_race.ndjson")
    vlib.write_ndjson(rp, rounds)
    try:
        rc, out = ctx.gotest("c02", "TestC02Conc$", race=True, timeout=240 if soft else 900,
                             env={"C02_REPS": "300", "VERIF_IN": rp, "VERIF_OUT": ctx.path("conc_race.ndjson")})
    except vlib.Inconclusive:
        if soft:
            return [], ("race detector: build not finished within 240 s (cold build cache); "
                        "left to the thorough tier")
        raise
    reps = _race_reports(out)
    if not reps:
        if rc != 0:
            raise vlib.Inconclusive("go driver c02 (race) failed (rc=%d):\n%s" % (rc, "\n".join(out.splitlines()[-60:])))
        return [], "race detector: %d concurrent rounds, no report" % len(rounds)
    mine = [r for r in reps if len(r["fns"]) >= 2 and all(r["fns"][:2]) and not r["driver_block"]]
    if not mine:
        raise vlib.Inconclusive("race detector reports a race that is not between two calls of the functions under "
                                "test (driver defect?):\n" + reps[0]["text"])
    seen, recs = set(), []
    for r in mine:
        key = tuple(sorted(r["fns"][:2]))
        if key in seen:
            continue
        seen.add(key)
        short = [f.replace("example.com/scion-time/", "").split("/")[-1] for f in key]
        recs.append(dict(k="race", s=[], fn=short[0], fn2=short[1], report=r["text"][:1500]))
    return recs, "race detector: %d concurrent rounds, %d reports inside the functions under test" % (len(rounds), len(mine))
