SPECIFICATION Spec
CONSTANTS
  Conn <- C2
  MaxLen = 3
  MaxIll = 1
  MaxRot = 1
  Kinds <- KTiny
  Cuts <- CutsAll
  Ends <- EndsAll
  NCk = 8
  Fault = "none"
INVARIANTS TypeOK OneMessage ErrorIffBad NoEarlyAnswer ResponseShape CookiesSealSession CookiesDistinct KeyCurrent StillServingSafe

