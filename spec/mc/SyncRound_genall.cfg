SPECIFICATION Spec
CONSTANTS
  W = 8
  NRef = 3
  NPeer = 2
  Vals <- ValsMid
  Cfgs <- AdmBasic
  MaxRound = 2
  FailKinds <- AllFails
  AnyOrder = FALSE
  Canon = TRUE
VIEW View
INVARIANTS EmitEvery
