SPECIFICATION GSpec
CONSTANTS
  NC = 3
  MaxRounds = 2
  MaxTries = 2
  MaxDraws = 6
  SharedIdBuf = FALSE
  UidChecked = TRUE
  StoreAfterUid = TRUE
  ServeEager = TRUE
  RecvKinds <- KindsAll
INVARIANTS Emit
