---------------------------- MODULE NtsKeServerGen ----------------------------
(***************************************************************************)
(* Behaviour generator for the X05 harness (tlc -simulate).  Every step is  *)
(* a step of NtsKeServer!Next; the history lists the CLIENT-side moves (the *)
(* only ones a client can impose on the real server) plus "await c" where   *)
(* the model's handler of c closed its connection, and ends with what the   *)
(* specification predicts for every connection.                             *)
(***************************************************************************)
EXTENDS NtsKeServer, Json
VARIABLES hist, stalled
C3 == {1, 2, 3}
KAll == AllKinds
CutsAll == {"hdr", "body"}
EndsAll == {"half", "fin", "closed"}
Pick(S) == RandomElement(S)

Live(c) == c \notin stalled
Done == \A c \in Conn : pc[c] = "closed" \/ (c \in stalled /\ Waiting(c))
CMoves ==
     {<<"dial", c>> : c \in {x \in Conn : cst[x] = "idle"}}
  \cup {<<"send", c>> : c \in {x \in Conn : Live(x) /\ Waiting(x) /\ nsent[x] < MaxLen}}
  \cup {<<"cut", c>> : c \in {x \in Conn : Live(x) /\ Waiting(x) /\ nsent[x] < MaxLen /\ nsent[x] > 0}}
  \cup {<<"end", c>> : c \in {x \in Conn : Live(x) /\ Waiting(x)}}
  \cup {<<"stall", c>> : c \in {x \in Conn : Live(x) /\ Waiting(x)}}
  \cup (IF cur < 1 + MaxRot /\ ~Done THEN {<<"rotate">>} ELSE {})
SMoves == {<<"srv", c>> : c \in {x \in Conn : ENABLED ServerStep(x)}}
Weight(mv) == CASE mv[1] = "dial" -> 6 [] mv[1] = "send" -> 8 [] mv[1] = "cut" -> 1 [] mv[1] = "end" -> 1
                [] mv[1] = "stall" -> 1 [] mv[1] = "rotate" -> 2 [] mv[1] = "srv" -> 7
\* a request mostly continues with a harmless record or ends with End of Message
KindW == <<"np", "a15", "eom", "eom", "eom", "ck", "np", "a15">>

GNext ==
  \E w \in {Pick(1 .. (IF nonce >= 0 THEN 8 ELSE 7))} :
    LET all   == IF Done THEN {} ELSE CMoves \cup SMoves
        cand0 == {mv \in all : Weight(mv) >= w}
        cand  == IF cand0 = {} THEN all ELSE cand0 IN
    /\ cand # {}
    /\ \E mv \in {Pick(cand)} :
       \E k \in {IF Pick(1 .. (IF nonce >= 0 THEN 3 ELSE 2)) = 1 THEN Pick(Kinds) ELSE KindW[Pick(1 .. (IF nonce >= 0 THEN 8 ELSE 7))]},
          ill \in {Pick(1 .. (IF nonce >= 0 THEN 6 ELSE 5)) = 1},
          at \in {Pick(IF nonce >= 0 THEN Cuts ELSE {})}, e \in {Pick(IF nonce >= 0 THEN Ends ELSE {})} :
         CASE mv[1] = "dial"   -> Dial(mv[2]) /\ hist' = Append(hist, [a |-> "dial", c |-> mv[2], k |-> "", ill |-> FALSE]) /\ UNCHANGED stalled
           [] mv[1] = "send"   -> LET i == ill /\ CanIll(k) /\ nill < MaxIll IN
                                  ClientSend(mv[2], k, i) /\ hist' = Append(hist, [a |-> "send", c |-> mv[2], k |-> k, ill |-> i]) /\ UNCHANGED stalled
           [] mv[1] = "cut"    -> LET a2 == IF at = "body" /\ Len(Words(k, FALSE)) < 3 THEN "hdr" ELSE at IN
                                  ClientCut(mv[2], k, a2) /\ hist' = Append(hist, [a |-> "cut" \o a2, c |-> mv[2], k |-> k, ill |-> FALSE]) /\ UNCHANGED stalled
           [] mv[1] = "end"    -> ClientEnd(mv[2], e) /\ hist' = Append(hist, [a |-> e, c |-> mv[2], k |-> "", ill |-> FALSE]) /\ UNCHANGED stalled
           [] mv[1] = "stall"  -> UNCHANGED vars /\ stalled' = stalled \cup {mv[2]}
                                  /\ hist' = Append(hist, [a |-> "stall", c |-> mv[2], k |-> "", ill |-> FALSE])
           [] mv[1] = "rotate" -> Rotate /\ hist' = Append(hist, [a |-> "rotate", c |-> 0, k |-> "", ill |-> FALSE]) /\ UNCHANGED stalled
           [] mv[1] = "srv"    -> ServerStep(mv[2]) /\ UNCHANGED stalled
                                  /\ hist' = IF pc'[mv[2]] = "closed"
                                             THEN Append(hist, [a |-> "await", c |-> mv[2], k |-> "", ill |-> FALSE]) ELSE hist

HInit == Init /\ hist = << >> /\ stalled = {}
HSpec == HInit /\ [][GNext]_<<vars, hist, stalled>>

Want(c) == IF wrote[c] = << >> THEN "none" ELSE IF IsErr(wrote[c][1]) THEN "error" ELSE "success"
Exp == [c \in Conn |-> [acc |-> acc[c], want |-> Want(c), end |-> cst[c], stalled |-> c \in stalled,
                        nck |-> IF wrote[c] = << >> THEN 0 ELSE Cardinality(CookiesOf(wrote[c][1])),
                        kmin |-> IF kwin[c] = {} THEN 0 ELSE CHOOSE x \in kwin[c] : \A y \in kwin[c] : x <= y,
                        kmax |-> IF kwin[c] = {} THEN 0 ELSE CHOOSE x \in kwin[c] : \A y \in kwin[c] : x >= y]]
Emit == Done => PrintT(<<"CASE", ToJson([hist |-> hist, exp |-> Exp])>>)
=============================================================================
