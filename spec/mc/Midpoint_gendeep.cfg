SPECIFICATION Spec
CONSTANTS
  W = 6
  Vals <- ValsGenDeep
  MaxN = 7
INVARIANTS Emit
