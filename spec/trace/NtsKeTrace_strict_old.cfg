SPECIFICATION TSpec
CONSTANTS
  Transport = "tls"
  ResidueAfterFailure = TRUE
  ShortCookieRead = TRUE
  DialResetsData = TRUE
  Alpns = {}
  Alphabet = {}
  CutRecs = {}
  MaxRecs = 0
  MaxDials = 0
  MaxCalls = 0
  MaxStore = 0
  CtxMode = "ignored"
  MaxStalls = 0
  StaleNextHop = FALSE
PROPERTIES StrictProp
POSTCONDITION Consumed
