package c20

// Stand-alone reproduction of finding e (C20-failed-exchange-residue) on the real
// ntske.Fetcher, without TLC: a key-exchange peer that sends one cookie and then
// an error record; the next FetchData call returns that cookie with nil keys and
// never contacts the peer. Informational (prints REPRODUCED / NOT REPRODUCED).
//
//	cd /verif/harness && go1.26 test -tags verif -count 1 -vet=off -v -run TestReproResidue ./c20

import (
	"context"
	"crypto/tls"
	"fmt"
	"log/slog"
	"net"
	"sync/atomic"
	"testing"

	"example.com/scion-time/net/ntske"
)

func TestReproResidue(t *testing.T) {
	cert := selfSigned(t)
	ln, err := tls.Listen("tcp", "127.0.0.1:0", &tls.Config{Certificates: []tls.Certificate{cert},
		NextProtos: []string{"ntske/1"}, MinVersion: tls.VersionTLS13})
	if err != nil {
		t.Fatal(err)
	}
	defer ln.Close()
	var conns atomic.Int64
	go func() {
		for {
			c, err := ln.Accept()
			if err != nil {
				return
			}
			conns.Add(1)
			if !readRequest(c) {
				c.Close()
				continue
			}
			msg := append(rec(1, true, u16(0)), rec(4, true, u16(15))...) // NextProto, AEAD 15
			msg = append(msg, rec(5, false, []byte("0123456789abcdef"))...) // Cookie
			msg = append(msg, rec(2, true, u16(2))...)                      // Error: internal server error
			c.Write(msg)
			c.Close()
		}
	}()
	_, port, _ := net.SplitHostPort(ln.Addr().String())
	f := &ntske.Fetcher{Log: slog.New(slog.DiscardHandler), Port: port}
	f.TLSConfig = tls.Config{InsecureSkipVerify: true, ServerName: "127.0.0.1", MinVersion: tls.VersionTLS13}
	_, err1 := f.FetchData(context.Background())
	n1 := conns.Load()
	d2, err2 := f.FetchData(context.Background())
	n2 := conns.Load()
	fmt.Printf("call 1: err=%v (connections so far %d)\n", err1, n1)
	fmt.Printf("call 2: err=%v cookies=%d c2s=%v s2c=%v (connections so far %d)\n", err2, len(d2.Cookie), d2.C2sKey, d2.S2cKey, n2)
	if err1 != nil && err2 == nil && n2 == n1 {
		fmt.Println("REPRODUCED: the call after a failed exchange returned the failed exchange's cookie without a new exchange")
	} else {
		fmt.Println("NOT REPRODUCED")
	}
}
