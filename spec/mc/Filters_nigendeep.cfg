SPECIFICATION Spec
CONSTANTS
  Which = "ntimed"
  Caps = {1}
  Picks = {1}
  UnconfToo = FALSE
  Offs = {0}
  Rtds = {1}
  DistinctOnly = FALSE
  Clk0s = {1}
  MaxEv = 6
  FilterAverage = 20
  Classes <- Classes3
  StepAt = {0, 1, 2}
  MaxInDo = 1
  EmitMinInDo = 1
INVARIANTS Emit
