------------------------------ MODULE UnitConv ------------------------------
(***************************************************************************)
(* Time-unit conversions at the kernel and CSPTP interfaces (C18):         *)
(*   base/unixutil/timeval_linux.go   TimevalFromNsec                      *)
(*   base/unixutil/freq.go            ScaledPPMFromFreq, FreqFromScaledPPM *)
(*   driver/clocks/sysclk_linux.go    SystemClock.Drift (+ timemath.Duration)*)
(*   net/csptp/csptp.go               TimestampFromTime, TimeFromTimestamp,*)
(*                                    DurationFromTimeInterval, C2SDelay,  *)
(*                                    S2CDelay, MeanPathDelay, ClockOffset *)
(* transcribed operator by operator over W-bit two's-complement words with *)
(* Go's truncating / and %, arithmetic >>, uint8() truncation, saturating  *)
(* time.Time.Sub and float->int truncation.  All unit constants are        *)
(* parameters: TLC decides the property section exhaustively at scaled     *)
(* constants (e.g. 10^3 ns/s, 2^4 sub-units, 12-bit seconds), the trace    *)
(* specification instantiates the module a second time at the real         *)
(* constants (10^9, 2^16, 6 x 8 bit).  Floating point is not modelled:     *)
(* for the two float functions the module gives the exact rational value   *)
(* and the tolerance the property statement grants.                        *)
(***************************************************************************)
EXTENDS Integers, Sequences, TLC

CONSTANTS
  W,             \* bits of Go's int64 / time.Duration            (real 64)
  NsPerSec,      \* nanoseconds per second                        (real 10^9)
  SubUnits,      \* PTP TimeInterval units per nanosecond         (real 2^16)
  PpmFrac,       \* kernel scaled-ppm units per ppm               (real 2^16)
  PpmUnits,      \* ppm per unit frequency                        (real 10^6)
  MaxScaledPPM,  \* kernel range of timex.freq, |x| <= 500 ppm    (real 32768000)
  DigitBase,     \* base of one element of Timestamp.Seconds      (real 256)
  SecDigits      \* number of elements of Timestamp.Seconds       (real 6)

H == 2 ^ (W - 1)
M == 2 ^ W
MinInt == -H
MaxInt == H - 1
Word == MinInt .. MaxInt
InWord(z) == MinInt <= z /\ z <= MaxInt

Abs(z) == IF z < 0 THEN -z ELSE z
Sgn(z) == IF z < 0 THEN -1 ELSE IF z > 0 THEN 1 ELSE 0
\* Go integer arithmetic: results wrap, / and % truncate toward zero (b > 0)
Wrap(z) == ((z + H) % M) - H
TDiv(a, b) == IF a >= 0 THEN a \div b ELSE -((-a) \div b)
TRem(a, b) == a - b * TDiv(a, b)
\* Go's >> on a signed operand is an arithmetic shift: floor division
AShr(a, b) == IF a >= 0 THEN a \div b ELSE -(((-a) + (b - 1)) \div b)
\* time.Time.Sub saturates at the ends of time.Duration
Sat(z) == IF z > MaxInt THEN MaxInt ELSE IF z < MinInt THEN MinInt ELSE z

(***************************************************************************)
(* 1. unixutil.TimevalFromNsec                                             *)
(***************************************************************************)
TimevalFromNsec(nsec) ==
  LET sec0 == TDiv(nsec, NsPerSec)          \* sec := nsec / 1e9
      rem0 == TRem(nsec, NsPerSec)          \* nsec = nsec % 1e9
  IN IF rem0 < 0                            \* if nsec < 0 {
     THEN [sec  |-> Wrap(sec0 - 1),         \*   sec -= 1
           usec |-> Wrap(rem0 + NsPerSec)]  \*   nsec += 1e9 }
     ELSE [sec |-> sec0, usec |-> rem0]

\* intermediate results never leave the word (so Wrap above is the identity)
TimevalNoWrap(nsec) ==
  LET sec0 == TDiv(nsec, NsPerSec) rem0 == TRem(nsec, NsPerSec)
  IN InWord(sec0 - 1) /\ InWord(rem0 + NsPerSec)

(***************************************************************************)
(* 2. unixutil.ScaledPPMFromFreq / FreqFromScaledPPM.  A frequency is the  *)
(* rational <<num, den>>, den > 0 (Go: float64).                           *)
(***************************************************************************)
PpmK == PpmFrac * PpmUnits                               \* 65536.0 * 1e6
FreqFromScaledPPM(sp) == <<sp, PpmK>>                    \* float64(sp) / K
ScaledPPMFromFreq(f)  == TDiv(f[1] * PpmK, f[2])         \* int64(freq * K)
InKernelRange(sp) == -MaxScaledPPM <= sp /\ sp <= MaxScaledPPM

(***************************************************************************)
(* 3. SystemClock.Drift(duration) with c.drift = drift.Seconds():          *)
(*    timemath.Duration(duration.Seconds() * c.drift)                      *)
(*  = int64(duration/1e9 * drift/1e9 * 1e9), exact value dur*drift/1e9.    *)
(* clocks.UnknownDrift = 0 selects the "unknown" branch (math.MaxInt64).   *)
(***************************************************************************)
DriftExact(drift, dur) == <<dur * drift, NsPerSec>>      \* rational, ns
Drift(drift, dur) ==
  IF drift = 0 THEN MaxInt ELSE TDiv(dur * drift, NsPerSec)

(***************************************************************************)
(* 4. CSPTP.  A time is [sec, ns] (time.Time: Unix(), Nanosecond()), a     *)
(* timestamp is [seconds: SecDigits digits, most significant first, ns].   *)
(***************************************************************************)
MaxTsSec == DigitBase ^ SecDigits - 1                    \* 1<<48 - 1
Digit(s, k) == (s \div (DigitBase ^ k)) % DigitBase      \* uint8(uint64(s) >> 8k)
Panic == [panic |-> TRUE]

TimestampFromTime(t) ==
  IF t.sec < 0 \/ t.sec > MaxTsSec THEN Panic
  ELSE [seconds |-> [i \in 1 .. SecDigits |-> Digit(t.sec, SecDigits - i)],
        ns      |-> t.ns]

RECURSIVE DigitsVal(_, _)
DigitsVal(ds, n) == IF n = 0 THEN 0 ELSE DigitsVal(ds, n - 1) * DigitBase + ds[n]
\* time.Unix(s, ns) normalises ns >= 1e9 into the seconds
TimeFromTimestamp(ts) ==
  LET s == DigitsVal(ts.seconds, SecDigits)
  IN [sec |-> s + ts.ns \div NsPerSec, ns |-> ts.ns % NsPerSec]

DurationFromTimeInterval(i) == AShr(i, SubUnits)         \* i >> 16

\* the functions read their time arguments only through t1.Sub(t0) and
\* t3.Sub(t2); x10, x32 are those exact differences in ns
C2SDelay(x10, c1, utc) == Wrap(Wrap(Sat(x10) - c1) - utc)
S2CDelay(x32, c3, utc) == Wrap(Wrap(Sat(x32) - c3) + utc)
MeanPathDelay(x10, x32, c1, c3) ==
  TDiv(Wrap(Wrap(Sat(x10) - c1) + Wrap(Sat(x32) - c3)), 2)
ClockOffset(x10, x32, c1, c3) ==
  TDiv(Wrap(Wrap(Sat(x10) - c1) - Wrap(Sat(x32) - c3)), 2)

(***************************************************************************)
(* 5. Multi-limb integers.  Recorded 64-bit values do not fit TLC's 32-bit *)
(* integers; they are logged as little-endian sequences of signed limbs to *)
(* base LimbBase (value = Sum a[i] * LimbBase^(i-1)) and the identities of *)
(* the property section are decided on the limbs by carry propagation.     *)
(***************************************************************************)
LimbBase == 1000
Pad(a, L)      == [i \in 1 .. L |-> IF i <= Len(a) THEN a[i] ELSE 0]
ShiftL(a, j, L) == [i \in 1 .. L |-> IF i > j /\ i - j <= Len(a) THEN a[i - j] ELSE 0]
RECURSIVE NormFrom(_, _, _, _)
\* canonical digits 0..B-1 of a limb vector to base B, followed by the final carry
NormFrom(D, B, i, c) ==
  IF i > Len(D) THEN <<c>>
  ELSE <<(D[i] + c) % B>> \o NormFrom(D, B, i + 1, (D[i] + c) \div B)
NormB(D, B) == NormFrom(D, B, 1, 0)
Norm(D) == NormB(D, LimbBase)
ZeroB(D, B) == LET n == NormB(D, B) IN \A i \in 1 .. (Len(D) + 1) : n[i] = 0
LimbsZero(D) == ZeroB(D, LimbBase)
\* 0 <= value(D) < bound, for a bound below LimbBase^3
LimbsBelow(D, bound) ==
  LET n == Norm(D) L == Len(D)
  IN /\ \A i \in 4 .. (L + 1) : n[i] = 0
     /\ n[1] + LimbBase * n[2] + LimbBase * LimbBase * n[3] < bound
LimbsEq(a, b) == LET L == IF Len(a) > Len(b) THEN Len(a) ELSE Len(b)
                 IN \A i \in 1 .. L : Pad(a, L)[i] = Pad(b, L)[i]
\* number of limbs of NsPerSec (a power of LimbBase in both instantiations)
NsLimbs == CHOOSE j \in 0 .. 5 : LimbBase ^ j = NsPerSec

(***************************************************************************)
(* Property section (C18) - only what the statement mentions.              *)
(***************************************************************************)
\* "a sub-second part in [0, 10^9) with seconds x 10^9 + sub-second equal to
\*  the input"
Normalised(n, tv) ==
  /\ 0 <= tv.usec /\ tv.usec < NsPerSec
  /\ tv.sec * NsPerSec + tv.usec = n
\* the same on limb vectors (all int64 inputs at the real constants)
NormalisedLimbs(nl, secl, usecl) ==
  LET L == Len(secl) + NsLimbs + 1
  IN /\ LimbsBelow(Pad(usecl, L), NsPerSec)
     /\ LimbsZero([i \in 1 .. L |-> ShiftL(secl, NsLimbs, L)[i] + Pad(usecl, L)[i] - Pad(nl, L)[i]])

\* "frequency <-> scaled-ppm conversion round-trips to within one unit in the
\*  last place" (over the kernel's range)
PpmRoundTrip(sp, back) == InKernelRange(sp) => Abs(back - sp) <= 1

\* "the drift allowance is proportional to the interval": the allowance for
\* dur is dur x (drift per second), within the rounding of one result unit
DriftProportional(drift, dur, got) ==
  drift # 0 => Abs(got * NsPerSec - dur * drift) <= NsPerSec

\* "CSPTP timestamps round-trip exactly over their 48-bit range"
InTsRange(t) == 0 <= t.sec /\ t.sec <= MaxTsSec /\ 0 <= t.ns /\ t.ns < NsPerSec
TsRoundTrip(t, back) == InTsRange(t) => back = t
ValidTs(ts) == 0 <= ts.ns /\ ts.ns < NsPerSec /\ \A i \in 1 .. SecDigits : ts.seconds[i] \in 0 .. (DigitBase - 1)
TsRevRoundTrip(ts, back) == ValidTs(ts) => back = ts

\* "correction fields convert by dropping the 16 sub-nanosecond bits"
ShiftDrops(i, q) == 0 <= i - q * SubUnits /\ i - q * SubUnits < SubUnits
ShiftDropsLimbs(il, ql) ==
  LET L == Len(ql) + 3
  IN LimbsBelow([k \in 1 .. L |-> Pad(il, L)[k] - SubUnits * Pad(ql, L)[k]], SubUnits)

\* "the CSPTP offset and mean-path-delay formulas recover any true offset and
\*  symmetric delay exactly": with one-way delay d, offset th (server minus
\*  client) and corrections c1, c3:  t1 = t0 + d + th + c1, t3 = t2 + d - th + c3
X10(d, th, c1) == d + th + c1
X32(d, th, c3) == d - th + c3
NoOverflow(d, th, c1, c3) ==
  /\ InWord(X10(d, th, c1)) /\ InWord(X32(d, th, c3))
  /\ InWord(d + th) /\ InWord(d - th) /\ InWord(2 * d) /\ InWord(2 * th)
  /\ InWord(d) /\ InWord(th) /\ InWord(c1) /\ InWord(c3)
FormulaExact(d, th, off, mean) == off = th /\ mean = d

(***************************************************************************)
(* Model: one conversion per behaviour.  c = <<kind, arg, arg, ...>> grows *)
(* one element per step so that TLC's workers share the enumeration.       *)
(*   tv  hi lo          n = hi * 2^(W/2) + lo   (every word)               *)
(*   ci  hi lo          correction field i, the same split                 *)
(*   ts  sec ns         a time -> timestamp -> time                        *)
(*   tr  d1..dk ns      a timestamp -> time -> timestamp                   *)
(*   pp  sp             scaled ppm -> frequency -> scaled ppm              *)
(*   fq  num den        frequency -> scaled ppm -> frequency               *)
(*   dr  drift dur                                                         *)
(*   fm  d th c1 c3 utc                                                    *)
(***************************************************************************)
CONSTANTS Vals,      \* durations / offsets / corrections for fm, dr
          DriftVals, \* drift per second for dr
          NsVals,    \* nanosecond fields for ts, tr (may exceed NsPerSec: tr normalises)
          FqDens,    \* denominators for fq
          UtcVals    \* UTC corrections for fm (C2SDelay/S2CDelay only)
VARIABLE c

Half == 2 ^ (W \div 2)
Kinds == {"tv", "ci", "ts", "tr", "pp", "fq", "dr", "fm"}
Arity(k) == CASE k \in {"tv", "ci", "ts", "fq", "dr"} -> 2
              [] k = "tr" -> SecDigits + 1
              [] k = "pp" -> 1
              [] k = "fm" -> 5
Dom(k, i) ==
  CASE k \in {"tv", "ci"} -> IF i = 1 THEN (-(Half \div 2)) .. (Half \div 2 - 1) ELSE 0 .. (Half - 1)
    [] k = "ts" -> IF i = 1 THEN (-2) .. (MaxTsSec + 2) ELSE {x \in NsVals : x < NsPerSec}
    [] k = "tr" -> IF i <= SecDigits THEN 0 .. (DigitBase - 1) ELSE NsVals
    [] k = "pp" -> (-(MaxScaledPPM + 2)) .. (MaxScaledPPM + 2)
    [] k = "fq" -> IF i = 1 THEN (-(MaxScaledPPM + 2)) .. (MaxScaledPPM + 2) ELSE FqDens
    [] k = "dr" -> IF i = 1 THEN DriftVals ELSE Vals
    [] k = "fm" -> IF i = 5 THEN UtcVals ELSE Vals

Init == c = << >>
Next == \/ c = << >> /\ \E k \in Kinds : c' = <<k>>
        \/ /\ c # << >>
           /\ Len(c) - 1 < Arity(c[1])
           /\ \E v \in Dom(c[1], Len(c)) : c' = Append(c, v)
Spec == Init /\ [][Next]_c

Is(k) == c # << >> /\ c[1] = k /\ Len(c) = Arity(k) + 1
A(i) == c[i + 1]
WordOf(hi, lo) == hi * Half + lo

\* ---- the property section evaluated on the specification's functions
PNormalised == Is("tv") =>
  LET n == WordOf(A(1), A(2)) IN Normalised(n, TimevalFromNsec(n)) /\ TimevalNoWrap(n)
PNormalisedLimbsAgree == Is("tv") =>     \* the limb form decides the same predicate
  LET n == WordOf(A(1), A(2)) tv == TimevalFromNsec(n)
      Limbs(v) == <<TRem(v, LimbBase), TRem(TDiv(v, LimbBase), LimbBase), TDiv(v, LimbBase * LimbBase)>>
  IN /\ NormalisedLimbs(Limbs(n), Limbs(tv.sec), Limbs(tv.usec))
     /\ ~NormalisedLimbs(Limbs(n), Limbs(tv.sec), Limbs(tv.usec - NsPerSec))
     /\ ~NormalisedLimbs(Limbs(n), Limbs(tv.sec + 1), Limbs(tv.usec))
     /\ ((n < 0 /\ TRem(n, NsPerSec) # 0) =>     \* Go's raw quotient/remainder pair is rejected
           ~NormalisedLimbs(Limbs(n), Limbs(TDiv(n, NsPerSec)), Limbs(TRem(n, NsPerSec))))
PShiftDrops == Is("ci") =>
  LET i == WordOf(A(1), A(2)) q == DurationFromTimeInterval(i)
      Limbs(v) == <<TRem(v, LimbBase), TRem(TDiv(v, LimbBase), LimbBase), TDiv(v, LimbBase * LimbBase)>>
  IN /\ ShiftDrops(i, q) /\ q = i \div SubUnits
     /\ ShiftDropsLimbs(Limbs(i), Limbs(q))
     /\ ~ShiftDropsLimbs(Limbs(i), Limbs(q + 1)) /\ ~ShiftDropsLimbs(Limbs(i), Limbs(q - 1))
PTsRoundTrip == Is("ts") =>
  LET t == [sec |-> A(1), ns |-> A(2)] ts == TimestampFromTime(t)
  IN IF InTsRange(t) THEN ts # Panic /\ TsRoundTrip(t, TimeFromTimestamp(ts))
     ELSE ts = Panic
PTsRevRoundTrip == Is("tr") =>
  LET ts == [seconds |-> [i \in 1 .. SecDigits |-> A(i)], ns |-> A(SecDigits + 1)]
      t == TimeFromTimestamp(ts)
  IN /\ ValidTs(ts) => TsRevRoundTrip(ts, TimestampFromTime(t))
     \* time.Unix normalises any 32-bit nanosecond field (outside the property)
     /\ 0 <= t.ns /\ t.ns < NsPerSec
     /\ t.sec * NsPerSec + t.ns = DigitsVal(ts.seconds, SecDigits) * NsPerSec + ts.ns
PPpmRoundTrip == Is("pp") =>
  LET sp == A(1) back == ScaledPPMFromFreq(FreqFromScaledPPM(sp))
  IN back = sp /\ PpmRoundTrip(sp, back)         \* exact over the rationals
\* the other direction: f -> scaled ppm -> f' loses less than one unit, toward zero
PFreqRoundTrip == Is("fq") =>
  LET f == <<A(1), A(2) * PpmK>>                 \* any multiple of 1/(den*K)
      g == FreqFromScaledPPM(ScaledPPMFromFreq(f))
      diff == f[1] * g[2] - g[1] * f[2]          \* numerator of f - g over f[2]*g[2]
  IN Abs(diff) * PpmK < f[2] * g[2] /\ (diff = 0 \/ Sgn(diff) = Sgn(f[1]))
PDriftProportional == Is("dr") =>
  LET got == Drift(A(1), A(2))
  IN /\ DriftProportional(A(1), A(2), got)
     /\ \A k \in {-2, 2, 3} :                    \* k-fold interval, k-fold allowance
          A(1) # 0 => Abs(Drift(A(1), k * A(2)) - k * got) <= Abs(k)
PFormulaExact == Is("fm") =>
  LET d == A(1) th == A(2) c1 == A(3) c3 == A(4)
      x10 == X10(d, th, c1) x32 == X32(d, th, c3)
  IN NoOverflow(d, th, c1, c3) =>
       /\ FormulaExact(d, th, ClockOffset(x10, x32, c1, c3), MeanPathDelay(x10, x32, c1, c3))
       /\ Wrap(C2SDelay(x10, c1, A(5)) + S2CDelay(x32, c3, A(5))) = 2 * d
=============================================================================
