--------------------------- MODULE SysClockTrace ---------------------------
(***************************************************************************)
(* Validation of what harness/x04 recorded from the real                   *)
(* clocks.SystemClock and adjustments.SysAdjustment (clock_adjtime,        *)
(* clock_gettime and the timerfd calls replaced by a model of the kernel   *)
(* with virtual time) against SysClock.tla.  The trace is a concatenation  *)
(* of schedules with the same unit constants (checks/x04.py groups them    *)
(* and writes the cfg), each introduced by a reset event; one event per    *)
(* action: the call or timer expiry, the clock_adjtime calls it caused in  *)
(* order, timers armed, Epoch() and CLOCK_REALTIME afterwards.             *)
(*                                                                         *)
(*  monitor: the property section of SysClock.tla on the recorded events;  *)
(*           the observer state (omon) is advanced with MonNext from the   *)
(*           recorded events only.  Clauses about values also require the  *)
(*           driver's check of the same relation on the real 64-bit values *)
(*           (raw_ok) and calls free of stray modes / fields / clocks.     *)
(*  strict:  the SysClock.tla variables are advanced by the action of the  *)
(*           event; its `act` must be the recorded one, the action must be *)
(*           enabled, the record must equal what the generator attached.   *)
(*  observe: AtMostOneRestore; reported, never judged.                     *)
(***************************************************************************)
EXTENDS Integers, Sequences, FiniteSets, TLC, Json

CONSTANTS QPS, G, DPS
Variant == "code"
AdjOffs == {}
AdjDurs == {}
AdjFreqs == {}
StepOffs == {}
Deltas == {}
DoOffs == {}
DoStats == {}
MaxOps == 1000000
MaxAdv == 1000000
DoAtomic == TRUE
KeepHist == FALSE
EpochReads == TRUE

VARIABLES kfreq, kfset, kstatus, koff, ksteps, now, epoch, cur, after, timers, dead, dotx, act, pmon, mon, nops, nadv, hist,
          l, omon, mbad, sbad, obad
INSTANCE SysClock

Trace == ndJsonDeserialize("trace.ndjson")
N == Len(Trace)
svars == <<kfreq, kfset, kstatus, koff, ksteps, now, epoch, cur, after, timers, dead, dotx, act, pmon, mon, nops, nadv, hist>>
tvars == <<svars, l, omon, mbad, sbad, obad>>

ToSet(s) == {s[i] : i \in 1 .. Len(s)}
ObsCall(c) == [m |-> c.m, v |-> c.v, sec |-> c.sec, usec |-> c.usec, st |-> ToSet(c.st)]
ObsCalls(R) == [i \in 1 .. Len(R.calls) |-> ObsCall(R.calls[i])]
ObsAct(R) == MkAct(R.a, [off |-> R.off, dur |-> R.dur, freq |-> R.freq, k |-> R.k, d |-> R.d, st |-> ToSet(R.st)],
                   ObsCalls(R), R.panic, R.armed, R.deadline, R.ep, R.clk)
NoStray(R) == \A i \in 1 .. Len(R.calls) : ~R.calls[i].x
AllExact(R) == \A i \in 1 .. Len(R.calls) : R.calls[i].exact
Clean(R) == NoStray(R) /\ AllExact(R)

\* ------------------------------------------------------------ monitor clauses
MHolds(c, R, m, a, m2) ==
  \/ m.crashed
  \/ /\ Holds(c, m, a, m2)
     /\ CASE c = "FrequencyFormula" ->
               R.a = "adjust" => (R.raw_ok /\ NoStray(R) /\ (Divisible(R.off, RoundDur(IF R.dur < 0 THEN 0 ELSE R.dur)) => AllExact(R)))
          [] c = "StepOrder"     -> R.a = "step" => (R.raw_ok /\ Clean(R))
          [] c = "SysAdjustment" -> R.a = "do" => (R.raw_ok /\ Clean(R))
          [] c = "Restore"       -> R.a = "fire" => Clean(R)
          [] c = "Duration"      -> R.armed > 0 => (R.timer_ok /\ R.dl_exact)
          [] OTHER -> TRUE
MFailing(R, m) ==
  LET a == ObsAct(R)
      m2 == MonNext(m, a)
  IN SelectSeq(ClauseNames, LAMBDA c : ~MHolds(c, R, m, a, m2))
OFailing(R, m) ==
  LET m2 == MonNext(m, ObsAct(R))
  IN IF AtMostOneRestoreP(m) /\ ~AtMostOneRestoreP(m2) THEN <<"AtMostOneRestore">> ELSE << >>

\* ------------------------------------------------------------- strict clauses
\* the frequency Adjust has to write is not a whole number of units (the specification's value is rounded):
\* such an event is judged on the real values only (raw_ok, monitor)
Inexact(R) == R.a = "adjust" /\ R.dur >= 0 /\ ~Divisible(R.off, RoundDur(R.dur))
SFailing(R, enabled) ==
  LET a == ObsAct(R)
  IN (IF enabled THEN << >> ELSE <<"Enabled">>) \o
     (IF ~enabled \/ (act'.a = a.a /\ act'.panic = a.panic /\ NoStray(R) /\
                       IF Inexact(R) THEN Len(a.calls) = 1 /\ a.calls[1].m = "freq" ELSE act'.calls = a.calls /\ AllExact(R))
      THEN << >> ELSE <<"Act">>) \o
     (IF ~enabled \/ (act'.armed = a.armed /\ (a.armed = 0 \/ act'.deadline = a.deadline)) THEN << >> ELSE <<"Timer">>) \o
     (IF ~enabled \/ act'.ep = a.ep THEN << >> ELSE <<"Epoch">>) \o
     (IF ~enabled \/ R.a = "do" \/ act'.clk = a.clk THEN << >> ELSE <<"Clock">>) \o
     (IF R.exp_ok THEN << >> ELSE <<"Expected">>)

Say(marker, names, n) == names = << >> \/ PrintT(<<marker, ToJson([l |-> n, c |-> names])>>)

TInit ==
  /\ Init
  /\ l = 0 /\ omon = Mon0 /\ mbad = 0 /\ sbad = 0 /\ obad = 0

Reset ==
  /\ kfreq' = 0 /\ kfset' = FALSE /\ kstatus' = {} /\ koff' = 0 /\ ksteps' = 0 /\ now' = 0
  /\ epoch' = 0 /\ cur' = 0 /\ after' = << >> /\ timers' = {} /\ dead' = FALSE /\ dotx' = NoTx
  /\ act' = NoAct /\ pmon' = Mon0 /\ mon' = Mon0 /\ nops' = 0 /\ nadv' = 0 /\ hist' = << >>
  /\ omon' = Mon0
  /\ UNCHANGED <<mbad, sbad, obad>>

\* the action of SysClock.tla that the event stands for, and whether it is enabled
FireTimers(R) == {t \in timers : t.adj = R.k /\ t.exp <= now}
IsEnabled(R) ==
  CASE R.a \in {"adjust", "step", "epoch"} -> ~dead
    [] R.a = "fire" -> FireTimers(R) # {}
    [] R.a = "advance" -> R.d >= 0
    [] R.a = "do" -> ~dead
    [] OTHER -> FALSE
Action(R) ==
  CASE R.a = "adjust" -> Adjust(R.off, R.dur, R.freq)
    [] R.a = "step" -> Step(R.off)
    [] R.a = "epoch" -> ReadEpoch
    [] R.a = "fire" -> \E t \in FireTimers(R) : TimerFire(t)
    [] R.a = "advance" -> Advance(R.d)
    [] R.a = "do" -> DoStep(R.off, ToSet(R.st))

Judge(R, enabled) ==
  /\ omon' = MonNext(omon, ObsAct(R))
  /\ mbad' = mbad + Len(MFailing(R, omon)) /\ Say("MBAD", MFailing(R, omon), l')
  /\ sbad' = sbad + Len(SFailing(R, enabled)) /\ Say("SBAD", SFailing(R, enabled), l')
  /\ obad' = obad + Len(OFailing(R, omon)) /\ Say("OBAD", OFailing(R, omon), l')

Event(R) ==
  IF R.a = "fire" /\ R.not_due
  THEN \* nothing was delivered: only the disagreement with the generated schedule is noted
       /\ UNCHANGED <<svars, omon, mbad, obad>>
       /\ sbad' = sbad + 1 /\ Say("SBAD", <<"NotDue">>, l')
  ELSE IF IsEnabled(R)
  THEN Action(R) /\ Judge(R, TRUE)
  ELSE UNCHANGED svars /\ Judge(R, FALSE)

\* the slew branch of Do is two steps of the specification (DoRead, DoWrite) for one event
SlewDo(R) == R.a = "do" /\ Abs(R.off) <= Thr /\ ~dead

TNext ==
  /\ l < N
  /\ IF dotx.on
     THEN l' = l + 1 /\ DoWrite /\ Judge(Trace[l'], TRUE)
     ELSE IF Trace[l + 1].a # "reset" /\ SlewDo(Trace[l + 1])
     THEN DoRead(Trace[l + 1].off, ToSet(Trace[l + 1].st)) /\ UNCHANGED <<l, omon, mbad, sbad, obad>>
     ELSE /\ l' = l + 1
          /\ IF Trace[l'].a = "reset" THEN Reset ELSE Event(Trace[l'])

TSpec == TInit /\ [][TNext]_tvars

MonitorReport == l = N => PrintT(<<"MDONE", ToJson([n |-> mbad, events |-> N])>>)
StrictReport  == l = N => PrintT(<<"SDONE", ToJson([n |-> sbad, events |-> N])>>)
ObserveReport == l = N => PrintT(<<"ODONE", ToJson([n |-> obad, events |-> N])>>)
=============================================================================
