package c08

// Client histories (Robust.tla, section "Client histories"): a case with il = "yes" is a sequence of
// exchanges on ONE client value (IPClient / SCIONClient with InterleavedMode, kept by the client
// child under a name).  The harness plays the network: per request that arrives it does what the
// next symbol of the script says (answers in basic or interleaved mode, stays silent, sends junk,
// ...), call after call until the script is used up; then one more call on the same client value is
// answered the way a genuine server would (the sentinel).
//
// Recorded for RobustTrace.tla: outcome (child_died / hang if ANY call of the history or the
// sentinel call ended so, else the result of the last scripted call), sentinel_answered, and what
// was seen of the history: hq (kind of every request: "b" basic, "i" interleaved), hn (requests per
// call), hr (result per call).

import (
	"fmt"
	"net"
	"sync"
	"sync/atomic"
	"time"
)

type histT struct {
	kind  string
	conn  *net.UDPConn // where the requests of the client arrive
	parse func(b []byte) (req []byte, cport uint16, ok bool)
	send  func(ntp []byte, cport uint16, from *net.UDPAddr)
	cmd   func(cid string, deadlineMs int) clientCmd
}

type histRun struct {
	mu      sync.Mutex
	script  []string
	idx     int
	applied []string // symbol applied to every request of the scripted calls
	qs      []string // kind of every request of the scripted calls
	inexact bool     // the network could not do what the script says (a pause in the middle of a call)
	callReq int      // requests of the current call
	callTmo bool     // a symbol applied in the current call makes the exchange run into the deadline
}

func (l *lane) histIP() *histT {
	return &histT{kind: "ipcli", conn: l.ntp,
		parse: func(b []byte) ([]byte, uint16, bool) { return b, 0, len(b) >= 48 },
		send:  func(ntp []byte, _ uint16, from *net.UDPAddr) { l.ntp.WriteToUDP(ntp, from) },
		cmd: func(cid string, d int) clientCmd {
			return clientCmd{Op: "ip", IL: true, Cid: cid, Local: l.cliIP, Remote: l.fakeIP, Port: ntpPort, DeadlineMs: d}
		}}
}

func (l *lane) histSCION() *histT {
	canon := dgram{Da: "t0l4", Sa: "t0l4", Pt: "empty", Ext: "none", L4: "udp", Ul: "ok"}
	return &histT{kind: "sccli", conn: l.scHop,
		parse: func(b []byte) ([]byte, uint16, bool) {
			cport, pl, ok := scParse(b)
			if !ok || len(pl) < 48 {
				return nil, 0, false
			}
			return pl[len(pl)-48:], cport, true
		},
		send: func(ntp []byte, cport uint16, from *net.UDPAddr) {
			prm := scParams{srcIA: scIA, dstIA: scIA, srcHost: ip4(l.fakeIP), dstHost: from.IP.To4(),
				srcPort: scSrvPort, dstPort: cport, payload: ntp}
			g := canon
			l.scHop.WriteToUDP(scBytes(l.rng, &g, prm), from)
		},
		cmd: func(cid string, d int) clientCmd {
			return clientCmd{Op: "scion", IL: true, Cid: cid, Local: l.cliIP, Remote: l.fakeIP, Port: scSrvPort,
				NextHop: fmt.Sprintf("%s:%d", l.fakeIP, 31000), DeadlineMs: d}
		}}
}

// the NTP payload the network answers with, nil for silence
func (l *lane) histResponse(sym, q string, req []byte) []byte {
	if sym == "auto" { // a genuine server that still holds the pair of the client's last exchange
		sym = map[bool]string{true: "ileave", false: "basic"}[q == "i"]
	}
	g := dgram{Sz: "s48", Org: "match", Meta: "ok", Ts: "ok"}
	switch sym {
	case "basic":
	case "ileave":
		g.Org = "ileave"
	case "ileaveneg":
		g.Org, g.Ts = "ileave", "old"
	case "junk":
		g.Sz = "s47"
	case "meta":
		g.Meta = "str0"
	default: // lost
		return nil
	}
	return l.cliResponse(&g, req, false, nil)
}

func histTimesOut(sym, q string) bool {
	return sym == "lost" || sym == "junk" || ((sym == "ileave" || sym == "ileaveneg") && q == "b")
}

// histCall runs one call of the client child on the client value cid while the harness answers its
// requests: by the script (sentinel = false) or as a genuine server (sentinel = true).
func (l *lane) histCall(ht *histT, st *histRun, cid string, deadlineMs int, sentinel bool) (res clientRes, state, sig, detail string) {
	l.drainUDP(ht.conn)
	var stop atomic.Bool
	done := make(chan struct{})
	st.mu.Lock()
	st.callReq, st.callTmo = 0, false
	st.mu.Unlock()
	go func() {
		defer close(done)
		buf := make([]byte, 16384)
		for !stop.Load() {
			ht.conn.SetReadDeadline(time.Now().Add(25 * time.Millisecond))
			n, from, err := ht.conn.ReadFromUDP(buf)
			if err != nil {
				continue
			}
			req, cport, ok := ht.parse(buf[:n])
			if !ok {
				continue
			}
			q := "b"
			for _, x := range req[32:40] { // the receive timestamp of an interleaved request is prev.cRxTime
				if x != 0 {
					q = "i"
				}
			}
			sym := "auto"
			st.mu.Lock()
			if !sentinel {
				if st.idx < len(st.script) && st.script[st.idx] != "gap" {
					sym = st.script[st.idx]
					st.idx++
				} else if st.idx < len(st.script) {
					st.inexact = true // a pause is possible between calls only
				}
				st.applied = append(st.applied, sym)
				st.qs = append(st.qs, q)
			}
			st.callReq++
			if histTimesOut(sym, q) {
				st.callTmo = true
			}
			st.mu.Unlock()
			if b := l.histResponse(sym, q, append([]byte(nil), req...)); b != nil {
				ht.send(b, cport, from)
			}
		}
	}()
	res, state, sig, detail = l.cliCall(ht.cmd(cid, deadlineMs))
	stop.Store(true)
	ht.conn.SetReadDeadline(time.Now())
	<-done
	return
}

func (l *lane) runHist(tc *tcase, c *acase, out emitter, ht *histT) {
	r := rec{Id: tc.Id, Kind: c.Kind, Cls: "abstract", C: tc.C, Lane: l.id, Hq: []string{}, Hn: []int{}, Hr: []string{}}
	l.hseq++
	cid := fmt.Sprintf("h%d-%d", tc.Id, l.hseq)
	st := &histRun{}
	for _, e := range c.Hs {
		if e.X != "auto" { // what the last call sends behind the script is answered by a genuine server anyway
			st.script = append(st.script, e.X)
		}
	}
	const deadline = 150
	lastOk := false
	finish := func() {
		r.Hq = append(r.Hq, st.qs...)
		if st.inexact && r.Cls == "abstract" {
			r.Cls = "loaded"
		}
		out.Emit(r)
	}
	for calls := 0; st.idx < len(st.script); calls++ {
		if st.script[st.idx] == "gap" { // more than 3 s pass before the next call
			time.Sleep(3100 * time.Millisecond)
			st.idx++
			continue
		}
		if calls > len(st.script)+3 {
			r.Outcome, r.Detail = "stall", "the client child sent no request in several calls: the history could not be driven"
			finish()
			return
		}
		res, state, sig, detail := l.histCall(ht, st, cid, deadline, false)
		if state != "returned" {
			// child_died / hang: the responses of this history terminated the process / stopped the call
			r.Outcome, r.Sig, r.Detail = state, sig, detail
			r.Hn = append(r.Hn, st.callReq)
			r.Hr = append(r.Hr, "dead")
			r.Hex = fmt.Sprintf("history %v", st.applied)
			finish()
			return
		}
		r.Hn = append(r.Hn, st.callReq)
		r.Hr = append(r.Hr, map[bool]string{true: "ok", false: "err"}[res.Ok])
		r.Detail = res.Err
		lastOk = res.Ok
		// a call that lasted until its deadline although the network answered everything in time: busy machine
		if !st.callTmo && res.Ms >= float64(deadline)-3 {
			r.Cls = "loaded"
		}
	}
	r.Outcome = map[bool]string{true: "served", false: "dropped"}[lastOk]
	if c.Kind == "sccli" && !lastOk && l.cli != nil && !l.cli.exited() && l.cli.spinning(50*time.Millisecond) &&
		l.cli.spinning(100*time.Millisecond) && l.cli.spinning(100*time.Millisecond) {
		dump := l.cli.dumpAndKill()
		l.cli = nil
		r.Outcome, r.Sig = "hang", spinSignature(dump)
		r.Detail = "the call returned at its deadline, the receive path keeps spinning"
		finish()
		return
	}
	// the sentinel: the next exchange of the SAME client value with a genuine server
	var res2 clientRes
	var state2, sig2, detail2 string
	for k, d := 0, deadline; k < 2 && !r.Sentinel; k, d = k+1, d*4 {
		res2, state2, sig2, detail2 = l.histCall(ht, st, cid, d, true)
		r.Sentinel = state2 == "returned" && res2.Ok
		if state2 != "returned" {
			break
		}
	}
	if state2 == "child_died" || state2 == "hang" {
		// a well-formed response to this client terminated the process / never let the call return
		r.Outcome, r.Sig, r.Detail = state2, sig2, detail2
		r.Hex = fmt.Sprintf("history %v, then a genuine response", st.applied)
	} else if !r.Sentinel && state2 == "returned" && l.cli != nil && !l.cli.exited() {
		// alive and returning, yet unanswered twice: one long last attempt decides between slowness and a refusal
		res3, state3, sig3, detail3 := l.histCall(ht, st, cid, deadline*16, true)
		switch {
		case state3 == "returned" && res3.Ok:
			r.Sentinel = true
		case state3 == "returned" && l.cli != nil && !l.cli.exited() && !l.cli.spinning(100*time.Millisecond):
			// returned without a measurement, at its deadline or before it (the SCION call reports "no
			// measurement" when its attempts ran out of time): the child answered, is alive and idle -
			// nothing was terminated and no loop stopped; the exchange itself is not C08's subject
			r.Outcome, r.Detail = "stall", "client sentinel returned without a measurement three times with growing deadlines ("+res3.Err+"); the child is alive and idle"
		case state3 == "child_died" || state3 == "hang":
			r.Outcome, r.Sig, r.Detail = state3, sig3, detail3
		}
	}
	finish()
}
