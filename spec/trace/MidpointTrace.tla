--------------------------- MODULE MidpointTrace ---------------------------
(***************************************************************************)
(* Validation of records produced by the real FaultTolerantMidpoint /      *)
(* Median / Midpoint functions (harness/c02) against Midpoint.tla.         *)
(* Records are independent; positions 1..Len(Trace) are visited as a       *)
(* 16-ary tree so that all TLC workers share the work.                     *)
(* A record is one call.  Calls made while other goroutines were calling   *)
(* the functions on their own inputs (spec/MidpointConc.tla, conc = TRUE)  *)
(* are judged by the same clauses: each caller's result on its own input.  *)
(*   monitor (cfg MidpointTrace_mon): the property section of C02          *)
(*   strict  (cfg MidpointTrace_strict): functional equality with the spec *)
(***************************************************************************)
EXTENDS Integers, Sequences, FiniteSets, TLC, Json

W == 6
Vals == {}
MaxN == 0
VARIABLES s, l
INSTANCE Midpoint

Trace == ndJsonDeserialize("trace.ndjson")
N == Len(Trace)

TInit == l = 0 /\ s = << >>
TNext == /\ \E j \in 1 .. 16 : l' = 16 * l + j /\ l' <= N
         /\ s' = Trace[l'].s
TSpec == TInit /\ [][TNext]_<<s, l>>

R == Trace[l]
n == Len(R.s)
f == FaultyMax(n)
Pairs(a, b) == [i \in DOMAIN a |-> <<a[i], b[i]>>]
SortedByOff(a) == \A i \in 1 .. (Len(a) - 1) : a[i] <= a[i + 1]

\* A call that returned; a call that did not (recovered panic) has no result
\* to judge and fails RReturns; k = "race" is a report of the race detector
\* about two calls, not a call.
IsAnyCall == l > 0 /\ R.k \in {"dur", "meas"}
IsCall == IsAnyCall /\ ~R.panicked

\* ------------------------------------------------------------- monitor
\* for every n >= 1 there is a result (MidpointConc!CReturns)
RReturns  == IsAnyCall => ~R.panicked
\* concurrent calls on disjoint inputs do not touch common memory
\* (MidpointConc!CRaceFree): the race detector had nothing to report about
\* two calls of the functions under test
RRaceFree == l > 0 => R.k # "race"
RContain  == IsCall => (IF n <= 8 THEN ContainFor(R.s, R.ftm) ELSE ContainTight(R.s, R.ftm))
RMedianIn == IsCall => MedianIn(R.s, R.med)
ROrderInv == IsCall => (R.ftm = R.ftm0 /\ R.med = R.med0)
RReorders == IsCall =>
   IF R.k = "dur"
   THEN IsPerm(R.s, R.postf) /\ IsPerm(R.s, R.postm)
   ELSE IsPerm(Pairs(R.s, R.ts), Pairs(R.postf, R.postft)) /\ IsPerm(Pairs(R.s, R.ts), Pairs(R.postm, R.postmt))
RRaw      == IsCall => R.raw_ok
RMidOK    == (IsCall /\ R.k = "dur") =>
   LET ss == Sort(R.s) IN ss[f + 1] <= R.mid /\ R.mid <= ss[n - f]
\* measurement variant: the combined timestamp lies between the timestamps of
\* the two selected measurements, error is nil.  "Selected" = two distinct
\* inputs (one input if both ranks coincide) whose offsets are the values of
\* rank lo and hi; with equal offsets several inputs qualify and the statement
\* does not say which one is taken, nor that the slice is left sorted (a
\* property-preserving re-implementation by partial selection was alarmed on
\* when the positions of the sorted slice were used), so the clause is
\* existential over the qualifying inputs.
Between2(x, a, b) == (2 * a <= x /\ x <= 2 * b) \/ (2 * b <= x /\ x <= 2 * a)
SelectedBetween(x2, lo, hi) ==
   LET ss == Sort(R.s) IN
   \E i, j \in 1 .. n : /\ (lo = hi) = (i = j)
                        /\ R.s[i] = ss[lo] /\ R.s[j] = ss[hi]
                        /\ Between2(x2, R.ts[i], R.ts[j])
RTsBetween == (IsCall /\ R.k = "meas") =>
   /\ SelectedBetween(R.ftmts2, f + 1, n - f)
   /\ SelectedBetween(R.medts2, (n + 1) \div 2, n \div 2 + 1)
RErrNil   == (IsCall /\ R.k = "meas") => R.errnil

\* -------------------------------------------------------------- strict
SEqualsSpec == IsCall => (R.ftm = FTM(R.s) /\ R.med = Median(R.s))
SMid        == (IsCall /\ R.k = "dur") =>
   LET ss == Sort(R.s) IN R.mid = Mid(ss[f + 1], ss[n - f])
\* the slice is left sorted by offset (what slices.SortFunc does; not demanded)
SSorted     == (IsCall /\ R.k = "meas") => SortedByOff(R.postf) /\ SortedByOff(R.postm)
=============================================================================
