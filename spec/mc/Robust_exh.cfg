SPECIFICATION Spec
CONSTANTS
  Kinds <- KindsAll
  MaxExt = 3
  MaxExtCli = 2
  MaxKe = 2
  MaxCases = 2
  ScDev = 1
  MaxHist = 3
  Bursts = {"vn", "vk", "mix"}
  Wide = FALSE
  ExtLenZeroLoops = FALSE
  NonceLenUnchecked = FALSE
  CookieDecodeUnchecked = FALSE
  PacketOverflowUnchecked = FALSE
  ShortUniqueIdEchoed = FALSE
  CsptpShortDatagram = FALSE
  ScionReverseUnchecked = FALSE
  ScionAddrLenUnchecked = FALSE
  ScionAuthOptUnchecked = FALSE
  ScionMacErrPanics = FALSE
  ScionTsOptUnchecked = FALSE
  ScionTsOptTrusted = FALSE
  CmsgLenUnchecked = FALSE
INVARIANTS TypeOK OutcomeConsistent NeverDead NoSpin EveryIterationAdvances SentinelNotLost
