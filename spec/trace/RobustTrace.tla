---------------------------- MODULE RobustTrace ----------------------------
(***************************************************************************)
(* Validation of what the REAL receive loops did (harness/c08) against     *)
(* Robust.tla.  One record per input: the abstract case c (as TLC emitted  *)
(* it), cls ("abstract": the concrete input realises exactly the classes   *)
(* of c; "sampling": a byte-level mutant of such an input), the observed   *)
(* outcome in {served, dropped, child_died, hang}, sentinel_answered, and  *)
(* the structural signature of a crash / hang.  Records are independent    *)
(* and visited as a 16-ary tree.  A record of a client history             *)
(* (c.il = "yes") stands for ALL calls of the history and the sentinel     *)
(* call on the same client value: child_died / hang if any of them ended   *)
(* so; a record whose datagram has a burst (g.bu) for the burst, the       *)
(* crafted datagram and the sentinel.  cls "loaded": a history during      *)
(* which a call ran into its deadline although every request had been      *)
(* answered (busy machine) -- judged by the monitor, not by strict.        *)
(*   monitor (RobustTrace_mon): the property section of C08 on the         *)
(*       recorded behaviour -- NeverDead, Progress, SentinelServed.        *)
(*   strict (RobustTrace_strict): the observed outcome is one the          *)
(*       transition function of Robust.tla allows for this input, under    *)
(*       the code-as-written switches or under the repaired ones.          *)
(***************************************************************************)
EXTENDS Integers, Sequences, FiniteSets, TLC, Json

VARIABLE l

Fa == INSTANCE Robust WITH pc <- "Idle", alive <- TRUE, spin <- FALSE, c <- 0, g <- 0, sent <- "none", k <- 0, tick <- 0,
        Kinds <- {}, MaxExt <- 0, MaxExtCli <- 0, MaxKe <- 0, MaxCases <- 0, Wide <- TRUE, ScDev <- 99, MaxHist <- 0, Bursts <- {"vn", "vk", "mix"},
        ExtLenZeroLoops <- TRUE, NonceLenUnchecked <- TRUE, CookieDecodeUnchecked <- TRUE,
        PacketOverflowUnchecked <- TRUE, ShortUniqueIdEchoed <- TRUE, CsptpShortDatagram <- TRUE,
        ScionReverseUnchecked <- TRUE, ScionAddrLenUnchecked <- TRUE, ScionAuthOptUnchecked <- TRUE, ScionMacErrPanics <- TRUE,
        ScionTsOptUnchecked <- TRUE, ScionTsOptTrusted <- TRUE, CmsgLenUnchecked <- TRUE
Rp == INSTANCE Robust WITH pc <- "Idle", alive <- TRUE, spin <- FALSE, c <- 0, g <- 0, sent <- "none", k <- 0, tick <- 0,
        Kinds <- {}, MaxExt <- 0, MaxExtCli <- 0, MaxKe <- 0, MaxCases <- 0, Wide <- TRUE, ScDev <- 99, MaxHist <- 0, Bursts <- {"vn", "vk", "mix"},
        ExtLenZeroLoops <- FALSE, NonceLenUnchecked <- FALSE, CookieDecodeUnchecked <- FALSE,
        PacketOverflowUnchecked <- FALSE, ShortUniqueIdEchoed <- FALSE, CsptpShortDatagram <- FALSE,
        ScionReverseUnchecked <- FALSE, ScionAddrLenUnchecked <- FALSE, ScionAuthOptUnchecked <- FALSE, ScionMacErrPanics <- FALSE,
        ScionTsOptUnchecked <- FALSE, ScionTsOptTrusted <- FALSE, CmsgLenUnchecked <- FALSE

Trace == ndJsonDeserialize("trace.ndjson")
N == Len(Trace)
R == Trace[l]

\* (only the pure operators of Robust.tla are used here; its variables are not part of the trace state)
TInit == l = 0
TNext == \E j \in 1 .. 16 : l' = 16 * l + j /\ l' <= N
TSpec == TInit /\ [][TNext]_l

\* ------------------------------------------------------------- monitor
\* NeverDead: no input terminated the process
RNeverDead == l > 0 => R.outcome # "child_died"
\* Progress: no input stopped the receiving loop / the call from making progress
RProgress == l > 0 => R.outcome # "hang"
\* SentinelServed: the next well-formed request on the same socket was answered
RSentinelServed == l > 0 => R.sentinel_answered
RWellFormed == l > 0 => R.outcome \in {"served", "dropped", "child_died", "hang"}

\* -------------------------------------------------------------- strict
Agrees(obs, pred) ==
  \/ obs = "served" /\ pred = "served"
  \/ obs = "dropped" /\ pred = "dropped"
  \/ obs = "child_died" /\ pred \in {"dead", "hangoom"}
  \/ obs = "hang" /\ pred \in {"hang", "hangoom"}
PredFinals == Fa!Finals(R.c) \cup Rp!Finals(R.c)
\* a history (R.c.il = "yes"): what the harness saw of it -- the kind of every request (hq), the number of
\* requests (hn) and the result (hr) of every call, sentinel excluded -- is what the transition function gives
HistAgrees(s) == /\ Fa!HistQ(s.c.hs) = R.hq
                 /\ Fa!HistCallLens(s.c.hs) = R.hn
                 /\ Fa!HistCallRes(s.c.hs) = R.hr
SExplained == (l > 0 /\ R.cls = "abstract") =>
                \E s \in PredFinals : Agrees(R.outcome, s.c.out) /\ (R.c.il = "yes" => HistAgrees(s))
\* the faithful specification alone (information: which records are explained only by the repaired one)
SFaithful == (l > 0 /\ R.cls = "abstract") => \E p \in Fa!Predicted(R.c) : Agrees(R.outcome, p[1])
=============================================================================
