SPECIFICATION TSpec
INVARIANTS TMacSoundReq TMacSoundResp TAuthReply TAuthReplyClient TReplyAddressing TForwardRule TNoStrayToEh
