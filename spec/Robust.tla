------------------------------- MODULE Robust -------------------------------
(***************************************************************************)
(* C08 - no network input can crash or hang a listener or a client.        *)
(*                                                                         *)
(* The receive pipelines of scion-time as state machines over ABSTRACT     *)
(* inputs.  One process per receive loop; `pc` is the stage of the input   *)
(* currently being processed, `alive` is the process.                      *)
(*                                                                         *)
(*   ipsrv    core/server/server_ip.go runIPServer                         *)
(*            -> ntp.DecodePacket -> nts.DecodePacket -> FirstCookie       *)
(*            -> EncryptedServerCookie.Decode -> Provider.Get -> Decrypt   *)
(*            -> nts.ProcessRequest (authenticate) -> ntp.ValidateRequest  *)
(*            -> handleRequest -> ntp/nts.EncodePacket -> WriteTo          *)
(*   ipcli    core/client/client_ip.go measureClockOffsetIP (one call):    *)
(*            [ntske.Fetcher.FetchData -> dialTLS -> ReadData]             *)
(*            -> nts.NewRequestPacket/EncodePacket -> WriteTo              *)
(*            -> receive loop with one retry: source, ntp.DecodePacket,    *)
(*               nts.DecodePacket, nts.ProcessResponse (unique id,         *)
(*               authenticate), origin, ValidateResponseMetadata,          *)
(*               ValidateResponseTimestamps                                *)
(*   kesrv    core/server/ntske_ip.go handleKeyExchangeTLS (one            *)
(*            connection): TLS handshake -> ntske.ReadData -> ExportKeys   *)
(*            -> newNTSKEMsg -> Write                                      *)
(*   csptpsrv core/server/server_csptp_ip.go runCSPTPServerIP              *)
(*   csptpcli core/client/client_csptp_ip.go MeasureClockOffset            *)
(*   scsrv    core/server/server_scion.go runSCIONServer (the listeners    *)
(*            on the server port and on the end-host port 30041): slayers  *)
(*            decoding, SCMP responder, end-host forwarder, SPAO           *)
(*            authenticator, NTP request, reply over the reversed path     *)
(*   sccli    core/client/client_scion.go measureClockOffsetSCION:         *)
(*            slayers decoding, address check, e2e options 253 (receive    *)
(*            timestamp as control-message bytes) and authenticator, NTP   *)
(*                                                                         *)
(* An abstract input is a record of small enumerations, ONE PER PARSING    *)
(* DECISION of the code.  It is revealed lazily: the stage that looks at   *)
(* a property of the input chooses it (\E over the decision's classes)     *)
(* and records the choice in the case record `c` / the datagram record     *)
(* `g`.  A finished case therefore IS the abstract input that drives the   *)
(* real code down exactly this path; it is what TLC emits for the Go       *)
(* concretiser (spec -> code), and what RobustTrace.tla feeds back as a    *)
(* script (code -> spec): with a script every choice is bound to the       *)
(* recorded one, and the same transition function has to end in the        *)
(* recorded outcome.                                                       *)
(*                                                                         *)
(* The code's panic sites and its non-advancing extension-field loop are   *)
(* explicit transitions to alive = FALSE / a self-loop, each behind a      *)
(* named switch (TRUE = the code as written, FALSE = the repaired code in  *)
(* which the same input is a decode error).                                *)
(*                                                                         *)
(* Two dimensions of the environment go beyond "one input to one loop":    *)
(*   CLIENT HISTORIES  (ipcli, sccli with InterleavedMode, c.il = "yes"):  *)
(*     a case is a sequence c.hs of exchanges on ONE client value; the     *)
(*     network ends each exchange in one of the ways of HistSyms (answered *)
(*     basic / interleaved, lost, junk then silence, an error response,    *)
(*     a pause); the client's reaction to a response depends on the state  *)
(*     c.h it carries from exchange to exchange (section "Client           *)
(*     histories").                                                        *)
(*   BURSTS  (ipsrv, scsrv, g.bu): the crafted datagram is preceded by     *)
(*     concurrent traffic from many source addresses to all receive loops  *)
(*     of the listener (RobustBurst.tla is the model of the loops and of   *)
(*     the store they share; here a burst is one environment step).        *)
(***************************************************************************)
EXTENDS Integers, Sequences, FiniteSets, TLC

CONSTANTS
  Kinds,        \* pipelines of this run, subset of AllKinds
  MaxExt,       \* extension fields revealed per datagram (server)
  MaxExtCli,    \* same, client side
  MaxKe,        \* NTS-KE records revealed per stream (before the terminator)
  MaxCases,     \* crafted inputs per behaviour (each followed by a sentinel)
  Wide,         \* TRUE: full class alphabets; FALSE: the reduced ones (quick tier)
  ScDev,        \* SCION datagrams: how many dimensions may deviate from the canonical datagram at once
  MaxHist,      \* client histories: scripted exchanges on one client value (0: no histories)
  Bursts,       \* burst classes that may precede a crafted datagram (subset of BurstAll; {}: none)
  \* ---- switches: TRUE = as written in the pinned tree
  ExtLenZeroLoops,        \* nts.DecodePacket / authenticate: pos += Length-4 for Length < 4
  NonceLenUnchecked,      \* AEAD.Open is handed a network-supplied nonce of length # 16
  CookieDecodeUnchecked,  \* EncryptedServerCookie.Decode indexes / slices without bounds checks
  PacketOverflowUnchecked,\* nts.EncodePacket: fields that do not fit MaxPacketLen
  ShortUniqueIdEchoed,    \* server echoes a unique id of < 32 bytes: UniqueIdentifier.pack fails, EncodePacket panics
  CsptpShortDatagram,     \* CSPTPClientIP: buf[MinMessageLength:] on a datagram shorter than 44 bytes
  \* ---- SCION
  ScionReverseUnchecked,  \* server: panic(err) when Path.Reverse() fails (unassigned path type, empty SCION path, ...)
  ScionAddrLenUnchecked,  \* netip.AddrFromSlice on an 8- or 12-byte host address: panic (server and client compareIPs)
  ScionAuthOptUnchecked,  \* scion.PacketAuthOptMetadata panics on an authenticator option whose data is not 28 bytes
  ScionMacErrPanics,      \* server: panic(err) when spao.ComputeAuthCMAC fails (it does for unassigned path types)
  ScionTsOptUnchecked,    \* client: option 253 is parsed as control-message bytes (udp.TimestampFromOOBData): its panic
                          \* sites and an unchecked re-slice are reachable from the network
  CmsgLenUnchecked,       \* udp.TimestampFromOOBData without the lower bound on cmsg_len: a first control message of
                          \* declared length 0 that is no timestamp message does not advance the walk
  ScionTsOptTrusted       \* client: the receive time taken from option 253 is not checked against the transmit time:
                          \* ntp.ValidateResponseTimestamps panics ("unexpected system clock behavior") when t3 < t0

\* nts.MaxPacketLen: size of an encoded NTS packet and of the NTS client's receive buffer
\* (1024 in the tree this module was first written against; 1280 since 2504fca)
MaxPacketLen == 1280

AllKinds == {"ipsrv", "ipcli", "kesrv", "csptpsrv", "csptpcli", "scsrv", "sccli"}
IsClientKind(k) == k \in {"ipcli", "csptpcli", "sccli"}

(***************************************************************************)
(* Records.  "na" = not looked at by the code on this path (the            *)
(* concretiser fills such don't-cares from the seed).                      *)
(***************************************************************************)
G0 == [sz |-> "na", src |-> "na", fs |-> << >>, end |-> "na", ck |-> "na",
       an |-> "na", ac |-> "na", av |-> "na", inner |-> "na", uidm |-> "na",
       org |-> "na", b0 |-> "na", meta |-> "na", ts |-> "na",
       \* CSPTP
       ml |-> "na", mt |-> "na", seq |-> "na", tlv |-> "na",
       \* SCION
       cp |-> "na", sc |-> "na", da |-> "na", sa |-> "na", ia |-> "na", pt |-> "na", ext |-> "na",
       eo |-> "na", l4 |-> "na", ul |-> "na", dp |-> "na", pl |-> "na", tr |-> "na",
       \* servers: the burst of concurrent traffic that precedes this datagram
       bu |-> "na"]

\* the interleaved-mode state a client value carries from exchange to exchange (c.prev in the code):
\*   ref  prev.reference is set (an exchange has been accepted)
\*   il   prev.interleaved (the last accepted response was an interleaved one)
\*   old  prev.cTxTime is more than 3 s in the past
\*   tx, rx  the exchange (its number in the history) whose transmit time is in prev.cTxTime resp. whose
\*        receive time is in prev.cRxTime -- as written both are stored together, when a response is accepted
H0 == [ref |-> FALSE, il |-> FALSE, old |-> FALSE, tx |-> 0, rx |-> 0]

C0(kind) == [kind |-> kind, auth |-> "na", pre |-> "na", ke |-> << >>, kt |-> "na",
             rs |-> << >>, out |-> "na", site |-> "na",
             \* clients: InterleavedMode of the client value ("yes": the case is a history hs on it), its state
             il |-> "na", hs |-> << >>, h |-> H0]

NoScript == [kind |-> "noscript"]
Scripted(sc) == sc.kind # "noscript"

\* the state of one process as a record, so that the transition relation is a
\* set-valued function Succ(s, sc) shared by Next (sc = NoScript: every class)
\* and by trace validation (sc = the recorded case)
St(pc_, alive_, spin_, c_, g_) == [pc |-> pc_, alive |-> alive_, spin |-> spin_, c |-> c_, g |-> g_]

J(s) == Len(s.c.rs) + 1          \* index of the datagram being processed

\* a decision the recorded run never took ("na": the concretiser chose freely) is open
PickC(sc, key, Dom) == IF Scripted(sc) /\ sc[key] # "na" THEN {sc[key]} \cap Dom ELSE Dom
\* behind the last recorded datagram there is silence (nothing else was sent)
PickG(s, sc, key, Dom) ==
  IF ~Scripted(sc) THEN Dom
  ELSE IF J(s) <= Len(sc.rs) THEN (IF sc.rs[J(s)][key] = "na" THEN Dom ELSE {sc.rs[J(s)][key]} \cap Dom)
  ELSE IF key = "sz" THEN {"none"} ELSE {}

(***************************************************************************)
(* Terminal transitions of an input.                                       *)
(***************************************************************************)
\* (nothing is recorded when no datagram is in flight, e.g. a client that fails before it sends)
Push(s) == IF s.g = G0 THEN s ELSE [s EXCEPT !.c.rs = Append(@, s.g), !.g = G0]
\* the input is dropped / reported as an error.  In the clients' receive loops
\* most failures are retried once (numRetries != maxNumRetries && now < deadline)
Fail(s, site, retryable) ==
  IF s.c.kind \in {"ipcli", "sccli"} /\ retryable /\ Len(s.c.rs) = 0
  THEN [Push(s) EXCEPT !.pc = "Await"]
  ELSE [Push(s) EXCEPT !.pc = "Idle", !.c.out = "dropped", !.c.site = site]
Serve(s) == [Push(s) EXCEPT !.pc = "Idle", !.c.out = "served", !.c.site = "-"]
\* a Go panic outside any recover(): the process is gone
Die(s, site) == [Push(s) EXCEPT !.alive = FALSE, !.c.out = "dead", !.c.site = site]
\* a loop whose advance is zero: the goroutine never returns to its read;
\* `alloc`: every iteration allocates a 65532-byte slice (cookie fields keep it, unique
\* identifiers leave it to the collector), so the process may also die of memory exhaustion
Hang(s, site, alloc) == [Push(s) EXCEPT !.spin = TRUE, !.c.out = IF alloc THEN "hangoom" ELSE "hang", !.c.site = site]

(***************************************************************************)
(* NTS extension fields  (net/nts/nts.go DecodePacket)                     *)
(*   t: uid 0x104, cookie 0x204, ph 0x304, auth 0x404, unk anything else   *)
(*   l: the Length field relative to what the decoder does with it         *)
(*      zero   0            pos += 4 - 4: the same header is read again    *)
(*      short  1..3         pos advances 1..3: the next header overlaps    *)
(*                          this one (its type bytes are this Length)      *)
(*      four   4            empty value                                    *)
(*      odd    5..7         cookie of 1..3 bytes                           *)
(*      ok     the natural length of the field                             *)
(*      small  uid only: value of 1..31 bytes (pack refuses < 32: panic)   *)
(*      big    uid only: value > MaxPacketLen - 56 bytes (echoed into a     *)
(*             reply of MaxPacketLen bytes: no room for the authenticator) *)
(*      beyond pos + Length > len(b): ends the walk                        *)
(***************************************************************************)
F(t, l) == [t |-> t, l |-> l]
FieldAlphaWide ==
  {F("uid", l) : l \in {"zero", "short", "four", "small", "ok", "big", "beyond"}} \cup
  {F("cookie", l) : l \in {"zero", "short", "four", "odd", "ok", "beyond"}} \cup
  {F("ph", l) : l \in {"zero", "short", "ok", "beyond"}} \cup
  {F("unk", l) : l \in {"zero", "short", "four", "ok", "beyond"}} \cup
  {F("auth", l) : l \in {"zero", "ok"}}
FieldAlphaNarrow ==
  {F("uid", l) : l \in {"zero", "short", "small", "ok", "big", "beyond"}} \cup
  {F("cookie", l) : l \in {"zero", "four", "odd", "ok"}} \cup
  {F("ph", l) : l \in {"zero", "ok"}} \cup
  {F("unk", l) : l \in {"zero", "short", "ok", "beyond"}} \cup
  {F("auth", l) : l \in {"zero", "ok"}}
FieldAlpha == IF Wide THEN FieldAlphaWide ELSE FieldAlphaNarrow

HasT(fs, t) == \E i \in DOMAIN fs : fs[i].t = t
FirstOf(fs, t) == fs[CHOOSE i \in DOMAIN fs : fs[i].t = t /\ \A k \in DOMAIN fs : fs[k].t = t => i <= k]
LastOf(fs, t) == fs[CHOOSE i \in DOMAIN fs : fs[i].t = t /\ \A k \in DOMAIN fs : fs[k].t = t => i >= k]
NumT(fs, t) == Cardinality({i \in DOMAIN fs : fs[i].t = t})

\* the header that follows a `short` field overlaps it: its type is 0x0001..0x0003
AfterShort(fs) == fs # << >> /\ fs[Len(fs)].l = "short"
\* (two `big` fields do not fit the server's 2048-byte receive buffer, one does not fit the
\* client's MaxPacketLen-byte buffer together with anything else)
FieldDomK(kind, fs) ==
  IF AfterShort(fs) THEN {f \in FieldAlpha : f.t = "unk"}
  ELSE IF kind = "ipcli" \/ \E i \in DOMAIN fs : fs[i].l = "big" THEN {f \in FieldAlpha : f.l # "big"}
  ELSE FieldAlpha

\* for len(b)-pos >= 28 && !foundAuthenticator { ... pos += int(eh.Length) - 4 }
\* One step = one evaluation of the loop condition plus, if it holds, one body.
\* `after`: pc when the walk returns nil.  Both ipsrv and ipcli use it.
Walk(s, sc, maxf, after) ==
  LET g  == s.g
      n  == Len(g.fs)
      fc == IF Scripted(sc)
            THEN (IF J(s) <= Len(sc.rs) /\ n < Len(sc.rs[J(s)].fs) THEN {sc.rs[J(s)].fs[n + 1]} \cap FieldDomK(s.c.kind, g.fs) ELSE {})
            ELSE (IF n < maxf THEN FieldDomK(s.c.kind, g.fs) ELSE {})
      \* the loop condition fails: fewer than 28 bytes are left (not before the first field: these size
      \* classes have at least 28 bytes behind the NTP header)
      ec == IF n = 0 THEN {}
            ELSE IF Scripted(sc)
            THEN (IF J(s) <= Len(sc.rs) /\ n = Len(sc.rs[J(s)].fs) THEN {sc.rs[J(s)].end} \cap {"short"} ELSE {})
            ELSE {"short"}
      Exit(s1) ==   \* after the loop
        IF ~HasT(s1.g.fs, "uid") THEN Fail(s1, "nts.DecodePacket:errNoUniqueID", TRUE)
        ELSE IF ~HasT(s1.g.fs, "auth") THEN Fail(s1, "nts.DecodePacket:errNoAuthenticator", TRUE)
        ELSE [s1 EXCEPT !.pc = after]
      Body(f) ==
        LET s1 == [s EXCEPT !.g.fs = Append(@, f)] IN
        IF f.l \in {"zero", "short"} /\ ~ExtLenZeroLoops
             THEN Fail(s1, "nts.DecodePacket:extlen", TRUE)           \* repaired: Length < 4 is a decode error
        \* repaired: UniqueIdentifier.unpack refuses an identifier that cannot be echoed (< 32 bytes: pack
        \* fails; too long for a reply of MaxPacketLen)
        ELSE IF f.t = "uid" /\ f.l \in {"four", "small"} /\ ~ShortUniqueIdEchoed
             THEN Fail(s1, "nts.DecodePacket:errShortUniqueID", TRUE)
        ELSE IF f.t = "uid" /\ f.l = "big" /\ ~PacketOverflowUnchecked
             THEN Fail(s1, "nts.DecodePacket:errLongUniqueID", TRUE)
        ELSE IF f.t = "auth" THEN Exit([s1 EXCEPT !.g.end = "auth"])  \* foundAuthenticator (its Length is not used)
        ELSE IF f.l = "zero"
             THEN Hang(s1, "nts.DecodePacket:extlen0", f.t \in {"cookie", "uid"})
        ELSE IF f.l = "beyond" THEN Exit([s1 EXCEPT !.g.end = "beyond"])
        ELSE s1                                                        \* next iteration
  IN IF g.end # "na" THEN {}
     ELSE {Body(f) : f \in fc} \cup {Exit([s EXCEPT !.g.end = e]) : e \in ec}

\* Packet.authenticate: AEAD open, then the same walk over the plaintext
\*   an: Authenticator nonce length  ac: ciphertext length  av: verifies
\*   inner: plaintext shape  none | short (< 28 bytes) | cookie | zero (first Length = 0)
AnDom == IF Wide THEN {"n0", "n15", "n16", "n17", "nmax"} ELSE {"n0", "n16", "n17", "nmax"}
AcDom == IF Wide THEN {"c0", "c15", "ok", "cmax"} ELSE {"c15", "ok", "cmax"}
InnerDom == {"none", "short", "cookie", "zero"}
Authenticate(s, sc, retry, after) ==
  UNION {
    IF an # "n16"
    THEN {IF NonceLenUnchecked THEN Die([s EXCEPT !.g.an = an], "nts.authenticate:noncelen")
                               ELSE Fail([s EXCEPT !.g.an = an], "nts.authenticate:noncelen", retry)}
    ELSE UNION {
      IF ac # "ok"
      THEN {Fail([s EXCEPT !.g.an = an, !.g.ac = ac], "nts.authenticate:notauthentic", retry)}
      ELSE UNION {
        IF av = "no"
        THEN {Fail([s EXCEPT !.g.an = an, !.g.ac = ac, !.g.av = av], "nts.authenticate:notauthentic", retry)}
        ELSE {LET s1 == [s EXCEPT !.g.an = an, !.g.ac = ac, !.g.av = av, !.g.inner = inr] IN
              IF inr = "zero"
              THEN (IF ExtLenZeroLoops THEN Hang(s1, "nts.authenticate:extlen0", FALSE)
                                       ELSE Fail(s1, "nts.authenticate:extlen", retry))
              ELSE [s1 EXCEPT !.pc = after]
              : inr \in PickG(s, sc, "inner", InnerDom)}
        : av \in PickG(s, sc, "av", {"yes", "no"})}
      : ac \in PickG(s, sc, "ac", AcDom)}
    : an \in PickG(s, sc, "an", AnDom)}

(***************************************************************************)
(* Bursts (ipsrv, scsrv)                                                   *)
(* StartIPServer / StartSCIONServer start 8 receive loops per port on      *)
(* SO_REUSEPORT sockets; a 4-tuple reaches one loop only.  The loops share *)
(* the timestamp store (a Go map and a heap guarded by tssMu): every valid *)
(* request looks its client up (handleRequest, updateTXTimestamp) and a    *)
(* request from a new client address inserts.  A burst is concurrent       *)
(* traffic from many source addresses, i.e. to all loops at once:          *)
(*   vn   well-formed requests, each from a new client address             *)
(*   vk   well-formed requests, client addresses recur (interleaved-mode   *)
(*        pairs are stored, updated and removed)                           *)
(*   mix  well-formed requests from new addresses mixed with copies of     *)
(*        the crafted datagram of the case                                 *)
(* RobustBurst.tla has the loops, the lock and the map accesses as         *)
(* separate steps and shows that, with every access under tssMu, no        *)
(* interleaving ends in the runtime's "concurrent map" abort; here the     *)
(* burst is ONE step of the environment that leaves the process as it is.  *)
(* Pairwise: bursts precede the datagrams that are decided without an      *)
(* extension-field walk.                                                   *)
(***************************************************************************)
BurstAll == {"vn", "vk", "mix"}
BuDom(allowed) == IF allowed THEN {"none"} \cup Bursts ELSE {"none"}
BurstSizes == {"s0", "s47", "s48", "s49", "s2049"}

(***************************************************************************)
(* ipsrv                                                                   *)
(***************************************************************************)
\* datagram size against the decisions n < 48, n > 48, len-48 >= 28, MSG_TRUNC (buffer 2048)
SrvSizes == {"s0", "s1", "s47", "s48", "s49", "s75", "ext", "s1024", "s2048", "s2049"}
MaxExtOf(sz, m) == IF sz = "ext" THEN m ELSE 1   \* pairwise: padded sizes with short walks only
\* first byte LI|VN|Mode against ntp.ValidateRequest
B0Ok  == {"v4c", "v3c", "v1m0", "li3c"}
B0Bad == {"li1c", "vn0c", "vn5c", "v4srv", "v1c"}
B0Dom(nts) == IF nts /\ ~Wide THEN {"v4c", "v4srv"} ELSE B0Ok \cup B0Bad
\* cookie value against EncryptedServerCookie.Decode / Provider.Get / Decrypt
CkDecodePanics == {"b1to3", "idshort", "tail", "tlvbeyondn", "tlvbeyondc"}
CkDecodeErrs   == {"tlvbeyondu", "missing", "empty"}
CkNonce        == {"nonce0", "nonce15", "nonce17"}
CkShapes == {"valid", "forged", "unkkey", "ctshort", "idshort", "tail", "tlvbeyondn", "tlvbeyondc",
             "tlvbeyondu", "missing"} \cup (IF Wide THEN CkNonce ELSE {"nonce15", "nonce0"})
CkDom(l) == CASE l = "ok" -> CkShapes [] l = "four" -> {"empty"} [] l = "odd" -> {"b1to3"}
              [] OTHER -> {"opaque"}       \* 65533+ byte / truncated value: contents are whatever follows

SrvSucc(s, sc) ==
  LET g == s.g IN
  CASE s.pc = "Idle" ->           \* [burst;] ReadMsgUDPAddrPort; flags != 0 (MSG_TRUNC) => continue
        UNION {{IF z = "s2049" THEN Fail([s EXCEPT !.g.sz = z, !.g.bu = u], "read:flags", FALSE)
                               ELSE [s EXCEPT !.g.sz = z, !.g.bu = u, !.pc = "Parsed"]
                : u \in PickG(s, sc, "bu", BuDom(z \in BurstSizes))}
               : z \in PickG(s, sc, "sz", SrvSizes)}
    [] s.pc = "Parsed" ->         \* ntp.DecodePacket: len(b) < 48
        {IF g.sz \in {"s0", "s1", "s47"} THEN Fail(s, "ntp.DecodePacket:size", FALSE)
         ELSE [s EXCEPT !.pc = "Decoded"]}
    [] s.pc = "Decoded" ->        \* if len(buf) > 48 { nts.DecodePacket ... }
        IF g.sz = "s48" THEN {[s EXCEPT !.pc = "Authenticated"]}
        ELSE IF g.sz \in {"s49", "s75"} THEN {Fail([s EXCEPT !.g.end = "short"], "nts.DecodePacket:errNoUniqueID", FALSE)}
        ELSE Walk(s, sc, MaxExtOf(g.sz, MaxExt), "NtsDecoded")
    [] s.pc = "NtsDecoded" ->     \* FirstCookie, cookie Decode, provider.Get, Decrypt
        IF ~HasT(g.fs, "cookie") THEN {Fail(s, "nts.FirstCookie:errNoCookies", FALSE)}
        ELSE UNION {
          LET s1 == [s EXCEPT !.g.ck = k] IN
          IF k = "opaque"
            THEN {Fail(s1, "ntske.Decode:err", FALSE)} \cup
                 (IF CookieDecodeUnchecked THEN {Die(s1, "ntske.EncryptedServerCookie.Decode")} ELSE {})
          ELSE IF k \in CkDecodePanics
            THEN {IF CookieDecodeUnchecked THEN Die(s1, "ntske.EncryptedServerCookie.Decode")
                                           ELSE Fail(s1, "ntske.Decode:err", FALSE)}
          ELSE IF k \in CkDecodeErrs THEN {Fail(s1, "ntske.Decode:err", FALSE)}
          ELSE IF k = "unkkey" THEN {Fail(s1, "provider.Get", FALSE)}
          ELSE IF k \in CkNonce
            THEN {IF NonceLenUnchecked THEN Die(s1, "ntske.EncryptedServerCookie.Decrypt:noncelen")
                                       ELSE Fail(s1, "ntske.Decrypt:noncelen", FALSE)}
          ELSE IF k \in {"forged", "ctshort"} THEN {Fail(s1, "ntske.Decrypt:notauthentic", FALSE)}
          ELSE {[s1 EXCEPT !.pc = "Classified"]}
          : k \in PickG(s, sc, "ck", CkDom(FirstOf(g.fs, "cookie").l))}
    [] s.pc = "Classified" ->     \* nts.ProcessRequest
        Authenticate(s, sc, FALSE, "Authenticated")
    [] s.pc = "Authenticated" ->  \* ntp.ValidateRequest
        {IF b \in B0Bad THEN Fail([s EXCEPT !.g.b0 = b], "ntp.ValidateRequest", FALSE)
                        ELSE [s EXCEPT !.g.b0 = b, !.pc = "Validated"]
         : b \in PickG(s, sc, "b0", B0Dom(g.sz # "s48"))}
    [] s.pc = "Validated" ->      \* handleRequest, ntp.EncodePacket, nts.NewResponsePacket / EncodePacket
        \* the reply echoes the request's (last) unique identifier into a buffer of MaxPacketLen bytes
        IF g.sz # "s48" /\ LastOf(g.fs, "uid").l \in {"four", "small"}
        THEN {IF ShortUniqueIdEchoed THEN Die(s, "nts.EncodePacket:errShortUniqueID")
                                     ELSE Fail(s, "nts.DecodePacket:errShortUniqueID", FALSE)}
        ELSE IF g.sz # "s48" /\ LastOf(g.fs, "uid").l \in {"big", "short"}
        THEN {IF PacketOverflowUnchecked THEN Die(s, "nts.EncodePacket:overflow")
                                         ELSE Fail(s, "nts.EncodePacket:overflow", FALSE)}
        ELSE {[s EXCEPT !.pc = "Handled"]}
    [] s.pc = "Handled" -> {[s EXCEPT !.pc = "Sent"]}     \* WriteToUDPAddrPort, ReadTXTimestamp
    [] s.pc = "Sent" -> {Serve(s)}                        \* updateTXTimestamp; next read
    [] OTHER -> {}

(***************************************************************************)
(* NTS-KE record streams  (net/ntske/ntske.go ReadData)                    *)
(* A stream is a sequence of record symbols and a terminator.              *)
(*   np nextproto | aead (15) | aeadx (another algorithm) | srv / srvx     *)
(*   (server record: an IP address / not an address) | port | warn |       *)
(*   unk (unknown, not critical) |                                         *)
(*   ckKS: K cookie records of size class S in {z 0, s 16, n 124, h 1000}  *)
(* terminators: eom | unkc (unknown critical) | err0 err1 err2 err9        *)
(*   (error record) | eof0 (closed at a record boundary) | eofh (inside a  *)
(*   header) | eofb (inside a body)                                        *)
(***************************************************************************)
\* (records that do not fit one read of the bufio.Reader -- a 65535-byte cookie or unknown record --
\* run into the single-Read cookie defect of C14 and are left to the byte-level sampling)
KeCookieSyms == {"ck1n", "ck2n", "ck8n", "ck9n", "ck1s", "ck8z", "ck1h"}
KeSymsWide == {"np", "aead", "aeadx", "srv", "srvx", "port", "warnnc", "unk"} \cup KeCookieSyms
KeSymsNarrow == {"np", "aead", "aeadx", "srvx", "port", "unk", "ck1n", "ck8n", "ck1s", "ck1h", "ck2n"}
KeSyms == IF Wide THEN KeSymsWide ELSE KeSymsNarrow
KeTerms == {"eom", "unkc", "warn", "err0", "err1", "err2", "err9", "eof0", "eofh", "eofb"}
KeTermsSrv == {"eom", "unkc", "err1", "eof0", "eofh", "eofb"}

\* ---- the DECLARED BODY LENGTH of a record, independently of its type, and the critical bit
\* A length-variant record symbol is "<type>.<len>.<crit>":
\*   type  np (1) | err (2) | warn (3) | aead (4) | ck (5) | srv (6) | port (7) | unk (>= 1024)
\*   len   fixed-size types (np, err, warn, aead, port): 0 | 1 | 2 | 3 | 4 | big (40) -- as many body bytes
\*         follow as declared (filler 0xFF where the length is not 2);
\*         variable types (ck, srv, unk): 0 | 1 | typ | beyond (more declared than bytes follow: the
\*         writer closes inside the body)
\*   crit  c | n   the critical bit
\* ReadData as written: after the 4-byte header, np / aead / port / err consume TWO bytes whatever
\* BodyLen says; ck / srv / unknown (warn is unknown to it) consume BodyLen bytes; the critical bit is
\* looked at for unknown types only.  A two-byte reader on a body that is not two bytes long leaves the
\* reader out of step with the writer's record boundaries ("skewed").
KeSym(t, l, cr) == t \o "." \o l \o "." \o cr
KeCrits == {"c", "n"}
KeFixLens == {"0", "1", "2", "3", "4", "big"}
KeTwoByteTypes == {"np", "aead", "port"}
\* (the symbols of the plain alphabet are particular members: np = np.2.c, aead = aead.2.c, port = port.2.n,
\* warnnc = warn.2.n, srv = srv.typ.n, ck1n = ck.typ.n, unk = unk.typ.n; they are not repeated)
KeLvTwoByte == {KeSym(t, l, cr) : t \in KeTwoByteTypes, l \in KeFixLens, cr \in KeCrits} \ {"np.2.c", "aead.2.c", "port.2.n"}
KeLvSkew == {KeSym(t, l, cr) : t \in KeTwoByteTypes, l \in KeFixLens \ {"2"}, cr \in KeCrits}
KeLvWarn == {KeSym("warn", l, "n") : l \in KeFixLens \ {"2"}}
KeLvCk   == {"ck.0.n", "ck.0.c", "ck.1.n", "ck.1.c", "ck.typ.c"}
KeLvSrv  == {"srv.0.n", "srv.0.c", "srv.1.n", "srv.1.c", "srv.typ.c"}
KeLvUnk  == {"unk.0.n", "unk.1.n"}
KeLvSyms == KeLvTwoByte \cup KeLvWarn \cup KeLvCk \cup KeLvSrv \cup KeLvUnk
\* length-variant records behind which ReadData returns an error whatever follows: an error record
\* (two bytes or EOF, then an error), an unknown type with the critical bit, a body declared beyond the end
KeLvTerms == {KeSym("err", l, cr) : l \in KeFixLens, cr \in KeCrits}
             \cup {KeSym("warn", l, "c") : l \in KeFixLens \ {"2"}}
             \cup {"unk.0.c", "unk.1.c", "ck.beyond.n", "ck.beyond.c", "srv.beyond.n", "srv.beyond.c"}
KeIsLv(x) == x \in KeLvSyms \cup KeLvTerms
KeHasLv(ke) == \E i \in DOMAIN ke : ke[i] \in KeLvSyms
\* the reader is out of step: what it takes for the next header are body bytes (or it has eaten the header)
KeSkewed(ke) == \E i \in DOMAIN ke : ke[i] \in KeLvSkew
\* the plain records that accompany a length-variant one in the reduced (quick) alphabets
KeLvCompanions == {"np", "aead", "ck1n", "ck8n"}

CkCount(sym) == CASE sym \in {"ck1n", "ck1s", "ck1h"} \cup KeLvCk -> 1 [] sym = "ck2n" -> 2
                  [] sym \in {"ck8n", "ck8z"} -> 8 [] sym = "ck9n" -> 9 [] OTHER -> 0
CkSize(sym) == CASE sym \in {"ck1n", "ck2n", "ck8n", "ck9n", "ck.typ.c"} -> 124 [] sym = "ck1s" -> 16
                  [] sym = "ck8z" -> 0 [] sym = "ck1h" -> 1000 [] sym \in {"ck.1.n", "ck.1.c"} -> 1 [] OTHER -> 0
RECURSIVE KeCookies(_)
KeCookies(ke) == IF ke = << >> THEN 0 ELSE CkCount(Head(ke)) + KeCookies(Tail(ke))
KeFirstCookieSize(ke) == CkSize(ke[CHOOSE i \in DOMAIN ke : CkCount(ke[i]) > 0 /\ \A k \in DOMAIN ke : CkCount(ke[k]) > 0 => i <= k])
\* data.Algo / data.Server: the last record of the type wins
KeAlgoSyms == {"aead", "aeadx", "aead.2.n"}
KeAlgo(ke) == LET A == {i \in DOMAIN ke : ke[i] \in KeAlgoSyms} IN
              IF A = {} THEN "none" ELSE ke[CHOOSE i \in A : \A k \in A : k <= i]
KeAlgoOK(ke) == KeAlgo(ke) \in {"aead", "aead.2.n"}
KeServer(ke) == LET A == {i \in DOMAIN ke : ke[i] \in {"srv", "srvx"} \cup KeLvSrv} IN
              IF A = {} THEN "none" ELSE ke[CHOOSE i \in A : \A k \in A : k <= i]
\* net.ParseIP(data.Server) = nil: not an address, the empty string, one byte
KeServerBad(ke) == KeServer(ke) \in {"srvx", "srv.0.n", "srv.0.c", "srv.1.n", "srv.1.c"}

Pad4(n) == ((n + 3) \div 4) * 4
\* nts.NewRequestPacket + EncodePacket: 48 NTP + 36 unique id + one cookie + (8 - n) placeholders of
\* the cookie's size, then the authenticator header.  extHdr.pack at pos needs pos + 4 <= MaxPacketLen;
\* copy() truncates silently, so pos saturates at MaxPacketLen and the NEXT header is the one that panics.
ReqAuthPos(n, size) == 84 + (4 + Pad4(size)) * (1 + (IF n < 8 THEN 8 - n ELSE 0))
ReqOverflows(n, size) == ReqAuthPos(n, size) > MaxPacketLen - 4
\* a cookie that does not fit a request even without placeholders: 48 + 36 + 4 + size + 40 > MaxPacketLen
KeHasLong(ke) == \E i \in DOMAIN ke : CkSize(ke[i]) > MaxPacketLen - 128

\* one ReadData step: next record symbol or the terminator; `onEom` etc. are successor builders
KeStep(s, sc, syms, terms) ==
  LET n == Len(s.c.ke)
      ke == s.c.ke
      \* at most one length-variant record per stream; in the reduced alphabets its companions are few
      plain == IF ~Wide /\ KeHasLv(ke) THEN syms \cap KeLvCompanions ELSE syms
      lv == IF KeHasLv(ke) \/ (~Wide /\ \E i \in DOMAIN ke : ke[i] \notin KeLvCompanions) THEN {} ELSE KeLvSyms
      lvt == IF KeHasLv(ke) \/ (~Wide /\ \E i \in DOMAIN ke : ke[i] \notin KeLvCompanions) THEN {} ELSE KeLvTerms
      symc == IF Scripted(sc) THEN (IF n < Len(sc.ke) THEN {sc.ke[n + 1]} \cap (syms \cup KeLvSyms) ELSE {})
              \* behind a skewed record the writer only ends the stream
              ELSE (IF n < MaxKe /\ ~KeSkewed(ke) THEN plain \cup lv ELSE {})
      trmc == IF Scripted(sc) THEN (IF n = Len(sc.ke) THEN {sc.kt} \cap (terms \cup KeLvTerms) ELSE {})
              ELSE IF KeSkewed(ke) \/ (~Wide /\ KeHasLv(ke)) THEN {"eom", "eof0"} \cap terms
              ELSE terms \cup lvt
  IN [sym |-> symc, trm |-> trmc]
\* ReadData returns nil: the end-of-message record was read at a record boundary.  Skewed, with the
\* stream ending behind the skewed record (filler 0xFF): the next "header" is FF.. (unknown critical type),
\* or the end of the stream inside a header or a two-byte body -- an error in every case
KeReadOK(s, t) == t = "eom" /\ ~KeSkewed(s.c.ke)
KeReadSite(s, t) == IF KeSkewed(s.c.ke) THEN "ntske.ReadData:skew"
                    ELSE IF t \in KeLvTerms THEN "ntske.ReadData:lv" ELSE "ntske.ReadData:" \o t

(***************************************************************************)
(* Client histories  (ipcli, sccli; IPClient / SCIONClient with            *)
(* InterleavedMode; core/client/client.go MeasureClockOffsetIP / the       *)
(* per-client goroutine of MeasureClockOffsetSCION, client_ip.go /         *)
(* client_scion.go, the functions measureClockOffsetIP / ..SCION)          *)
(*                                                                         *)
(* A case is a sequence hs of exchanges on one client value.  Per exchange *)
(* the network does one of                                                 *)
(*   basic      a well-formed response whose origin is the request's       *)
(*              transmit timestamp                                         *)
(*   ileave     a well-formed response whose origin is the request's       *)
(*              receive timestamp: what a server that still holds the pair *)
(*              of the client's last completed exchange answers to an      *)
(*              interleaved request (e.g. after the REQUEST of the         *)
(*              exchange in between was lost)                              *)
(*   ileaveneg  the same with a server transmit time before the stored     *)
(*              server receive time                                        *)
(*   lost       nothing (the request or the response is lost)              *)
(*   junk       a datagram too short for NTP, then nothing                 *)
(*   meta       a response that matches but fails ValidateResponseMetadata *)
(*   gap        no exchange: more than 3 s pass before the next call       *)
(*   auto       a genuine server that lost nothing: ileave to an           *)
(*              interleaved request, basic otherwise (the sentinel, and    *)
(*              whatever the last call still sends behind the script)      *)
(* The client's reaction depends on c.h: a request is an interleaved one   *)
(* (q = "i") iff an exchange has been accepted from this reference less    *)
(* than 3 s ago; only an interleaved request accepts an ileave response,   *)
(* and evaluates it with t0 = prev.cTxTime, t3 = prev.cRxTime --           *)
(* ntp.ValidateResponseTimestamps panics when t3 < t0.  As written both    *)
(* stem from the same accepted exchange (h.tx = h.rx), a failed exchange   *)
(* leaves prev as it is.                                                   *)
(* One call runs up to 3 exchanges under one deadline: it stops after an   *)
(* accepted interleaved response, after an exchange that ran into the      *)
(* deadline (the rest fails without sending), or after the third.          *)
(* An entry of hs: x the network's choice, q the request, r the result of  *)
(* the exchange (ok | err | tmo | dead), k its number within the call,     *)
(* end: the call returns after it, ok: the call's result so far.           *)
(***************************************************************************)
HistSymsNarrow == {"basic", "ileave", "lost", "junk", "meta"}
HistSyms == IF Wide THEN HistSymsNarrow \cup {"ileaveneg", "gap"} ELSE HistSymsNarrow
HEntry(x, q, r, k, end, ok) == [x |-> x, q |-> q, r |-> r, k |-> k, end |-> end, ok |-> ok]

\* one measureClockOffsetIP / measureClockOffsetSCION on a client in state h, exchange number n
HEx(h, x, n) ==
  LET iq  == h.ref /\ ~h.old
      q   == IF iq THEN "i" ELSE "b"
      y   == IF x = "auto" THEN (IF iq THEN "ileave" ELSE "basic") ELSE x
      acc(il) == [ref |-> TRUE, il |-> il, old |-> FALSE, tx |-> n, rx |-> n]
      res(r, h2) == [q |-> q, r |-> r, h |-> h2]
  IN CASE y = "basic" -> res("ok", acc(FALSE))
       [] y \in {"ileave", "ileaveneg"} ->
            \* a basic request: the origin is not its transmit time -- errUnexpectedPacket, retried, the deadline
            IF ~iq THEN res("tmo", h)
            \* t3 = prev.cRxTime before t0 = prev.cTxTime: panic("unexpected system clock behavior")
            ELSE IF h.rx < h.tx THEN res("dead", h)
            ELSE IF y = "ileaveneg" THEN res("err", h)      \* t2 < t1: errUnexpectedResponse
            ELSE res("ok", acc(TRUE))
       [] y \in {"lost", "junk"} -> res("tmo", h)
       [] OTHER -> res("err", h)                            \* meta

HistDone(c, sc) ==
  LET n == Len(c.hs) IN
  n >= 1 /\ c.hs[n].end /\ n >= (IF Scripted(sc) THEN Len(sc.hs) ELSE MaxHist)

HistSucc(s, sc) ==
  LET c == s.c
      n == Len(c.hs)
      newcall == n = 0 \/ c.hs[n].end
      k == IF newcall THEN 1 ELSE c.hs[n].k + 1
      sofar == IF newcall THEN FALSE ELSE c.hs[n].ok
      \* MeasureClockOffsetSCION: a client that is not in interleaved mode when the call starts is reset
      h0 == IF newcall /\ c.kind = "sccli" /\ ~(c.h.ref /\ c.h.il) THEN [c.h EXCEPT !.ref = FALSE] ELSE c.h
      \* pairwise: at most one pause per history, where it matters (behind a call that accepted a response)
      gapOk == newcall /\ n >= 1 /\ c.hs[n].ok /\ \A i \in 1 .. n : c.hs[i].x # "gap"
      xs == IF Scripted(sc) THEN (IF n < Len(sc.hs) THEN {sc.hs[n + 1].x} ELSE {"auto"})
            ELSE IF n < MaxHist THEN {x \in HistSyms : x = "gap" => gapOk}
            ELSE {"auto"}
      Gap == [s EXCEPT !.c.hs = Append(@, HEntry("gap", "-", "-", 0, TRUE, IF n = 0 THEN FALSE ELSE c.hs[n].ok)),
                       !.c.h = [c.h EXCEPT !.old = TRUE]]
      Step(x) ==
        LET e == HEx(h0, x, n + 1)
            \* if ntpc.InInterleavedMode() { break }; the deadline; for i := range 3
            end == e.r = "tmo" \/ (e.r = "ok" /\ e.h.il) \/ k = 3
            \* MeasureClockOffsetSCION collects the result of the client's goroutine until the deadline: when an
            \* exchange ran into the deadline the goroutine delivers while ctx.Done() fires -- a race; if it is
            \* lost the call reports no measurement although an earlier exchange of the call was accepted
            oks == IF c.kind = "sccli" /\ e.r = "tmo" /\ sofar THEN {TRUE, FALSE} ELSE {sofar \/ e.r = "ok"}
        IN IF e.r = "dead"
           THEN {[s EXCEPT !.alive = FALSE, !.c.hs = Append(@, HEntry(x, e.q, e.r, k, TRUE, sofar)), !.c.h = e.h,
                           !.c.out = "dead", !.c.site = "ntp.ValidateResponseTimestamps:panic"]}
           ELSE {[s EXCEPT !.c.hs = Append(@, HEntry(x, e.q, e.r, k, end, ok)), !.c.h = e.h] : ok \in oks}
  IN IF HistDone(c, sc)
     THEN {[s EXCEPT !.pc = "Idle", !.c.out = IF c.hs[n].ok THEN "served" ELSE "dropped",
                     !.c.site = IF c.hs[n].ok THEN "-" ELSE "hist:" \o c.hs[n].r]}
     ELSE UNION {IF x = "gap" THEN {Gap} ELSE Step(x) : x \in xs}

\* InterleavedMode of the client value; a fresh client (c.il = "na") chooses, the client of a history keeps it
IlDom(c, sc) == IF c.il # "na" THEN {c.il}
                ELSE IF Scripted(sc) THEN (IF sc.il = "na" THEN {"no"} ELSE {sc.il})
                ELSE IF MaxHist > 0 THEN {"no", "yes"} ELSE {"no"}

\* what a recorded history shows: the kind of every request, the number of requests and the result of every call
HistReqs(hs) == SelectSeq(hs, LAMBDA e : e.x # "gap")
HistQ(hs) == LET es == HistReqs(hs) IN [i \in 1 .. Len(es) |-> es[i].q]
HistCallEnds(hs) == SelectSeq(hs, LAMBDA e : e.x # "gap" /\ e.end)
HistCallLens(hs) == LET es == HistCallEnds(hs) IN [i \in 1 .. Len(es) |-> es[i].k]
HistCallRes(hs) == LET es == HistCallEnds(hs) IN [i \in 1 .. Len(es) |-> IF es[i].r = "dead" THEN "dead" ELSE IF es[i].ok THEN "ok" ELSE "err"]

(***************************************************************************)
(* ipcli: one call of measureClockOffsetIP                                 *)
(***************************************************************************)
\* receive buffer: 48 bytes without NTS (larger datagrams: MSG_TRUNC), MaxPacketLen with
\* (smax: exactly MaxPacketLen bytes, sover: more)
CliSizes(auth) == IF auth = "yes" THEN {"none", "s0", "s47", "s48", "s49", "s75", "ext", "smax", "sover"}
                                  ELSE {"none", "s0", "s47", "s48", "s49"}
MetaDom == {"ok", "li3", "vn2", "mode3", "str0", "str16"}
\* pairwise constraint: the response alphabet is explored in full behind ONE canonical key
\* exchange; every other successful exchange is followed by the canonical good response
KeCanon(c) == c.ke = <<"aead", "ck8n">> \/ c.auth = "no"
\* likewise the retry: either datagram of a (first, second) pair is explored in full while
\* the other one is canonical
FirstIsCanonRetry(c) == Len(c.rs) = 1 /\ c.rs[1].sz \in {"s47", "s0"}
FullResp(s) == KeCanon(s.c) /\ (Len(s.c.rs) = 0 \/ FirstIsCanonRetry(s.c))
Sub(Dom, good, full) == IF full THEN Dom ELSE Dom \cap good

CliSucc(s, sc) ==
  LET g == s.g  c == s.c IN
  CASE s.pc = "Idle" ->           \* configuration of the client (not input): interleaved mode (then a history), NTS or not
        UNION {
          IF i = "yes" THEN {[s EXCEPT !.c.il = i, !.c.auth = "no", !.pc = "Hist"]}
          ELSE {IF a = "yes" THEN [s EXCEPT !.c.il = i, !.c.auth = a, !.pc = "KeDial"]
                             ELSE [s EXCEPT !.c.il = i, !.c.auth = a, !.pc = "ReqBuilt"]
                : a \in PickC(sc, "auth", {"no", "yes"})}
          : i \in IlDom(c, sc)}
    [] s.pc = "Hist" -> HistSucc(s, sc)
    [] s.pc = "KeDial" ->         \* dialTLS: handshake, ALPN
        {CASE p = "tls" -> [s EXCEPT !.c.pre = p, !.pc = "KeRead"]
           [] OTHER -> Fail([s EXCEPT !.c.pre = p], "ntske.dialTLS", FALSE)
         : p \in PickC(sc, "pre", {"tls", "noalpn", "garbage", "close"})}
    [] s.pc = "KeRead" ->         \* exchangeDataTLS: ReadData
        LET k == KeStep(s, sc, KeSyms, KeTerms) IN
        {[s EXCEPT !.c.ke = Append(@, y)] : y \in k.sym} \cup
        {IF KeReadOK(s, t) THEN [s EXCEPT !.c.kt = t, !.pc = "KeDone"]
                      ELSE Fail([s EXCEPT !.c.kt = t], KeReadSite(s, t), FALSE)
         : t \in k.trm}
    [] s.pc = "KeDone" ->         \* exchangeKeys post-conditions, then the request is built
        IF KeCookies(c.ke) = 0 THEN {Fail(s, "ntske.exchangeKeys:errNoCookies", FALSE)}
        \* repaired: a cookie that cannot fit a request is refused here ...
        ELSE IF ~PacketOverflowUnchecked /\ KeHasLong(c.ke) THEN {Fail(s, "ntske.exchangeKeys:errCookieTooLong", FALSE)}
        ELSE IF ~KeAlgoOK(c.ke) THEN {Fail(s, "ntske.exchangeKeys:errUnknownAlgo", FALSE)}
        \* ... and NewRequestPacket adds only as many placeholders as fit; as written EncodePacket panics
        ELSE IF PacketOverflowUnchecked /\ ReqOverflows(KeCookies(c.ke), KeFirstCookieSize(c.ke))
             THEN {Die(s, "nts.EncodePacket:overflow")}
        ELSE IF KeServerBad(c.ke) THEN {Fail(s, "write:addr", FALSE)}   \* net.ParseIP = nil
        ELSE {[s EXCEPT !.pc = "ReqBuilt"]}
    [] s.pc = "ReqBuilt" -> {[s EXCEPT !.pc = "Await"]}   \* WriteToUDPAddrPort, ReadTXTimestamp
    [] s.pc = "Await" ->          \* ReadMsgUDPAddrPort until the deadline; flags; source address
        UNION {
          IF z = "none" THEN {Fail([s EXCEPT !.g.sz = z], "read:deadline", FALSE)}
          ELSE IF z \in {"sover"} \/ (c.auth = "no" /\ z = "s49") THEN {Fail([s EXCEPT !.g.sz = z], "read:flags", TRUE)}
          ELSE {IF a = "other" THEN Fail([s EXCEPT !.g.sz = z, !.g.src = a], "source", TRUE)
                               ELSE [s EXCEPT !.g.sz = z, !.g.src = a, !.pc = "Parsed"]
                : a \in PickG(s, sc, "src", Sub({"ok", "other"}, {"ok"}, FullResp(s)))}
          : z \in PickG(s, sc, "sz", Sub(CliSizes(c.auth), {IF c.auth = "yes" THEN "ext" ELSE "s48"}, FullResp(s)))}
    [] s.pc = "Parsed" ->         \* ntp.DecodePacket
        {IF g.sz \in {"s0", "s47"} THEN Fail(s, "ntp.DecodePacket:size", TRUE) ELSE [s EXCEPT !.pc = "Decoded"]}
    [] s.pc = "Decoded" ->        \* if c.Auth.Enabled { nts.DecodePacket }
        IF c.auth = "no" THEN {[s EXCEPT !.pc = "Authenticated"]}
        ELSE IF g.sz \in {"s48", "s49", "s75"} THEN {Fail([s EXCEPT !.g.end = "short"], "nts.DecodePacket:errNoUniqueID", TRUE)}
        ELSE IF FullResp(s) THEN Walk(s, sc, MaxExtOf(g.sz, MaxExtCli), "NtsDecoded")
        ELSE {[s EXCEPT !.g.fs = <<F("uid", "ok"), F("auth", "ok")>>, !.g.end = "auth", !.pc = "NtsDecoded"]}
    [] s.pc = "NtsDecoded" ->     \* nts.ProcessResponse: bytes.Equal(reqID, pkt.UniqueID.ID)
        {IF m = "no" THEN Fail([s EXCEPT !.g.uidm = m], "nts.ProcessResponse:errUnexpectedResponseID", TRUE)
                     ELSE [s EXCEPT !.g.uidm = m, !.pc = "Classified"]
         : m \in PickG(s, sc, "uidm",
                       \* only a 32-byte identifier can equal the request's
                       IF LastOf(g.fs, "uid").l = "ok" THEN Sub({"yes", "no"}, {"yes"}, FullResp(s)) ELSE {"no"})}
    [] s.pc = "Classified" ->
        IF FullResp(s) THEN Authenticate(s, sc, TRUE, "Authenticated")
        ELSE {[s EXCEPT !.g.an = "n16", !.g.ac = "ok", !.g.av = "yes", !.g.inner = "cookie", !.pc = "Authenticated"]}
    [] s.pc = "Authenticated" ->  \* origin timestamp, ValidateResponseMetadata, ValidateResponseTimestamps
        UNION {
          IF o = "other" THEN {Fail([s EXCEPT !.g.org = o], "origin", TRUE)}
          ELSE UNION {
            IF m # "ok" THEN {Fail([s EXCEPT !.g.org = o, !.g.meta = m], "ntp.ValidateResponseMetadata", FALSE)}
            ELSE {IF t = "neg" THEN Fail([s EXCEPT !.g.org = o, !.g.meta = m, !.g.ts = t], "ntp.ValidateResponseTimestamps", FALSE)
                               ELSE [s EXCEPT !.g.org = o, !.g.meta = m, !.g.ts = t, !.pc = "Validated"]
                  : t \in PickG(s, sc, "ts", Sub({"ok", "neg"}, {"ok"}, FullResp(s)))}
            : m \in PickG(s, sc, "meta", Sub(MetaDom, {"ok"}, FullResp(s)))}
          : o \in PickG(s, sc, "org", Sub({"match", "other"}, {"match"}, FullResp(s)))}
    [] s.pc = "Validated" -> {[s EXCEPT !.pc = "Handled"]}   \* offset, delay, filter
    [] s.pc = "Handled" -> {Serve(s)}                         \* the call returns a value
    [] OTHER -> {}

(***************************************************************************)
(* kesrv: one accepted connection                                          *)
(***************************************************************************)
KeSrvSyms == IF Wide THEN KeSymsWide ELSE {"np", "aead", "aeadx", "unk", "ck1n", "ck1h", "port", "srvx"}
KeSrvSucc(s, sc) ==
  CASE s.pc = "Idle" ->           \* Accept; the handshake runs on the first Read
        {CASE p \in {"tls", "noalpn"} -> [s EXCEPT !.c.pre = p, !.pc = "Parsed"]
           [] OTHER -> Fail([s EXCEPT !.c.pre = p], "tls.handshake", FALSE)
         : p \in PickC(sc, "pre", {"tls", "noalpn", "garbage", "close"})}
    [] s.pc = "Parsed" ->         \* ReadData: record by record; every error is answered with an error record
        LET k == KeStep(s, sc, KeSrvSyms, KeTermsSrv) IN
        {[s EXCEPT !.c.ke = Append(@, y)] : y \in k.sym} \cup
        {IF KeReadOK(s, t) THEN [s EXCEPT !.c.kt = t, !.pc = "Decoded"]
                      ELSE Fail([s EXCEPT !.c.kt = t], KeReadSite(s, t), FALSE)
         : t \in k.trm}
    [] s.pc = "Decoded" -> {[s EXCEPT !.pc = "Handled"]}   \* ExportKeys, newNTSKEMsg (8 cookies), Pack
    [] s.pc = "Handled" -> {[s EXCEPT !.pc = "Sent"]}      \* conn.Write
    [] s.pc = "Sent" -> {Serve(s)}                         \* deferred conn.Close
    [] OTHER -> {}

(***************************************************************************)
(* csptpsrv: runCSPTPServerIP (the listener on port 319 or 320)            *)
(*   sz : datagram length  short (< 44) | min (44) | tlv (44 + 36 or 54)   *)
(*        | over (> 98: MSG_TRUNC)                                         *)
(*   ml : MessageLength = len | other                                      *)
(*   mt : sync | followup | other, and the port it arrived on              *)
(*   tlv: request TLV  ok | okds (with server state) | short (< 14) |      *)
(*        flagshort (flags announce 54 bytes, 36 present) | badorg | badlen*)
(* The server never answers (work in progress: sequenceComplete is always  *)
(* false); a valid request is "served" when it reaches the end of the loop *)
(* body (observable: the debug log line "received request").               *)
(***************************************************************************)
CsSrvSucc(s, sc) ==
  LET g == s.g IN
  CASE s.pc = "Idle" ->
        {IF z = "over" THEN Fail([s EXCEPT !.g.sz = z], "read:flags", FALSE)
                       ELSE [s EXCEPT !.g.sz = z, !.pc = "Parsed"]
         : z \in PickG(s, sc, "sz", {"s0", "short", "min", "tlv", "tlvds", "over"})}
    [] s.pc = "Parsed" ->         \* len(buf) < MinMessageLength; DecodeMessage; len(buf) != MessageLength
        IF g.sz \in {"s0", "short"} THEN {Fail(s, "csptp:size", FALSE)}
        ELSE {IF m = "other" THEN Fail([s EXCEPT !.g.ml = m], "csptp:msglen", FALSE)
                             ELSE [s EXCEPT !.g.ml = m, !.pc = "Decoded"]
              : m \in PickG(s, sc, "ml", {"len", "other"})}
    [] s.pc = "Decoded" ->        \* message type against the port
        UNION {
          CASE t = "sync319" ->
                 {IF g.sz # "min" THEN Fail([s EXCEPT !.g.mt = t], "csptp:synclen", FALSE)
                                  ELSE [s EXCEPT !.g.mt = t, !.pc = "Validated"]}
            [] t = "fup320" ->
                 IF g.sz = "min" THEN {Fail([s EXCEPT !.g.mt = t, !.g.tlv = "short"], "csptp.DecodeRequestTLV", FALSE)}
                 ELSE {IF (v = "ok" /\ g.sz = "tlv") \/ (v = "okds" /\ g.sz = "tlvds")
                       THEN [s EXCEPT !.g.mt = t, !.g.tlv = v, !.pc = "Validated"]
                       ELSE Fail([s EXCEPT !.g.mt = t, !.g.tlv = v], "csptp:tlv", FALSE)
                       : v \in PickG(s, sc, "tlv", IF g.sz = "tlv" THEN {"ok", "flagshort", "badorg", "badtype"}
                                                                    ELSE {"okds", "noflag", "badorg"})}
            [] OTHER -> {Fail([s EXCEPT !.g.mt = t], "csptp:unexpected", FALSE)}
          : t \in PickG(s, sc, "mt", {"sync319", "sync320", "fup319", "fup320", "other319", "other320"})}
    [] s.pc = "Validated" -> {Serve(s)}
    [] OTHER -> {}

(***************************************************************************)
(* csptpcli: CSPTPClientIP.MeasureClockOffset - Sync + Follow Up sent,     *)
(* then up to maxNumRetries + 1 = 4 datagrams are looked at; the buffer    *)
(* (98 bytes) still holds the client's own Follow Up request, so the bytes *)
(* of a short datagram are completed by stale ones: buf[:44] re-slices     *)
(* within the capacity.                                                    *)
(*   sz : none (deadline) | short (< 44; the first 4 bytes, i.e. type and  *)
(*        MessageLength, are the sender's) | min | tlv | tlvds | over      *)
(*   ml : len | other     seq: match | other                               *)
(*   mt : sync | fup | other     src: ok (port 319 resp. 320) | other      *)
(*   tlv: ok | okds | flagshort | badorg | noflag                          *)
(* The case is the sequence rs of datagrams of one call.                   *)
(***************************************************************************)
CsRetry(s, site) ==   \* `continue` while numRetries != 3 (and before the deadline), else return err
  IF Len(s.c.rs) < 3 THEN [Push(s) EXCEPT !.pc = "Await"]
  ELSE [Push(s) EXCEPT !.pc = "Idle", !.c.out = "dropped", !.c.site = site]
CsHave(c, what) == \E i \in DOMAIN c.rs : c.rs[i].mt = what /\ c.rs[i].ts = "acc"
\* an accepted Sync/Follow Up stays accepted until a later message of the same type is rejected
CsOk(rs, what) == LET A == {i \in DOMAIN rs : rs[i].mt = what /\ rs[i].src # "na"} IN
                  A # {} /\ rs[CHOOSE i \in A : \A k \in A : k <= i].ts = "acc"
\* pairwise constraint: at most one datagram of a call is explored over the full alphabet; the
\* others are canonical (an acceptable Sync, an acceptable Follow Up, or silence)
CsCanonD(d) == d.sz = "none" \/ (d.ts = "acc" /\ d.sz \in {"min", "tlvds"})
CsFull(s) == \A i \in DOMAIN s.c.rs : CsCanonD(s.c.rs[i])
CsCliSucc(s, sc) ==
  LET g == s.g  full == CsFull(s) IN
  CASE s.pc = "Idle" -> {[s EXCEPT !.pc = "Await"]}    \* both requests written
    [] s.pc = "Await" ->
        {IF z = "none" THEN [Push([s EXCEPT !.g.sz = z]) EXCEPT !.pc = "Idle", !.c.out = "dropped", !.c.site = "read:deadline"]
         ELSE IF z = "over" THEN CsRetry([s EXCEPT !.g.sz = z], "read:flags")
         ELSE [s EXCEPT !.g.sz = z, !.pc = "Parsed"]
         : z \in PickG(s, sc, "sz", Sub({"none", "short", "min", "tlv", "tlvds", "over"}, {"none", "min", "tlvds"}, full))}
    [] s.pc = "Parsed" ->         \* DecodeMessage(buf[:44]); len(buf) != MessageLength; SequenceID
        \* repaired: a datagram shorter than a header is refused before anything else is looked at
        IF g.sz = "short" /\ ~CsptpShortDatagram THEN {CsRetry(s, "csptp:size")}
        ELSE UNION {
          IF m = "other" THEN {CsRetry([s EXCEPT !.g.ml = m], "csptp:msglen")}
          ELSE {IF q = "other" THEN CsRetry([s EXCEPT !.g.ml = m, !.g.seq = q], "csptp:seq")
                               ELSE [s EXCEPT !.g.ml = m, !.g.seq = q, !.pc = "Decoded"]
                \* a short datagram cannot carry bytes 30..31: the sequence id is the stale one
                : q \in PickG(s, sc, "seq", IF g.sz = "short" THEN {"match"} ELSE Sub({"match", "other"}, {"match"}, full))}
          : m \in PickG(s, sc, "ml", Sub({"len", "other"}, {"len"}, full))}
    [] s.pc = "Decoded" ->
        UNION {
          IF t = "other" THEN {CsRetry([s EXCEPT !.g.mt = t], "csptp:unexpected")}
          ELSE UNION {
            IF a = "other" THEN {CsRetry([s EXCEPT !.g.mt = t, !.g.src = a, !.g.ts = "rej"], "csptp:source")}
            ELSE IF t = "sync"
              THEN {IF g.sz # "min" THEN CsRetry([s EXCEPT !.g.mt = t, !.g.src = a, !.g.ts = "rej"], "csptp:synclen")
                                    ELSE [s EXCEPT !.g.mt = t, !.g.src = a, !.g.ts = "acc", !.pc = "Validated"]}
            \* Follow Up: DecodeResponseTLV(buf[44:])
            ELSE IF g.sz = "short"
              THEN {IF CsptpShortDatagram THEN Die([s EXCEPT !.g.mt = t, !.g.src = a], "client.CSPTPClientIP.MeasureClockOffset:slice")
                                          ELSE CsRetry([s EXCEPT !.g.mt = t, !.g.src = a, !.g.ts = "rej"], "csptp:size")}
            ELSE IF g.sz = "min"
              THEN {CsRetry([s EXCEPT !.g.mt = t, !.g.src = a, !.g.tlv = "short", !.g.ts = "rej"], "csptp.DecodeResponseTLV")}
            ELSE {IF (v = "ok" /\ g.sz = "tlv") \/ (v = "okds" /\ g.sz = "tlvds")
                  THEN [s EXCEPT !.g.mt = t, !.g.src = a, !.g.tlv = v, !.g.ts = "acc", !.pc = "Validated"]
                  ELSE CsRetry([s EXCEPT !.g.mt = t, !.g.src = a, !.g.tlv = v, !.g.ts = "rej"], "csptp:tlv")
                  : v \in PickG(s, sc, "tlv", IF g.sz = "tlv" THEN {"ok", "flagshort", "badorg"}
                                               ELSE Sub({"okds", "noflag", "badorg"}, {"okds"}, full))}
            : a \in PickG(s, sc, "src", Sub({"ok", "other"}, {"ok"}, full))}
          : t \in PickG(s, sc, "mt", IF full THEN {"sync", "fup", "other"}
                                      ELSE IF g.sz = "min" THEN {"sync"} ELSE {"fup"})}
    [] s.pc = "Validated" ->      \* if respmsg0Ok && respmsg1Ok { break } -- not a retry: numRetries still counts
        LET s1 == Push(s) IN
        IF CsOk(s1.c.rs, "sync") /\ CsOk(s1.c.rs, "fup")
        THEN {[s1 EXCEPT !.pc = "Idle", !.c.out = "served", !.c.site = "-"]}
        ELSE IF Len(s1.c.rs) <= 3 THEN {[s1 EXCEPT !.pc = "Await"]}
        \* the for loop has no upper bound on successful iterations; the model stops supplying
        \* datagrams after four, the call then ends at its deadline
        ELSE {[s1 EXCEPT !.pc = "Idle", !.c.out = "dropped", !.c.site = "read:deadline"]}
    [] OTHER -> {}

(***************************************************************************)
(* SCION datagrams (slayers.SCION, extension and L4 layers)                *)
(*   sc : common/address header against the buffer                         *)
(*        cmnshort (< 12 bytes) | addrshort (ends inside the address       *)
(*        header) | hdrneg (HdrLen*4 smaller than common + address header) *)
(*        | hdrbig (HdrLen*4 beyond the buffer) | ok                       *)
(*   da, sa : DT/DL resp. ST/SL as "t<T>l<bytes>", T in 0..3, bytes in     *)
(*        {4, 8, 12, 16}; only the length decides what the code does       *)
(*        (netip.AddrFromSlice takes 4 and 16)                             *)
(*   pt : path type and shape                                              *)
(*        empty | emptyjunk (type 0, path bytes present) |                 *)
(*        s1 s2 s3 (SCION, 1..3 segments) | scurr (CurrINF/CurrHF beyond   *)
(*        the segments) | sinf0 (all SegLen 0) | sgap (SegLen[0] = 0 <     *)
(*        SegLen[1]) | shops (> 64 hops) | strunc (shorter than SegLen     *)
(*        says) | onehop | onehop0 (second hop without ingress interface)  *)
(*        | onehoptrunc | epic | epicinf0 | epictrunc | raw4 raw255        *)
(*        (unassigned path type values)                                    *)
(*   ext: extension chain  none | hbh | e2e | hbhe2e | e2ehbh | e2e2 |     *)
(*        hbh2 | exttrunc (ExtLen beyond the buffer)                       *)
(*   eo : options of the e2e extension                                     *)
(*        none | optbeyond (option length beyond the extension) |          *)
(*        auth28c (28 bytes, client SPI, AES-CMAC, MAC wrong) | auth28cok  *)
(*        (MAC verifies) | auth28s (server SPI) | auth28x (other SPI or    *)
(*        algorithm) | auth0 auth27 auth29 (data length # 28) |            *)
(*        ts (option 253: one well-formed SCM_TIMESTAMPNS message, time    *)
(*        now) | tsold (the same, a time long ago) | tsnew (one well-      *)
(*        formed SO_TIMESTAMPING message) | ts2 (SO_TIMESTAMPING with two  *)
(*        non-zero timestamps) | tsshort (< 16 bytes) | tslen (cmsg_len    *)
(*        beyond the data) | tstail (cmsg_len = data length, not a         *)
(*        multiple of 8) | full (options filling the extension to its      *)
(*        maximum of 1024 bytes)                                           *)
(*   l4 : udp | udptrunc (< 8 bytes) | scmpecho | scmptr | scmpother |     *)
(*        scmptrunc | unk (another protocol number)                        *)
(*   ul : UDP Length against the UDP bytes present  ok | zero (jumbogram:  *)
(*        the whole rest is payload) | lt8 (1..7: decode error) | small    *)
(*        (8 <= Length < present: the payload is cut) | bigudp (> the UDP  *)
(*        bytes, <= the datagram) | big (> the datagram) | max (65535)     *)
(*   pl : SCION PayloadLen  ok | small | big (> the bytes present) | max   *)
(*        (65535) -- no decision of the code depends on it                 *)
(*   tr : the datagram itself  ok | inpl (cut inside the UDP payload; the  *)
(*        length fields say what was sent)                                 *)
(*   eo also: ts0o ts0t tsso tsst -- option 253 whose first control        *)
(*        message has cmsg_len 0 resp. 1..15 and a level/type that is      *)
(*        another (o) / a timestamp (t) message, data >= 16 bytes; with    *)
(*        suffix f a well-formed message follows                           *)
(*   dp : UDP destination port  ntp (the server's) | endhost (30041) |     *)
(*        other;   cp: the listener it arrives on  srv | eh                *)
(***************************************************************************)
AddrLens == {"l4", "l8", "l12", "l16"}
AddrAll == {"t0l4", "t0l8", "t0l12", "t0l16", "t1l4", "t1l8", "t1l12", "t1l16",
            "t2l4", "t2l8", "t2l12", "t2l16", "t3l4", "t3l8", "t3l12", "t3l16"}
AddrNarrow == {"t0l4", "t0l8", "t0l12", "t0l16", "t1l4", "t2l8", "t3l12"}
AddrDom == IF Wide THEN AddrAll ELSE AddrNarrow
AddrT0 == {"t0l4", "t0l8", "t0l12", "t0l16"}
Is4or16(a) == a \in {"t0l4", "t1l4", "t2l4", "t3l4", "t0l16", "t1l16", "t2l16", "t3l16"}
Is4(a) == a \in {"t0l4", "t1l4", "t2l4", "t3l4"}
PtDecodeErr == {"emptyjunk", "sgap", "shops", "strunc", "onehoptrunc", "epictrunc"}
PtReverseErr == {"sinf0", "onehop0", "epicinf0", "raw4", "raw255"}
PtOk == {"empty", "s1", "s2", "s3", "scurr", "onehop", "epic"}
PtDom == IF Wide THEN PtDecodeErr \cup PtReverseErr \cup PtOk
         ELSE {"empty", "s2", "scurr", "onehop", "epic", "emptyjunk", "strunc", "sinf0", "onehop0", "raw4", "raw255"}
ExtDom == {"none", "hbh", "e2e", "hbhe2e", "e2ehbh", "e2e2", "hbh2", "exttrunc"}
ExtHasE2E(x) == x \in {"e2e", "hbhe2e"}     \* decoded[len-2] is the e2e extension
EoAuthBadLen == {"auth0", "auth27", "auth29"}
EoTsPanics == {"ts2", "tstail"}
EoCmsgShort == {"ts0o", "ts0of", "ts0t", "ts0tf", "tsso", "tssof", "tsst", "tsstf"}
EoAuthOk == {"auth28cok", "auth28sok"}
EoSrv == {"none", "optbeyond", "auth28c", "auth28cok", "auth28s", "auth28x", "ts", "full"} \cup
         (IF Wide THEN EoAuthBadLen ELSE {"auth27", "auth0"})
EoCli == {"none", "optbeyond", "auth28s", "auth28sok", "auth28c", "auth28x", "auth27", "ts", "tsold", "tsnew",
          "tsshort", "tslen"} \cup EoTsPanics \cup EoCmsgShort \cup (IF Wide THEN EoAuthBadLen ELSE {})
L4Dom == {"udp", "udptrunc", "scmpecho", "scmptr", "scmpother", "scmptrunc", "unk"}

\* t-wise constraint: a SCION datagram has the dimensions listener/port, addresses, path, extensions,
\* L4, UDP length, NTP size, first byte, IA, origin, metadata, timestamps; at most ScDev of them
\* deviate from the canonical datagram (plain IPv4 addresses, empty path, no extension, UDP to the
\* server port, a valid NTP packet) at the same time.
B2N(b) == IF b THEN 1 ELSE 0
DevCount(g) ==
  B2N(g.cp = "eh" \/ g.dp \notin {"na", "ntp"}) + B2N(g.da \notin {"na", "t0l4"} \/ g.sa \notin {"na", "t0l4"}) +
  B2N(g.pt \notin {"na", "empty"}) + B2N(g.l4 \notin {"na", "udp"}) +
  \* there are TWO canonical datagrams: the plain one, and the authenticated one (an e2e extension whose
  \* only option is an authenticator with the expected SPI and algorithm and a verifying MAC under the
  \* key both sides derive) -- the latter is no deviation
  B2N(g.ext \notin {"na", "none"} /\ ~(g.ext = "e2e" /\ g.eo \in {"na"} \cup EoAuthOk)) +
  B2N(g.pl \notin {"na", "ok"}) + B2N(g.tr \notin {"na", "ok"}) +
  B2N(g.ul \notin {"na", "ok"}) + B2N(g.sz \notin {"na", "s48"}) + B2N(g.b0 \notin {"na", "v4c"}) +
  B2N(g.ia \notin {"na", "ok"}) + B2N(g.org \notin {"na", "match"}) + B2N(g.meta \notin {"na", "ok"}) +
  B2N(g.ts \notin {"na", "ok"}) + B2N(g.sc \notin {"na", "ok"}) + B2N(g.bu \notin {"na", "none"})
\* `canon`: the canonical values of the field; `same`: the field belongs to a dimension that already deviates
Lim(g, Dom, canon, same) == IF DevCount(g) >= ScDev /\ ~same THEN Dom \cap canon ELSE Dom

UlDom == {"ok", "zero", "lt8", "small", "bigudp", "big", "max"}
UlBeyond == {"big", "max"}            \* larger than the whole datagram
PlDom == {"ok", "small", "big", "max"}
\* a MAC computed by the sender over what it sent verifies only if the receiver locates the same bytes
MacBytesDiffer(g) == g.ul \in {"zero", "small", "bigudp"} \/ g.tr = "inpl"
PayloadCut(g) == g.ul = "small" \/ g.tr = "inpl"

\* slayers decoding up to the validType check; shared by server and client.
\* One reveal per step; `after` is the pc once the last layer is known to be UDP or SCMP.
ScDecode(s, sc, eoDom, eoCanon, retry, strictPath, after) ==
  LET g == s.g IN
  IF g.sc = "na" THEN
    {IF z # "ok" THEN Fail([s EXCEPT !.g.sc = z], "slayers.SCION.DecodeFromBytes", retry) ELSE [s EXCEPT !.g.sc = z]
     : z \in PickG(s, sc, "sc", Lim(g, {"cmnshort", "addrshort", "hdrneg", "hdrbig", "ok"}, {"ok"}, FALSE))}
  ELSE IF g.pl = "na" THEN {[s EXCEPT !.g.pl = v] : v \in PickG(s, sc, "pl", Lim(g, PlDom, {"ok"}, FALSE))}
  ELSE IF g.da = "na" THEN {[s EXCEPT !.g.da = a] : a \in PickG(s, sc, "da", Lim(g, AddrDom, {"t0l4"}, FALSE))}
  \* pairwise: all 16 type/length values of one address next to a plain IPv4 one, all length pairs
  ELSE IF g.sa = "na" THEN {[s EXCEPT !.g.sa = a] : a \in PickG(s, sc, "sa", Lim(g, IF g.da = "t0l4" THEN AddrDom ELSE AddrT0, {"t0l4"}, g.da # "t0l4"))}
  ELSE IF g.pt = "na" THEN
    \* the server's layer recycles path objects and keeps unassigned path types as raw bytes; the
    \* client's does not (path.NewPath: "unsupported path")
    {IF p \in PtDecodeErr \/ (strictPath /\ p \in {"raw4", "raw255"})
     THEN Fail([s EXCEPT !.g.pt = p], "slayers.path.DecodeFromBytes", retry) ELSE [s EXCEPT !.g.pt = p]
     : p \in PickG(s, sc, "pt", Lim(g, PtDom, {"empty"}, FALSE))}
  ELSE IF g.ext = "na" THEN
    {IF x = "exttrunc" THEN Fail([s EXCEPT !.g.ext = x], "slayers.extn.DecodeFromBytes", retry)
     ELSE IF x \in {"e2ehbh", "e2e2", "hbh2"} THEN Fail([s EXCEPT !.g.ext = x], "validType", retry)
     ELSE [s EXCEPT !.g.ext = x]
     : x \in PickG(s, sc, "ext", Lim(g, ExtDom, IF eoCanon = {} THEN {"none"} ELSE {"none", "e2e"}, FALSE))}
  ELSE IF g.eo = "na" /\ g.ext \in {"e2e", "hbhe2e"} THEN
    {IF o = "optbeyond" THEN Fail([s EXCEPT !.g.eo = o], "slayers.extn.DecodeFromBytes", retry) ELSE [s EXCEPT !.g.eo = o]
     : o \in PickG(s, sc, "eo", Lim(g, eoDom, eoCanon, g.ext = "hbhe2e"))}
  ELSE IF g.l4 = "na" THEN
    {IF l \in {"udptrunc", "scmptrunc"} THEN Fail([s EXCEPT !.g.l4 = l], "slayers.l4.DecodeFromBytes", retry)
     ELSE IF l = "unk" THEN Fail([s EXCEPT !.g.l4 = l], "validType", retry)
     ELSE IF l = "udp" THEN [s EXCEPT !.g.l4 = l]
     ELSE [s EXCEPT !.g.l4 = l, !.pc = after]
     : l \in PickG(s, sc, "l4", Lim(g, L4Dom, {"udp"}, FALSE))}
  ELSE IF g.ul = "na" THEN      \* slayers.UDP: Length 1..7 is an error, 0 a jumbogram, > data: "truncated", accepted
    {IF u = "lt8" THEN Fail([s EXCEPT !.g.ul = u], "slayers.l4.DecodeFromBytes", retry) ELSE [s EXCEPT !.g.ul = u]
     : u \in PickG(s, sc, "ul", Lim(g, UlDom, {"ok"}, FALSE))}
  ELSE {[s EXCEPT !.g.tr = v, !.pc = after] : v \in PickG(s, sc, "tr", Lim(g, {"ok", "inpl"}, {"ok"}, FALSE))}

(***************************************************************************)
(* scsrv                                                                   *)
(***************************************************************************)
ScReverse(s, thenServe) ==    \* scionLayer.Path.Reverse(); if err != nil { panic(err) }
  IF s.g.pt \in PtReverseErr
  THEN (IF ScionReverseUnchecked THEN Die(s, "slayers.path.Reverse") ELSE Fail(s, "slayers.path.Reverse", FALSE))
  ELSE thenServe
ScSrvSucc(s, sc) ==
  LET g == s.g IN
  CASE s.pc = "Idle" ->           \* which listener: the server port or the end-host port 30041
        \* (a burst counts as one deviating dimension)
        UNION {{[s EXCEPT !.g.cp = p, !.g.bu = u, !.pc = "Parsed"]
                : u \in PickG(s, sc, "bu", Lim([g EXCEPT !.cp = p], BuDom(TRUE), {"none"}, FALSE))}
               : p \in PickG(s, sc, "cp", {"srv", "eh"})}
    [] s.pc = "Parsed" -> ScDecode(s, sc, EoSrv, {"auth28cok"}, FALSE, FALSE, "Classified")
    [] s.pc = "Classified" ->
        IF g.l4 \in {"scmpecho", "scmptr"} THEN {ScReverse(s, Serve(s))}     \* SCMP responder
        ELSE IF g.l4 = "scmpother" THEN {Fail(s, "scmp:type", FALSE)}
        \* UDP: if len(buf) < int(udpLayer.Length) -- what keeps buf[len(buf)-Length:] below in bounds
        ELSE IF g.ul \in UlBeyond THEN {Fail(s, "udp:length", FALSE)}
        \* netip.AddrFromSlice(RawSrcAddr / RawDstAddr)
        ELSE IF ~Is4or16(g.sa) \/ ~Is4or16(g.da)
          THEN {IF ScionAddrLenUnchecked THEN Die(s, "netip.AddrFromSlice") ELSE Fail(s, "netip.AddrFromSlice", FALSE)}
        ELSE {LET s1 == [s EXCEPT !.g.dp = d] IN
              IF d # "ntp"
              THEN (IF g.cp = "srv" \/ d = "endhost" THEN Fail(s1, "forward:port", FALSE)
                    \* end-host forwarder: the datagram goes to (destination host, destination port)
                    ELSE IF Is4(g.da) THEN Serve(s1) ELSE Fail(s1, "forward:write", FALSE))
              ELSE [s1 EXCEPT !.pc = "Authenticated"]
              : d \in PickG(s, sc, "dp", Lim(g, {"ntp", "endhost", "other"}, {"ntp"}, g.cp = "eh"))}
    [] s.pc = "Authenticated" ->  \* e2eLayer.FindOption(OptTypeAuthenticator), PacketAuthOptMetadata, CMAC
        IF ExtHasE2E(g.ext) /\ g.eo \in EoAuthBadLen
        THEN {IF ScionAuthOptUnchecked THEN Die(s, "scion.PacketAuthOptMetadata") ELSE Fail(s, "scion.PacketAuthOptMetadata", FALSE)}
        \* client SPI and AES-CMAC: the MAC is computed; spao cannot serialise a path of unassigned type
        ELSE IF ExtHasE2E(g.ext) /\ g.eo \in {"auth28c", "auth28cok"} /\ g.pt \in {"raw4", "raw255"}
        THEN {IF ScionMacErrPanics THEN Die(s, "spao.ComputeAuthCMAC") ELSE Fail(s, "spao.ComputeAuthCMAC", FALSE)}
        \* ... over buf[len(buf)-Length:]: other bytes than the sender's when the lengths disagree
        ELSE IF ExtHasE2E(g.ext) /\ (g.eo = "auth28c" \/ (g.eo = "auth28cok" /\ MacBytesDiffer(g)))
        THEN {Fail(s, "spao:mac", FALSE)}
        ELSE {[s EXCEPT !.pc = "Decoded"]}
    [] s.pc = "Decoded" ->        \* ntp.DecodePacket, ntp.ValidateRequest
        \* (slayers.UDP cuts the payload at the Length field resp. at the end of the datagram)
        IF PayloadCut(g) THEN {Fail(s, "ntp.DecodePacket:size", FALSE)}
        ELSE UNION {
          IF z = "s47" THEN {Fail([s EXCEPT !.g.sz = z], "ntp.DecodePacket:size", FALSE)}
          ELSE {IF b \in B0Bad THEN Fail([s EXCEPT !.g.sz = z, !.g.b0 = b], "ntp.ValidateRequest", FALSE)
                                ELSE [s EXCEPT !.g.sz = z, !.g.b0 = b, !.pc = "Validated"]
                : b \in PickG(s, sc, "b0", Lim([g EXCEPT !.sz = z], {"v4c", "v4srv"}, {"v4c"}, FALSE))}
          : z \in PickG(s, sc, "sz", Lim(g, {"s47", "s48"}, {"s48"}, FALSE))}
    [] s.pc = "Validated" -> {ScReverse(s, [s EXCEPT !.pc = "Handled"])}   \* handleRequest, reply path
    [] s.pc = "Handled" -> {[s EXCEPT !.pc = "Sent"]}
    [] s.pc = "Sent" -> {Serve(s)}
    [] OTHER -> {}

(***************************************************************************)
(* sccli: one call of measureClockOffsetSCION (same-AS empty path),        *)
(* c.auth = the client's SPAO authentication (a key is available)          *)
(***************************************************************************)
ScCliFull(s) == Len(s.c.rs) = 0 \/ (Len(s.c.rs) = 1 /\ s.c.rs[1].sc = "cmnshort")
ScCliSucc(s, sc) ==
  LET g == s.g  c == s.c  full == ScCliFull(s) IN
  CASE s.pc = "Idle" ->
        UNION {
          IF i = "yes" THEN {[s EXCEPT !.c.il = i, !.c.auth = "no", !.pc = "Hist"]}
          ELSE {[s EXCEPT !.c.il = i, !.c.auth = a, !.pc = "Await"] : a \in PickC(sc, "auth", {"no", "yes"})}
          : i \in IlDom(c, sc)}
    [] s.pc = "Hist" -> HistSucc(s, sc)
    [] s.pc = "Await" ->          \* ReadMsgUDPAddrPort until the deadline
        {IF z = "none" THEN Fail([s EXCEPT !.g.sz = z], "read:deadline", FALSE)
                       ELSE [s EXCEPT !.g.sz = z, !.pc = "Parsed"]
         : z \in PickG(s, sc, "sz", Sub({"none", "s47", "s48"}, {"s48"}, full))}   \* (none, s47: one deviation)
    [] s.pc = "Parsed" ->
        IF full THEN ScDecode(s, sc, EoCli, IF c.auth = "yes" THEN {"auth28sok"} ELSE {}, TRUE, TRUE, "Classified")
        ELSE {[s EXCEPT !.g.sc = "ok", !.g.pl = "ok", !.g.da = "t0l4", !.g.sa = "t0l4", !.g.pt = "empty", !.g.ext = "none",
                        !.g.l4 = "udp", !.g.ul = "ok", !.g.tr = "ok", !.pc = "Classified"]}
    [] s.pc = "Classified" ->     \* SCMP; UDP length; validSrc, validDst (both evaluated)
        IF g.l4 # "udp" THEN {Fail(s, "scmp", TRUE)}
        ELSE IF g.ul \in UlBeyond THEN {Fail(s, "udp:length", TRUE)}
        ELSE {LET s1 == [s EXCEPT !.g.ia = i] IN
              \* SrcIA == remote IA && compareIPs(...): the comparison runs only when the IA matches
              IF (i # "src" /\ ~Is4or16(g.sa)) \/ (i # "dst" /\ ~Is4or16(g.da))
              THEN (IF ScionAddrLenUnchecked THEN Die(s1, "client.compareIPs") ELSE Fail(s1, "client.compareIPs", TRUE))
              \* an address of the right length that is not the peer's (every class but the plain IPv4 one)
              ELSE IF i # "ok" \/ g.sa # "t0l4" \/ g.da # "t0l4" THEN Fail(s1, "address", TRUE)
              ELSE [s1 EXCEPT !.pc = "Authenticated"]
              : i \in PickG(s, sc, "ia", Sub(Lim(g, {"ok", "src", "dst"}, {"ok"}, FALSE), {"ok"}, full))}
    [] s.pc = "Authenticated" ->  \* option 253 (udp.TimestampFromOOBData on its data), then the authenticator
        IF ~ExtHasE2E(g.ext) THEN {[s EXCEPT !.pc = "Decoded"]}
        ELSE IF g.eo \in EoTsPanics
          THEN {IF ScionTsOptUnchecked THEN Die(s, "udp.TimestampFromOOBData") ELSE [s EXCEPT !.pc = "Decoded"]}
        \* the walk over the control messages advances by the aligned cmsg_len: a first message of declared
        \* length 0 that is no timestamp message leaves it where it is (timestamp messages of a wrong length and
        \* lengths 1..15, which advance by 8 or 16 bytes, end in an error or further down the data)
        ELSE IF g.eo \in {"ts0o", "ts0of"} /\ CmsgLenUnchecked
          THEN {Hang(s, "udp.TimestampFromOOBData:cmsglen0", FALSE)}
        ELSE IF c.auth = "yes" /\ g.eo \in EoAuthBadLen
          THEN {IF ScionAuthOptUnchecked THEN Die(s, "scion.PacketAuthOptMetadata") ELSE Fail(s, "scion.PacketAuthOptMetadata", TRUE)}
        ELSE IF c.auth = "yes" /\ (g.eo = "auth28s" \/ (g.eo = "auth28sok" /\ MacBytesDiffer(g)))
          THEN {Fail(s, "spao:mac", TRUE)}
        ELSE {[s EXCEPT !.pc = "Decoded"]}
    [] s.pc = "Decoded" ->        \* ntp.DecodePacket, origin, metadata, timestamps
        IF g.sz = "s47" \/ PayloadCut(g) THEN {Fail(s, "ntp.DecodePacket:size", TRUE)}
        ELSE UNION {
          IF o = "other" THEN {Fail([s EXCEPT !.g.org = o], "origin", TRUE)}
          ELSE UNION {
            IF m # "ok" THEN {Fail([s EXCEPT !.g.org = o, !.g.meta = m], "ntp.ValidateResponseMetadata", FALSE)}
            \* t3 is the time found in option 253 when there is one
            \* (repaired: a time outside [transmit time, socket receive time] is not taken over)
            ELSE IF ExtHasE2E(g.ext) /\ g.eo = "tsold" /\ ScionTsOptTrusted
              THEN {Die([s EXCEPT !.g.org = o, !.g.meta = m], "ntp.ValidateResponseTimestamps:panic")}
            ELSE {IF t = "neg" THEN Fail([s EXCEPT !.g.org = o, !.g.meta = m, !.g.ts = t], "ntp.ValidateResponseTimestamps", FALSE)
                               ELSE [s EXCEPT !.g.org = o, !.g.meta = m, !.g.ts = t, !.pc = "Validated"]
                  : t \in PickG(s, sc, "ts", Sub(Lim([g EXCEPT !.org = o, !.meta = m], {"ok", "neg"}, {"ok"}, FALSE), {"ok"}, full))}
            : m \in PickG(s, sc, "meta", Sub(Lim([g EXCEPT !.org = o], {"ok", "li3", "str0"}, {"ok"}, FALSE), {"ok"}, full))}
          : o \in PickG(s, sc, "org", Sub(Lim(g, {"match", "other"}, {"match"}, FALSE), {"match"}, full))}
    [] s.pc = "Validated" -> {[s EXCEPT !.pc = "Handled"]}
    [] s.pc = "Handled" -> {Serve(s)}
    [] OTHER -> {}

(***************************************************************************)
(* Transition function                                                     *)
(***************************************************************************)
Succ(s, sc) ==
  IF ~s.alive \/ s.spin \/ s.c.out # "na" THEN {}
  ELSE CASE s.c.kind = "ipsrv" -> SrvSucc(s, sc)
         [] s.c.kind = "ipcli" -> CliSucc(s, sc)
         [] s.c.kind = "kesrv" -> KeSrvSucc(s, sc)
         [] s.c.kind = "csptpsrv" -> CsSrvSucc(s, sc)
         [] s.c.kind = "csptpcli" -> CsCliSucc(s, sc)
         [] s.c.kind = "scsrv" -> ScSrvSucc(s, sc)
         [] s.c.kind = "sccli" -> ScCliSucc(s, sc)
         [] OTHER -> {}

\* the well-formed request / exchange sent after every crafted input
GoodSrvDgram == [G0 EXCEPT !.sz = "s48", !.b0 = "v4c", !.bu = "none"]
GoodCliDgram == [G0 EXCEPT !.sz = "s48", !.src = "ok", !.org = "match", !.meta = "ok", !.ts = "ok"]
Sentinel(kind) ==
  CASE kind = "ipsrv" -> [C0(kind) EXCEPT !.rs = <<GoodSrvDgram>>]
    [] kind = "ipcli" -> [C0(kind) EXCEPT !.auth = "no", !.rs = <<GoodCliDgram>>]
    [] kind = "kesrv" -> [C0(kind) EXCEPT !.pre = "tls", !.ke = <<"np", "aead">>, !.kt = "eom"]
    [] kind = "csptpsrv" -> [C0(kind) EXCEPT !.rs = <<[G0 EXCEPT !.sz = "min", !.ml = "len", !.mt = "sync319"]>>]
    [] kind = "scsrv" -> [C0(kind) EXCEPT !.rs = <<[G0 EXCEPT !.cp = "srv", !.bu = "none", !.sc = "ok", !.da = "t0l4", !.sa = "t0l4",
          !.pt = "empty", !.ext = "none", !.l4 = "udp", !.ul = "ok", !.pl = "ok", !.tr = "ok", !.dp = "ntp", !.sz = "s48", !.b0 = "v4c"]>>]
    [] kind = "sccli" -> [C0(kind) EXCEPT !.auth = "no", !.rs = <<[G0 EXCEPT !.sz = "s48", !.sc = "ok", !.da = "t0l4",
          !.sa = "t0l4", !.pt = "empty", !.ext = "none", !.l4 = "udp", !.ul = "ok", !.pl = "ok", !.tr = "ok", !.ia = "ok", !.org = "match",
          !.meta = "ok", !.ts = "ok"]>>]
    [] kind = "csptpcli" -> [C0(kind) EXCEPT !.rs =
          <<[G0 EXCEPT !.sz = "min", !.ml = "len", !.seq = "match", !.mt = "sync", !.src = "ok", !.ts = "acc"],
            [G0 EXCEPT !.sz = "tlvds", !.ml = "len", !.seq = "match", !.mt = "fup", !.src = "ok", !.tlv = "okds", !.ts = "acc"]>>]

\* the sentinel of a history is one more call on the SAME client value, answered by a genuine server
\* ("auto" behind the empty script); the case that follows a crafted input keeps the client of a history
SentinelFor(c) == IF c.il = "yes" THEN [C0(c.kind) EXCEPT !.il = "yes", !.auth = "no"] ELSE Sentinel(c.kind)
NextOn(c) == IF c.il = "yes" THEN [C0(c.kind) EXCEPT !.il = "yes", !.h = c.h] ELSE C0(c.kind)

(***************************************************************************)
(* The processes                                                           *)
(***************************************************************************)
VARIABLES
  pc, alive, spin, c, g,   \* the receive loop (see St)
  sent,                    \* the sentinel: "none" | "queued" (sent right behind the crafted input)
                           \*   | "inproc" (being processed) | "answered"
  k,                       \* crafted inputs so far
  tick                     \* flips in the non-advancing loop (a real cycle, not stuttering)
vars == <<pc, alive, spin, c, g, sent, k, tick>>

Cur == St(pc, alive, spin, c, g)
Set(s) == pc' = s.pc /\ alive' = s.alive /\ spin' = s.spin /\ c' = s.c /\ g' = s.g

Init == /\ \E kd \in Kinds : c = C0(kd)
        /\ pc = "Idle" /\ alive = TRUE /\ spin = FALSE /\ g = G0
        /\ sent = "none" /\ k = 1 /\ tick = 0

\* a stage of the pipeline on the crafted input: every class of the decision it takes
Stage == /\ sent \in {"none", "queued"}
         /\ \E s \in Succ(Cur, NoScript) : Set(s)
         \* the sentinel is sent right behind the crafted input
         /\ sent' = IF pc = "Idle" THEN "queued" ELSE sent
         /\ UNCHANGED <<k, tick>>
\* the loop is back at its read (the crafted input is finished): the sentinel is next
TakeSentinel == /\ alive /\ ~spin /\ c.out \in {"served", "dropped"} /\ sent = "queued"
                /\ c' = NextOn(c) /\ g' = G0 /\ pc' = "Idle" /\ sent' = "inproc"
                /\ UNCHANGED <<alive, spin, k, tick>>
StageSentinel == /\ sent = "inproc"
                 /\ \E s \in Succ(Cur, SentinelFor(c)) : Set(s)
                 /\ UNCHANGED <<sent, k, tick>>
SentinelDone == /\ sent = "inproc" /\ c.out # "na" /\ alive /\ ~spin
                /\ sent' = IF c.out = "served" THEN "answered" ELSE "lost"
                /\ UNCHANGED <<pc, alive, spin, c, g, k, tick>>
NextCase == /\ sent = "answered" /\ k < MaxCases
            /\ c' = C0(c.kind) /\ g' = G0 /\ pc' = "Idle" /\ sent' = "none" /\ k' = k + 1
            /\ UNCHANGED <<alive, spin, tick>>
SpinStep == /\ spin /\ alive /\ tick' = 1 - tick
            /\ UNCHANGED <<pc, alive, spin, c, g, sent, k>>
OomStep == /\ spin /\ alive /\ c.out = "hangoom" /\ alive' = FALSE
           /\ UNCHANGED <<pc, spin, c, g, sent, k, tick>>

Next == Stage \/ TakeSentinel \/ StageSentinel \/ SentinelDone \/ NextCase \/ SpinStep \/ OomStep
Spec == Init /\ [][Next]_vars
FairSpec == Spec /\ WF_vars(Next)

(***************************************************************************)
(* Property section (C08)                                                  *)
(***************************************************************************)
\* no input terminates the process
NeverDead == alive
\* no input stops the receiving loop from making progress: whatever is being processed is
\* finished (dropped, reported as an error, or answered) and the loop is back at its read
Progress == (pc # "Idle") ~> (pc = "Idle")
NoSpin == ~spin
\* every iteration of a length-driven walk (extension fields, control messages) advances
EveryIterationAdvances == ~spin
\* the next well-formed request on the same socket is still answered
SentinelServed == (sent = "queued") ~> (sent = "answered")
SentinelNotLost == sent # "lost"

\* outcome classes of a finished crafted input, as the harness observes them
Outcomes == {"served", "dropped", "dead", "hang", "hangoom"}
TypeOK == /\ pc \in {"Idle", "Parsed", "Classified", "Authenticated", "Decoded", "NtsDecoded", "Validated",
                      "Handled", "Sent", "KeDial", "KeRead", "KeDone", "ReqBuilt", "Await", "Hist"}
          /\ alive \in BOOLEAN /\ spin \in BOOLEAN
          /\ c.out \in Outcomes \cup {"na"}
          /\ c.kind \in Kinds
\* a finished input is in exactly one outcome class, and the classes agree with the process state
OutcomeConsistent ==
  /\ (c.out = "dead") => ~alive
  /\ (c.out \in {"hang", "hangoom"}) => spin
  /\ (c.out \in {"served", "dropped"}) => (alive /\ ~spin /\ pc = "Idle")

(***************************************************************************)
(* Scripted runs (used by RobustTrace.tla): the outcomes the transition    *)
(* function allows for a completely revealed case.                         *)
(***************************************************************************)
RECURSIVE RunSet(_, _, _)
RunSet(S, sc, fuel) ==
  IF fuel = 0 THEN S
  ELSE LET T == UNION {IF s.c.out # "na" THEN {s} ELSE Succ(s, sc) : s \in S}
       IN IF T = S THEN S ELSE RunSet(T, sc, fuel - 1)
Start(kind) == St("Idle", TRUE, FALSE, C0(kind), G0)
\* terminal states reachable for the script
Finals(sc) == {s \in RunSet({Start(sc.kind)}, sc, 80) : s.c.out # "na"}
\* (a run may end before the script does -- the repaired pipeline rejects an input at an earlier
\* stage -- or behind it, in silence; every choice it made is the recorded one)
Predicted(sc) == {<<s.c.out, s.c.site>> : s \in Finals(sc)}
=============================================================================
