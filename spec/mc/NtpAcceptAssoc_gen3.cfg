SPECIFICATION ASpec
CONSTANTS
  Nts = TRUE
  MaxArrivals = 3
INVARIANTS AOnlyGenuine NoOffsetAfterFailedExchange NoPlainRequest AEmit
