---------------------------- MODULE SyncRoundMC ----------------------------
EXTENDS SyncRound, Json

\* ---- value sets (W = 8: Word = -128 .. 127; |v| < 64 is "small", no wrap)
\* cutoff 8, reference cap 20, peer cap 40 in the basic admissible setting
ValsExh  == {-128, -12, 0, 8, 28, 60}
ValsMid  == {-128, -60, -12, 0, 8, 28, 60}
ValsDeep == {-128, -60, -12, 0, 8, 28, 127}
ValsGen  == {-128, -60, -44, -40, -28, -24, -21, -20, -12, -8, -4, 0, 4, 8, 9, 12, 20, 24, 28,
             40, 41, 44, 60, 124, 127}

AllFails == {"err", "late", "never"}
OneFail  == {"err"}

Cfg(nr, np, r, p, cu, iv, to, dr) ==
  [nref |-> nr, npeer |-> np, ri4 |-> r, pi4 |-> p, cutoff |-> cu, interval |-> iv,
   timeout |-> to, drift |-> dr]

Grid(NR, NP, RI, PI, CU, IV, TO, DR) ==
  {Cfg(nr, np, r, p, cu, iv, to, dr) : nr \in NR, np \in NP, r \in RI, p \in PI, cu \in CU,
                                       iv \in IV, to \in TO, dr \in DR}

\* start-up grid: every combination of factor / interval / timeout / drift
\* classes around the five conditions, for one source count
BootGrid == Grid({1}, {1}, {3, 4, 5, 8}, {4, 8, 9, 10, 14}, {8}, {-8, 0, 8, 9}, {-1, 2, 4, 5}, {-2, 0, 2})

\* admissible settings (timeout > 0: with a zero timeout the deadline and the
\* answers race, which the scripted clocks cannot replay deterministically)
AdmBasic == Grid(0 .. NRef, 0 .. NPeer, {5}, {10}, {8}, {8}, {4}, {2})
AdmMore  == Grid({NRef}, {NPeer}, {5, 8}, {14}, {0, 8}, {8, 9}, {2}, {2})
           \cup Grid({NRef}, {0, NPeer}, {6}, {11}, {8}, {8}, {2}, {1})
\* three of them for the exhaustive deep run
AdmFew   == {Cfg(NRef, NPeer, 5, 14, 0, 9, 2, 2), Cfg(NRef, NPeer, 8, 14, 8, 8, 2, 2),
             Cfg(NRef, NPeer, 6, 11, 8, 8, 2, 1)}

\* start-up over the WHOLE word range of the three durations (W = 8: -128 .. 127;
\* H/2 = 64 is where doubling a Duration starts to wrap): 0, 1, interval/2,
\* interval/2 + 1, interval, H/2 - 1, H/2, H/2 + k, H - 1, negative values and
\* the most negative word, every combination; factors and drift admissible, so
\* that the durations alone decide
WordNeg(x) == 0 - x
BootWordCutoffs   == {WordNeg(128), 0, 127}
BootWordIntervals == {WordNeg(128), WordNeg(1), 0, 1, 2, 8, 9, 63, 64, 65, 126, 127}
BootWordTimeouts  == {WordNeg(128), WordNeg(64), WordNeg(1), 0, 1, 4, 5, 8, 9, 31, 32, 33, 62, 63, 64, 65,
                      100, 126, 127}
BootWord == Grid({1}, {1}, {6}, {11}, BootWordCutoffs, BootWordIntervals, BootWordTimeouts, {1})

CfgsBoot == BootGrid \cup BootWord
CfgsExh  == AdmBasic \cup BootGrid
CfgsDeep == AdmBasic \cup AdmFew \cup BootGrid
CfgsGen  == AdmBasic \cup AdmMore

ASSUME \A c \in AdmBasic \cup AdmMore \cup AdmFew : Admissible(c)
ASSUME \A c \in BootGrid \cup BootWord \cup AdmBasic \cup AdmMore \cup AdmFew : DurationsAreWords(c)
ASSUME BootGrid \cap BootWord = {}
\* the timeout test, every pair of words (SyncRound.tla, "Facts about the timeout test")
ASSUME HalfFormIsStatement
ASSUME DoubledFormWrapsOnUpperHalf

\* ---- the local clock during one clk.Sleep call, in half intervals:
\* slp = real time until Sleep returns (2 = on time), stp = step of the reading
El(a, b) == [slp |-> a, stp |-> b]
ElapseSeq == <<El(2, 0),                                   \* on time
               El(3, 0), El(4, 0), El(6, 0), El(200, 0),   \* late by 1/2, 1, 2, 99 intervals
               El(2, 2), El(2, 4), El(2, 198),             \* stepped forwards by 1, 2, 99 intervals
               El(2, 0 - 1), El(2, 0 - 2),                 \* stepped back: the reading moves by 1/2, 0
               El(2, 0 - 8), El(2, 0 - 200),               \* ... and goes backwards
               El(200, 0 - 198)>>                          \* late, and stepped back to "on time"
ElapseAll == {ElapseSeq[i] : i \in DOMAIN ElapseSeq}
ElapseOnTime == {OnTime}
\* genall: one behaviour per VIEW-distinct state, so the choice is made a
\* function of the (VIEW-visible) sleeping state to spread it over ElapseSeq
GenAllElapse ==
  {ElapseSeq[((refOff + 2 * peerOff + 3 * corr + 5 * Len(refSlots) + 7 * Len(peerSlots) + 4096)
              % Len(ElapseSeq)) + 1]}

\* ---- seeded sampling for `tlc -simulate` (cfg: OutcomeVecs <- GenVecs,
\* Arrivals <- GenArrivals): one random member of the specification's choice
\* set, failures over-represented so that stale slots are common
\* (state-level on purpose: TLC evaluates constant-level definitions only once)
GenOutcome ==
  LET SV == {v \in Vals : round >= 0}
      I  == {i \in 1 .. 10 : round >= 0}
  IN <<Ok(RandomElement(SV)), Ok(RandomElement(SV)), Ok(RandomElement(SV)), Ok(RandomElement(SV)),
       Ok(RandomElement(SV)), Ok(RandomElement(SV)), Fail("err"), Fail("err"), Fail("late"),
       Fail("never")>>[RandomElement(I)]
GenVecs(c, kind) ==
  LET n == NSlots(c, kind)
  IN {TLCEval([i \in 1 .. n |-> IF kind = "peer" /\ i = n THEN Ok(0) ELSE GenOutcome])}
GenArrivals(o) == {RandomElement({p \in Perms(OkSet(o)) : round >= 0})}
BootOnly == round = 0 /\ ~refDone /\ ~peerDone

\* ---- behaviour emitter (spec -> code)
EmitBoot ==
  (phase \in {"panicked", "measure"} /\ round = 0 /\ ~refDone /\ ~peerDone) =>
     PrintT(<<"CASE", ToJson([kind |-> IF cfg \in BootWord THEN "bootw" ELSE "boot",
                              cfg |-> cfg, refused |-> phase = "panicked",
                              stated |-> StatedInadmissible(cfg), rounds |-> << >>])>>)
EmitRun ==
  (phase = "asleep" /\ round = MaxRound) =>
     PrintT(<<"CASE", ToJson([kind |-> "run", cfg |-> cfg, refused |-> FALSE,
                              stated |-> StatedInadmissible(cfg), rounds |-> hist])>>)
\* one representative behaviour per reachable (VIEW-distinct) sleeping state
EmitEvery ==
  phase = "asleep" =>
     PrintT(<<"CASE", ToJson([kind |-> "run", cfg |-> cfg, refused |-> FALSE,
                              stated |-> StatedInadmissible(cfg), rounds |-> hist])>>)
=============================================================================
