SPECIFICATION TSpec
INVARIANTS StrictReport
