SPECIFICATION TStrict
INVARIANTS OutstandingId Sound Complete CookieBinding AuthenticOnly RejectedInert RDirectionsDistinct SEnabled SEvent SState
