// C04 driver: replays the (reference, time) cases enumerated by TLC from
// spec/NtpTime.tla (scaled constants) on the real ntp.Time64FromTime /
// ntp.TimeFromTime64 at the real constants, under several embeddings of the
// scaled case into real seconds / nanoseconds, plus counterexamples found by
// Apalache at the real constants, seeded random cases and a dense sweep of
// sub-second values.  Results are recorded in 32-bit model units for
// spec/trace/NtpTimeTrace.tla (monitor + strict).
package c04

import (
	"math/rand"
	"os"
	"runtime"
	"sort"
	"strconv"
	"sync"
	"testing"
	"time"

	"example.com/scion-time/net/ntp"

	"verif/harness/internal/vio"
)

// ---------------------------------------------------------------- evaluator
// Parametric transcription of the operators of NtpTime.tla (Sec32, Frac,
// EraBase, Unfold, Nsec).  Checked against TLC's table at the scaled
// constants (records k="eval", NtpTimeTrace!EvalIsSpec); used at the real
// constants for the strict comparison only -- never for the verdict.
type consts struct{ nsPerSec, fracUnits, eraSecs, epoch int64 }

var (
	scaled = consts{1000, 4096, 64, -33}
	realc  = consts{1000000000, 1 << 32, 1 << 32, -2208988800}
)

func mod(a, m int64) int64 {
	r := a % m
	if r < 0 {
		r += m
	}
	return r
}

func floorDiv(a, m int64) int64 {
	q := a / m
	if a%m != 0 && (a < 0) != (m < 0) {
		q--
	}
	return q
}

func (c consts) sec32(u int64) int64 { return mod(u-c.epoch, c.eraSecs) }
func (c consts) frac(ns int64) int64 { return mod(floorDiv(ns*c.fracUnits, c.nsPerSec), c.fracUnits) }
func (c consts) eraBase(tref int64) int64 {
	return c.epoch + (tref-c.epoch)/c.eraSecs*c.eraSecs // Go's / is TDiv
}
func (c consts) unfold(s32, f, tref, rn int64, fwdOnly, wholeSec bool) int64 {
	sec := c.eraBase(tref) + s32
	half := c.eraSecs / 2
	var fwd, bwd bool
	if wholeSec {
		fwd, bwd = sec < tref-half, sec >= tref+half
	} else {
		fref := c.frac(rn)
		fwd = sec < tref-half || sec == tref-half && f < fref
		bwd = sec > tref+half || sec == tref+half && f >= fref
	}
	if fwd {
		return sec + c.eraSecs
	}
	if !fwdOnly && bwd {
		return sec - c.eraSecs
	}
	return sec
}
func (c consts) nsec(f int64) int64 { return floorDiv(f*c.nsPerSec, c.fracUnits) }

// decode returns (sec, ns) of UnixTime(Unfold(..), Nsec(..))
func (c consts) decode(s32, f, tref, rn int64, fwdOnly, wholeSec bool) (int64, int64) {
	n := c.nsec(f)
	return c.unfold(s32, f, tref, rn, fwdOnly, wholeSec) + floorDiv(n, c.nsPerSec), mod(n, c.nsPerSec)
}

// -------------------------------------------------------------------- cases
type tcase struct {
	Kind string `json:"kind"` // "" (TLC case, scaled units) | "real" (real units: Apalache counterexample)
	// TLC case
	R   int64 `json:"r"`
	Rn  int64 `json:"rn"`
	O   int64 `json:"o"`
	N   int64 `json:"n"`
	Pos int64 `json:"pos"`
	Era int64 `json:"era"`
	// real case
	RR  int64  `json:"rr"`  // reference second
	RRn int64  `json:"rrn"` // reference nanosecond
	TS  int64  `json:"ts"`  // time second
	TN  int64  `json:"tn"`  // time nanosecond
	Src string `json:"src"`
}

type evalRec struct {
	K    string `json:"k"`
	R    int64  `json:"r"`
	Rn   int64  `json:"rn"`
	O    int64  `json:"o"`
	N    int64  `json:"n"`
	S32  int64  `json:"s32"`
	Frac int64  `json:"frac"`
	Nsec int64  `json:"nsec"`
	Bf   int64  `json:"bf"`
	Bw   int64  `json:"bw"`
	Br   int64  `json:"br"`
}

// record layout consumed by NtpTimeTrace.tla; times are <<hi, lo, ns>>:
// seconds relative to the reference second = hi*65536 + lo
type rec struct {
	K      string   `json:"k"`   // "rt"
	Src    string   `json:"src"` // tlc | apa | rnd
	Emb    int      `json:"emb"`
	Era    int64    `json:"era"`    // NTP era of the reference
	Cross  int64    `json:"cross"`  // era of t minus era of the reference
	Pcross int64    `json:"pcross"` // the same for pt
	Edge   string   `json:"edge"`   // position of t in the window: lo | hi | mid | out
	Sd     int64    `json:"sd"`     // -1 / +1: whole seconds of t - t0 are exactly -2^31 / +2^31, else 0
	Rn     int64    `json:"rn"`     // sub-second part of the reference
	T      [3]int64 `json:"t"`
	B      [3]int64 `json:"b"`
	D      int64    `json:"d"` // back - t in ns, clamped to +-10^9
	Pt     [3]int64 `json:"pt"`
	Pb     [3]int64 `json:"pb"`
	Sat    bool     `json:"sat"`
	// strict
	Ds32  int64    `json:"ds32"`
	Dfrac int64    `json:"dfrac"`
	Bf    [3]int64 `json:"bf"` // forward-only, whole seconds
	Bw    [3]int64 `json:"bw"` // whole seconds
	Br    [3]int64 `json:"br"` // sub-second part of t0 decides at half an era (default)
	// replay information (not read by TLC): decimal strings of the real values
	Real [4]string `json:"real"` // ref sec, ref ns, t sec, t ns
}

type aggRec struct {
	K          string    `json:"k"` // "agg"
	Era        int64     `json:"era"`
	Cross      int64     `json:"cross"`
	Pcross     int64     `json:"pcross"` // era of the nanosecond before the block minus era of the reference
	Rn         int64     `json:"rn"`
	Sec        [2]int64  `json:"sec"` // <<hi, lo>> of the swept second
	N0         int64     `json:"n0"`
	N1         int64     `json:"n1"`
	Count      int64     `json:"count"`
	Mind       int64     `json:"mind"`
	Maxd       int64     `json:"maxd"`
	Inversions int64     `json:"inversions"`
	Pt         [3]int64  `json:"pt"`   // the nanosecond before the block
	Pinv       int64     `json:"pinv"` // 1 iff it came back later than the block's first value
	Sd         int64     `json:"sd"`
	FirstBad   int64     `json:"first_bad"` // sub-second value of the first offending time, -1 if none
	Lost       int64     `json:"lost"`      // how many values came back 1 ns early (information)
	MisEnc     int64     `json:"misenc"`
	MisF       int64     `json:"misf"`
	MisW       int64     `json:"misw"`
	MisR       int64     `json:"misr"`
	Real       [2]string `json:"real"` // ref sec, t sec
}

const (
	two16 = int64(1) << 16
	two26 = int64(1) << 26
	two31 = int64(1) << 31
	two32 = int64(1) << 32
	giga  = int64(1000000000)
	five9 = int64(1953125)
)

func clamp(v, lim int64) int64 {
	if v > lim {
		return lim
	}
	if v < -lim {
		return -lim
	}
	return v
}

// digits of (sec - ref, ns); exact for |sec - ref| < 2^46
func digits(sec, ref, ns int64) ([3]int64, bool) {
	rel := sec - ref
	hi := floorDiv(rel, two16)
	lo := rel - hi*two16
	sat := false
	if hi > 1<<30 || hi < -(1<<30) {
		hi = clamp(hi, 1<<30)
		sat = true
	}
	return [3]int64{hi, lo, ns}, sat
}

func diffNs(bs, bn, ts, tn int64) int64 {
	ds := bs - ts
	if ds > 1 {
		return giga
	}
	if ds < -1 {
		return -giga
	}
	return clamp(ds*giga+(bn-tn), giga)
}

func dec(v int64) string { return strconv.FormatInt(v, 10) }

func eraOf(sec int64) int64 { return floorDiv(sec-realc.epoch, two32) }

// inWindow: -2^31 s <= t - t0 < 2^31 s at nanosecond granularity.  Used for labels
// and case selection only; the monitor recomputes the window from the digits.
func inWindow(rs, rn, ts, tn int64) bool {
	switch d := ts - rs; {
	case d == -two31:
		return tn >= rn
	case d == two31:
		return tn < rn
	default:
		return d > -two31 && d < two31
	}
}

func halfEra(d int64) int64 {
	switch d {
	case -two31:
		return -1
	case two31:
		return 1
	}
	return 0
}

type obs struct {
	rs, rn, ts, tn int64
	r              rec
}

// observe runs the real functions on one (reference, time) pair
func observe(src string, emb int, rs, rn, ts, tn int64) obs {
	ref := time.Unix(rs, rn)
	t := time.Unix(ts, tn)
	x := ntp.Time64FromTime(t)
	b := ntp.TimeFromTime64(x, ref)
	bs, bn := b.Unix(), int64(b.Nanosecond())
	r := rec{K: "rt", Src: src, Emb: emb, Era: eraOf(rs), Cross: eraOf(ts) - eraOf(rs), Rn: rn,
		Real: [4]string{dec(rs), dec(rn), dec(ts), dec(tn)}}
	switch off := ts - rs; {
	case !inWindow(rs, rn, ts, tn):
		r.Edge = "out"
	case off < -two31+two16:
		r.Edge = "lo"
	case off >= two31-two16:
		r.Edge = "hi"
	default:
		r.Edge = "mid"
	}
	r.Sd = halfEra(ts - rs)
	var s1, s2 bool
	r.T, _ = digits(ts, rs, tn)
	r.B, s1 = digits(bs, rs, bn)
	r.D = diffNs(bs, bn, ts, tn)
	r.Ds32 = clamp(int64(x.Seconds)-realc.sec32(ts), giga)
	r.Dfrac = clamp(int64(x.Fraction)-realc.frac(tn), giga)
	fs, fn := realc.decode(int64(x.Seconds), int64(x.Fraction), rs, rn, true, true)
	ws, wn := realc.decode(int64(x.Seconds), int64(x.Fraction), rs, rn, false, true)
	ps, pn := realc.decode(int64(x.Seconds), int64(x.Fraction), rs, rn, false, false)
	r.Bf, s2 = digits(fs, rs, fn)
	r.Bw, _ = digits(ws, rs, wn)
	r.Br, _ = digits(ps, rs, pn)
	r.Sat = s1 || s2
	return obs{rs, rn, ts, tn, r}
}

// ---------------------------------------------------------- embeddings
// fill is a seeded deterministic value in [0, m) per (tag, model value, embedding):
// the same model value always maps to the same real value, so that equal model
// sub-seconds stay equal and all cases of one model reference share one real reference.
func fill(tag uint64, v int64, e int, m int64) int64 {
	z := uint64(vio.Seed())*0x9E3779B97F4A7C15 ^ tag<<56 ^ uint64(v+4096)<<16 ^ uint64(e)
	z += 0x9E3779B97F4A7C15
	z = (z ^ z>>30) * 0xBF58476D1CE4E5B9
	z = (z ^ z>>27) * 0x94D049BB133111EB
	z ^= z >> 31
	return int64(z % uint64(m))
}

// scaled position in the era (0..63) -> real position (0..2^32-1), order preserving
func embPos(pos int64, e int) int64 {
	if e == 0 {
		return pos * two26
	}
	switch {
	case pos <= 2:
		return pos
	case pos >= 61:
		return two32 - (64 - pos)
	case pos >= 30 && pos <= 34:
		return two31 + (pos - 32)
	}
	return pos*two26 + fill(1, pos, e, two26)
}

// scaled offset (-33..32) -> real offset in whole seconds, order preserving;
// -32 -> -2^31 and 32 -> 2^31 (the two ends of the window) in every embedding
func embOff(o int64, e int) int64 {
	if e == 0 {
		return o * two26
	}
	switch {
	case o <= -30:
		return -two31 + (o + 32) // -33 -> -2^31-1, -32 -> -2^31, ...
	case o >= 29:
		return two31 + (o - 32) // 32 -> 2^31, 31 -> 2^31-1, ...
	case o >= -2 && o <= 2:
		return o
	}
	return o*two26 + fill(2, o, e, two26)
}

// scaled sub-second value (0..999) -> real nanosecond (embeddings 0 and 1; used for
// the reference's sub-second part as well, so that equality is preserved)
func embNs(n int64, e int) int64 {
	if e == 0 {
		return n * 1000000
	}
	switch {
	case n <= 3:
		return n
	case n >= 996:
		return giga - (1000 - n)
	case n >= 232 && n <= 234:
		return n
	case n%125 == 0: // exactly representable: multiples of 5^9 * 64
		return n * 1000000
	}
	for k := int64(2); k <= 9; k++ { // 2^k, 2^k +- 1 -> 2^3k, 2^3k +- 1
		p := int64(1) << k
		if n >= p-1 && n <= p+1 {
			return int64(1)<<(3*k) + (n - p)
		}
	}
	return n*1000000 + fill(3, n, e, 1000000)
}

func loses(x int64) bool { return realc.nsec(realc.frac(x)) != x }

// embedding 2 ("translation"): the reference's sub-second part is a seeded value that
// loses a nanosecond in the round trip (model 233), one that does not (model 512: a
// multiple of 5^9), the
// last nanosecond (999) or 0; the time's sub-second part keeps its model distance to it
// when that is at most 2 (nsec = nref - 1, nref, nref + 1 ...) and its side otherwise.
func refNs2(rn int64) int64 {
	switch rn {
	case 0:
		return 0
	case 999:
		return giga - 1
	}
	if rn == 512 { // exactly representable values (multiples of 5^9) are the only ones that do not lose
		return five9 * (1 + fill(4, rn, 2, 511))
	}
	x := 1000 + fill(4, rn, 2, giga-2000)
	if !loses(x) {
		x++
	}
	return x
}

func embNs2(n, rn int64) int64 {
	r := refNs2(rn)
	d := n - rn
	switch {
	case d >= -2 && d <= 2 && r+d >= 0 && r+d < giga:
		return r + d
	case d < 0 && r > 0:
		return fill(5, n, 2, r)
	case d > 0 && r+1 < giga:
		return r + 1 + fill(5, n, 2, giga-r-1)
	}
	return embNs(n, 1)
}

const lastRef = -2208988800 + 5*two32 + 3*two26 // beyond the end of era 4 (year 2580)

func TestC04(t *testing.T) {
	cases := vio.ReadCases[tcase](t)
	out := vio.Create(t)
	defer out.Close()
	evOut := vio.CreateAt(t, os.Getenv("VERIF_OUT")+".eval")
	defer evOut.Close()
	rng := vio.Rand()

	type gkey struct {
		rs, rn int64
	}
	groups := map[gkey][]obs{}
	var order []gkey
	add := func(o obs) {
		k := gkey{o.rs, o.rn}
		if _, ok := groups[k]; !ok {
			order = append(order, k)
		}
		groups[k] = append(groups[k], o)
	}
	nemb := 3
	skipped := 0
	for _, c := range cases {
		if c.Kind == "real" {
			add(observe(c.Src, 9, c.RR, c.RRn, c.TS, c.TN))
			continue
		}
		// evaluator at the scaled constants, validated by TLC against the spec
		x32, xf := scaled.sec32(c.R+c.O), scaled.frac(c.N)
		bf, _ := scaled.decode(x32, xf, c.R, c.Rn, true, true)
		bw, _ := scaled.decode(x32, xf, c.R, c.Rn, false, true)
		br, _ := scaled.decode(x32, xf, c.R, c.Rn, false, false)
		evOut.Emit(evalRec{K: "eval", R: c.R, Rn: c.Rn, O: c.O, N: c.N, S32: x32, Frac: xf, Nsec: scaled.nsec(xf),
			Bf: bf - c.R, Bw: bw - c.R, Br: br - c.R})
		// the real functions at the real constants
		for e := 0; e < nemb; e++ {
			rs := realc.epoch + c.Era*two32 + embPos(c.Pos, e)
			if rs < 0 { // references start in 1970
				rs = c.R
			}
			if rs > lastRef {
				skipped++
				continue
			}
			rn, tn := embNs(c.Rn, e), embNs(c.N, e)
			if e == 2 {
				rn, tn = refNs2(c.Rn), embNs2(c.N, c.Rn)
			}
			add(observe("tlc", e, rs, rn, rs+embOff(c.O, e), tn))
		}
	}
	// seeded random references (two thirds with a sub-second part) and times: the two
	// ends of the window on both sides of the reference's sub-second part, the other side
	// of the nearest era boundary, uniform over the window
	nrnd := 2400
	if vio.Thorough() {
		nrnd = 96000
	}
	for i := 0; i < nrnd/24; i++ {
		rs := rng.Int63n(lastRef + 1)
		rn := int64(0)
		if i%3 != 0 {
			rn = 1 + rng.Int63n(giga-2)
		}
		for j := 0; j < 24; j++ {
			off, tn := rng.Int63n(two32)-two31, rng.Int63n(giga)
			switch j {
			case 0:
				off, tn = -two31, rn
			case 1:
				off, tn = -two31, rn+1
			case 2:
				off, tn = -two31, rn+rng.Int63n(giga-rn)
			case 3:
				off, tn = -two31, rn-1 // outside (or the last ns of the second before, for rn = 0)
			case 4:
				off, tn = two31, rn-1
			case 5:
				off, tn = two31, rn-2
			case 6:
				off, tn = two31, rng.Int63n(rn+1)
			case 7:
				off, tn = two31, rn // outside
			case 8:
				off = two31 - 1
			case 9:
				off, tn = -two31+1, 0
			case 10: // the other side of the nearest era boundary
				p := realc.sec32(rs)
				if p < two31 {
					off = -p - 1 - rng.Int63n(2)
				} else {
					off = two32 - p + rng.Int63n(2)
				}
			}
			ts := rs + off
			if tn < 0 {
				ts, tn = ts-1, tn+giga
			}
			add(observe("rnd", 8, rs, rn, ts, tn))
		}
	}
	// order pairs: every time with its predecessor among the times of the same reference
	n := 0
	for _, k := range order {
		g := groups[k]
		sort.SliceStable(g, func(i, j int) bool {
			if g[i].ts != g[j].ts {
				return g[i].ts < g[j].ts
			}
			return g[i].tn < g[j].tn
		})
		for i := range g {
			p := i
			if i > 0 {
				p = i - 1
			}
			g[i].r.Pt, g[i].r.Pb, g[i].r.Pcross = g[p].r.T, g[p].r.B, g[p].r.Cross
			out.Emit(&g[i].r)
			n++
		}
	}
	na := sweep(out, rng)
	t.Logf("C04 rt-records=%d agg-records=%d eval-records=%d references=%d skipped=%d", n, na, evOut.N, len(order), skipped)
	if n == 0 {
		t.Fatal("no record produced")
	}
}

// ------------------------------------------------------------------ sweep
// All sub-second values of selected seconds (thorough: all 10^9 of each; quick:
// seeded blocks), reduced per block of 10^6 values to the extreme differences and
// the number of order inversions between adjacent nanoseconds.
type combo struct{ rs, rn, ts int64 }

func sweep(out *vio.Out, rng *rand.Rand) int {
	era := func(k int64) int64 { return realc.epoch + k*two32 }
	const half = giga / 2
	combos := []combo{
		{era(1) + 1, 0, era(1) - 1},                // time before the 2036 boundary, reference after it
		{era(1) - 1, 0, era(1) + 1},                // the converse
		{1705449600, 123456789, 1705449600},        // 2024-01-17, same second
		{0, 0, -two31},                             // 1970, lower end of the window
		{era(2) + two31 - 1, 0, era(2) - 1},        // lower end of the window just before era 2
		{era(3) - two31 + 1, 0, era(3)},            // last whole second of the window at era 3
		{era(4) + 5, 0, era(4) - 7},                // era 4 (year 2444) crossing
		{1700000000, half, 1700000000 + two31},     // upper end: inside for nsec < nref
		{1700000000, half, 1700000000 - two31},     // lower end: inside for nsec >= nref
		{era(2) - two31 + 3, half, era(2) + 3},     // upper end in the next era
		{era(3) + two31 - 3, giga - 1, era(3) - 3}, // lower end in the previous era, nref = 999999999
	}
	rs := rng.Int63n(lastRef + 1)
	combos = append(combos, combo{rs, rng.Int63n(giga), rs + rng.Int63n(two32) - two31})
	const blk = int64(1000000)
	type job struct {
		c      combo
		n0, n1 int64
	}
	var jobs []job
	for ci, c := range combos {
		for b := int64(0); b < giga/blk; b++ {
			// quick: first and last block, the blocks next to the reference's sub-second
			// part, and seeded blocks of every combination
			nb := c.rn / blk
			if !vio.Thorough() && b != 0 && b != giga/blk-1 && b != nb && b != nb-1 && (b*7+int64(ci)*13+vio.Seed())%50 != 0 {
				continue
			}
			jobs = append(jobs, job{c, b * blk, (b + 1) * blk})
		}
	}
	res := make([]aggRec, len(jobs))
	var wg sync.WaitGroup
	ch := make(chan int, len(jobs))
	for i := range jobs {
		ch <- i
	}
	close(ch)
	for w := 0; w < runtime.NumCPU(); w++ {
		wg.Add(1)
		go func() {
			defer wg.Done()
			for i := range ch {
				res[i] = sweepBlock(jobs[i].c, jobs[i].n0, jobs[i].n1)
			}
		}()
	}
	wg.Wait()
	for i := range res {
		out.Emit(&res[i])
	}
	return len(res)
}

func sweepBlock(c combo, n0, n1 int64) aggRec {
	ref := time.Unix(c.rs, c.rn)
	d3, _ := digits(c.ts, c.rs, 0)
	a := aggRec{K: "agg", Era: eraOf(c.rs), Cross: eraOf(c.ts) - eraOf(c.rs), Rn: c.rn, Sec: [2]int64{d3[0], d3[1]},
		N0: n0, N1: n1, Sd: halfEra(c.ts - c.rs), Mind: giga, Maxd: -giga, FirstBad: -1, Real: [2]string{dec(c.rs), dec(c.ts)}}
	s32 := realc.sec32(c.ts)
	// the nanosecond before the block; whether it is inside the window is decided by the monitor
	pts, ptn := c.ts, n0-1
	if n0 == 0 {
		pts, ptn = c.ts-1, giga-1
	}
	a.Pt, _ = digits(pts, c.rs, ptn)
	a.Pcross = eraOf(pts) - eraOf(c.rs)
	prev := ntp.TimeFromTime64(ntp.Time64FromTime(time.Unix(pts, ptn)), ref)
	for n := n0; n < n1; n++ {
		x := ntp.Time64FromTime(time.Unix(c.ts, n))
		b := ntp.TimeFromTime64(x, ref)
		bs, bn := b.Unix(), int64(b.Nanosecond())
		d := diffNs(bs, bn, c.ts, n)
		bad := d < -1 || d > 0
		if d < a.Mind {
			a.Mind = d
		}
		if d > a.Maxd {
			a.Maxd = d
		}
		if d == -1 {
			a.Lost++
		}
		if b.Before(prev) {
			if n == n0 {
				a.Pinv = 1
			} else {
				a.Inversions++
				bad = true
			}
		}
		if bad && a.FirstBad < 0 {
			a.FirstBad = n
		}
		prev = b
		a.Count++
		// strict: the transcription at the real constants
		xs, xf := int64(x.Seconds), int64(x.Fraction)
		if xs != s32 || xf != realc.frac(n) {
			a.MisEnc++
		}
		en := realc.nsec(xf)
		if realc.unfold(xs, xf, c.rs, c.rn, true, true) != bs || en != bn {
			a.MisF++
		}
		if realc.unfold(xs, xf, c.rs, c.rn, false, true) != bs || en != bn {
			a.MisW++
		}
		if realc.unfold(xs, xf, c.rs, c.rn, false, false) != bs || en != bn {
			a.MisR++
		}
	}
	return a
}
