---------------------------- MODULE MultipathMC ----------------------------
EXTENDS Multipath, Json

CONSTANTS CheckRand,   \* evaluate the RandIntn counting statements (ASSUME) for W = 4..RandWMax
          RandWMax,
          CheckUnif,   \* evaluate the reservoir counting statement for n <= UnifNMax
          UnifNMax

\* offsets behind path index 1, 2, ... (even, so that every midpoint is exact)
Theta1 == {<<-6, 4, 8, -2, 2>>}
Theta2 == {<<-6, 4, 8, -2, 2>>, <<2, 2, -4, 6, 0>>}
Theta3 == {<<-6, 4, 8, -2, 2>>, <<2, 2, -4, 6, 0>>, <<4, 6, 8, 2, 10>>, <<-2, -8, -4, -6, -10>>}

ASSUME CheckUnif => \A n \in 0 .. UnifNMax : \A kk \in 0 .. n : UniformSubsets(n, kk)
ASSUME CheckRand => \A w \in 4 .. RandWMax : \A n \in 2 .. (2 ^ (w - 1) - 1) : RandUniform(w, n)
ASSUME CheckRand => \A h \in 2 .. 4 : \A n \in 2 .. (2 ^ (h - 1) - 1) \cup {2 ^ h - 1, 2 ^ h, 2 ^ h + 1} : LimbEquiv(h, n)

\* spec -> code: every completed round with what the specification computed
Emit == pc = "done" =>
  PrintT(<<"CASE", ToJson([nc |-> nc, offered |-> offered, mode |-> mode0, theta |-> theta,
                            rng |-> rng, k |-> k, asg |-> sps, picks |-> picks,
                            resets |-> resets, fresets |-> fresets,
                            order |-> order, cancelled |-> cancelled,
                            outcome |-> outcome, err |-> ret.err, off |-> ret.off])>>)

\* multi-round behaviours (KeepHist): refreshes and rounds in order, each round as above
EmitSes == (pc = "done" /\ round = MaxRounds) =>
  PrintT(<<"SES", ToJson(hist \o <<Summary>>)>>)
\* simulation only (random deep behaviours): skip the degenerate shapes that a uniform choice of
\* the next step favours (hardly any path, no client); the exhaustive configurations cover those
SimShape ==
  /\ pc = "clients" => Len(offered) >= 2
  /\ pc \in {"sticky", "sample", "launch", "collect", "done"} => nc >= 1
=============================================================================
