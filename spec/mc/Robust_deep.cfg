SPECIFICATION Spec
CONSTANTS
  Kinds <- KindsAll
  MaxExt = 4
  MaxExtCli = 3
  MaxKe = 3
  MaxCases = 2
  ScDev = 2
  MaxHist = 4
  Bursts = {"vn", "vk", "mix"}
  Wide = TRUE
  ExtLenZeroLoops = FALSE
  NonceLenUnchecked = FALSE
  CookieDecodeUnchecked = FALSE
  PacketOverflowUnchecked = FALSE
  ShortUniqueIdEchoed = FALSE
  CsptpShortDatagram = FALSE
  ScionReverseUnchecked = FALSE
  ScionAddrLenUnchecked = FALSE
  ScionAuthOptUnchecked = FALSE
  ScionMacErrPanics = FALSE
  ScionTsOptUnchecked = FALSE
  ScionTsOptTrusted = FALSE
  CmsgLenUnchecked = FALSE
INVARIANTS TypeOK OutcomeConsistent NeverDead NoSpin EveryIterationAdvances SentinelNotLost
