-------------------------- MODULE PathRefreshTrace --------------------------
(***************************************************************************)
(* Validation of what the real scion.Pather did (harness/x02, kind         *)
(* "pather": StartPather with its ticker goroutine, a scripted daemon,     *)
(* virtual time) against PathRefresh.tla.  Records, in units of 5 s since  *)
(* the start of the behaviour; l' = l + 1:                                 *)
(*   reset   StartPather is about to be called with dstIAs = dl            *)
(*   upd     the daemon's LocalIA is called: update u begins (with the     *)
(*           script the daemon will follow: delay d, lfail, ia, per)       *)
(*   lia     that call returns (fail / ia)                                 *)
(*   lk      the daemon's Paths(dst, src, flags) is called (position pos    *)
(*           of dstIAs) and fails or delivers the paths `ids`              *)
(*   started StartPather returned                                          *)
(*   adv     the driver let d units pass (and waited for the refresher to  *)
(*           block)                                                        *)
(*   get/ia  Paths(dst) / LocalIA() called by the driver while the         *)
(*           refresher is blocked; alias_ok: after the driver overwrote    *)
(*           and re-sliced the returned slice, Paths(dst) answered the     *)
(*           same again                                                    *)
(*   monitor: the observable variables of PathRefresh.tla are bound to the *)
(*     records (allow/keep are accumulated lookup by lookup) and the       *)
(*     property section is evaluated as is.  oe / ok: first record that    *)
(*     fails the observation-level clauses ObsExact / ObsKeep (printed at  *)
(*     the end of the trace, never a verdict).                             *)
(*   strict: the specification is stepped by the records.                  *)
(***************************************************************************)
EXTENDS Integers, Sequences, FiniteSets, TLC, Json

P == 3
DstLists == {}
Dsts == {1, 2, 3}
IAs == {1, 2}
MaxN == 2
Delays == 0 .. 12
Horizon == 2000000
MaxUpd == 2000000
KeepOnFail == FALSE
Dedup == FALSE
VARIABLES now, dstList, phase, pc, wake, cur, nextTick, tickBuf, localIA, paths, nupd, t0, ret,
          allow, keep, effIA, lastStart, lastEnd,
          l,
          aU,     \* dst |-> update that looked dst up last
          aBase,  \* dst |-> allow[dst] before that update
          kAll,   \* dst |-> every lookup of dst in that update failed so far
          oe, ok  \* position of the first record that fails ObsExact / ObsKeep (0: none)
INSTANCE PathRefresh

Trace == ndJsonDeserialize("trace.ndjson")
N == Len(Trace)
tvars == <<now, dstList, phase, pc, wake, cur, nextTick, tickBuf, localIA, paths, nupd, t0, ret,
           allow, keep, effIA, lastStart, lastEnd, l, aU, aBase, kAll, oe, ok>>

Empty == [d \in Dsts |-> {<< >>}]
pvars == <<now, dstList, phase, pc, wake, cur, nextTick, tickBuf, localIA, paths, nupd, t0, ret,
           allow, keep, effIA, lastStart, lastEnd>>
TInit ==
  /\ l = 0
  /\ now = 0 /\ dstList = << >> /\ phase = "init" /\ pc = "start" /\ wake = 0 /\ cur = NoScript
  /\ nextTick = 0 /\ tickBuf = FALSE /\ localIA = 0 /\ paths = << >> /\ nupd = 0 /\ t0 = 0
  /\ ret = NoRet /\ allow = Empty /\ keep = Empty /\ effIA = 0 /\ lastStart = 0 /\ lastEnd = 0
  /\ aU = [d \in Dsts |-> 0] /\ aBase = Empty /\ kAll = [d \in Dsts |-> TRUE]
  /\ oe = 0 /\ ok = 0

\* ------------------------------------------------------------- monitor
Same(vs) == UNCHANGED vs
MonNext ==
  /\ l < N /\ l' = l + 1
  /\ UNCHANGED <<wake, cur, nextTick, tickBuf, localIA, paths>>
  /\ LET e == Trace[l'] IN
     CASE e.op = "reset" ->
            /\ now' = 0 /\ dstList' = e.dl /\ phase' = "init" /\ pc' = "start" /\ nupd' = 0 /\ t0' = 0
            /\ ret' = NoRet /\ allow' = Empty /\ keep' = Empty /\ effIA' = 0 /\ lastStart' = 0 /\ lastEnd' = 0
            /\ aU' = [d \in Dsts |-> 0] /\ aBase' = Empty /\ kAll' = [d \in Dsts |-> TRUE]
       [] e.op = "upd" ->
            /\ now' = e.t /\ pc' = "busy" /\ nupd' = e.u /\ lastStart' = e.t
            /\ ret' = [NoRet EXCEPT !.op = "upd", !.u = e.u, !.t = e.t]
            /\ UNCHANGED <<dstList, phase, t0, allow, keep, effIA, lastEnd, aU, aBase, kAll>>
       [] e.op = "lia" ->
            /\ now' = e.t /\ pc' = "idle" /\ lastEnd' = e.t
            /\ effIA' = IF e.fail THEN effIA ELSE e.ia
            /\ ret' = NoRet
            /\ UNCHANGED <<dstList, phase, t0, nupd, allow, keep, lastStart, aU, aBase, kAll>>
       [] e.op = "lk" ->
            /\ now' = e.t /\ ret' = NoRet
            /\ UNCHANGED <<dstList, phase, pc, t0, nupd, effIA, lastStart, lastEnd>>
            /\ IF e.exact /\ e.dst \in Dsts
               THEN LET d == e.dst
                        new == aU[d] # e.u
                        base == IF new THEN allow[d] ELSE aBase[d]
                    IN /\ allow' = [allow EXCEPT ![d] =
                                      IF new THEN (IF e.fail THEN {<< >>} \cup allow[d] ELSE {e.ids})
                                      ELSE allow[d] \cup (IF e.fail THEN {<< >>} \cup base ELSE {e.ids})]
                       /\ keep' = [keep EXCEPT ![d] =
                                      IF e.fail THEN keep[d]
                                      ELSE IF new \/ kAll[d] THEN {e.ids} ELSE keep[d] \cup {e.ids}]
                       /\ kAll' = [kAll EXCEPT ![d] = IF new THEN e.fail ELSE kAll[d] /\ e.fail]
                       /\ aU' = [aU EXCEPT ![d] = e.u]
                       /\ aBase' = [aBase EXCEPT ![d] = base]
               ELSE UNCHANGED <<allow, keep, kAll, aU, aBase>>
       [] e.op = "started" ->
            /\ now' = e.t /\ phase' = "run" /\ t0' = e.t /\ ret' = NoRet
            /\ UNCHANGED <<dstList, pc, nupd, allow, keep, effIA, lastStart, lastEnd, aU, aBase, kAll>>
       [] e.op = "adv" ->
            /\ now' = e.t /\ ret' = NoRet
            /\ UNCHANGED <<dstList, phase, pc, t0, nupd, allow, keep, effIA, lastStart, lastEnd, aU, aBase, kAll>>
       [] e.op = "get" ->
            /\ now' = e.t
            /\ ret' = IF e.exact /\ e.dst \in Dsts
                      THEN [NoRet EXCEPT !.op = "get", !.dst = e.dst, !.t = e.t, !.ids = e.ids]
                      ELSE NoRet
            /\ UNCHANGED <<dstList, phase, pc, t0, nupd, allow, keep, effIA, lastStart, lastEnd, aU, aBase, kAll>>
       [] e.op = "ia" ->
            /\ now' = e.t
            /\ ret' = IF e.exact THEN [NoRet EXCEPT !.op = "ia", !.t = e.t, !.ia = e.ia] ELSE NoRet
            /\ UNCHANGED <<dstList, phase, pc, t0, nupd, allow, keep, effIA, lastStart, lastEnd, aU, aBase, kAll>>
  /\ oe' = IF oe = 0 /\ ~ObsExact' THEN l' ELSE oe
  /\ ok' = IF ok = 0 /\ ~ObsKeep' THEN l' ELSE ok
MonSpec == TInit /\ [][MonNext]_tvars
\* observation level: where ObsExact / ObsKeep fail first (printed, never a verdict)
ObsReport == l = N => PrintT(<<"OBS", oe, ok>>)

\* the property section of PathRefresh.tla (PathsFromLastRefresh,
\* LocalIACurrent, NotTooRare, CountBound) is listed in the cfg as is; plus:
\* the slice returned by Paths() does not alias the Pather's state (the driver
\* overwrote it and asked again), and every returned element is a path the
\* scripted daemon made
RAlias == l > 0 => Trace[l].alias_ok
RExact == (l > 0 /\ Trace[l].op \in {"get", "ia"}) => Trace[l].exact

\* -------------------------------------------------------------- strict
ScriptOf(e) == [lfail |-> e.lfail, ia |-> IF e.lfail THEN 0 ELSE e.ia, d |-> e.d, per |-> e.per]
StrNext ==
  \/ /\ l < N /\ l' = l + 1
     /\ UNCHANGED <<aU, aBase, kAll, oe, ok>>
     /\ LET e == Trace[l'] IN
        CASE e.op = "reset" ->
               /\ now' = 0 /\ dstList' = e.dl
               /\ phase' = "init" /\ pc' = "start" /\ wake' = 0 /\ cur' = NoScript
               /\ nextTick' = 0 /\ tickBuf' = FALSE
               /\ localIA' = 0 /\ paths' = << >> /\ nupd' = 0 /\ t0' = 0
               /\ ret' = NoRet /\ allow' = Empty /\ keep' = Empty
               /\ effIA' = 0 /\ lastStart' = 0 /\ lastEnd' = 0
          [] e.op = "upd" -> BeginUpdate(ScriptOf(e))
          [] e.op = "lia" -> IF pc = "busy" THEN \E tf \in BOOLEAN : Wake(tf)
                             ELSE UNCHANGED pvars
          [] e.op \in {"lk", "started"} -> UNCHANGED pvars
          [] e.op = "adv" -> Advance(e.d)
          [] e.op = "get" -> Get(e.dst)
          [] e.op = "ia" -> GetIA
  \/ l = N /\ UNCHANGED tvars
StrSpec == TInit /\ [][StrNext]_tvars

SExplained == (l > 0 /\ Trace[l].exact) =>
  LET e == Trace[l] IN
    CASE e.op = "get" -> ret.op = "get" /\ ret.ids = e.ids
      [] e.op = "ia" -> ret.op = "ia" /\ ret.ia = e.ia
      [] e.op = "upd" -> nupd = e.u
      [] e.op = "started" -> phase = "run" /\ t0 = e.t
      [] e.op = "lia" -> pc = "idle" /\ e.fail = cur.lfail /\ e.u = nupd
      [] e.op = "lk" ->
           /\ ~cur.lfail /\ e.u = nupd /\ e.refresh /\ e.src = cur.ia
           /\ e.pos \in 1 .. Len(dstList) /\ dstList[e.pos] = e.dst
           /\ e.fail = cur.per[e.pos].fail
           /\ e.ids = (IF e.fail THEN << >> ELSE Ids(e.u, e.pos, e.dst, cur.per[e.pos].n))
      [] OTHER -> TRUE
STime == (l > 0 /\ Trace[l].op # "reset") => now = Trace[l].t
SExpected == (l > 0 /\ Trace[l].exact /\ Trace[l].hasx) =>
  LET e == Trace[l] IN
    CASE e.op = "get" -> e.ids = e.xids
      [] e.op = "ia" -> e.ia = e.xia
      [] OTHER -> TRUE
=============================================================================
