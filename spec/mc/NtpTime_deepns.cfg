\* thorough: every sub-second value x reference/offset classes (see Separable)
SPECIFICATION Spec
CONSTANTS
  NsPerSec = 1000
  FracUnits = 4096
  EraSecs = 64
  Epoch <- EpochScaled
  ForwardOnlyEraUnfold = FALSE
  WholeSecondUnfold = FALSE
  RefSecs <- RefFew
  RefNs <- RefNsDeep
  Offs <- OffCls
  NsVals <- NsAll
INVARIANTS RoundTrip Order RoundTripNs EraOK WellFormed Separable
