SPECIFICATION GSpec
CONSTANTS
  Transport = "tls"
  ResidueAfterFailure = FALSE
  ShortCookieRead = FALSE
  DialResetsData = TRUE
  Alpns <- AlpnsTls
  Alphabet <- AlphaAll
  CutRecs <- CutAll
  MaxRecs = 4
  MaxDials = 1
  MaxCalls = 1
  MaxStore = 0
  CtxMode = "ignored"
  MaxStalls = 0
  StaleNextHop = FALSE
  Tails = FALSE
  Vias <- ViasAny
INVARIANTS Emit RunAgrees
