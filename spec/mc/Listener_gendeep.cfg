SPECIFICATION Spec
CONSTANTS
  Servers = {"A"}
  B0s <- B0All
  Shapes <- ShapesAll
  Vias <- ViasAll
  MaxInject = 1
  Spoof = FALSE
  RestoreAtTop = TRUE
CONSTRAINTS GenDeep GenStop
INVARIANTS Emit
