-------------------------- MODULE NtsPacketAssocGen -------------------------
(***************************************************************************)
(* Behaviour generator for NtsPacketAssoc: the schedule taken so far is    *)
(* kept in hist and printed at every terminal state (one line per complete *)
(* behaviour; harness/c10 replays it step by step on the real functions).  *)
(*   NtsPacketAssoc_gen.cfg  breadth-first: EVERY complete schedule of     *)
(*                           2 clients x 1 request x 1 datagram (genuine   *)
(*                           or with another identifier)                   *)
(*   NtsPacketAssoc_sim.cfg  -simulate: 3 clients x 2 requests x 2         *)
(*                           datagrams, every kind of datagram             *)
(***************************************************************************)
EXTENDS NtsPacketAssoc, Json

VARIABLE hist

KindsAll  == {"genuine", "otherid", "foreign", "swapkey", "swapdir"}
KindsCore == {"genuine", "otherid"}

GInit == Init /\ hist = << >>
GNext == \E c \in Clients : \E a \in Acts(s, c) :
           /\ Step(c, a)
           /\ hist' = Append(hist, [c |-> c, act |-> a.act, kind |-> a.kind, arg |-> a.arg])
GSpec == GInit /\ [][GNext]_<<vars, hist>>

Emit == Terminal => PrintT(<<"CASE", ToJson([nc |-> NC, steps |-> hist])>>)
=============================================================================
