------------------------------- MODULE PllMC -------------------------------
EXTENDS Pll, Json

\* ---- value sets (cfg files cannot hold negative numbers or expressions)
\* offsets: 0, +-0.5 ms, +-1 ms, +-(1 ms + 1 ns), +-large, +-MaxInt64, MinInt64
OffsFull  == {0, 1, -1, 2, -2, 3, -3, 10, -10, 20, -20, -21}
OffsNoMin == {0, 1, -1, 2, -2, 3, -3, 10, -10, 20, -20}
OffsSmall == {0, 2, -3, 10, -21}
OffsSmallNoMin == {0, 2, -3, 10, -20}
\* weights: <= 3 (incl. exactly 3, 0 / denormal, negative), 3 < w < 50, 50 <= w < 150, >= 150, NaN, +Inf, -Inf
WeightsFull  == {2, 3, 4, 49, 50, 149, 150, 0, -5, WNaN, WPosInf, WNegInf}
WeightsSmall == {3, 4, 150, WNaN}
WeightsMid   == {2, 3, 4, 150, WNaN, WPosInf, WNegInf}    \* the specification only distinguishes w > 3
\* advances (ms): 0, < 1 s, 1 s, 2 s, 2 s + 1, 6 s, 6 s + 1, 300 s + 1
AdvsFull  == {0, 500, 1000, 2000, 2001, 6000, 6001, 300001}
AdvsSmall == {0, 500, 2000, 2001, 6001}

\* symbolic proportional term: nothing, tiny, just inside, on, just outside, far outside the clamp
RawMagsFull(b) == {0, 1, b - 1, b, b + 1, 2 * b + 7}
RawMagsOne(b)  == {2 * b + 7}

\* ---- views
\* Sound for the property section: only differences of readings against the
\* thresholds matter; they are capped just above the largest threshold.
Cap(x) == IF x > 300 * U + 1 THEN 300 * U + 2 ELSE x
ViewSound == <<mode, clkEpoch - epoch, Cap(TSub(now, t0)), TSub(now, t), Cap(TSub(now, estart)),
               act, lastIn, Len(hist)>>
\* Same without the last call and its inputs: they do not influence the future,
\* and the property is then checked on every transition (C19Step) instead of
\* on every distinct state.
ViewCore == <<mode, clkEpoch - epoch, Cap(TSub(now, t0)), TSub(now, t), Cap(TSub(now, estart)), Len(hist)>>
\* Coverage heuristic for the generator (not a bisimulation): position of the
\* differences relative to the thresholds.
Cls(x) == IF x = 0 THEN 0 ELSE IF x < 2 * U THEN 1 ELSE IF x = 2 * U THEN 2 ELSE IF x < 6 * U THEN 3
          ELSE IF x = 6 * U THEN 4 ELSE IF x <= 300 * U THEN 5 ELSE 6
ViewGen == <<mode, clkEpoch - epoch, Cls(TSub(now, t0)), Cls(TSub(now, estart)),
             act.k, lastIn.off, lastIn.w, lastIn.modeB, lastIn.obs, Cls(lastIn.dt), Cls(lastIn.since), Len(hist)>>

\* ---- simulation (random behaviour generator, tlc -simulate): one random
\* input per step (a single successor, so a walk costs one evaluation of Do per
\* update); a finished history stutters so that every walk reaches the depth.
AdvChoices == Advs \cup (IF AllowSat THEN {-1} ELSE {})
UpdateRand ==
  /\ Len(hist) < MaxLen
  /\ \E bi \in {RandomElement(1 .. BumpDen)}, adv \in {RandomElement(AdvChoices)},
        off \in {RandomElement(Offs)}, w \in {RandomElement(Weights)} :
       LET in == [adv |-> IF adv < 0 THEN 0 ELSE adv, sat |-> adv < 0, bump |-> bi = 1, off |-> off, w |-> w]
       IN \E raw \in {RandomElement(Raws(in))} : Do(in, raw)
NextSim == UpdateRand \/ (Len(hist) = MaxLen /\ UNCHANGED vars)
SpecSim == Init /\ [][NextSim]_vars

\* ---- behaviour emitter (spec -> code): complete histories with the expected outputs
Bumps[i \in 0 .. Len(hist)] ==
  IF i = 0 THEN 0
  ELSE Bumps[i - 1] + (IF hist[i].bump THEN 1 ELSE 0) + (IF hist[i].k = "step" THEN 1 ELSE 0)
C0 == clkEpoch - Bumps[Len(hist)]     \* the clock epoch at creation
Emit == Len(hist) = MaxLen => PrintT(<<"CASE", ToJson([c0 |-> C0, u |-> hist])>>)
=============================================================================
