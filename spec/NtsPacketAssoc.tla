--------------------------- MODULE NtsPacketAssoc ---------------------------
(***************************************************************************)
(* Property C10 for SEVERAL NTS ASSOCIATIONS IN ONE PROCESS whose          *)
(* exchanges overlap (the time service measures all its reference clocks   *)
(* concurrently: one goroutine per client, each with its own session).     *)
(*                                                                         *)
(* Every client c has its own keys ExportKeys(c, ..), its own cookie pool  *)
(* (ntske.Fetcher) and at most one outstanding request.  The steps of      *)
(* core/client/client_ip.go (and client_scion.go) are separate actions     *)
(* that interleave arbitrarily between the clients:                        *)
(*   new      FetchData + nts.NewRequestPacket: newID() draws the unique   *)
(*            identifier into a byte slice; the packet AND the caller      *)
(*            (requestID) keep a REFERENCE to that slice                   *)
(*   send     nts.EncodePacket copies the slice's content into the         *)
(*            datagram: this is the identifier of the outstanding request  *)
(*   serve    the server (another process; stateless functions) answers    *)
(*            the request: server_ip.go's steps, NewResponsePacket         *)
(*   recv     a datagram arrives at the client's socket, DecodePacket      *)
(*   proc     nts.ProcessResponse(buf, S2cKey, fetcher, pkt, requestID)    *)
(*            compares with the CONTENT the slice has now                  *)
(*   abandon  the client gives up the exchange (deadline)                  *)
(* Identifier storage is a heap of buffers (heap: buffer -> content),      *)
(* clients hold buffer indices.  As written every newID() allocates        *)
(* (make([]byte, 32)); fault switch SharedIdBuf: one package-level buffer. *)
(*                                                                         *)
(* What arrives at a client (recv) is any packet the project's encoder     *)
(* can have produced in this world: the genuine response to its            *)
(* outstanding request, an authentic response of ITS association to a      *)
(* different request (an earlier one of its own, or one carrying the       *)
(* identifier another client drew), the response to another association's  *)
(* request, its own identifier under another association's key or under    *)
(* the key of the other direction.  Bit-level mutations of one packet are  *)
(* NtsPacket.tla's subject; packets, decoders and the symbolic AEAD are    *)
(* taken from there.                                                       *)
(*                                                                         *)
(* The state is one record s (so that the trace specification can replay   *)
(* a recorded schedule step by step with Do), the last judged event is ev. *)
(* The property section is at the end.                                     *)
(***************************************************************************)
EXTENDS Integers, Sequences, FiniteSets, TLC

CONSTANTS
  NC,             \* number of clients (associations) in the process
  MaxRounds,      \* requests per client
  MaxTries,       \* datagrams a client reads per exchange
  MaxDraws,       \* identifiers drawn altogether (bounds the heap)
  SharedIdBuf,    \* FALSE = as written; TRUE = fault switch (newID returns a slice of ONE package-level buffer)
  UidChecked,     \* as in NtsPacket
  StoreAfterUid,  \* as in NtsPacket
  ServeEager,     \* TRUE = partial-order reduction for the behaviour generator: the server's step (another process,
                  \* stateless, commutes with every client step) directly follows the send
  RecvKinds       \* what may arrive at a client: subset of {"genuine", "otherid", "foreign", "swapkey", "swapdir"}

NoLen(x) == {}
P == INSTANCE NtsPacket WITH
       MaxNf <- 8, Roles <- {"req", "resp"}, PlaceholderTypedAsCookie <- FALSE, AdWhole <- TRUE, Hardened <- TRUE,
       StopAtAuth <- TRUE, CtLenExact <- TRUE, LenChoices <- NoLen, TruncMax <- 0,
       phase <- "done", role <- "resp", nf <- 1, wire <- << >>, mut <- 0, truth <- 0, outcome <- "-", ck <- 0

Clients == 1 .. NC
FullPool == 8                           \* numStoredCookies
InitPool(c) == FullPool + 1 - c         \* client 1 starts with a full pool, client 2 one short, ...

S2C(c) == P!ExportKeys(c, "s2c")
C2S(c) == P!ExportKeys(c, "c2s")
\* the cookies of session c: sealed by the server under its current key
Cookie(c, n) == P!EncCookie(1, P!Provider[1], n, P!SC(c))
Cookies(c, n) == [j \in 1 .. n |-> Cookie(c, 50 + j)]

\* the request of client c as NewRequestPacket + EncodePacket write it: identifier u, n cookie + placeholder fields
ReqWire(c, u, n) == P!EncodeReq(P!Uid(u), Cookie(c, 7), n - 1, C2S(c), 9)
\* a response as NewResponsePacket + EncodePacket write it: key of session ks / direction kd, identifier u,
\* n fresh cookies of session cs
RespWire(d) == P!EncodeResp(P!Uid(d.u), Cookies(d.cs, d.n), P!ExportKeys(d.ks, d.kd), 9)
UidNum(cells) == IF Len(cells) >= 1 /\ cells[1].t = "U" THEN (cells[1].v - 1) \div 10 ELSE 0

VARIABLES s, ev
vars == <<s, ev>>

NoRx == [kind |-> "-", ks |-> 0, kd |-> "-", u |-> 0, cs |-> 0, n |-> 0]
NoEv == [role |-> "-", c |-> 0, kind |-> "-", out |-> "-", key |-> TRUE, dir |-> TRUE, uid |-> TRUE, pristine |-> FALSE,
         opened |-> FALSE, ckkey |-> 0, cksc |-> 0, tckey |-> 0, tcsc |-> 0, stored |-> 0, cok |-> TRUE]

S0 == [pc    |-> [c \in Clients |-> "idle"],
       round |-> [c \in Clients |-> 0],
       tries |-> [c \in Clients |-> 0],
       pool  |-> [c \in Clients |-> InitPool(c)],       \* cookies in the client's Fetcher
       nf    |-> [c \in Clients |-> 0],                 \* cookie + placeholder fields of the outstanding request
       held  |-> [c \in Clients |-> 0],                 \* the buffer the client's requestID slice points to
       heap  |-> [b \in 1 .. MaxDraws |-> 0],           \* content of the identifier buffers
       nreq  |-> 0,                                     \* identifiers drawn so far (rand.Read: each one is new)
       wuid  |-> [c \in Clients |-> 0],                 \* identifier in the datagram of the outstanding request
       srv   |-> [c \in Clients |-> 0 - 1],             \* identifier the server echoed (-1: not yet served, 0: no reply)
       rx    |-> [c \in Clients |-> NoRx]]              \* the datagram the client has read and decoded

HeldId(st, c) == IF st.held[c] = 0 THEN 0 ELSE st.heap[st.held[c]]

(***************************************************************************)
(* Steps.  Act(..) names a step of client c; Acts(st, c) are the steps     *)
(* enabled in state st; Do(st, c, a) is the state (and the judged event)   *)
(* after the step.                                                         *)
(***************************************************************************)
Act(a, k, x) == [act |-> a, kind |-> k, arg |-> x]
NeedsServe(st) == {d \in Clients : st.pc[d] \in {"sent", "rcvd"} /\ st.srv[d] = 0 - 1}

RecvActs(st, c) ==
  IF st.pc[c] # "sent" \/ st.tries[c] >= MaxTries THEN {}
  ELSE (IF "genuine" \in RecvKinds /\ st.srv[c] > 0 THEN {Act("recv", "genuine", 0)} ELSE {})
       \cup (IF "otherid" \in RecvKinds THEN {Act("recv", "otherid", u) : u \in (1 .. st.nreq) \ {st.wuid[c]}} ELSE {})
       \cup (IF "foreign" \in RecvKinds
             THEN {Act("recv", "foreign", d) : d \in {x \in Clients \ {c} : st.srv[x] > 0}} ELSE {})
       \cup (IF "swapkey" \in RecvKinds THEN {Act("recv", "swapkey", d) : d \in Clients \ {c}} ELSE {})
       \cup (IF "swapdir" \in RecvKinds THEN {Act("recv", "swapdir", 0)} ELSE {})

AllActs(st, c) ==
  (IF st.pc[c] = "idle" /\ st.round[c] < MaxRounds /\ st.nreq < MaxDraws /\ st.pool[c] >= 1
   THEN {Act("new", "-", 0)} ELSE {})
  \cup (IF st.pc[c] = "built" THEN {Act("send", "-", 0)} ELSE {})
  \cup (IF c \in NeedsServe(st) THEN {Act("serve", "-", 0)} ELSE {})
  \cup RecvActs(st, c)
  \cup (IF st.pc[c] = "rcvd" THEN {Act("proc", "-", 0)} ELSE {})
  \cup (IF st.pc[c] = "sent" /\ st.tries[c] >= 1 THEN {Act("abandon", "-", 0)} ELSE {})

Acts(st, c) ==
  IF ServeEager /\ NeedsServe(st) # {}
  THEN (IF c \in NeedsServe(st) THEN {Act("serve", "-", 0)} ELSE {})
  ELSE AllActs(st, c)

\* what arrives: the packet is described by its parameters, RespWire writes it
RxOf(st, c, a) ==
  IF a.kind = "genuine" THEN [kind |-> a.kind, ks |-> c, kd |-> "s2c", u |-> st.srv[c], cs |-> c, n |-> st.nf[c]]
  ELSE IF a.kind = "otherid" THEN [kind |-> a.kind, ks |-> c, kd |-> "s2c", u |-> a.arg, cs |-> c, n |-> st.nf[c]]
  ELSE IF a.kind = "foreign"
       THEN [kind |-> a.kind, ks |-> a.arg, kd |-> "s2c", u |-> st.srv[a.arg], cs |-> a.arg, n |-> st.nf[a.arg]]
  ELSE IF a.kind = "swapkey"
       THEN [kind |-> a.kind, ks |-> a.arg, kd |-> "s2c", u |-> st.wuid[c], cs |-> c, n |-> st.nf[c]]
  ELSE [kind |-> a.kind, ks |-> c, kd |-> "c2s", u |-> st.wuid[c], cs |-> c, n |-> st.nf[c]]

R2(st, e) == [s |-> st, ev |-> e]

\* FetchData pops one cookie; NewRequestPacket: newID(), one placeholder per cookie missing in the pool
DoNew(st, c) ==
  LET n1 == st.nreq + 1
      b  == IF SharedIdBuf THEN 1 ELSE n1
  IN R2([st EXCEPT !.nreq = n1, !.heap[b] = n1, !.held[c] = b, !.pc[c] = "built", !.round[c] = @ + 1,
                   !.nf[c] = FullPool + 1 - st.pool[c], !.pool[c] = @ - 1, !.tries[c] = 0], NoEv)

\* EncodePacket: the content of the slice goes into the datagram
DoSend(st, c) ==
  R2([st EXCEPT !.wuid[c] = HeldId(st, c), !.srv[c] = 0 - 1, !.pc[c] = "sent"], NoEv)

\* server_ip.go on the datagram of client c
DoServe(st, c) ==
  LET w == ReqWire(c, st.wuid[c], st.nf[c])
      r == P!Server(w, P!Provider, st.nf[c])
      u == UidNum(P!DecWalk(w, P!NtpCells, P!Dec0).uid)
  IN R2([st EXCEPT !.srv[c] = IF r.out = "accepted" THEN u ELSE 0],
        [role |-> "req", c |-> c, kind |-> "genuine", out |-> r.out, key |-> TRUE, dir |-> TRUE, uid |-> TRUE,
         pristine |-> TRUE, opened |-> r.opened, ckkey |-> r.key, cksc |-> r.sc, tckey |-> P!Provider[1], tcsc |-> c,
         stored |-> 0, cok |-> r.cok])

DoRecv(st, c, a) == R2([st EXCEPT !.rx[c] = RxOf(st, c, a), !.pc[c] = "rcvd"], NoEv)

\* ProcessResponse with the slice the client holds - whatever it contains NOW
DoProc(st, c) ==
  LET d == st.rx[c]
      r == P!Client(RespWire(d), S2C(c), P!Uid(HeldId(st, c)), Cookies(d.cs, d.n))
      k == d.ks = c
      dr == d.kd = "s2c"
      id == d.u = st.wuid[c]
  IN R2([st EXCEPT !.pc[c] = IF r.out = "accepted" THEN "idle" ELSE "sent", !.tries[c] = @ + 1,
                   !.pool[c] = @ + r.stored, !.rx[c] = NoRx],
        [role |-> "resp", c |-> c, kind |-> d.kind, out |-> r.out, key |-> k, dir |-> dr, uid |-> id,
         pristine |-> d.kind = "genuine" /\ k /\ dr /\ id,
         opened |-> FALSE, ckkey |-> 0, cksc |-> 0, tckey |-> 0, tcsc |-> 0, stored |-> r.stored, cok |-> r.cok])

DoAbandon(st, c) == R2([st EXCEPT !.pc[c] = "idle"], NoEv)

Do(st, c, a) ==
  IF a.act = "new" THEN DoNew(st, c)
  ELSE IF a.act = "send" THEN DoSend(st, c)
  ELSE IF a.act = "serve" THEN DoServe(st, c)
  ELSE IF a.act = "recv" THEN DoRecv(st, c, a)
  ELSE IF a.act = "proc" THEN DoProc(st, c)
  ELSE DoAbandon(st, c)

Step(c, a) == a \in Acts(s, c) /\ LET r == Do(s, c, a) IN s' = r.s /\ ev' = r.ev

NewRequest(c) == Step(c, Act("new", "-", 0))
Send(c)       == Step(c, Act("send", "-", 0))
Serve(c)      == Step(c, Act("serve", "-", 0))
Receive(c)    == \E a \in RecvActs(s, c) : Step(c, a)
Process(c)    == Step(c, Act("proc", "-", 0))
Abandon(c)    == Step(c, Act("abandon", "-", 0))

Init == s = S0 /\ ev = NoEv
Next == \E c \in Clients : NewRequest(c) \/ Send(c) \/ Serve(c) \/ Receive(c) \/ Process(c) \/ Abandon(c)
Spec == Init /\ [][Next]_vars

Terminal == \A c \in Clients : Acts(s, c) = {}

(***************************************************************************)
(* Property section (C10), per client.  ev is the last judged step: the    *)
(* server's verdict on the request of client ev.c (role "req") or client   *)
(* ev.c's verdict on a datagram (role "resp"), with what is TRUE of the    *)
(* packet in the words of the statement:                                   *)
(*   key, dir   its authenticator was made with the session key of THIS    *)
(*              client's association, for this direction                   *)
(*   uid        its unique identifier equals the one in the datagram of    *)
(*              THIS client's outstanding request                          *)
(*   pristine   it is the project's own encoder's answer, for the same     *)
(*              keys, to the outstanding request                           *)
(***************************************************************************)
Judged   == ev.role \in {"req", "resp"}
Accepted == Judged /\ ev.out = "accepted"

\* "a client additionally only if the unique identifier equals that of its outstanding request";
\* "a response to a different request is rejected"
OutstandingId == (Accepted /\ ev.role = "resp") => ev.uid

\* accepted => right key, right direction
Sound == Accepted => (ev.key /\ ev.dir)

\* "every packet produced by the project's own encoder for the same keys is accepted"
Complete == (Judged /\ ev.pristine) => (ev.out = "accepted" /\ (ev.role = "req" => ev.opened))

\* the cookie of client c's request opens under the server key that sealed it and yields c's keys (not another client's)
CookieBinding == (Judged /\ ev.opened) => (ev.ckkey = ev.tckey /\ ev.cksc = ev.tcsc)

\* accepted => the cookies taken into THIS client's pool / the fields counted are exactly the authenticated ones
AuthenticOnly == Accepted => ev.cok

\* not accepted => nothing taken into the client's pool (see NtsPacket!RejectedInert)
RejectedInert == (ev.role = "resp" /\ ev.out # "accepted") => ev.stored <= 0

\* no two of the keys in the process coincide (directions, associations)
DirectionsDistinct ==
  \A c, d \in Clients : C2S(c) # S2C(d) /\ (c # d => (C2S(c) # C2S(d) /\ S2C(c) # S2C(d)))

TypeOK ==
  /\ \A c \in Clients : /\ s.pc[c] \in {"idle", "built", "sent", "rcvd"}
                        /\ s.round[c] \in 0 .. MaxRounds /\ s.tries[c] \in 0 .. MaxTries
                        /\ s.pool[c] \in 0 .. (FullPool + MaxRounds * FullPool)
                        /\ s.held[c] \in 0 .. MaxDraws /\ s.wuid[c] \in 0 .. MaxDraws
                        /\ s.srv[c] \in (0 - 1) .. MaxDraws
  /\ s.nreq \in 0 .. MaxDraws
  /\ ev.out \in {"-", "accepted", "rejected", "panic", "hang"}

\* As written, what a client holds is what it sent (the fault switch breaks exactly this).
HeldIsSent == \A c \in Clients : s.pc[c] \in {"sent", "rcvd"} => HeldId(s, c) = s.wuid[c]
=============================================================================
