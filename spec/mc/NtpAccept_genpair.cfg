SPECIFICATION PairSpec
CONSTANTS
  Nts = FALSE
  MaxArrivals = 2
INVARIANTS OnlyGenuine Emit
