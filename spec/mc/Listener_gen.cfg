SPECIFICATION Spec
CONSTANTS
  Servers = {"A"}
  B0s <- B0All
  Shapes <- ShapesAll
  Vias <- ViasAll
  MaxInject = 1
  Spoof = FALSE
  Confs <- ConfsAll
  Stores <- StoresQuick
  Ancs <- AncsTs
  SrcPorts <- SrcPortsAll
  RestoreAtTop = TRUE
CONSTRAINTS GenQuick GenStop PortsGen
INVARIANTS Emit
