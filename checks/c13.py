"""C13 - SCION packet authentication and reply addressing are sound end to end.

spec/ScionAuth.tla (runSCIONServer as StartSCIONServer / StartSCIONDispatcher run
it, the SCIONClient's response verification, the SPAO MAC modelled by what it
covers)  <->  the real listeners and the real SCIONClient on loopback with
USE_MOCK_KEYS=true (harness/c13).

 1. TLC decides the property section (MacSound, AuthReplyVerifies,
    ReplyAddressing, ForwardRule) on the specification (ScionAuth_exh / _deep)
    and shows that it rejects deliberately wrong variants of the implementation
    (ScionAuth_f_*.cfg: the invariant named in FAULTS must be violated).
 2. spec -> code: TLC enumerates the abstract datagrams (ScionAuth_gen.cfg,
    ~2*10^4) and the end-to-end cases (same run, EmitE2E).
 3. the Go driver builds every one of them with scionproto's slayers / spao,
    sends it to the real listener (crafted cases) or lets the real client talk
    to the real server through a relay that tampers with request / response
    (end-to-end cases), and records what came out and where.
 4. code -> spec: ScionAuthTrace.tla, monitor (= the property section on the
    recorded behaviour; decides) then strict (= the specification's prediction
    for the abstract datagram; DRIFT only).

 5. a second key regime (no USE_MOCK_KEYS): per-(server ISD-AS, client ISD-AS, server
    host, client host) keys served by a DRKey daemon of the harness to the real
    fetcher of a real listener loop (server.VerifRunSCIONServer) and of the real
    client. ScionAuth.tla models the listener's key cache (per client ISD-AS,
    revalidated by epoch and metadata); TLC checks the property section on
    sequences of requests (ScionAuth_genkeys*.cfg, _keysdeep), rejects the variant
    without the server-host comparison (ScionAuth_f_keycache.cfg) and enumerates the
    sequences that harness/c13 TestC13Keys replays.

 6. time / key epochs: DRKeys have validity epochs, every epoch its own keys; the key that
    authenticates a request is the one of the epoch that contains its receive time, and the
    fetcher may hand out its cached key only for instants inside that key's epoch.
    ScionAuth.tla has a clock (Advance), keys indexed by epoch, a cache entry with its epoch,
    requests under the key of the current / previous / next epoch arriving at the first, a
    middle and the last instant of an epoch with the cache cold or warm from the same / the
    previous / an older epoch (ScionAuth_genepochs*.cfg, _epochsdeep; wrong variant with a
    grace period: ScionAuth_f_keygrace.cfg). The sequences are replayed (a) at the live
    listener, the harness's DRKey daemon laying an epoch boundary some tens of milliseconds
    ahead and the later datagrams waiting for it to pass (TestC13Keys), and (b) on the real
    scion.Fetcher with the listener's calls at exact instants -- NotBefore, middle, NotAfter
    of epochs of 3 ns .. 3 days (TestC13Fetcher).

VERIF_C13_CORRUPT=<kind> corrupts one recorded field before validation (negative
control of the binding): reply_port | reply_path | reply_to | reply_auth |
served_badmac | fwd_payload | cli_accept.
"""
import os, random, re, threading
import vlib

# fault switch of ScionAuth.tla -> the clause of the property section that must reject it
FAULTS = {
    "srvIgnoreMac": "MacSound", "cliIgnoreMac": "MacSound",
    "replySpiClient": "AuthReplyVerifies", "replyNoAuth": "AuthReplyVerifies", "replyMacShort": "AuthReplyVerifies",
    "noPortSwap": "ReplyAddressing", "noAddrSwap": "ReplyAddressing", "noReverse": "ReplyAddressing",
    "replyToSrc": "ReplyAddressing", "echoPayload": "ReplyAddressing",
    "fwdOnSrvPort": "ForwardRule", "fwdBackToEh": "ForwardRule", "fwdPayload": "ForwardRule",
    "keycache": "MacSound", "authOnlyDirectE2E": "MacSound", "keygrace": "MacSound",
}
QUICK_FAULTS = ["srvIgnoreMac", "replyNoAuth", "replyToSrc", "fwdBackToEh", "keycache", "authOnlyDirectE2E", "keygrace"]
SCALES = ["3ns", "3ms", "3s", "3h", "3d"]
FLIPS = ["macFlip", "covHdr", "covPath", "covPld", "tsFlip", "rsvFlip", "uncovFlip", "spiFlip", "algoFlip"]
CLAUSE = {"TMacSoundReq": "MacSound request", "TMacSoundResp": "MacSound response",
          "TMacSoundFetcher": "MacSound request",
          "TAuthReply": "AuthReplyVerifies reply", "TAuthReplyClient": "AuthReplyVerifies client",
          "TReplyAddressing": "ReplyAddressing", "TForwardRule": "ForwardRule", "TNoStrayToEh": "ForwardRule stray"}


def _par(jobs):
    res, errs = [None] * len(jobs), []

    def w(i, f):
        try:
            res[i] = f()
        except BaseException as e:  # noqa
            errs.append(e)
    ts = [threading.Thread(target=w, args=(i, f)) for i, f in enumerate(jobs)]
    for t in ts:
        t.start()
    for t in ts:
        t.join()
    if errs:
        raise errs[0]
    return res


def _obs_act(r):
    if not r["outs"]:
        return "Drop"
    o = r["outs"][0]
    if o["l4"] == "udp" and o["pl"] == "ntpResp":
        return "ServeNtp"
    return {"echoRep": "EchoReply", "trRep": "TracerouteReply"}.get(o["l4"], "Forward")


def _plabel(p):
    return p["kind"] if p["kind"] != "scion" else "s%d" % len(p["segs"])


def _sig(inv, r):
    s = _sig0(inv, r)
    if r is not None and r["q"].get("ext", "e2e") != "e2e":
        s += " ext=%s" % r["q"]["ext"]
    return s


def _sig0(inv, r):
    """structural signature: clause + the input class the clause depends on"""
    c = CLAUSE.get(inv, inv)
    if r is None:
        return "C13 %s ?" % c
    q = r["q"]
    if r["k"] == "stray":
        return "C13 %s mode=%s at=%s" % (c, r["mode"], q["to"])
    if r["k"] == "key":
        s = "C13 %s key-regime ak=%s cache=%s" % (c, r["ak"], "refetched" if r["fetches"] else "reused")
        return s + (" cached-key=%s" % r["cst"] if r["cst"] in ("prevEpoch", "olderEpoch") else "")
    if r["k"] == "fkey":
        return "C13 %s fetcher ak=%s cached-key=%s" % (c, r["ak"], r["cst"])
    if inv in ("TMacSoundReq", "TMacSoundResp", "TAuthReplyClient"):
        s = "C13 %s %s ak=%s" % (c, r["k"], r["ak"])
        if r["k"] == "e2e":
            s += " rm=%s cauth=%d" % (r["rm"], int(r["cauth"]))
        return s + " path=%s" % _plabel(q["path"])
    if inv == "TAuthReply":
        return "C13 %s %s path=%s" % (c, r["k"], _plabel(q["path"]))
    if inv == "TReplyAddressing":
        return "C13 %s l4=%s path=%s" % (c, q["l4"], _plabel(q["path"]))
    return "C13 %s mode=%s ul=%s l4=%s dp=%s dh=%s" % (c, r["mode"], q["ul"], q["l4"], q["dp"], q["dh"])


def _corrupt(recs, kind):
    """negative control of the binding: change one recorded field"""
    for r in recs:
        act = _obs_act(r)
        if r["id"] < 0:
            continue
        if kind == "reply_port" and r["k"] == "req" and act == "ServeNtp":
            r["outs"][0]["dp"] = "srv"
        elif kind == "reply_path" and act in ("ServeNtp", "EchoReply") and len(r["q"]["path"]["segs"]) >= 2:
            r["outs"][0]["path"] = r["q"]["path"]
        elif kind == "reply_to" and act == "EchoReply":
            r["outs"][0]["to"] = "src"
        elif kind == "reply_auth" and act == "ServeNtp" and r["expected"] and r["macok"]:
            r["outs"][0]["auth"] = "bad"
        elif kind == "served_badmac" and act == "ServeNtp" and r["expected"] and r["macok"]:
            r["macok"] = False
        elif kind == "fwd_payload" and act == "Forward":
            r["outs"][0]["pl"] = "changed"
        elif kind == "cli_accept" and r["k"] == "e2e" and r["cli"] == "refuse" and r["cauth"] and r["rexpected"] and not r["rmacok"]:
            r["cli"] = "accept"
        else:
            continue
        return r
    raise vlib.Inconclusive("corruption %s not applicable" % kind)


def _stratified(rng, cases, n, key):
    """n cases, every stratum represented (at least `floor` each, the rest proportionally)"""
    by = {}
    for c in cases:
        by.setdefault(key(c), []).append(c)
    floor = max(8, n // (4 * len(by)))
    res, rest = [], []
    for k in sorted(by):
        rng.shuffle(by[k])
        res += by[k][:floor]
        rest += by[k][floor:]
    rng.shuffle(rest)
    # the remainder: half from the cases the specification answers or forwards, half from those it drops
    k = max(0, n - len(res))
    live = [c for c in rest if c["wact"] != "Drop"]
    dead = [c for c in rest if c["wact"] == "Drop"]
    return res + live[:k - k // 2] + dead[:k // 2]


def run(ctx):
    q = ctx.quick
    rng = random.Random(ctx.seed)
    ctx.specdir()
    # 1. the property section on the specification; the same section rejects wrong variants
    faults = QUICK_FAULTS if q else sorted(FAULTS)
    jobs = [lambda: ctx.tlc("ScionAuthMC", "ScionAuth_exh.cfg" if q else "ScionAuth_deep.cfg", timeout=900, workers=4)]
    for f in faults:
        jobs.append(lambda f=f: ctx.tlc("ScionAuthMC", "ScionAuth_f_%s.cfg" % f, timeout=300, workers=1,
                                        allow_violation=True, tag="fault:" + f))
    # the model of the code as it is (KeepPathType = TRUE: the reply keeps the request's path type)
    jobs.append(lambda: ctx.tlc("ScionAuthMC", "ScionAuth_faithful.cfg", timeout=300, workers=1,
                                allow_violation=True, tag="faithful"))
    jobs.append(lambda: ctx.tlc("ScionAuthMC", "ScionAuth_faithful_auth.cfg", timeout=300, workers=1,
                                allow_violation=True, tag="faithful_auth"))
    # key regime: sequences at one listener (exhaustive and generator in one run)
    # (time / key epochs: genepochs = one client, one server host, 3 datagrams over 3 epochs of 3 instants;
    # genepochs2 = two server hosts, 2 datagrams over 2 epochs)
    GENK = [("genkeys", 1), ("genkeys3", 1), ("genepochs", 3), ("genepochs2", 3)]
    for g, _ in GENK:
        jobs.append(lambda g=g: ctx.tlc("ScionAuthMC", "ScionAuth_%s.cfg" % g, workers=1, timeout=600, tag=g))
    if not q:
        jobs.append(lambda: ctx.tlc("ScionAuthMC", "ScionAuth_keysdeep.cfg", workers=6, timeout=900, tag="keysdeep"))
        jobs.append(lambda: ctx.tlc("ScionAuthMC", "ScionAuth_epochsdeep.cfg", workers=6, timeout=900, tag="epochsdeep"))
    k0 = 3 + len(faults)
    # 2. spec -> code: the cases
    jobs.append(lambda: ctx.tlc("ScionAuthMC", "ScionAuth_gen.cfg", workers=1, timeout=600, tag="gen"))
    res = _par(jobs)
    ctx.log("TLC exhaustive: %d distinct states" % res[0]["distinct"])
    for f, r in zip(faults, res[1:1 + len(faults)]):
        if r["violated"] != FAULTS[f]:
            raise vlib.Inconclusive("the property section does not reject the wrong variant %s of ScionAuth.tla "
                                    "(expected %s violated, got %s)" % (f, FAULTS[f], r["violated"]))
    ctx.log("property section rejects %d wrong variants: %s" % (len(faults), " ".join(faults)))
    fa, fb = res[1 + len(faults)], res[2 + len(faults)]
    if fa["violated"] != "ReplyAddressing" or fb["violated"] != "AuthReplyVerifies":
        raise vlib.Inconclusive("ScionAuth_faithful*.cfg: expected ReplyAddressing / AuthReplyVerifies violated on the "
                                "model with KeepPathType = TRUE, got %s / %s" % (fa["violated"], fb["violated"]))
    ctx.notes.append("specification with KeepPathType = TRUE (server_scion.go keeps the request's path type in the reply "
                     "header): TLC finds ReplyAddressing and AuthReplyVerifies violated for one-hop request paths; the "
                     "repaired model (KeepPathType = FALSE) satisfies all clauses; what the real code does is decided "
                     "by the monitor on the recorded replies")
    seqs, kstates = [], {}
    for (g, elen), r in zip(GENK, res[k0:k0 + len(GENK)]):
        kstates[g] = r["distinct"]
        seqs += [dict(c, elen=elen, src=g) for c in ctx.emitted(r["out"], marker="SEQ")]
    if not q:
        kstates["keysdeep"], kstates["epochsdeep"] = res[k0 + len(GENK)]["distinct"], res[k0 + len(GENK) + 1]["distinct"]
    if len(seqs) < 7000:
        raise vlib.Inconclusive("key-sequence generators produced only %d sequences" % len(seqs))
    # vacuity on the side of the specification: what the generated behaviours exercise of the time dimension
    def crossing(c):
        return any(b["ep"] > a["ep"] for a, b in zip(c["steps"], c["steps"][1:]))
    esteps = [st for c in seqs if c["elen"] == 3 for st in c["steps"]]
    gen_time = {
        "sequences": len(seqs),
        "with an epoch boundary between two datagrams": sum(1 for c in seqs if crossing(c)),
        "steps by cache state": {k: sum(1 for st in esteps if st["cst"] == k)
                                 for k in ("cold", "sameEpoch", "prevEpoch", "olderEpoch", "otherMeta")},
        "steps by key epoch of the request": {k: sum(1 for st in esteps if st["ak"] == k)
                                              for k in ("valid", "keyPrevEpoch", "keyNextEpoch")},
        "steps by instant": {"NotBefore": sum(1 for st in esteps if st["pos"] == 0),
                             "middle": sum(1 for st in esteps if st["pos"] == 1),
                             "NotAfter": sum(1 for st in esteps if st["pos"] == 2)},
        "cached key of the previous epoch x request under that key": sum(
            1 for st in esteps if st["cst"] == "prevEpoch" and st["ak"] == "keyPrevEpoch"),
        "... at the first instant of the new epoch": sum(
            1 for st in esteps if st["cst"] == "prevEpoch" and st["ak"] == "keyPrevEpoch" and st["pos"] == 0),
    }
    flat = [gen_time["with an epoch boundary between two datagrams"], gen_time["cached key of the previous epoch x request under that key"],
            gen_time["... at the first instant of the new epoch"]] + list(gen_time["steps by cache state"].values()) + \
        list(gen_time["steps by key epoch of the request"].values()) + list(gen_time["steps by instant"].values())
    if min(flat) == 0:
        raise vlib.Inconclusive("the generated sequences do not exercise the time dimension: %s" % gen_time)
    ctx.log("time / key epochs, generated: %s; TLC states %s" % (gen_time, kstates))
    gen = ctx.emitted(res[-1]["out"])
    e2e = ctx.emitted(res[-1]["out"], marker="E2E")
    if len(gen) < 15000 or len(e2e) < 300:
        raise vlib.Inconclusive("case generators produced only %d + %d cases" % (len(gen), len(e2e)))
    req_cases = [dict(c, t="req", sweep=False, cauth=True, rm="-", rext="e2e") for c in gen]
    e2e_base = dict(t="e2e", sweep=False, mode="server", ul="srv", l4="udp", dp="srv", dh="S", sfam=4, dfam=4, pl="ntp")
    e2e_cases = [dict(c, **e2e_base) for c in e2e]
    if q:
        req_cases = _stratified(rng, req_cases, 5000, lambda c: (c["mode"], c["wact"], c["ak"], c["l4"], c["ext"]))
        cases = req_cases + e2e_cases
    else:
        cases = req_cases + e2e_cases * 3
        # every bit of every tamper class: crafted requests ...
        for c in gen:
            if (c["mode"], c["ul"], c["l4"], c["dp"], c["dh"], c["pl"]) == ("server", "srv", "udp", "srv", "S", "ntp") \
                    and c["ak"] in FLIPS and (c["sfam"], c["dfam"]) in ((4, 4), (6, 4)) \
                    and (c["sfam"] == 4 or c["path"]["kind"] == "empty" or len(c["path"]["segs"]) == 3):
                cases.append(dict(c, t="req", sweep=True, cauth=True, rm="-", rext="e2e"))
        # ... the real client's request and the real server's response
        for c in e2e:
            n = len(c["path"]["segs"])
            if c["cauth"] and n in (0, 2) and ((c["ak"] == "valid" and c["rm"] in FLIPS) or
                                               (c["ak"] in FLIPS and c["rm"] in ("-", "pass"))):
                cases.append(dict(c, **dict(e2e_base, sweep=True)))
    rng.shuffle(cases)
    cp = ctx.path("cases.ndjson")
    vlib.write_ndjson(cp, cases)
    # 3. the real listeners and the real client
    tp, out = ctx.godriver("c13", "^TestC13$", cases=cp, timeout=1800, env={"USE_MOCK_KEYS": "true"}, extra=("-v",))
    m = re.search(r"C13 records=(\d+) req=(\d+) e2e=(\d+) stray=(\d+) lost=(\d+) aborted=(\d+)", out)
    if not m:
        raise vlib.Inconclusive("driver summary line missing:\n" + out[-1500:])
    nrec, nreq, ne2e, nstray, lost, aborted = map(int, m.groups())
    recs = vlib.read_ndjson(tp)
    # 3b. key regime: sequences at a listener with a real fetcher, real client with a real fetcher
    kc = [dict(s, t="seq", rm="-", scale="") for s in seqs]
    if q:
        # sequences without an epoch boundary cost nothing; one with boundaries waits some tens of
        # milliseconds at each: a sample in which every (cache state, key epoch of the request, instant)
        # of a step after a boundary is represented
        old = [c for c in kc if c["elen"] == 1]
        exp = [c for c in old if crossing(c)]
        noexp = [c for c in old if not crossing(c)]
        rng.shuffle(exp)
        rng.shuffle(noexp)
        hit = [c for c in noexp if any(st["asked"] and not st["fetch"] for st in c["steps"])]
        kc = [c for c in noexp if len(c["steps"]) == 1] + hit[:400] + noexp[:400] + exp[:100]
        new = [c for c in seqs if c["elen"] == 3]
        rng.shuffle(new)
        strata = {}
        for c in new:
            st = c["steps"][-1]
            strata.setdefault((c["src"], crossing(c), st["cst"], st["ak"], st["pos"]), []).append(c)
        for k in sorted(strata):
            kc += [dict(c, t="seq", rm="-", scale="") for c in strata[k][:4 if k[1] else 2]]
    kc += [dict(t="e2e", steps=[], rm=r) for r in ("pass", "macFlip")] * (15 if q else 100)
    # ... and before / after an epoch boundary of its ISD-AS (the listener's cache holds the ended epoch's key)
    kc += [dict(t="e2eep", steps=[], rm=r) for r in ("pass", "macFlip")] * (6 if q else 40)
    rng.shuffle(kc)
    kcp = ctx.path("kcases.ndjson")
    vlib.write_ndjson(kcp, kc)
    ktp, kout = ctx.godriver("c13", "^TestC13Keys$", out_name="ktrace.ndjson", cases=kcp, timeout=1800,
                             env={"USE_MOCK_KEYS": ""}, extra=("-v",))
    m = re.search(r"C13K records=(\d+) seq=(\d+) e2e=(\d+) lost=(\d+) aborted=(\d+) late=(\d+) gaveup=(\d+)", kout)
    if not m:
        raise vlib.Inconclusive("key-regime driver summary line missing:\n" + kout[-1500:])
    knrec, knseq, kne2e, klost, kaborted, klate, kgaveup = map(int, m.groups())
    krecs = vlib.read_ndjson(ktp)
    # 3c. fetcher level: every sequence, exact instants; quick: one epoch length per sequence, thorough: all
    fseq = [dict(s, t="seq", rm="-") for s in seqs]
    rng.shuffle(fseq)
    fc = [dict(c, scale=SCALES[i % len(SCALES)]) for i, c in enumerate(fseq)] if q else \
        [dict(c, scale=sc) for c in fseq for sc in SCALES]
    fcp = ctx.path("fcases.ndjson")
    vlib.write_ndjson(fcp, fc)
    ftp, fout = ctx.godriver("c13", "^TestC13Fetcher$", out_name="ftrace.ndjson", cases=fcp, timeout=1800,
                             env={"USE_MOCK_KEYS": ""}, extra=("-v",))
    m = re.search(r"C13F records=(\d+) seq=(\d+)", fout)
    if not m:
        raise vlib.Inconclusive("fetcher-level driver summary line missing:\n" + fout[-1500:])
    frecs = vlib.read_ndjson(ftp)
    if len(frecs) != int(m.group(1)) or int(m.group(2)) != len(fc):
        raise vlib.Inconclusive("fetcher-level driver: %s records / %s sequences reported, %d records read, %d sequences given"
                                % (m.group(1), m.group(2), len(frecs), len(fc)))
    # what the recorded behaviour exercises of the time dimension
    live = [r for r in krecs if r["k"] == "key" and r["sn"] == 1 and not r["amb"]]
    rec_time = {
        "live listener: steps after an epoch boundary": sum(1 for r in live if r["ep"] > 0),
        "live listener: served after a boundary": sum(1 for r in live if r["ep"] > 0 and r["outs"]),
        "live listener: request under the previous epoch's key met a cached key of that epoch and was dropped": sum(
            1 for r in live if r["cst"] == "prevEpoch" and r["ak"] == "keyPrevEpoch" and not r["outs"]),
        "live listener: cached key of an ended epoch replaced (daemon asked)": sum(
            1 for r in live if r["cst"] in ("prevEpoch", "olderEpoch") and r["fetches"]),
        "live listener: steps not judged (boundary passed during the exchange)": sum(1 for r in krecs if r["k"] == "key" and r["amb"]),
        "live listener: sequences run again with longer epochs": klate, "given up": kgaveup,
        "real client after an epoch boundary (listener's cached key ended): accepted an authenticated reply": sum(
            1 for r in krecs if r["k"] == "e2e" and r["cst"] == "prevEpoch" and not r["amb"] and r["cli"] == "accept"
            and r["delivered"] and r["rhasauth"] and r["rexpected"] and r["rmacok"]),
        "... refused a reply with a flipped MAC bit": sum(
            1 for r in krecs if r["k"] == "e2e" and r["cst"] == "prevEpoch" and not r["amb"] and r["cli"] == "refuse"),
        "fetcher: calls": len(frecs),
        "fetcher: at NotBefore / middle / NotAfter": [sum(1 for r in frecs if r["pos"] == i) for i in (0, 1, 2)],
        "fetcher: cached key of an ended epoch replaced": sum(1 for r in frecs if r["cst"] in ("prevEpoch", "olderEpoch") and r["fetches"]),
        "fetcher: request under the previous epoch's key not authenticated by the key handed out": sum(
            1 for r in frecs if r["cst"] == "prevEpoch" and r["ak"] == "keyPrevEpoch" and not r["accepted"]),
        "fetcher: by epoch length": {sc: sum(1 for r in frecs if r["scale"] == sc) for sc in SCALES},
    }
    ctx.log("time / key epochs, recorded: %s" % rec_time)
    ctx.notes.append("time / key epochs (clock, keys per epoch, cache entry with its epoch; requests under the current / previous / "
                     "next epoch's key at NotBefore / middle / NotAfter with the cache cold or warm from the same / previous / an "
                     "older epoch): TLC states %s; generated behaviours: %s; %d sequences replayed at the live listener, %d (x epoch "
                     "lengths: %d) on scion.Fetcher; recorded: %s" % (kstates, gen_time, knseq, len(fseq), len(fc), rec_time))
    ctx.log("key regime: %d sequences (%d steps) + %d end-to-end exchanges; served %d, dropped %d, daemon asked %d times, "
            "%d without sentinel" % (knseq, sum(1 for r in krecs if r["k"] == "key"), kne2e,
                                     sum(1 for r in krecs if r["k"] == "key" and r["outs"]),
                                     sum(1 for r in krecs if r["k"] == "key" and not r["outs"]),
                                     sum(r["fetches"] for r in krecs), klost))
    recs += krecs
    lost += klost
    aborted += kaborted
    acts = {}
    for r in recs:
        if r["k"] != "stray":
            acts[_obs_act(r)] = acts.get(_obs_act(r), 0) + 1
    clis = {k: sum(1 for r in recs if r["k"] == "e2e" and r["cli"] == k) for k in ("accept", "refuse", "other")}
    e2er = [r for r in recs if r["k"] == "e2e" and r["delivered"]]
    # the client's verdict comes from the return of its call; what it means is told by the response it was handed
    # (ground truth by scionproto's SPAO code at the relay): a reply with the expected, verifying authenticator
    # accepted by a client that authenticates / a reply with a wrong MAC refused by it
    clis["accepted an authenticated reply"] = sum(1 for r in e2er if r["cli"] == "accept" and r["cauth"] and r["rhasauth"]
                                                  and r["rexpected"] and r["rmacok"])
    clis["refused a reply with a wrong MAC"] = sum(1 for r in e2er if r["cli"] == "refuse" and r["cauth"] and r["rhasauth"]
                                                   and r["rexpected"] and not r["rmacok"])
    clis["with log cross-check"] = sum(1 for r in recs if r["k"] == "e2e" and r.get("clilog"))
    ctx.log("driver: %d cases -> %d records (%d crafted, %d end-to-end, %d stray, %d without sentinel); "
            "listener %s; client %s" % (len(cases), len(recs), nreq, ne2e, nstray, lost, acts, clis))
    if os.environ.get("VERIF_C13_CORRUPT"):
        bad = _corrupt(recs, os.environ["VERIF_C13_CORRUPT"])
        ctx.notes.append("VERIF_C13_CORRUPT=%s applied to record id=%s" % (os.environ["VERIF_C13_CORRUPT"], bad["id"]))
    # 4. code -> spec
    nval, chunk, seen = 0, 40000, set()
    vrecs = recs + frecs
    for i in range(0, len(vrecs), chunk):
        part = vrecs[i:i + chunk]
        pp = ctx.path("chunk.ndjson")
        vlib.write_ndjson(pp, part)
        # one pass with monitor and strict invariants together; only if something
        # fails are the two modes told apart (monitor decides, strict is drift)
        ok, l, inv, tout = ctx.validate("ScionAuthTrace", "ScionAuthTrace_all.cfg", pp, timeout=1200)
        if ok:
            nval += len(part)
            continue
        # something fails: one more run lists every failing record with the clauses it
        # fails (monitor clauses decide, strict clauses are drift)
        rep = ctx.tlc("ScionAuthTrace", "ScionAuthTrace_report.cfg", workers=1, timeout=1200,
                      files={"trace.ndjson": pp}, tag="trace:report")
        bads = ctx.emitted(rep["out"], marker="BAD")
        if not bads:
            raise vlib.Inconclusive("trace validation failed (%s at record %s) but the report run lists nothing" % (inv, l))
        nbad = 0
        for b in sorted(bads, key=lambda b: b["l"]):
            r = part[b["l"] - 1]
            for inv in sorted(b["mon"]):
                sig = _sig(inv, r)
                if sig not in seen:
                    seen.add(sig)
                    ctx.violation(sig, "real code violates %s: %s" % (CLAUSE.get(inv, inv), _brief(r)), r)
            if b["mon"]:
                nbad += 1
            elif len(ctx.drift) < 20:
                ctx.drift.append("%s: record differs from ScionAuth.tla's prediction: %s" % (" ".join(sorted(b["strict"])), _brief(r)))
        nval += len(part) - nbad
        ctx.log("trace validation: %d records violate the property section (%d distinct signatures), %d only differ "
                "from the specification's prediction" % (nbad, len(seen), sum(1 for b in bads if not b["mon"])))
    # vacuity: every clause must have been exercised by real behaviour
    need = {"ServeNtp": acts.get("ServeNtp", 0), "EchoReply": acts.get("EchoReply", 0),
            "TracerouteReply": acts.get("TracerouteReply", 0), "Forward": acts.get("Forward", 0),
            "authenticated reply": sum(1 for r in recs if _obs_act(r) == "ServeNtp" and r["outs"][0]["auth"] != "absent"),
            "request with wrong MAC": sum(1 for r in recs if r["k"] != "stray" and r["expected"] and not r["macok"]),
            # (guards count what the ENVIRONMENT did - which replies reached the client -, not how the client
            # reacted: a client that keeps waiting after a forged reply instead of failing is as good)
            "authentic reply delivered to an authenticating client": sum(
                1 for r in e2er if r["cauth"] and r["rhasauth"] and r["rexpected"] and r["rmacok"]),
            "reply with a wrong MAC delivered to an authenticating client": sum(
                1 for r in e2er if r["cauth"] and r["rhasauth"] and r["rexpected"] and not r["rmacok"]),
            "key regime: served": sum(1 for r in krecs if r["k"] == "key" and r["outs"]),
            "key regime: request under another pair's key": sum(1 for r in krecs if r["k"] == "key" and not r["macok"]),
            "key regime: cached key reused": sum(1 for r in krecs if r["k"] == "key" and r["sn"] and not r["fetches"]),
            "time: live step after an epoch boundary": rec_time["live listener: steps after an epoch boundary"],
            "time: live request under the previous epoch's key sent while the cache held that epoch's key": sum(
                1 for r in live if r["cst"] == "prevEpoch" and r["ak"] == "keyPrevEpoch"),
            "time: real client exchange after an epoch boundary": sum(
                1 for r in krecs if r["k"] == "e2e" and r["cst"] == "prevEpoch" and not r["amb"]),
            "key regime: authentic reply delivered to the real client": sum(
                1 for r in krecs if r["k"] == "e2e" and r["delivered"] and r["rhasauth"] and r["rexpected"] and r["rmacok"])}
    missing = [k for k, v in need.items() if v == 0]
    if not ctx.violations and kgaveup > max(3, knseq // 50):
        raise vlib.Inconclusive("%d of %d key-regime sequences could not be sent within their epochs (machine too slow?)"
                                % (kgaveup, knseq))
    if not ctx.violations and (aborted or lost > 24 or missing):
        raise vlib.Inconclusive("the recorded behaviour does not exercise the property (aborted=%d, cases without "
                                "sentinel reply=%d, never observed: %s); no clause was violated by what was seen"
                                % (aborted, lost, ", ".join(missing) or "-"))
    distinct = len({(r["k"], r["mode"], r["ak"], r["sub"], r["rm"], r["rsub"], str(r["q"])) for r in recs})
    samples = [r for r in recs if _obs_act(r) == "ServeNtp" and r["k"] == "req" and r["outs"][0]["auth"] == "ok"][:1] + \
              [r for r in recs if r["k"] == "req" and r["expected"] and not r["macok"]][:1] + \
              [r for r in recs if _obs_act(r) == "Forward"][:1] + [r for r in recs if _obs_act(r) == "EchoReply"][:1] + \
              [r for r in recs if r["k"] == "e2e" and r["cli"] == "accept" and r["cauth"] and r["rmacok"]][:1] + \
              [r for r in recs if r["k"] == "e2e" and r["cli"] == "refuse"][:1]
    ctx.cov.update(
        evaluations=len(vrecs), distinct_nontrivial=distinct, traces_validated_against_impl=nval,
        rule="TLC enumeration of ScionAuth.tla: listener (server | dispatcher) x underlay port x L4 kind x L4 "
             "destination port x destination host x source/destination address family x path shape (empty, 1-3 "
             "segments, several positions) x payload class x 13 authenticator classes; every end-to-end case "
             "(client authentication on/off x path x request tampering x response tampering) with the real client, "
             "real server and a tampering relay; key regime with epochs: sequences of 1-3 authenticated requests x arrival "
             "instant (3 epochs x first / middle / last instant) x key of the current / previous / next epoch or of another "
             "host / ISD-AS pair, at the live listener (sample) and on scion.Fetcher (all); %s" %
             ("stratified sample of 5000 of the ~2*10^4 crafted cases, one drawn bit per tamper class" if q else
              "all crafted cases plus every bit of the authenticator option, of the covered header / path / payload "
              "bytes and of the uncovered path bytes, on crafted requests, on the real client's request and on the "
              "real server's response", ),
        outcomes=dict(listener=acts, client=clis), samples=samples, exhaustive=not q)
    ctx.assumptions += [
        "two key regimes: USE_MOCK_KEYS=true (all-zero key on both sides; all crafted and tampering cases) and keys "
        "that are a hash-based function of (protocol, server ISD-AS, client ISD-AS, server host) + scionproto's "
        "host-host derivation, served by a DRKey daemon of the harness to the real fetchers (key-mismatch and cache "
        "sequences); a real control service and AES-CMAC strength are outside",
        "'MAC verifies over the received packet' is decided by scionproto's spao.ComputeAuthCMAC on the bytes as "
        "they arrived (what the option covers is the library's definition, transcribed in ScionAuth.tla!Covered)",
        "MacSound on the response side is claimed for a client that has authentication enabled; a client without it "
        "holds no key and ignores authenticators (modelled; judged only in strict mode)",
        "the client's verdict is read off the return of its measurement call, not off its log: accept = a measurement was "
        "returned, refuse = the response was handed to its socket and the call returned without one before its deadline; "
        "'the requesting client verifies' the reply's authenticator = it does not refuse the untouched reply and does refuse "
        "it once a covered bit, the MAC or the metadata is changed; log records (auth=true, 'failed to authenticate packet') "
        "are compared in strict mode only, when present",
        "'forwarded ... only when' is judged on every datagram that comes out; that a forward happens at all when the "
        "conditions hold is compared in strict mode only",
        "IPv4 underlay: IPv6 appears as SCION host address type only; a forward to an IPv6 SCION destination cannot "
        "leave the listener's IPv4 socket and is not observed",
        "time: 'the host-to-host key' of a request is the key of the DRKey epoch that contains its receive time (the listener asks "
        "with Validity = receive time; a client asks with its transmit time): exchanges that straddle an epoch boundary are not "
        "generated, and a recorded step during which a boundary of the harness daemon passed is counted, not judged; at the live "
        "listener 'just before / after the boundary' are tens of milliseconds, the exact instants (NotBefore, NotAfter, +-1 ns) are "
        "exercised on scion.Fetcher with the listener's own call sequence; epochs of all ISD-ASes are aligned; that a correctly "
        "authenticated request IS served after an epoch change is compared in strict mode only (the statement forbids serving, "
        "it does not demand it)",
        "malformed headers (unassigned path types, option lengths != 28, 8/12-byte host addresses) are C08's",
    ]


def _brief(r):
    if r is None:
        return "?"
    keep = {k: r[k] for k in ("k", "id", "sub", "mode", "ak", "hasauth", "expected", "macok", "sn", "outs")}
    if r["k"] in ("key", "fkey"):
        keep.update({k: r[k] for k in ("seq", "step", "fetches", "wfetch", "wexp", "wact", "at", "pos", "cst", "ep", "amb", "wmacok")})
    if r["k"] == "fkey":
        keep.update({k: r[k] for k in ("scale", "accepted", "fep", "inep")})
    keep["q"] = r["q"]
    if r["k"] == "e2e":
        keep.update({k: r[k] for k in ("cauth", "rm", "rsub", "delivered", "rhasauth", "rexpected", "rmacok", "cli", "clilog", "clierr")})
    return keep
