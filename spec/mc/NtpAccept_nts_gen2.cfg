SPECIFICATION Spec2
CONSTANTS
  Nts = TRUE
  MaxArrivals = 2
INVARIANTS OnlyGenuine Emit
