---------------------------- MODULE CollectTrace ----------------------------
(***************************************************************************)
(* Validation of what the real ReferenceClockClient.MeasureClockOffsets    *)
(* did (harness/c16, one record per distinct observation of a scenario)    *)
(* against Collect.tla.                                                    *)
(*                                                                         *)
(* A record is ONE ROUND of a history of rounds that the harness ran on one *)
(* collector value (R.rnd = its position; R.live = measurement calls of     *)
(* earlier rounds still running when it started), as it looked at the end   *)
(* of the history (which lasts until the LAST straggler of any of its       *)
(* rounds has returned, however late: R.d holds completion times up to the  *)
(* lateness scale of CollectMC!LateVals): what the call returned (time since the round's start,    *)
(* result slice) and the final, quiescent state (all scripted clocks of all *)
(* rounds released, virtual time past every completion time), projected on  *)
(* what can be seen from outside.  The variables of Collect are BOUND to    *)
(* that projection (INSTANCE ... WITH); unlogged ones are given their only   *)
(* consistent value (num, i, dn, got -- see RExactlyOncePrefix).  Whatever   *)
(* of ANY round is still alive at the end shows in dpc (not Quiet).  The     *)
(* property section is thus judged for every round of every history, and it  *)
(* does not depend on the number of clocks (5 .. 64 in the large rounds).    *)
(*   monitor (CollectTrace_mon.cfg):  the property section of Collect,     *)
(*            evaluated on the bound state            -> VIOLATION         *)
(*   strict  (CollectTrace_strict.cfg): the observation is one of the      *)
(*            outcomes TLC computed for this scenario from Collect!Next    *)
(*            (allowed.ndjson, written by the Collect_gen run) -> DRIFT    *)
(* Records are independent; positions are visited as a 16-ary tree.        *)
(***************************************************************************)
EXTENDS Integers, Sequences, FiniteSets, TLC, Json

VARIABLE l

Trace   == ndJsonDeserialize("trace.ndjson")
Allowed == ndJsonDeserialize("allowed.ndjson")
N == Len(Trace)

TInit == l = 0
TNext == \E c \in 1 .. 16 : l' = 16 * l + c /\ l' <= N
TSpec == TInit /\ [][TNext]_l

R == Trace[l]
RN == R.n
\* R.ms[x]: 0 = entry x holds no result (sentinel intact, zero value, or a value carrying an
\* error: the statement says where successful results go, not what else the slice holds);
\* k / -k = the successful / error result of this round's clock k; 99 = another error-free value.
\* number of leading entries that hold something = the j the call must have reached
Lead(s) == IF \E x \in DOMAIN s : s[x] = 0
             THEN (CHOOSE x \in DOMAIN s : s[x] = 0 /\ \A y \in 1 .. (x - 1) : s[y] # 0) - 1
             ELSE Len(s)
J == Lead(R.ms)
Quiet == R.leaked = 0 /\ ~R.exitdead

\* the recorded final state as a state of Collect; G = the unlogged set of
\* clocks whose result the call received (C({}) where got is not mentioned)
C(G) == INSTANCE Collect WITH
  MaxClocks <- 64, Rounds <- 3, DVals <- {1, 2, 3, 5, 90, 7200, 259200, 3000000}, Overlap <- TRUE, Hist <- FALSE, Fault <- "none",
  rnd <- R.rnd, osnd <- <<>>, odr <- <<>>, gap <- R.gap, live <- R.live, hist <- <<>>,
  n <- RN,
  dl <- [k \in 1 .. RN |-> R.d[k]],
  oc <- [k \in 1 .. RN |-> R.o[k]],
  now <- 3000000, ctxDone <- TRUE,               \* = TEnd: the last straggler has returned
  mpc <- IF R.mainpan THEN "panicked" ELSE IF R.returned THEN "done" ELSE "loop",
  num <- IF R.returned \/ R.mainpan THEN 0 ELSE 1,
  i <- 0, dn <- 0,
  j <- J,
  ms <- [x \in 1 .. RN |-> R.ms[x]],
  rt <- R.rt,
  spc <- [k \in 1 .. RN |-> IF k <= R.calls THEN "done" ELSE "measuring"],
  dpc <- IF Quiet THEN "done" ELSE "run",      \* somebody of core/client is still blocked
  p2 <- IF R.phase = "none" THEN "idle" ELSE IF R.refused \/ R.p2other THEN "panicked" ELSE "done",
  p2phase <- R.phase,
  got <- G

Rng(s) == {s[x] : x \in DOMAIN s}

\* ------------------------------------------------------------- monitor
RByDeadline == l > 0 => (C({})!ByDeadline /\ ~R.late)
\* got is not logged: some set G of this round's clocks must do.  If one does,
\* Range(Prefix) = {k \in G : ok} consists of successful clocks of this round, and then
\* G = Range(Prefix) does as well -- so that one witness decides (2^64 candidates otherwise)
RExactlyOncePrefix == l > 0 =>
  /\ C(Rng(SubSeq(R.ms, 1, J)) \cap (1 .. RN))!ExactlyOncePrefix
  /\ R.stable                                   \* and nothing is written after the return either
\* (entries that are not successful results of a clock are ExactlyOncePrefix's business)
RInTimeCounted == l > 0 => (Rng(SubSeq(R.ms, 1, J)) \subseteq 1 .. RN => C({})!InTimeCounted)
\* NoLeak is  MeasurementsReturned ~> AllDone; the record is the last state
\* of a behaviour in which nothing can happen any more, so it has to satisfy
\* the conclusion if it satisfies the premise
RNoLeak == l > 0 => (C({})!MeasurementsReturned => C({})!AllDone)
RSecondCallRefused == l > 0 => C({})!SecondCallRefused
RCounterRestored == l > 0 => C({})!CounterRestored

\* -------------------------------------------------------------- strict
\* R.id > 0: a single round whose scenario TLC enumerated (allowed.ndjson holds the set of
\* its outcomes); R.id = 0: a round of a longer history or a round with many clocks, explained
\* by the closed form of a round's outcomes (Collect!OutcomeForm, which TLC checked to hold
\* for every round of every history: Collect!OutcomeIsOfForm)
A == Allowed[R.id]
SKnownScenario == (l > 0 /\ R.id > 0) => (R.id \in DOMAIN Allowed /\ A.n = RN /\ A.d = R.d /\ A.o = R.o)
SMember == (l > 0 /\ R.id > 0) =>
  \E x \in DOMAIN A.outs :
     LET a == A.outs[x] IN
       /\ a.rt = R.rt /\ a.j = J
       /\ Rng(a.prefix) = Rng(SubSeq(R.ms, 1, J))
       /\ a.phase = R.phase /\ a.refused = R.refused
SOfForm == (l > 0 /\ R.id = 0) =>
  /\ R.returned /\ ~R.mainpan
  /\ C({})!OutcomeForm(RN, R.d, R.o, R.rt, Rng(SubSeq(R.ms, 1, J)))
  /\ R.refused = (R.phase = "during")
=============================================================================
