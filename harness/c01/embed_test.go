package c01

import (
	"math"
	"math/big"
	"time"
)

// emb maps model units to nanoseconds: v -> a*v. With ext the model's largest
// word (127, W = 8) is sent to math.MaxInt64 instead of 127*2^56 (the smallest
// word -128 is math.MinInt64 already). a = 2^56 preserves the 8-bit
// wrap-around of the specification exactly in 64 bits.
type emb struct {
	a   int64
	ext bool
}

var embs = []emb{{1, false}, {4, false}, {1000, false}, {1 << 20, false}, {1 << 56, false}, {1 << 56, true}}

const wordMax = 127

func (e emb) ap(v int64) int64 {
	if e.ext && v == wordMax {
		return math.MaxInt64
	}
	return e.a * v
}

// inv returns the model value of a real one and whether that is exact.
func (e emb) inv(r int64) (int64, bool) {
	if e.ext && r == math.MaxInt64 {
		return wordMax, true
	}
	if r%e.a != 0 {
		return 0, false
	}
	return r / e.a, true
}

// invSeconds recovers the model value from the float64 seconds that sync.Run
// hands to its logger (Duration.Seconds()). The candidate is accepted only if
// converting it forward gives the very same float64.
func (e emb) invSeconds(f float64) (int64, bool) {
	if e.ext && f == time.Duration(math.MaxInt64).Seconds() {
		return wordMax, true
	}
	x := new(big.Float).SetPrec(200).SetFloat64(f)
	x.Mul(x, big.NewFloat(1e9))
	x.Quo(x, new(big.Float).SetInt64(e.a))
	// round to nearest
	half := big.NewFloat(0.5)
	if x.Sign() < 0 {
		x.Sub(x, half)
	} else {
		x.Add(x, half)
	}
	mi, _ := x.Int(nil)
	if !mi.IsInt64() {
		return 0, false
	}
	m := mi.Int64()
	if m < -128 || m > 127 {
		return 0, false
	}
	if time.Duration(e.a*m).Seconds() != f {
		return 0, false
	}
	return m, true
}

// rawBound: 4*|corr| <= k4 * drift(interval), on the real values.
func rawBound(corr int64, k4 int64, d int64) bool {
	c := new(big.Int).Abs(big.NewInt(corr))
	c.Mul(c, big.NewInt(4))
	b := new(big.Int).Mul(big.NewInt(k4), big.NewInt(d))
	return c.Cmp(b) <= 0
}
