SPECIFICATION MonSpec
INVARIANTS CurrentValid CurrentFresh GetOnlyValid IdsUnique CookieLifetime CookieUsable RRaw
