SPECIFICATION Spec
CONSTANTS
  W = 6
  Vals <- ValsGen
  MaxN = 5
INVARIANTS Emit
