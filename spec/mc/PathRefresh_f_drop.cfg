SPECIFICATION SpecExh
CONSTANTS
  P = 3
  DstLists <- DL12
  Dsts <- Dsts12
  IAs <- IA1
  MaxN = 1
  Delays <- D0
  Horizon = 7
  MaxUpd = 3
  KeepOnFail = FALSE
  Dedup = FALSE
  GenLen = 0
INVARIANTS ObsKeep
