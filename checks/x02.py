"""X02 - extension of the specification: the DRKey fetcher/cache and the path refresher.

Two small modules, one check.

spec/DrkeyCache.tla  (net/scion/fetcher.go, drkey.go): property section KeyValidAtRequest,
  KeyForRequest, ReuseWhileValid, RefetchOnce, ErrorReturned, NoKeyOnError, MockNoDaemon,
  MockEpoch, HostHostOneCall.
spec/PathRefresh.tla (net/scion/pather.go): property section PathsFromLastRefresh,
  LocalIACurrent, NotTooRare, CountBound (+ no aliasing, judged on the real slices);
  observation level ObsExact / ObsKeep (reported as OBSERVATION, never a verdict).

Both are (1) decided exhaustively by TLC at small scope, (2) used by TLC to generate
behaviours (exhaustive at bounded length + -simulate) that harness/x02 replays on the real
scion.Fetcher / scion.Pather (StartPather with its ticker goroutine) against a scripted
daemon inside testing/synctest bubbles, and (3) used by spec/trace/{DrkeyCache,PathRefresh}
Trace.tla to validate everything the real code returned and asked the daemon (monitor =
property section -> VIOLATION; strict = explained by the specification's step -> DRIFT).
The repository's sharing patterns are additionally run under -race.

The scripted daemon is injected with `go test -overlay`: the overlay adds
net/scion/hooks_verif_x02.go (harness/x02/overlay) and a copy of daemon.go in which
NewDaemonConnector is renamed; nothing under the repository is touched.

Self-test knob: VERIF_X02_CORRUPT=ser|nb|err|ids|alias|ia corrupts one field of one
recorded return before validation (negative control of the monitors; expect exit 1).
VERIF_X02_OBS=violation promotes the observation-level clauses to verdicts.
"""
import json, os, re, threading
from concurrent.futures import ThreadPoolExecutor

import vlib

CHUNK = 60000


# ----------------------------------------------------------------- overlay
def _overlay(ctx):
    repo = os.path.abspath(vlib.REPO)
    src = os.path.join(repo, "net", "scion", "daemon.go")
    try:
        text = open(src).read()
    except OSError as e:
        raise vlib.Inconclusive("cannot read %s: %s" % (src, e))
    if text.count("func NewDaemonConnector(") != 1:
        raise vlib.Inconclusive("net/scion/daemon.go: NewDaemonConnector not found exactly once; the overlay of "
                                "harness/x02 needs attention")
    renamed = ctx.path("daemon_x02.go")
    open(renamed, "w").write(text.replace("func NewDaemonConnector(", "func newDaemonConnectorOrig("))
    hook = os.path.join(vlib.HARNESS, "x02", "overlay", "hooks_verif_x02.go.txt")
    ov = ctx.path("overlay.json")
    json.dump({"Replace": {src: renamed, os.path.join(repo, "net", "scion", "hooks_verif_x02.go"): hook}}, open(ov, "w"))
    return ov


# ------------------------------------------------------------------ helpers
def _cases(ctx, r, src):
    cs = ctx.emitted(r["out"])
    for c in cs:
        c["gsrc"] = src
    return cs


def _split(recs):
    res = []
    for x in recs:
        if x["op"] == "reset":
            res.append([])
        res[-1].append(x)
    return res


def _chunks(behs, size=CHUNK):
    total = sum(len(b) for b in behs)
    k = max(1, -(-total // size))
    size = -(-total // k) + 200
    cur, n = [], 0
    for b in behs:
        if n and n + len(b) > size:
            yield cur
            cur, n = [], 0
        cur.append(b)
        n += len(b)
    if cur:
        yield cur


class _Validator:
    """Runs a trace module on chunks; each TLC run gets its own module / trace file name."""

    def __init__(self, ctx, module):
        self.ctx, self.module = ctx, module
        self.sd = ctx.specdir()
        self.lock = threading.Lock()
        self.n = 0

    def run(self, mode, behs, deadlock=False):
        """-> (ok, behaviour index, record index in behaviour, invariant); a passing run returns
        the positions of the observation-level clauses in place of the invariant"""
        with self.lock:
            self.n += 1
            k = self.n
        tname = "x02_%s_%d.ndjson" % (self.module, k)
        recs = [x for b in behs for x in b]
        vlib.write_ndjson(os.path.join(self.sd, tname), recs)
        mod = "%s_%d" % (self.module, k)
        src = open(os.path.join(self.sd, self.module + ".tla")).read()
        src = src.replace("MODULE %s " % self.module, "MODULE %s " % mod).replace('"trace.ndjson"', '"%s"' % tname)
        open(os.path.join(self.sd, mod + ".tla"), "w").write(src)
        cfg = "%s_%s.cfg" % (self.module, mode)
        r = self.ctx.tlc(mod, cfg, workers=1, timeout=900, allow_violation=True, tag="trace:%s" % cfg,
                         heap="3g", deadlock=deadlock)
        os.remove(os.path.join(self.sd, tname))
        obs = {}
        m = re.search(r'<<"OBS", (\d+), (\d+)>>', r["out"])
        if m:
            for inv, pos in (("ObsExact", int(m.group(1))), ("ObsKeep", int(m.group(2)))):
                if pos:
                    obs[inv] = self.locate(behs, pos)[1:]
        if not r["violated"]:
            return True, None, None, obs
        pos = self.ctx.trace_state_l(r["out"])
        if pos is None:
            raise vlib.Inconclusive("trace validation failed without a position:\n" + r["out"][-3000:])
        if r["violated"] == "Deadlock":
            pos += 1          # the record that could not be explained
        return self.locate(behs, pos) + (r["violated"],)

    @staticmethod
    def locate(behs, pos):
        n = 0
        for bi, b in enumerate(behs):
            if pos <= n + len(b):
                return False, bi, max(pos - n - 1, 0)
            n += len(b)
        raise vlib.Inconclusive("trace position %d outside the chunk" % pos)


def _judge(ctx, val, behs, sigf, whatf, obs=(), sigs=None):
    """monitor (records violations), observation clauses (notes), strict (drift) for one chunk."""
    behs = list(behs)
    clean = True
    obsd = {}
    for _ in range(4):
        ok, bi, ri, inv = val.run("mon", behs)
        if ok:
            obsd = inv
            break
        clean = False
        b = behs.pop(bi)
        e = b[ri]
        sig = sigf(inv, e, b)
        with val.lock:
            dup = sig in sigs
            sigs.add(sig)
        if not dup:
            ctx.violation(sig, whatf(inv, e), dict(invariant=inv, failing_record=e, behaviour=b[:ri + 1]))
    else:
        return 0, 0, []
    found = []      # observation-level clauses, located by the monitor run that passed
    for inv, (bi, ri) in sorted(obsd.items()):
        found.append((inv, behs[bi][ri], behs[bi][:ri + 1]))
    if clean:
        ok, bi, ri, inv = val.run("strict", behs, deadlock=True)
        if not ok:
            e = behs[bi][ri]
            ctx.drift.append("%s: record %s is not what the specification computes (%s)"
                             % (val.module, json.dumps(e, separators=(",", ":"))[:400], inv))
    return sum(len(b) for b in behs), len(behs), found


# ------------------------------------------------------------------ stats
def _dstats(behs):
    st = dict(calls=0, hits=0, refetch_expired=0, refetch_meta=0, first=0, daemon_errors=0, error_then_retry=0,
              boundary_hits=0, hosthost=0, mock_calls=0, mock_far=0, other_slot_kept=0, inexact=0)
    nontriv = set()
    for b in behs:
        last = {}
        interesting = False
        prev_err = None
        for e in b:
            if e["op"] not in ("has", "hh"):
                continue
            st["calls"] += 1
            if not e["exact"]:
                st["inexact"] += 1
                continue
            if e["mock"]:
                st["mock_calls"] += 1
                if abs(e["v"] - e["t"]) > e["h6"]:
                    st["mock_far"] += 1
            if e["op"] == "hh":
                st["hosthost"] += 1
                st["daemon_errors"] += e["err"]
                continue
            k = last.get(e["dst"])
            same = k is not None and (k["kproto"], k["ksrc"], k["khost"]) == (e["proto"], e["src"], e["host"])
            valid = k is not None and k["nb"] <= e["v"] <= k["na"]
            if k is None:
                st["first"] += 1
            elif same and valid:
                st["hits"] += 1
                interesting = True
                if e["v"] in (k["nb"], k["na"]):
                    st["boundary_hits"] += 1
            elif same:
                st["refetch_expired"] += 1
                interesting = True
            else:
                st["refetch_meta"] += 1
                interesting = True
            if e["err"]:
                st["daemon_errors"] += 1
                interesting = True
            elif prev_err == (e["proto"], e["src"], e["dst"], e["host"]):
                st["error_then_retry"] += 1
            prev_err = (e["proto"], e["src"], e["dst"], e["host"]) if e["err"] else None
            if not e["err"]:
                if any(d != e["dst"] for d in last):
                    st["other_slot_kept"] += 1
                last[e["dst"]] = e
        if interesting:
            nontriv.add(tuple((e["op"], e.get("proto"), e.get("src"), e.get("dst"), e.get("host"), e.get("v"), e.get("rp"),
                               e.get("d"), e.get("mock")) for e in b))
    return st, len(nontriv)


def _pstats(behs):
    st = dict(gets=0, updates=0, localia_failures=0, lookup_failures=0, overruns=0, gets_during_update=0,
              duplicate_destination_lists=0, gets_after_failed_lookup=0, empty_after_failed_lookup=0,
              gets_unknown_dst=0, periodic_updates=0, unplanned_updates=0, inexact=0)
    nontriv = set()
    for b in behs:
        dl = b[0]["dl"]
        if len(set(dl)) < len(dl):
            st["duplicate_destination_lists"] += 1
        busy = False
        start = None
        failed = set()
        interesting = False
        for e in b:
            if not e["exact"] and e["op"] in ("get", "ia", "lk"):
                st["inexact"] += 1
            if e["op"] == "upd":
                st["updates"] += 1
                st["periodic_updates"] += e["u"] >= 2
                st["unplanned_updates"] += not e["planned"]
                busy, start = True, e["t"]
            elif e["op"] == "lia":
                busy = False
                st["localia_failures"] += e["fail"]
                if e["t"] - start >= 3:
                    st["overruns"] += 1
                    interesting = True
                if not e["fail"]:
                    failed = set()
                else:
                    interesting = True
            elif e["op"] == "lk":
                if e["fail"]:
                    st["lookup_failures"] += 1
                    failed.add(e["dst"])
                    interesting = True
            elif e["op"] == "get":
                st["gets"] += 1
                st["gets_during_update"] += busy
                st["gets_unknown_dst"] += e["dst"] not in dl
                if e["dst"] in failed:
                    st["gets_after_failed_lookup"] += 1
                    st["empty_after_failed_lookup"] += not e["ids"]
        if interesting:
            nontriv.add(json.dumps([(e["op"], e["t"], e.get("dst"), e.get("ids"), e.get("fail"), e.get("d")) for e in b]))
    return st, len(nontriv)


def _corrupt(drecs, precs, kind):
    if kind in ("ser", "nb", "err"):
        seen = set()
        for i, e in enumerate(drecs):
            if e["op"] == "reset":
                seen = set()
            if e["op"] != "has" or not e["exact"] or e["mock"]:
                continue
            if kind == "err" and e["err"]:
                e.update(err=False)
                return "drkey", i
            if not e["err"]:
                key = (e["dst"], e["proto"], e["src"], e["host"], e["nb"], e["na"])
                if kind == "ser" and e["ncalls"] == 0 and key in seen:
                    e["ser"] += 1
                    return "drkey", i
                if kind == "nb" and e["ncalls"] == 1:
                    e["nb"], e["na"] = e["nb"] + 2, e["na"] + 2
                    return "drkey", i
                seen.add(key)
    else:
        for i, e in enumerate(precs):
            if kind == "ids" and e["op"] == "get" and len(e["ids"]) >= 1:
                e["ids"] = e["ids"][:-1] + [e["ids"][-1] + 1000]
                return "pather", i
            if kind == "alias" and e["op"] == "get" and e["ids"]:
                e["alias_ok"] = False
                return "pather", i
            if kind == "ia" and e["op"] == "ia" and e["ia"] == 1:
                e["ia"] = 2
                return "pather", i
    raise vlib.Inconclusive("VERIF_X02_CORRUPT=%s: no suitable record" % kind)


# ------------------------------------------------------------------- go side
def _classify(ctx, rc, out, what):
    if "WARNING: DATA RACE" in out:
        m = re.search(r"WARNING: DATA RACE\n(.*?)\n\n", out, re.S)
        rep = (m.group(0) if m else out)[:4000]
        site = "Pather" if "pather.go" in rep else ("Fetcher" if "fetcher.go" in rep else "other")
        ctx.violation("X02 concurrency data-race %s" % site,
                      "race detector reports unsynchronised access in the repository's own sharing pattern (%s)" % what,
                      dict(report=rep))
        return "race detector: DATA RACE (%s)" % site
    m = re.search(r"fatal error: concurrent map[^\n]*", out)
    if m:
        ctx.violation("X02 concurrency concurrent-map-access", "runtime aborts with '%s' (%s)" % (m.group(0), what),
                      dict(report=out[-4000:]))
        return m.group(0)
    m = re.search(r"--- FAIL: TestX02Race.*?\n((?:\s+x02_test.go[^\n]*\n)+)", out, re.S)
    if m and "aliases" in out:
        ctx.violation("X02 NoAlias Pather concurrent", "a caller saw elements written by another caller into a slice "
                      "returned by Paths()", dict(report=out[-4000:]))
        return "aliasing under concurrency"
    if rc != 0:
        raise vlib.Inconclusive("go driver x02 (%s) failed (rc=%d):\n%s" % (what, rc, "\n".join(out.splitlines()[-60:])))
    return None


def _race(ctx, ov, timeout, soft):
    try:
        rc, out = ctx.gotest("x02", "TestX02Race$", race=True, timeout=timeout, extra=["-overlay", ov])
    except vlib.Inconclusive:
        if soft:
            return "race build not finished within %ds (cold build cache); race detection left to the thorough tier" % timeout
        raise
    return _classify(ctx, rc, out, "race") or "race detector: shared-Fetcher FetchHostHostKey, per-goroutine FetchHostASKey, " \
                                              "6 callers of Pather.Paths/LocalIA during 40 refreshes x4: no report"


def _env(ctx, ov):
    rc, out = ctx.gotest("x02", "TestX02Env$", timeout=300, extra=["-v", "-overlay", ov], env={"USE_MOCK_KEYS": "true"})
    m = re.search(r"X02ENV want=(\w+) got=(\w+) result=(\w+)", out)
    if rc != 0 or not m:
        raise vlib.Inconclusive("go driver x02 (env) failed (rc=%d):\n%s" % (rc, out[-2000:]))
    if m.group(3) != "ok":
        ctx.violation("X02 MockNoDaemon USE_MOCK_KEYS environment",
                      "with USE_MOCK_KEYS=true in the environment: UseMockKeys()=%s, result %s (a Fetcher without daemon "
                      "must hand out mock keys)" % (m.group(2), m.group(3)), dict(output=m.group(0)))
    return "USE_MOCK_KEYS=true read at start-up: " + m.group(0)


# ---------------------------------------------------------------------- run
def run(ctx):
    q = ctx.quick
    ctx.specdir()
    ov = _overlay(ctx)
    pool = ThreadPoolExecutor(max_workers=6 if q else 9)
    # 1. design level (at most ~8 TLC workers busy at any time)
    def models():
        rs = [ctx.tlc("DrkeyCacheMC", "DrkeyCache_exh.cfg", workers=2, timeout=300),
              ctx.tlc("DrkeyCacheMC", "DrkeyCache_mock.cfg", workers=2, timeout=300),
              ctx.tlc("PathRefreshMC", "PathRefresh_exh.cfg" if q else "PathRefresh_mid.cfg", workers=2, timeout=600)]
        # the observation-level clauses fail on the specification of the code as it is (expected,
        # documented), and hold on the specification of the candidate repairs
        for cfg, inv in (("PathRefresh_f_dup.cfg", "ObsExact"), ("PathRefresh_f_drop.cfg", "ObsKeep")):
            r = ctx.tlc("PathRefreshMC", cfg, workers=1, timeout=300, allow_violation=True)
            if r["violated"] != inv:
                raise vlib.Inconclusive("%s: expected the counterexample to %s, got %s" % (cfg, inv, r["violated"]))
        if not q:
            rs += [ctx.tlc("PathRefreshMC", "PathRefresh_fixed.cfg", workers=2, timeout=600)]
        return rs
    model = [pool.submit(models)]
    if not q:
        model += [pool.submit(lambda: [ctx.tlc("DrkeyCacheMC", "DrkeyCache_deep.cfg", workers=2, timeout=840, heap="6g")]),
                  pool.submit(lambda: [ctx.tlc("PathRefreshMC", "PathRefresh_deep.cfg", workers=2, timeout=840)]),
                  pool.submit(lambda: [ctx.tlc("PathRefreshMC", "PathRefresh_dup.cfg", workers=1, timeout=840)])]
    try:
        n = _pipeline(ctx, pool, ov)
        for f in model:
            for r in f.result():
                ctx.log("TLC %s: %d distinct states, %d generated, %.0fs" % (r["cfg"], r["distinct"], r["generated"], r["wall_s"]))
    finally:
        pool.shutdown(wait=True, cancel_futures=True)
    return n


def _pipeline(ctx, pool, ov):
    q = ctx.quick
    # 2. spec -> code: behaviours with the specifications' results
    nsd, nsp = (40, 50) if q else (600, 900)
    jobs = [
        pool.submit(lambda: _cases(ctx, ctx.tlc("DrkeyCacheMC", "DrkeyCache_gen.cfg" if q else "DrkeyCache_gendeep.cfg",
                                                 workers=1, timeout=600, tag="gen"), "gen")),
        pool.submit(lambda: _cases(ctx, ctx.tlc("DrkeyCacheMC", "DrkeyCache_genmock.cfg", workers=1, timeout=600, tag="genmock"), "gen")),
        pool.submit(lambda: _cases(ctx, ctx.tlc("DrkeyCacheMC", "DrkeyCache_sim.cfg", workers=1, timeout=600, tag="sim",
                                                 simulate="num=%d" % nsd, depth=30), "sim")),
        pool.submit(lambda: _cases(ctx, ctx.tlc("PathRefreshMC", "PathRefresh_gen.cfg", workers=1, timeout=600, tag="gen"), "gen")),
        pool.submit(lambda: _cases(ctx, ctx.tlc("PathRefreshMC", "PathRefresh_sim.cfg", workers=1, timeout=800, tag="sim",
                                                 simulate="num=%d" % nsp, depth=40), "sim")),
    ]
    parts = [j.result() for j in jobs]
    full = [len(p) for p in parts]
    if q:   # the quick tier replays a seeded sample of the exhaustively enumerated behaviours
        import random
        rng = random.Random(ctx.seed)
        for i, k in ((0, 3000), (1, 1000), (3, 2000)):
            if len(parts[i]) > k:
                parts[i] = [parts[i][j] for j in sorted(rng.sample(range(len(parts[i])), k))]
    cases = [c for p in parts for c in p]
    nd = sum(1 for c in cases if c["kind"] == "drkey")
    npth = len(cases) - nd
    if full[0] < 5000 or full[1] < 1000 or full[2] < nsd or full[3] < 3000 or full[4] < nsp:
        raise vlib.Inconclusive("behaviour generators produced only %s behaviours" % full)
    cp = ctx.path("cases.ndjson")
    vlib.write_ndjson(cp, cases)
    ctx.log("TLC generated %s behaviours; replaying %d DRKey and %d Pather behaviours %s" % (full, nd, npth, [len(p) for p in parts]))

    # 3. the real Fetcher / Pather under synctest with the scripted daemon
    race = pool.submit(_race, ctx, ov, 90 if q else 600, q)
    envn = pool.submit(_env, ctx, ov)
    outd, outp = ctx.path("drkey.ndjson"), ctx.path("pather.ndjson")
    rc, out = ctx.gotest("x02", "TestX02$", env={"VERIF_IN": cp, "VERIF_OUT_D": outd, "VERIF_OUT_P": outp},
                         timeout=600, extra=["-overlay", ov])
    crashed = _classify(ctx, rc, out, "replay")
    if crashed:
        ctx.notes += ["driver aborted: " + crashed, race.result()]
        ctx.cov.update(evaluations=0, distinct_nontrivial=0, rule="driver aborted", traces_validated_against_impl=0, samples=[crashed])
        return 0
    if not (os.path.exists(outd) and os.path.exists(outp)):
        raise vlib.Inconclusive("go driver x02 wrote no trace:\n" + out[-2000:])
    drecs, precs = vlib.read_ndjson(outd), vlib.read_ndjson(outp)
    ck = os.environ.get("VERIF_X02_CORRUPT")
    if ck:
        which, i = _corrupt(drecs, precs, ck)
        ctx.notes.append("SELFTEST: field corrupted in %s record %d (%s)" % (which, i, ck))
    dbehs, pbehs = _split(drecs), _split(precs)
    dst, dnon = _dstats(dbehs)
    pst, pnon = _pstats(pbehs)
    ctx.log("driver: %d DRKey records in %d behaviours %s" % (len(drecs), len(dbehs), dst))
    ctx.log("driver: %d Pather records in %d behaviours %s" % (len(precs), len(pbehs), pst))
    if not ck and not ctx.violations:
        for k in ("hits", "refetch_expired", "refetch_meta", "daemon_errors", "error_then_retry", "boundary_hits",
                  "hosthost", "mock_calls", "mock_far", "other_slot_kept"):
            if dst[k] == 0:
                ctx.notes.append("coverage: no recorded DRKey call of class %s" % k)
        for k in ("localia_failures", "lookup_failures", "overruns", "gets_during_update", "duplicate_destination_lists",
                  "gets_after_failed_lookup", "gets_unknown_dst", "periodic_updates"):
            if pst[k] == 0:
                ctx.notes.append("coverage: no recorded Pather event of class %s" % k)

    # 4. code -> spec
    dval, pval = _Validator(ctx, "DrkeyCacheTrace"), _Validator(ctx, "PathRefreshTrace")
    sigs = set()

    def dsig(inv, e, b):
        return "X02 %s %s %s" % (inv, "FetchHostASKey" if e["op"] == "has" else "FetchHostHostKey", "mock" if e["mock"] else "daemon")

    def dwhat(inv, e):
        return ("scion.Fetcher: recorded %s call violates %s (meta proto=%s src=%s dst=%s host=%s dhost=%s validity=%s (x3h), "
                "returned err=%s key(proto=%s src=%s dst=%s host=%s epoch=[%s,%s] serial=%s), daemon calls=%s failed=%s; "
                "behaviour %d from %s)" % (e["op"], inv, e["proto"], e["src"], e["dst"], e["host"], e["dhost"], e["v"], e["err"],
                                           e["kproto"], e["ksrc"], e["kdst"], e["khost"], e["nb"], e["na"], e["ser"],
                                           e["ncalls"], e["nfail"], e["b"], e["gsrc"]))

    def psig(inv, e, b):
        dl = b[0]["dl"]
        cls = "duplicate-destination" if len(set(dl)) < len(dl) else "distinct-destinations"
        return "X02 %s Pather %s %s" % (inv, e["op"], cls)

    def pwhat(inv, e):
        return ("scion.Pather: recorded %s record violates %s (t=%s (x5s), dst=%s, ids=%s, ia=%s, u=%s, alias_ok=%s; "
                "behaviour %d from %s)" % (e["op"], inv, e["t"], e["dst"], e["ids"], e["ia"], e["u"], e["alias_ok"], e["b"], e["gsrc"]))

    vp = ThreadPoolExecutor(max_workers=3)
    try:
        fd = [vp.submit(_judge, ctx, dval, c, dsig, dwhat, (), sigs) for c in _chunks(dbehs)]
        fp = [vp.submit(_judge, ctx, pval, c, psig, pwhat, (), sigs) for c in _chunks(pbehs)]
        dd, dp = [f.result() for f in fd], [f.result() for f in fp]
    finally:
        vp.shutdown(wait=True)
    nval = sum(d[0] for d in dd + dp)
    nbeh = sum(d[1] for d in dd + dp)

    # observation-level clauses: reported, not judged (unless promoted)
    obs = {}
    for d in dp:
        for inv, e, b in d[2]:
            obs.setdefault(inv, (e, b))
    for inv, (e, b) in sorted(obs.items()):
        dl = b[0]["dl"]
        what = {"ObsExact": "Paths(%s) returned %s, which is not one answer of the daemon: dstIAs=%s holds the IA more than "
                            "once and update() appends the answers of all its lookups (every path is returned "
                            "once per occurrence)" % (e["dst"], e["ids"], dl),
                "ObsKeep": "Paths(%s) returned %s after a refresh in which the lookup for that IA failed: the paths of the "
                           "previous refresh are dropped (a failed LocalIA lookup keeps them)" % (e["dst"], e["ids"])}[inv]
        if os.environ.get("VERIF_X02_OBS") == "violation":
            ctx.violation("X02 %s Pather observation" % inv, what, dict(invariant=inv, failing_record=e, behaviour=b))
        else:
            print("OBSERVATION property=X02 %s: %s (behaviour %d)" % (inv, what, e["b"]))
            ctx.notes.append("OBSERVATION %s: %s" % (inv, what))
    ctx.notes += [race.result(), envn.result()]
    ctx.log("validated %d records in %d behaviours; %s" % (nval, nbeh, ctx.notes[-2]))

    def showd(b):
        return [{k: e[k] for k in ("op", "mock", "proto", "src", "dst", "host", "v", "t", "rp", "err", "nb", "na", "ser", "ncalls")} for e in b[1:8]]

    def showp(b):
        return [{k: e[k] for k in ("op", "t", "u", "d", "dst", "fail", "ids", "ia")} for e in b[:16]]
    dsim = [b for b in dbehs if b[0]["gsrc"] == "sim"]
    psim = [b for b in pbehs if b[0]["gsrc"] == "sim"]
    ctx.cov.update(
        evaluations=dst["calls"] + pst["gets"] + pst["updates"], distinct_nontrivial=dnon + pnon,
        rule="calls recorded from the real Fetcher / Pather against the scripted daemon. DRKey: every behaviour of 3 calls over "
             "{FetchHostASKey(base metadata | protocol / source host / destination IA changed), FetchHostHostKey} x validity "
             "instants inside and on the boundary of two epochs x daemon answers {error, either epoch containing the instant} "
             "enumerated by TLC; the same with USE_MOCK_KEYS and clock steps of 3-9 h; TLC -simulate behaviours of 20 events. "
             "Pather: every behaviour of 6 events over {update script (LocalIA fails | lookup fails | 0-1 paths), clock step, "
             "Paths(dst), LocalIA()} for dstIAs=[1]; TLC -simulate behaviours of 30 events with dstIAs in {[1],[1,2],[1,1],[1,2,1]}, "
             "daemon delays of 0/10/35 s (35 s overruns the 15 s period), two local IAs. distinct_nontrivial = distinct behaviours "
             "containing a cache hit / refetch / daemon error (DRKey) or a failed lookup / failed LocalIA / overrun (Pather)",
        traces_validated_against_impl=nbeh, records_validated=nval, behaviours_replayed=len(cases),
        drkey_classes=dst, pather_classes=pst, exhaustive=True,
        samples=[showd(b) for b in (dbehs[len(dbehs) // 3:len(dbehs) // 3 + 1] + dsim[:1])] +
                [showp(b) for b in (pbehs[len(pbehs) // 3:len(pbehs) // 3 + 1] + psim[:1])])
    ctx.assumptions += [
        "the SCION daemon is honest: a DRKey answer is for exactly the requested metadata and its epoch contains the requested "
        "instant (the Fetcher returns and caches whatever the daemon answers, unchecked; it stores a key under the key's own DstIA)",
        "virtual time of testing/synctest stands for the wall clock (time.Now in mock mode, time.NewTicker in StartPather); the "
        "scripted daemon replaces the gRPC connector through a build-time overlay of net/scion/daemon.go (NewDaemonConnector only)",
        "callers' Paths()/LocalIA() calls are made while the refresher is blocked (synctest.Wait); daemon delays occur in the "
        "LocalIA call of an update only, so lookups and the swap of the path table share one virtual instant",
        "exhaustive model checking is small-scope: 2-3 epochs of 2 units, 4-5 metadata values, at most 4-5 daemon calls (DRKey); "
        "period 3 units, horizon 10 units, at most 4 updates, at most 1 path per lookup (Pather)",
        "Fetcher is not safe for concurrent FetchHostASKey and is not used that way (one Fetcher per server goroutine; the "
        "clients share one but only call FetchHostHostKey, which touches no state): only these patterns are run under -race",
    ]
    return nval
