"""C12 - NTS server keys: current key always valid, rotation and retirement on schedule.

spec/KeyProvider.tla (property section: CurrentValid, CurrentFresh, GetOnlyValid,
IdsUnique, CookieLifetime) is (1) decided exhaustively by TLC at small scope,
(2) used by TLC to generate behaviours (exhaustive at bounded length + -simulate)
that harness/c12 replays on the real ntske.Provider inside testing/synctest
bubbles, together with a seeded 8-goroutine random driver, and (3) used by
spec/trace/KeyProviderTrace.tla to validate everything the real code returned
(monitor = property section -> VIOLATION; strict = explained by Current/Get ->
DRIFT).  The concurrent driver is additionally built with -race.

The statement is about "the key handed out for sealing new cookies": besides the
provider's own calls, (4) the clause SealedWithCurrent / SealedLifetime of the
property section is evaluated on the cookies the real servers issue - key exchange
server, IP listener (core/server/server_ip.go) and SCION listener
(core/server/server_scion.go) sharing one Provider, driven by harness/c11 under
TLC-generated, rotation-heavy schedules of spec/mc/NtsCookiesGen.tla (associations
that live across one, two and more key rotations with requests in between; foreign
requests under every key the provider still holds) - by
spec/trace/NtsCookiesTrace.tla with NtsCookiesTrace_c12.cfg: every cookie of every
recorded reply names a key generated no more than the renewal interval before the
reply was sent, and valid for two more days.

The cookie as the carrier of the identifier, and the randomness source: every key
Current() returns seals a cookie through the servers' path (EncryptWithNonce(key.Value,
key.ID), Encode) and "open" presents it again the way the listeners do (Decode,
Get(int(cookie.ID)), Decrypt); the clause CookieUsable of the property section judges
the recorded presentations.  crypto/rand.Reader is scripted per provider instance with
the class the specification generates (KeyProvider!draw).

Self-test knob: VERIF_C12_CORRUPT=ok|nb|id corrupts one field of one recorded
return before validation (negative control of the monitor; expect exit 1).
"""
import os, re, shutil, threading, collections
from concurrent.futures import ThreadPoolExecutor

import vlib
import c11 as c11chk      # trace plumbing of the cookie-lifecycle check (same driver, same trace module)

CHUNK = 110000      # records per TLC trace-validation run (cut at behaviour boundaries)
DAY = 86400


def _cases(ctx, r, src):
    cs = ctx.emitted(r["out"])
    for c in cs:
        c["src"] = src
    return cs


def _split(recs):
    """-> list of behaviours (each a list of records starting with its reset record)."""
    res = []
    for x in recs:
        if x["op"] == "reset":
            res.append([])
        res[-1].append(x)
    return res


def _chunks(behs):
    """balanced chunks of at most ~CHUNK records, at least two (two TLC runs work side by side)"""
    total = sum(len(b) for b in behs)
    k = max(2, -(-total // CHUNK))
    size = -(-total // k)
    cur, n = [], 0
    for b in behs:
        if n and n + len(b) > size:
            yield cur
            cur, n = [], 0
        cur.append(b)
        n += len(b)
    if cur:
        yield cur


def _stats(behs):
    """Coverage facts measured on the recorded behaviours (python only counts; it judges nothing)."""
    st = dict(renewals=0, get_ok=0, get_fail=0, get_at_notafter_ok=0, get_after_notafter_fail=0,
              cur_at_24h_kept=0, cur_after_24h_renewed=0, get_at_48h_after_issue=0, concurrent_phases=0,
              inexact=0, panics=0, opens_ok=0, opens_fail=0, opens_within_48h=0, opens_at_48h=0,
              opens_after_72h_fail=0, opens_after_rotation_ok=0)
    nontrivial = set()
    for b in behs:
        keys = {}       # id -> (nb, na) as returned
        issued = {}     # id -> last issue instant
        held = {}       # carried id -> (issue instant, generation instant of its key) of the latest cookie
        lastcur = None
        interesting = False
        phases = {}
        for e in b:
            if e["op"] in ("cur", "get", "open"):
                phases[e["ph"]] = phases.get(e["ph"], 0) + 1
                if not e["exact"]:
                    st["inexact"] += 1
                    continue
            if e["op"] == "cur":
                if not e["ok"]:
                    st["panics"] += 1
                    continue
                if e["id"] not in keys:
                    if keys:
                        st["renewals"] += 1
                        interesting = True
                    if lastcur is not None and e["t"] - lastcur[1] > DAY and e["nb"] == e["t"]:
                        st["cur_after_24h_renewed"] += 1
                elif e["t"] - e["nb"] == DAY:
                    st["cur_at_24h_kept"] += 1
                keys[e["id"]] = (e["nb"], e["na"])
                issued[e["id"]] = e["t"]
                held[e["cid"]] = (e["t"], e["nb"])
                lastcur = (e["id"], e["nb"])
            elif e["op"] == "open":
                st["opens_ok" if e["ok"] else "opens_fail"] += 1
                it, inb = held.get(e["arg"], (None, None))
                if it is not None:
                    if e["t"] <= it + 2 * DAY:
                        st["opens_within_48h"] += 1
                    if e["t"] == it + 2 * DAY:
                        st["opens_at_48h"] += 1
                    if e["t"] > inb + 3 * DAY and not e["ok"]:
                        st["opens_after_72h_fail"] += 1
                    if e["ok"] and inb > 0:
                        st["opens_after_rotation_ok"] += 1
            elif e["op"] == "get":
                if e["ok"]:
                    st["get_ok"] += 1
                    keys.setdefault(e["id"], (e["nb"], e["na"]))
                    if e["t"] == e["na"]:
                        st["get_at_notafter_ok"] += 1
                    if e["arg"] in issued and e["t"] == issued[e["arg"]] + 2 * DAY:
                        st["get_at_48h_after_issue"] += 1
                else:
                    st["get_fail"] += 1
                    if e["arg"] in keys and e["t"] > keys[e["arg"]][1]:
                        st["get_after_notafter_fail"] += 1
                        interesting = True
        st["concurrent_phases"] += sum(1 for v in phases.values() if v > 1)
        if interesting:
            nontrivial.add(tuple((e["op"], e["arg"], e["t"], e["g"]) for e in b))
    return st, len(nontrivial)


def _corrupt(recs, kind):
    """Negative control of the monitor: change one field of one recorded return."""
    issued = {}
    for i, e in enumerate(recs):
        if e["op"] == "reset":
            issued = {}
        elif e["op"] == "cur" and e["ok"]:
            if kind == "nb" and e["t"] > 3 * DAY:
                e["nb"] -= 2 * DAY
                return i
            if kind == "id" and e["id"] - 2 in issued and e["nb"] == e["t"]:
                e["id"] -= 2
                return i
            issued.setdefault(e["id"], e["ph"])
        elif e["op"] == "get" and e["ok"] and kind == "ok" and issued.get(e["arg"], e["ph"]) < e["ph"]:
            e.update(ok=False, id=0, nb=0, na=0, val=0)
            return i
    raise vlib.Inconclusive("VERIF_C12_CORRUPT=%s: no suitable record" % kind)


class _Validator:
    """Runs KeyProviderTrace on chunks; each TLC run gets its own trace file name."""

    def __init__(self, ctx):
        self.ctx = ctx
        self.sd = ctx.specdir()
        self.lock = threading.Lock()
        self.n = 0
        self.sigs = set()

    def run(self, mode, behs):
        """-> (ok, behaviour index, record index in behaviour, invariant)"""
        with self.lock:
            self.n += 1
            k = self.n
        tname = "c12trace_%d.ndjson" % k
        recs = [x for b in behs for x in b]
        vlib.write_ndjson(os.path.join(self.sd, tname), recs)
        mod = "KeyProviderTrace_%d" % k
        src = open(os.path.join(self.sd, "KeyProviderTrace.tla")).read()
        src = src.replace("MODULE KeyProviderTrace ", "MODULE %s " % mod).replace('"trace.ndjson"', '"%s"' % tname)
        open(os.path.join(self.sd, mod + ".tla"), "w").write(src)
        cfg = "KeyProviderTrace_%s.cfg" % mode
        r = self.ctx.tlc(mod, cfg, workers=1, timeout=900, allow_violation=True, tag="trace:%s" % cfg, heap="3g")
        os.remove(os.path.join(self.sd, tname))
        if not r["violated"]:
            return True, None, None, None
        l = self.ctx.trace_state_l(r["out"])
        if not l:
            raise vlib.Inconclusive("trace validation failed without a position:\n" + r["out"][-3000:])
        n = 0
        for bi, b in enumerate(behs):
            if l <= n + len(b):
                return False, bi, l - n - 1, r["violated"]
            n += len(b)
        raise vlib.Inconclusive("trace position %d outside the chunk" % l)


def _judge(ctx, val, behs):
    """monitor (may record violations) then strict (drift) for one chunk of behaviours."""
    behs = list(behs)
    nval = 0
    clean = True
    for _ in range(3):
        ok, bi, ri, inv = val.run("mon", behs)
        if ok:
            break
        clean = False
        b = behs.pop(bi)
        e = b[ri]
        cls = "concurrent" if e["src"] == "rnd" else "sequential"
        sig = "C12 %s %s %s" % (inv, {"cur": "Current", "open": "Open"}.get(e["op"], "Get"), cls)
        with val.lock:
            dup = sig in val.sigs
            val.sigs.add(sig)
        if dup:        # one replay file per structural signature
            continue
        ctx.violation(sig,
                      "ntske.Provider: recorded %s call violates %s (t=%ds, arg=%s, returned ok=%s id=%s "
                      "notBefore=%ds notAfter=%ds%s; behaviour %d from %s, rand.Reader class %s)"
                      % (e["op"], inv, e["t"], e["arg"], e["ok"], e["id"], e["nb"], e["na"],
                         "; cookie refused: " + e["why"] if e.get("why") else "", e["b"], e["src"], b[0].get("draw")),
                      dict(invariant=inv, failing_record=e, behaviour=b[:ri + 1]))
    else:
        return 0, 0
    nval = sum(len(b) for b in behs)
    if clean:
        ok, bi, ri, inv = val.run("strict", behs)
        if not ok:
            e = behs[bi][ri]
            ctx.drift.append("record %s is not what KeyProvider.tla computes (%s)" % (e, inv))
    return nval, len(behs)


def _race(ctx, nb, timeout, soft):
    """Concurrent driver built with -race. Returns a note or records a violation."""
    try:
        rc, out = ctx.gotest("c12", "TestC12Race$", race=True, timeout=timeout,
                             env={"C12_RND": str(nb), "VERIF_OUT": ""})
    except vlib.Inconclusive:
        if soft:
            return "race build not finished within %ds (cold build cache); race detection left to the thorough tier" % timeout
        raise
    return _classify(ctx, rc, out, "race") or "race detector: %d concurrent behaviours, no report" % nb


def _classify(ctx, rc, out, what):
    if "WARNING: DATA RACE" in out:
        m = re.search(r"WARNING: DATA RACE\n(.*?)\n\n", out, re.S)
        ctx.violation("C12 concurrency data-race Provider",
                      "race detector reports unsynchronised access while 8 goroutines call Current/Get at one instant",
                      dict(report=(m.group(0) if m else out)[:4000]))
        return "race detector: DATA RACE"
    m = re.search(r"fatal error: concurrent map[^\n]*", out)
    if m:
        ctx.violation("C12 concurrency concurrent-map-access Provider",
                      "runtime aborts with '%s' while 8 goroutines call Current/Get at one instant" % m.group(0),
                      dict(report=out[-4000:]))
        return m.group(0)
    if rc != 0:
        raise vlib.Inconclusive("go driver c12 (%s) failed (rc=%d):\n%s" % (what, rc, "\n".join(out.splitlines()[-60:])))
    return None


def _listeners(ctx):
    """(4) the servers' use of the provider: which key the cookies of every reply are sealed with."""
    q = ctx.quick
    num = 60 if q else 400
    g = ctx.tlc("NtsCookiesGen", "NtsCookies_genrot.cfg", workers=1, timeout=600, simulate="num=%d" % num,
                depth=400, tag="genrot")
    cases = ctx.emitted(g["out"])
    if len(cases) < num // 2:
        raise vlib.Inconclusive("rotation schedule generator produced only %d behaviours" % len(cases))
    gstat = collections.Counter()
    for b in cases:
        gstat.update(b.pop("stat"))
    lacking = [k for k in ("oldserve", "span1", "span2", "oldprobe") if not gstat[k]]
    if lacking:
        raise vlib.Inconclusive("generated rotation schedules never exercise: %s (%s)" % (lacking, dict(gstat)))
    cp = ctx.path("cases_srv.ndjson")
    vlib.write_ndjson(cp, cases)
    tp, out = ctx.godriver("c11", "TestC11", out_name="trace_srv.ndjson", cases=cp, timeout=420 if q else 1200,
                           extra=("-timeout", "%ds" % (390 if q else 1170)),
                           env={"VERIF_C11_LANES": os.environ.get("VERIF_C11_LANES", "12" if q else "24")})
    events = vlib.read_ndjson(tp)
    cfg, events = events[0], events[1:]
    if cfg.get("ev") != "cfg":
        raise vlib.Inconclusive("listener trace does not start with the cfg record")
    if os.environ.get("VERIF_C12_CORRUPT") == "seal":
        for e in events:   # negative control: a reply cookie renamed to the previous key
            if e["ev"] == "rep" and e["cookies"] and e["prov"]["cur"] >= 3 and len(e["prov"]["keys"]) >= 3:
                e["cookies"][0]["key"] = e["prov"]["keys"][0]["id"]
                ctx.notes.append("SELFTEST: one recorded reply cookie renamed to the oldest key held")
                break
        else:
            raise vlib.Inconclusive("VERIF_C12_CORRUPT=seal: no suitable record")
    behs = c11chk._behaviours(events)
    val = c11chk._Validator(ctx)
    issued = [e for e in events if e["ev"] in ("rep", "probe", "rekey") and e.get("cookies")]
    by = collections.Counter()
    for e in issued:
        where = {"rekey": "ke", "rep": "ntp ip"}.get(e["ev"]) or "probe " + e["tr"]
        by[where] += 1
        cur = e["prov"]["cur"]
        if e["ev"] == "probe" and e["ck"] != cur:
            by[where + " request under an older key"] += 1     # (informational: depends on what the server did)
    # requests of the real client whose cookie was sealed under a key that is not the current one any more
    for b in behs:
        last = None
        for e in b:
            if e["ev"] == "req" and not e["fn"]:
                last = e
            elif e["ev"] == "rep" and last is not None and last["cookie"]["key"] != e["prov"]["cur"]:
                by["ntp ip request under an older key"] += 1
    nviol = 0
    sigs = {}
    for part in c11chk._chunks(behs):
        evs = [cfg] + [e for b in part for e in b]
        outp = val.run("NtsCookiesTrace_c12.cfg", evs)
        for clause, pos in c11chk._marks(outp, "VIOL"):
            e = evs[pos - 1]
            where = {"rekey": "key-exchange", "rep": "reply ip"}.get(e["ev"]) or "reply " + e.get("tr", "?")
            sig = "C12 %s %s" % (clause, where)
            nviol += 1
            if sig in sigs:
                continue
            s0 = pos - 1
            while s0 > 1 and evs[s0]["ev"] != "reset":
                s0 -= 1
            keys = {k["id"]: k for k in e["prov"]["keys"]}
            worst = max((e["prov"]["now"] - keys[c["key"]]["nb"] for c in e["cookies"] if c["key"] in keys), default=-1)
            sigs[sig] = ("%s: a cookie of a recorded %s names a key that is not one Current() may hand out at that "
                         "instant or does not stay valid for two more days: oldest key named was generated between %d and "
                         "%d x 12 h before the cookie was issued (behaviour %d; provider, in 12 h units: %s; cookie keys %s)"
                         % (clause, where, worst, worst + 1, e["b"], e["prov"], sorted({c["key"] for c in e["cookies"]})),
                         {"cfg": cfg, "events": evs[s0:pos]})
    # vacuity: rotations are guarded on the specification's side (gstat, above); here only that every issuer
    # was heard, and that the schedule's foreign requests under an older held key were sent to both listeners
    for e in events:
        if e["ev"] == "probe" and e["kb"] > 1 and e["kv"]:
            by["probe %s sent under an older held key" % e["tr"]] += 1
    need = ("ke", "ntp ip", "probe ip", "probe scion", "probe ip sent under an older held key",
            "probe scion sent under an older held key")
    if not sigs and any(not by[k] for k in need):
        raise vlib.Inconclusive("listener coverage incomplete: %s" % dict(by))
    for sig, (what, rp) in sorted(sigs.items()):
        ctx.violation(sig, what, rp)
    ctx.notes.append(
        "sealing key of issued cookies: %d TLC-generated rotation schedules (spec side: %d requests served under a cookie of "
        "an older key, %d one rotation and %d two or more rotations after the association's key exchange with a request in "
        "between, %d foreign requests under an older key); recorded: %s; %d clause failures"
        % (len(cases), gstat["oldserve"], gstat["span1"], gstat["span2"], gstat["oldprobe"], dict(sorted(by.items())), nviol))
    ctx.log(ctx.notes[-1])
    return dict(behaviours=len(behs), events=len(events), replies_judged=len(issued), by=dict(by), spec_side=dict(gstat))


def run(ctx):
    q = ctx.quick
    ctx.specdir()
    vlib.ensure_harness()
    if vlib.REPO != "/repo":
        vlib.alt_modfile()
    pool = ThreadPoolExecutor(max_workers=4)
    lst = pool.submit(_listeners, ctx)
    # 1. design level: the property section decided on the specification.
    #    (at most 8 TLC workers are busy at any time, all runs together)
    if q:
        model = [pool.submit(ctx.tlc, "KeyProviderMC", "KeyProvider_exh.cfg", workers=6, timeout=300)]
    else:
        def small():
            return [ctx.tlc("KeyProviderMC", "KeyProvider_hour.cfg", workers=1, timeout=600),
                    ctx.tlc("KeyProviderMC", "KeyProvider_exh.cfg", workers=1, timeout=600)]
        model = [pool.submit(ctx.tlc, "KeyProviderMC", "KeyProvider_deep.cfg", workers=5, timeout=840, heap="6g"),
                 pool.submit(small)]
    try:
        nval = _pipeline(ctx, pool)
        for f in model:
            rs = f.result()
            for r in (rs if isinstance(rs, list) else [rs]):
                ctx.log("TLC %s: %d distinct states, %d generated, %.0fs" % (r["cfg"], r["distinct"], r["generated"], r["wall_s"]))
        ctx.cov["listeners"] = lst.result()
    finally:
        pool.shutdown(wait=True, cancel_futures=True)
    return nval


def _pipeline(ctx, pool):
    q = ctx.quick
    # 2. spec -> code: behaviours with the specification's results
    g = ctx.tlc("KeyProviderMC", "KeyProvider_gen.cfg" if q else "KeyProvider_gendeep.cfg", workers=1, timeout=600, tag="gen")
    cases = _cases(ctx, g, "gen")
    nsim, depth = (400, 40) if q else (4000, 50)
    s = ctx.tlc("KeyProviderMC", "KeyProvider_sim.cfg", workers=1, timeout=600, tag="sim",
                simulate="num=%d" % nsim, depth=depth)
    sims = _cases(ctx, s, "sim")
    if not q:
        s2 = ctx.tlc("KeyProviderMC", "KeyProvider_simdeep.cfg", workers=1, timeout=600, tag="simdeep",
                     simulate="num=%d" % nsim, depth=depth)
        sims += _cases(ctx, s2, "sim")
    gc = ctx.tlc("KeyProviderMC", "KeyProvider_gencookie.cfg" if q else "KeyProvider_gencookiedeep.cfg", workers=1,
                 timeout=600, tag="gencookie")
    walks = _cases(ctx, gc, "gen")
    if len(cases) < 5000 or len(sims) < nsim or len(walks) < 1000:
        raise vlib.Inconclusive("behaviour generator produced only %d + %d + %d behaviours" % (len(cases), len(sims), len(walks)))
    # vacuity of the new dimension, judged on the specification's side: per class of the randomness source, how many
    # generated behaviours present a cookie within two days of its issue / one sealed under a rotated key / a dead one
    dim = {}
    for c in walks + sims:
        d = dim.setdefault(c.get("draw", "?"), collections.Counter())
        held, fl = {}, set()
        for e in c["h"]:
            if e["op"] == "cur":
                held[e["cid"]] = (e["t"], e["nb"])
            elif e["op"] == "open":
                it, inb = held[e["arg"]]
                fl.add("open")
                if e["ok"] and e["t"] <= it + 2 * c["day"]:
                    fl.add("open_within_2d")
                if e["ok"] and inb > 0:
                    fl.add("open_rotated_key")
                if not e["ok"]:
                    fl.add("open_expired")
        d["behaviours"] += 1
        d.update(fl)
    lacking = [(k, f) for k in ("zero", "ones", "fffe", "real") for f in ("open_within_2d", "open_rotated_key", "open_expired")
               if not dim.get(k, {}).get(f)]
    if lacking:
        raise vlib.Inconclusive("generated behaviours never exercise (rand.Reader class, cookie presentation): %s" % lacking)
    ctx.cov["cookie_dimension_spec_side"] = {k: dict(v) for k, v in sorted(dim.items())}
    ctx.notes.append(
        "cookie as carrier of the identifier + scripted rand.Reader: %d TLC-enumerated cookie walks (Advance/Current+seal/Open, "
        "all 4 classes of leading random bytes) and %d simulated behaviours; per class, generated behaviours that present a cookie "
        "within 2 days of issue / one sealed under a rotated key / an expired one: %s"
        % (len(walks), len(sims), "; ".join("%s %d/%d/%d of %d" % (k, v["open_within_2d"], v["open_rotated_key"], v["open_expired"],
                                                                      v["behaviours"]) for k, v in sorted(dim.items()))))
    ctx.log(ctx.notes[-1])
    cases += walks + sims
    cp = ctx.path("cases.ndjson")
    vlib.write_ndjson(cp, cases)
    ctx.log("TLC generated %d behaviours (%d exhaustive at bounded length, of which %d cookie walks; %d simulated)"
            % (len(cases), len(cases) - len(sims), len(walks), len(sims)))

    # 3. the real Provider under synctest: replay + 8-goroutine random driver
    nrnd = 60 if q else 500
    outp = ctx.path("trace.ndjson")
    rc, out = ctx.gotest("c12", "TestC12$", env={"VERIF_IN": cp, "VERIF_OUT": outp, "C12_RND": str(nrnd)}, timeout=600)
    crashed = _classify(ctx, rc, out, "replay")
    race = pool.submit(_race, ctx, 40 if q else 400, 40 if q else 600, q)
    if crashed:
        ctx.notes.append("driver aborted: " + crashed)
        ctx.notes.append(race.result())
        ctx.cov.update(evaluations=0, distinct_nontrivial=0, rule="driver aborted", traces_validated_against_impl=0,
                       samples=[crashed])
        return 0
    if not os.path.exists(outp):
        raise vlib.Inconclusive("go driver c12 wrote no trace:\n" + out[-2000:])
    recs = vlib.read_ndjson(outp)
    ck = os.environ.get("VERIF_C12_CORRUPT")
    if ck:
        i = _corrupt(recs, ck)
        ctx.notes.append("SELFTEST: field corrupted in record %d (%s)" % (i, ck))
    behs = _split(recs)
    st, nontriv = _stats(behs)
    ctx.log("driver: %d records, %d behaviours (%d replayed, %d concurrent); %s" % (len(recs), len(behs), len(cases), nrnd, st))
    if not ck:
        for k in ("renewals", "get_at_notafter_ok", "get_after_notafter_fail", "cur_at_24h_kept",
                  "cur_after_24h_renewed", "get_at_48h_after_issue", "concurrent_phases", "opens_within_48h",
                  "opens_at_48h", "opens_after_72h_fail", "opens_after_rotation_ok"):
            if st[k] == 0 and not ctx.violations:
                ctx.notes.append("coverage: no recorded call of class %s" % k)

    # 4. code -> spec: monitor decides, strict reports drift (2 TLC runs at a time)
    val = _Validator(ctx)
    vp = ThreadPoolExecutor(max_workers=2)
    try:
        done = list(vp.map(lambda c: _judge(ctx, val, c), list(_chunks(behs))))
        nval, nbeh = sum(d[0] for d in done), sum(d[1] for d in done)
    finally:
        vp.shutdown(wait=True)
    ctx.notes.append(race.result())
    ctx.log("validated %d records; %s" % (nval, ctx.notes[-1]))
    if st["inexact"]:
        ctx.notes.append("%d returns had instants that are not whole seconds: judged by raw_ok only" % st["inexact"])

    def show(b):
        return [dict(op=e["op"], t=e["t"], arg=e["arg"], ok=e["ok"], id=e["id"], nb=e["nb"], na=e["na"], ph=e["ph"], g=e["g"],
                     cid=e["cid"], draw=e["draw"])
                for e in b[:12]]
    rnd = [b for b in behs if b[0]["src"] == "rnd"]
    sim = [b for b in behs if b[0]["src"] == "sim"]
    ctx.cov.update(
        evaluations=len(recs) - len(behs), distinct_nontrivial=nontriv,
        rule="calls recorded from the real Provider: every behaviour of GenLen events over {Advance(6h,24h,30h,48h,72h,78h), "
             "Current, Get(any id generated so far, 0, next)} and every cookie walk over {Advance, Current+seal, Open(any cookie held)} "
             "x {rand.Reader leading bytes 00.., ff.., ff fe.., real} enumerated by TLC (no two clock steps in a row), TLC -simulate "
             "behaviours of 30-40 events (6 h and 1 h units, 40 days), and seeded phases of 8 goroutines calling at one virtual "
             "instant with gaps on and around 24/48/72 h; distinct_nontrivial = distinct behaviours (op, arg, instant, goroutine "
             "sequence) containing a key renewal or a failed look-up of a retired key",
        traces_validated_against_impl=nbeh, records_validated=nval,
        behaviours_replayed=len(cases), behaviours_concurrent=len(rnd), classes=st, exhaustive=True,
        samples=[show(b) for b in (behs[len(behs) // 3:len(behs) // 3 + 1] + sim[:1] + rnd[:1])])
    ctx.assumptions += [
        "virtual time of testing/synctest stands for the wall clock read by time.Now() in provider.go",
        "exhaustive model checking is small-scope: 6 h units / 10 days (quick), 3 h units / 10 days and 1 h units with "
        "gaps at the 1/2/3-day marks +-1 h (thorough); identifiers stay far below math.MaxInt",
        "key values are compared by identity of the 32 random bytes; their randomness is not examined",
        "the cookie carries the key identifier in 16 bits (EncryptWithNonce: uint16(keyid)); on the unchanged tree identifiers "
        "start at 1 and grow by one per generated key, so the carrier is exhausted only after 65535 key generations (>= 179 "
        "years of daily rotation); 'identifiers never repeat' and a 16-bit carrier cannot both hold beyond that, so the horizon "
        "of 'spanning many days' is taken as < 2^16 key generations (KeyProvider!CarrierFits is an invariant of the model)",
        "rand.Reader is scripted by class of the leading bytes of every read (00.., ff.., ff fe.., real) with a counter after "
        "them, so key values and nonces stay distinct; read errors of the source are not generated",
        "real-time order between overlapping calls of one phase is unknown; an issue obliges look-ups of later phases only",
    ]
    return nval
