SPECIFICATION Spec
CONSTANTS
  Conn <- C2
  MaxLen = 2
  MaxIll = 0
  MaxRot = 1
  Kinds <- KSmall
  Cuts <- CutsAll
  Ends <- EndsAll
  NCk = 8
  Fault = "none"
INVARIANTS TypeOK OneMessage ErrorIffBad NoEarlyAnswer ResponseShape CookiesSealSession CookiesDistinct KeyCurrent StillServingSafe

