SPECIFICATION TSpec
INVARIANTS TOneExchange TComputedFromThem THalfRTT TAcceptMatches TRequestPair TNoPanic TSrvCompletePair TSrvOwnIngress
