------------------------------ MODULE NtsCookies ------------------------------
(***************************************************************************)
(* The NTS cookie lifecycle between one client and one server:             *)
(*   net/ntske/fetcher.go   FetchData (pop one cookie per request, key     *)
(*                          exchange when the pool is empty), StoreCookie  *)
(*   net/nts/nts.go         NewRequestPacket (1 cookie + 8 - p placeholder *)
(*                          fields), EncodePacket (fixed MaxPacketLen      *)
(*                          buffer), ProcessResponse (stores every cookie  *)
(*                          of an authenticated response), NewResponse-    *)
(*                          Packet                                         *)
(*   core/server/server_ip.go / server_scion.go  authenticated branch: one *)
(*                          new cookie per cookie/placeholder field under  *)
(*                          provider.Current()                             *)
(*   core/server/ntske.go   newNTSKEMsg: 8 cookies under Current()         *)
(*   net/ntske/provider.go  Current / Get (see also KeyProvider.tla, C12)  *)
(*   core/client/client_ip.go  one exchange per measureClockOffsetIP call  *)
(*   core/client/client_scion.go  the same exchange over SCION/UDP          *)
(*                          (measureClockOffsetSCION); its receive loop    *)
(*                          has one more branch: an SCMP message           *)
(*                                                                         *)
(* One action per step that the network separates: the client builds and   *)
(* sends a request (SendRequest), the datagram is lost or handled by the   *)
(* server (LoseRequest / ServerHandle), the reply is lost or reaches the   *)
(* client (LoseResponse / ClientReceive), a client that got nothing runs   *)
(* into its deadline (Timeout).  Time passes between exchanges (Tick).     *)
(* The network remembers what the server sent (old): while the client      *)
(* waits in its receive loop it may be handed an earlier authentic reply   *)
(* of the server - a duplicate, the late reply of an exchange that timed   *)
(* out, an on-path replay - before or instead of the genuine one (Replay); *)
(* one that arrives after the call has returned finds no socket (Stray).   *)
(* The receive loop of measureClockOffsetIP turns down at most MaxRetries  *)
(* unusable datagrams per call; the next one ends the call.                *)
(* The client of a behaviour is the IP client or the SCION client (tr).    *)
(* Both use the same fetcher and request builder; the SCION client's       *)
(* socket may in addition be handed an SCMP message (destination           *)
(* unreachable, echo reply, parameter problem ...: unauthenticated, anyone  *)
(* on or off the path can send one) while its request is pending, before   *)
(* or instead of the genuine reply (Scmp).  It is one more datagram the    *)
(* receive loop turns down; it says nothing about the cookie that was sent.*)
(* The server answers in some NTP header state (ServerHandle(h)): as a      *)
(* synchronised server ("sync": leap indicator 0..2, stratum 1..15) or,    *)
(* right after start-up or after losing its reference, as an unsynchronised*)
(* one ("li3": leap indicator 3, "str0" / "str16": stratum 0 / 16).  Such a *)
(* reply is as authentic as any other.  measureClockOffsetIP / ...SCION run *)
(* nts.ProcessResponse (unique identifier, authenticator, StoreCookie for   *)
(* every cookie) BEFORE ntp.ValidateResponseMetadata: the cookies of the    *)
(* reply are in the pool when the header makes the call return an error     *)
(* (no retry: the call ends).  No datagram was lost: the history stays      *)
(* loss-free.                                                               *)
(* Probe is an authenticated request of some other NTS client of the same  *)
(* server carrying an arbitrary number of cookie/placeholder fields.       *)
(*                                                                         *)
(* Sizes are the real ones, derived from the field layout of nts.go.       *)
(*                                                                         *)
(* Time: one unit = 24 h / Day.  Clock readings taken by later calls are   *)
(* strictly later than earlier ones (real time elapses between calls),     *)
(* i.e. a reading at model distance d from a key's creation is at real     *)
(* distance d * unit + eps, eps > 0.  Hence "t.After(NotAfter)" is         *)
(* distance >= V and "generatedAt.Add(renewal).Before(t)" is distance >= R.*)
(*                                                                         *)
(* Switches name the deliberate deviations of the pinned code:             *)
(*   PlaceholderTypedAsCookie  CookiePlaceholder.pack writes type 0x204    *)
(*   CapReply = FALSE          the server adds one cookie per field        *)
(*                             whether or not the reply still fits         *)
(* Property C11 is the section at the end.                                 *)
(***************************************************************************)
EXTENDS Integers, Sequences, FiniteSets, TLC

CONSTANTS
  PoolMax,       \* numStoredCookies = 8
  CookieLen,     \* length of the cookies this project's servers issue (124)
  MaxPacketLen,  \* nts.MaxPacketLen (1024)
  PlaceholderTypedAsCookie,
  CapReply,
  Day,           \* model time units per 24 h
  Ticks,         \* durations by which the clock may advance between exchanges
  Horizon,       \* the clock is not advanced beyond this instant (model checking only)
  MaxEx,         \* bound on the number of requests built (model checking only)
  ProbeNs,       \* numbers of cookie/placeholder fields other clients may send
  ProbeUids,     \* lengths of the unique identifiers other clients may send (>= 32)
  MaxOld,        \* number of earlier replies the network may still deliver (model checking only)
  Transports,    \* the clients a behaviour may be run with: subset of {"ip", "scion"}
  ScmpTypes,     \* SCMP messages the network may hand to the waiting SCION client
  HdrStates      \* NTP header states the server may answer in: subset of {"sync", "li3", "str0", "str16"}

(***************************************************************************)
(* Wire sizes (net/nts/nts.go: extension fields are 4-byte aligned)        *)
(***************************************************************************)
Pad4(n)       == ((n + 3) \div 4) * 4
NtpLen        == 48                          \* ntpPacketLen
OwnUid        == 32                          \* newID: this project's client sends 32 bytes
UidFieldU(u)  == 4 + Pad4(u)                 \* UniqueIdentifier.pack; the server echoes the requester's
UidField      == UidFieldU(OwnUid)
CookieField   == 4 + Pad4(CookieLen)         \* Cookie.pack and CookiePlaceholder.pack
AuthField(pt) == 4 + 2 + 2 + Pad4(16) + Pad4(pt + 16)  \* Authenticator.pack: 16-byte nonce, SIV tag 16
FieldsEnd(n)  == NtpLen + UidField + n * CookieField    \* position of the authenticator of a request
ReqSizeN(n)   == FieldsEnd(n) + AuthField(0)            \* request with n cookie/placeholder fields
ReqSize(p)    == ReqSizeN(1 + (PoolMax - p))            \* request built at pool level p
\* reply with m (encrypted) cookies to a request whose unique identifier has u bytes
RespSizeU(m, u) == NtpLen + UidFieldU(u) + AuthField(m * CookieField)
RespSize(m)   == RespSizeU(m, OwnUid)
\* the largest number of cookies whose reply is within MaxPacketLen
MaxFitU(u) == IF MaxPacketLen < RespSizeU(0, u) THEN 0 ELSE (MaxPacketLen - RespSizeU(0, u)) \div CookieField
MaxFit == MaxFitU(OwnUid)
\* UniqueIdentifier.unpack (server side): identifiers shorter than 32 bytes or
\* longer than MaxPacketLen/4 are refused, the request is dropped
UidLimit == MaxPacketLen \div 4
UidAccepted(u) == u >= 32 /\ u <= UidLimit
Min2(a, b) == IF a <= b THEN a ELSE b

\* EncodePacket works in a buffer of exactly MaxPacketLen bytes: field bodies
\* are written with copy() (silently cut at the end of the buffer) but the
\* 4-byte field headers and the authenticator's two length words are written
\* with PutUint16(buf[pos:]) which panics beyond the end.
EncodeOutcome(fieldsEnd, total) ==
  IF total <= MaxPacketLen THEN "ok"
  ELSE IF fieldsEnd + 8 > MaxPacketLen THEN "panic"
  ELSE "trunc"

(***************************************************************************)
(* State                                                                   *)
(***************************************************************************)
VARIABLES
  now,     \* the server's clock
  prov,    \* ntske.Provider: [keys : id -> creation time, cur, gen]
  pool,    \* Fetcher.data.Cookie: sequence of cookies [id, key, sess]
  sess,    \* number of key exchanges performed (identifies C2S/S2C)
  used,    \* ids of the cookies sent in a request so far
  seen,    \* ids of all cookies the server has issued so far
  phase,   \* "idle" | "req" | "resp" | "wait" | "panic"
  net,     \* the request datagram in flight (phase = "req"), else NoMsg
  rep,     \* what the server has just issued (key exchange, reply, probe reply), else NoMsg
  pre,     \* pool level before the request of the current exchange was built
  clean,   \* history: no datagram lost, no request under a retired key, no failure so far
  nex,     \* requests built so far
  nextId,  \* fresh cookie identities
  obs,     \* label of the step just taken
  old,     \* replies the server has sent and the network may deliver (again): [cookies, sess, ex]
  tries,   \* numRetries: datagrams the receive loop of the current call has turned down
  tr       \* the client of this behaviour: "ip" (client_ip.go) | "scion" (client_scion.go)

vars == <<now, prov, pool, sess, used, seen, phase, net, rep, pre, clean, nex, nextId, obs, old, tries, tr>>
\* cookie identities and the history sets are renamings of each other in
\* behaviours that agree on the rest
view == <<now, prov, [i \in DOMAIN pool |-> <<pool[i].key, pool[i].sess>>], sess, phase,
          IF net.k = "req" THEN <<net.cookie.key, net.cookie.sess, net.p, net.bad>> ELSE <<>>,
          IF rep.k = "none" THEN <<>> ELSE <<rep.k, rep.n, rep.u, Len(rep.cookies), rep.bad, rep.hdr, "kv" \in DOMAIN rep /\ rep.kv>>,
          pre, clean, nex, obs, [i \in DOMAIN old |-> <<old[i].sess, old[i].ex>>], tries, tr>>

\* without a bound on the number of exchanges (MaxEx large) the counters and
\* the session number are renamings as well; the state space is then finite
\* because the clock stops at Horizon
viewU == <<now, prov, [i \in DOMAIN pool |-> <<pool[i].key, pool[i].sess = sess>>], phase,
           IF net.k = "req" THEN <<net.cookie.key, net.cookie.sess = sess, net.p, net.bad>> ELSE <<>>,
           IF rep.k = "none" THEN <<>> ELSE <<rep.k, rep.n, rep.u, Len(rep.cookies), rep.bad, rep.hdr, "kv" \in DOMAIN rep /\ rep.kv>>,
           pre, clean, sess > 0, obs, [i \in DOMAIN old |-> <<old[i].sess = sess, old[i].ex = nex>>], tries, tr>>

NoMsg == [k |-> "none"]
Ids(s) == {s[i].id : i \in DOMAIN s}

(***************************************************************************)
(* ntske.Provider                                                          *)
(***************************************************************************)
V == 3 * Day   \* keyValidity
R == Day       \* keyRenewalInterval
\* Key.IsValidAt at a later reading of the clock
ValidAt(pv, id, t) == id \in DOMAIN pv.keys /\ t - pv.keys[id] < V
KeyValid(id) == ValidAt(prov, id, now)         \* Provider.Get(id) succeeds
\* Provider.Current(): renew when the newest key is not valid any more or older
\* than the renewal interval; generateNext() purges the keys that are not valid
CurrentP(pv, t) ==
  IF ~ValidAt(pv, pv.cur, t) \/ t - pv.gen >= R
  THEN LET kept == {i \in DOMAIN pv.keys : t - pv.keys[i] < V}
       IN [keys |-> [i \in kept \cup {pv.cur + 1} |-> IF i = pv.cur + 1 THEN t ELSE pv.keys[i]],
           cur |-> pv.cur + 1, gen |-> t]
  ELSE pv

\* client_ip.go, client_scion.go: const maxNumRetries = 1
MaxRetries == 1
\* the network's memory: the reply to the current request and the newest MaxOld earlier ones
Remember(r, x) ==
  LET o == SelectSeq(old, LAMBDA e : e.ex # x)
      k == IF Len(o) > MaxOld THEN SubSeq(o, Len(o) - MaxOld + 1, Len(o)) ELSE o
  IN Append(k, [cookies |-> r.cookies, sess |-> r.sess, ex |-> x])
\* a reply that answers an earlier request than the one the client is waiting for
IsStale(i) == i \in DOMAIN old /\ old[i].ex # nex

NewCookies(k, s, m) == [i \in 1 .. m |-> [id |-> nextId + i - 1, key |-> k, sess |-> s]]

(***************************************************************************)
(* Server: replenishment (server_ip.go authenticated branch)               *)
(***************************************************************************)
\* n = len(ntsreq.Cookies) + len(ntsreq.CookiePlaceholders) fields were sent;
\* the reply is encoded with EncodePacket into a MaxPacketLen buffer: what does
\* not fit is cut off (the authenticator's ciphertext is the last thing written).
\* The requester's unique identifier (u bytes) is echoed and takes its share.
ReplyFor(kind, n, s, pv, u, h) ==
  LET m  == IF CapReply THEN Min2(n, MaxFitU(u)) ELSE n
      cs == NewCookies(pv.cur, s, m)
  IN [k |-> kind, n |-> n, u |-> u, cookies |-> cs, sess |-> s, hdr |-> h,
      size |-> Min2(RespSizeU(m, u), MaxPacketLen),
      bad |-> RespSizeU(m, u) > MaxPacketLen]

(***************************************************************************)
(* Actions                                                                 *)
(***************************************************************************)
Init ==
  /\ now = 0
  \* no key yet: the first Current() creates key 1.  (NewProvider() creates key 1
  \* when the server starts; creating it at first use gives the same behaviours
  \* up to a shift in time, and is the state the driver resets the provider to.)
  /\ prov = [keys |-> << >>, cur |-> 0, gen |-> 0]
  /\ pool = << >>
  /\ sess = 0
  /\ used = {}
  /\ seen = {}
  /\ phase = "idle"
  /\ net = NoMsg
  /\ rep = NoMsg
  /\ pre = 0
  /\ clean = TRUE
  /\ nex = 0
  /\ nextId = 1
  /\ obs = "init"
  /\ old = << >>
  /\ tries = 0
  /\ tr \in Transports

\* FetchData with an empty pool: NTS-KE, the server's newNTSKEMsg adds 8 cookies
\* under Current() bound to the freshly exported session keys
Rekey ==
  /\ phase = "idle" /\ pool = << >> /\ nex < MaxEx
  /\ LET pv == CurrentP(prov, now)
         cs == NewCookies(pv.cur, sess + 1, 8)
     IN /\ prov' = pv
        /\ sess' = sess + 1
        /\ pool' = cs
        /\ rep' = [k |-> "ke", n |-> 8, u |-> OwnUid, cookies |-> cs, sess |-> sess + 1, hdr |-> "sync", size |-> 0, bad |-> FALSE]
        /\ seen' = seen \cup Ids(cs)
        /\ nextId' = nextId + 8
  /\ obs' = "rekey"
  /\ UNCHANGED <<now, used, phase, net, pre, clean, nex, old, tries, tr>>

\* FetchData (data := f.data; pop), NewRequestPacket, EncodePacket, WriteTo
SendRequest ==
  /\ phase = "idle" /\ pool # << >> /\ nex < MaxEx
  /\ LET p   == Len(pool)
         c   == Head(pool)
         nph == PoolMax - p        \* for i := len(ntskeData.Cookie); i < numStoredCookies; i++
         n   == 1 + nph
         oc  == EncodeOutcome(FieldsEnd(n), ReqSizeN(n))
     IN /\ pool' = Tail(pool)
        /\ pre' = p
        /\ nex' = nex + 1
        /\ IF oc = "panic"
           THEN /\ phase' = "panic" /\ net' = NoMsg /\ obs' = "panic" /\ clean' = FALSE
                /\ UNCHANGED used
           ELSE /\ phase' = "req" /\ obs' = "send" /\ UNCHANGED clean
                /\ used' = used \cup {c.id}
                /\ net' = [k |-> "req", cookie |-> c, p |-> p,
                           ncookie |-> IF PlaceholderTypedAsCookie THEN n ELSE 1,
                           nph     |-> IF PlaceholderTypedAsCookie THEN 0 ELSE nph,
                           size    |-> Min2(ReqSizeN(n), MaxPacketLen),
                           bad     |-> oc = "trunc"]
  /\ rep' = NoMsg
  /\ tries' = 0
  /\ UNCHANGED <<now, prov, sess, seen, nextId, old, tr>>

LoseRequest ==
  /\ phase = "req"
  /\ phase' = "wait" /\ net' = NoMsg /\ rep' = NoMsg /\ clean' = FALSE /\ obs' = "losereq"
  /\ UNCHANGED <<now, prov, pool, sess, used, seen, pre, nex, nextId, old, tries, tr>>

\* runIPServer: Decode, provider.Get(cookie key id), Decrypt, ProcessRequest;
\* then Current() and one new cookie per field
\* handleRequest fills in the NTP header: h is the state the server is in
ServerHandle(h) ==
  /\ phase = "req"
  /\ IF ~net.bad /\ KeyValid(net.cookie.key)
     THEN LET pv == CurrentP(prov, now)
              r  == ReplyFor("ntp", net.ncookie + net.nph, net.cookie.sess, pv, OwnUid, h)
          IN /\ prov' = pv
             /\ rep' = r
             /\ seen' = seen \cup Ids(r.cookies)
             /\ nextId' = nextId + Len(r.cookies)
             /\ old' = Remember(r, nex)      \* (the network has seen it)
             /\ phase' = "resp" /\ obs' = "serve" /\ UNCHANGED clean
     ELSE /\ phase' = "wait" /\ rep' = NoMsg /\ obs' = "norep" /\ clean' = FALSE
          /\ UNCHANGED <<prov, seen, nextId, old>>
  /\ net' = NoMsg
  /\ UNCHANGED <<now, pool, sess, used, pre, nex, tries, tr>>

LoseResponse ==
  /\ phase = "resp"
  /\ phase' = "wait" /\ rep' = NoMsg /\ clean' = FALSE /\ obs' = "loseresp"
  /\ UNCHANGED <<now, prov, pool, sess, used, seen, net, pre, nex, nextId, old, tries, tr>>

\* ntp.ValidateResponseMetadata: leap indicator # 3, stratum in 1..15
Synced(h) == h = "sync"
\* ProcessResponse: unique id, authenticate, StoreCookie for every cookie.
\* A reply that was cut off does not authenticate: the client keeps waiting.
ClientReceive ==
  /\ phase = "resp"
  /\ IF rep.bad
     THEN /\ clean' = FALSE /\ UNCHANGED pool
          /\ IF tries < MaxRetries
             THEN phase' = "wait" /\ obs' = "reject" /\ tries' = tries + 1
             ELSE phase' = "idle" /\ obs' = "fail" /\ tries' = 0
     \* ... an authentic one: its cookies are stored; then the NTP header is looked
     \* at (ValidateResponseMetadata): an unsynchronised server's reply ends the call
     \* with an error, without a measurement - and with the cookies in the pool
     ELSE /\ phase' = "idle" /\ UNCHANGED clean
          /\ obs' = IF Synced(rep.hdr) THEN "store" ELSE "fail"
          /\ pool' = pool \o rep.cookies
          /\ tries' = 0
  /\ rep' = NoMsg
  /\ UNCHANGED <<now, prov, sess, used, seen, net, pre, nex, nextId, old, tr>>

\* The network hands the waiting client an earlier reply of the server (old[i]).
\* ProcessResponse: it answers another request - the unique identifier is not the
\* one of this request (errUnexpectedResponseID; a reply of an earlier
\* association does not authenticate either way): nothing is stored.  The
\* receive loop goes on reading once (numRetries), the next unusable datagram
\* ends the call with an error; what is still in flight then finds no socket.
Replay(i) ==
  /\ phase \in {"resp", "wait"}
  /\ IsStale(i)
  /\ IF tries < MaxRetries
     THEN /\ tries' = tries + 1 /\ obs' = "stale"
          /\ UNCHANGED <<phase, rep, clean>>
     ELSE /\ tries' = 0 /\ obs' = "fail" /\ phase' = "idle" /\ rep' = NoMsg /\ clean' = FALSE
  /\ UNCHANGED <<now, prov, pool, sess, used, seen, net, pre, nex, nextId, old, tr>>

\* The network hands the waiting SCION client an SCMP message of type t
\* (client_scion.go, receive loop, "unexpected SCMP message type": logged and
\* turned down like any other unusable datagram - numRetries, then the call
\* ends).  SCMP messages carry no authentication and may concern any hop or a
\* packet the client never sent: the request's cookie has been on the wire and
\* stays used, the pool is what it was, and the genuine reply, if it follows
\* within the retry, completes the exchange as usual.
Scmp(t) ==
  /\ tr = "scion"
  /\ t \in ScmpTypes
  /\ phase \in {"resp", "wait"}
  /\ IF tries < MaxRetries
     THEN /\ tries' = tries + 1 /\ obs' = "scmp"
          /\ UNCHANGED <<phase, rep, clean>>
     ELSE /\ tries' = 0 /\ obs' = "fail" /\ phase' = "idle" /\ rep' = NoMsg /\ clean' = FALSE
  /\ UNCHANGED <<now, prov, pool, sess, used, seen, net, pre, nex, nextId, old, tr>>

\* ... or delivers it when no call is in progress: the socket of the exchange
\* it belonged to is closed, the datagram is discarded by the client's host
Stray(i) ==
  /\ phase = "idle"
  /\ i \in DOMAIN old
  /\ obs' = "stray" /\ rep' = NoMsg
  /\ UNCHANGED <<now, prov, pool, sess, used, seen, phase, net, pre, clean, nex, nextId, old, tries, tr>>

Timeout ==
  /\ phase = "wait"
  /\ phase' = "idle" /\ obs' = "fail" /\ rep' = NoMsg /\ tries' = 0
  /\ UNCHANGED <<now, prov, pool, sess, used, seen, net, pre, clean, nex, nextId, old, tr>>

Tick(d) ==
  /\ phase = "idle" /\ d > 0 /\ now + d <= Horizon
  /\ now' = now + d /\ rep' = NoMsg /\ obs' = "tick"
  /\ UNCHANGED <<prov, pool, sess, used, seen, phase, net, pre, clean, nex, nextId, old, tries, tr>>

\* (The authenticated branch exists twice, in server_ip.go and in server_scion.go;
\* Probe stands for a request to either listener - the recorded probes name the
\* listener and are judged alike.)
\* another client of the same server (session 0) sends an authenticated request
\* with n cookie/placeholder fields and a unique identifier of u bytes.  Its
\* cookie is sealed under key k: one of the keys the provider still holds (the
\* association is as old as that key: it got the cookie while k was the key
\* handed out by Current() and has lived across the rotations since), or, k = 0,
\* under the key Current() hands out now (it has just run a key exchange).
\* DecodePacket (unique identifier), provider.Get(k), then as ServerHandle.
Probe(n, u, k) ==
  /\ phase = "idle" /\ nex < MaxEx
  /\ k = 0 \/ k \in DOMAIN prov.keys
  /\ LET pk == IF k = 0 THEN CurrentP(prov, now) ELSE prov
         ck == IF k = 0 THEN pk.cur ELSE k
         kv == ValidAt(pk, ck, now)
         pv == CurrentP(pk, now)
         r  == ReplyFor("probe", n, 0, pv, u, "sync")
     IN IF UidAccepted(u) /\ kv
        THEN /\ prov' = pv
             /\ rep' = r @@ [ck |-> ck, kv |-> kv]
             /\ seen' = seen \cup Ids(r.cookies)
             /\ nextId' = nextId + Len(r.cookies)
        ELSE /\ prov' = pk
             /\ rep' = [k |-> "dropped", n |-> n, u |-> u, cookies |-> << >>, sess |-> 0, hdr |-> "sync",
                        size |-> 0, bad |-> FALSE, ck |-> ck, kv |-> kv]
             /\ UNCHANGED <<seen, nextId>>
  /\ nex' = nex + 1
  /\ obs' = "probe"
  /\ UNCHANGED <<now, pool, sess, used, phase, net, pre, clean, old, tries, tr>>

Next ==
  \/ Rekey \/ SendRequest \/ LoseRequest \/ LoseResponse
  \/ \E h \in HdrStates : ServerHandle(h)
  \/ ClientReceive \/ Timeout
  \/ \E i \in DOMAIN old : Replay(i) \/ Stray(i)
  \/ \E t \in ScmpTypes : Scmp(t)
  \/ \E d \in Ticks : Tick(d)
  \/ \E n \in ProbeNs, u \in ProbeUids, k \in {0} \cup DOMAIN prov.keys : Probe(n, u, k)

Spec == Init /\ [][Next]_vars

(***************************************************************************)
(* Property section (C11).  Only what the statement mentions: the cookies  *)
(* and fields of requests on the wire, datagram sizes, the pool level      *)
(* around an exchange, the cookies of replies and the keys they open under.*)
(***************************************************************************)
\* never the same cookie in two requests
SingleUseStep == obs' = "send" => net'.cookie.id \notin used
SingleUse == [][SingleUseStep]_vars
\* ... in particular a cookie that has been sent is no longer in the pool
SentLeavesPool == phase = "req" => net.cookie.id \notin Ids(pool)

\* exactly one cookie field plus one placeholder field per cookie missing from
\* the pool of eight: the number of fields ...
FieldCount == phase = "req" => net.ncookie + net.nph = 1 + (PoolMax - net.p)
\* ... and their types (all but one typed as placeholders)
PlaceholderType == phase = "req" => net.ncookie = 1

\* the client can encode its request within the maximum NTS packet size at every
\* pool level, for the cookies this project's servers issue
ReqFitsConst == \A p \in 1 .. PoolMax : ReqSize(p) <= MaxPacketLen
ReqFits == /\ phase # "panic"
           /\ phase = "req" => (~net.bad /\ net.size <= MaxPacketLen)

\* a successful exchange never shrinks the pool or grows it beyond eight
NoShrink == obs = "store" => (Len(pool) >= pre /\ Len(pool) <= PoolMax)
PoolCap  == Len(pool) <= PoolMax
\* in loss-free operation the pool stays at eight
StaysFull == (clean /\ phase = "idle" /\ sess > 0) => Len(pool) = PoolMax

\* the server's answer is well formed, within the maximum packet size and can
\* be authenticated by the requester (for every number of requested cookies and
\* every length of the requester's unique identifier)
IsReply == rep.k \in {"ntp", "probe"}
RespFits == IsReply => (~rep.bad /\ rep.size <= MaxPacketLen)
\* one fresh cookie per cookie or placeholder requested, as many as fit (the
\* clients of this property never request more than PoolMax; for a request
\* with more fields only "at least one, at most one per field" is required)
RespCount == (IsReply /\ ~rep.bad) =>
   IF rep.n <= PoolMax THEN Len(rep.cookies) = Min2(rep.n, MaxFitU(rep.u))
   ELSE Len(rep.cookies) >= 1 /\ Len(rep.cookies) <= rep.n
\* an authenticated request under a valid key is answered
AnsweredStep == (obs' = "norep" /\ ~net.bad) => ~KeyValid(net.cookie.key)
Answered == [][AnsweredStep]_vars
\* ... whatever the length of its unique identifier, up to the bound the server
\* states for the identifiers it is able to echo (authenticated: its cookie
\* names a key the provider still hands out)
ProbeAnswered == rep.k = "dropped" => (~UidAccepted(rep.u) \/ ~rep.kv)
\* fresh: never issued before, pairwise different
Issues == obs' \in {"rekey", "serve", "probe"}    \* (the steps in which the server issues cookies)
FreshStep == (Issues /\ rep'.k # "none") =>
   /\ \A i \in DOMAIN rep'.cookies : rep'.cookies[i].id \notin seen
   /\ \A i, j \in DOMAIN rep'.cookies : i # j => rep'.cookies[i].id # rep'.cookies[j].id
Fresh == [][FreshStep]_vars
\* every issued cookie opens under a currently valid server key to the same
\* session keys (those of the requester)
FreshCookiesOpen == rep.k # "none" =>
   \A i \in DOMAIN rep.cookies : KeyValid(rep.cookies[i].key) /\ rep.cookies[i].sess = rep.sess

=============================================================================
