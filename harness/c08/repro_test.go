package c08

// Stand-alone reproductions of the SCION-side C08 findings against the real
// functions (no child process, no network). Run with
//
//	go1.26 test -tags verif -run TestC08ScionRepro -v ./c08/
//
// Each item logs REPRODUCED / not reproduced (a repaired tree reports the
// latter); the test itself never fails.

import (
	"math/rand"
	"testing"
	"time"

	"github.com/google/gopacket"
	"github.com/scionproto/scion/pkg/slayers"
	"github.com/scionproto/scion/pkg/spao"

	"example.com/scion-time/net/ntp"
	"example.com/scion-time/net/scion"
	"example.com/scion-time/net/udp"
)

func panics(f func()) (msg any) {
	defer func() { msg = recover() }()
	f()
	return nil
}

func TestC08ScionRepro(t *testing.T) {
	rng := rand.New(rand.NewSource(1))
	report := func(what string, v any) {
		if v != nil {
			t.Logf("REPRODUCED      %s: panic: %v", what, v)
		} else {
			t.Logf("not reproduced  %s", what)
		}
	}
	// authenticator option whose data is not 28 bytes (server and client call this on any such option)
	report("scion.PacketAuthOptMetadata on a 27-byte authenticator option", panics(func() {
		scion.PacketAuthOptMetadata(&slayers.EndToEndOption{OptType: slayers.OptTypeAuthenticator, OptData: make([]byte, 27)})
	}))
	// option 253 of a SCION response is parsed as control-message bytes
	report("udp.TimestampFromOOBData on option data with two non-zero timestamps", panics(func() {
		udp.TimestampFromOOBData(e2eOptions(rng, "ts2")[2:])
	}))
	report("udp.TimestampFromOOBData on option data whose cmsg_len is its (unaligned) length", panics(func() {
		udp.TimestampFromOOBData(e2eOptions(rng, "tstail")[2:])
	}))
	// a receive time from option 253 that lies before the transmit time
	report("ntp.ValidateResponseTimestamps with t3 (from option 253) before t0", panics(func() {
		now := time.Now()
		ntp.ValidateResponseTimestamps(now, now, now, time.Unix(1000000000, 0))
	}))
	// the server's layer (RecyclePaths) decodes unassigned path types; Reverse then fails, the server panics on the error
	decode := func(g *dgram) (*slayers.SCION, *slayers.EndToEndExtn, error) {
		var (
			sl  slayers.SCION
			hbh slayers.HopByHopExtnSkipper
			e2e slayers.EndToEndExtn
			ul  slayers.UDP
			sc  slayers.SCMP
		)
		sl.RecyclePaths()
		parser := gopacket.NewDecodingLayerParser(slayers.LayerTypeSCION, &sl, &hbh, &e2e, &ul, &sc)
		parser.IgnoreUnsupported = true
		layers := make([]gopacket.LayerType, 0, 4)
		w := scBytes(rng, g, scParams{srcIA: scIA, dstIA: scIA, srcHost: []byte{127, 0, 0, 2}, dstHost: []byte{127, 0, 0, 1},
			srcPort: 40000, dstPort: scSrvPort, payload: make([]byte, 48)})
		return &sl, &e2e, parser.DecodeLayers(w, &layers)
	}
	for _, pt := range []string{"raw4", "sinf0", "onehop0", "epicinf0"} {
		sl, _, err := decode(&dgram{Pt: pt, Da: "t0l4", Sa: "t0l4", Ext: "none", L4: "udp", Ul: "ok"})
		if err != nil {
			t.Logf("not reproduced  path class %s does not decode: %v", pt, err)
			continue
		}
		_, rerr := sl.Path.Reverse()
		if rerr != nil {
			t.Logf("REPRODUCED      path class %s decodes, Path.Reverse() fails (%v): runSCIONServer does panic(err)", pt, rerr)
		} else {
			t.Logf("not reproduced  path class %s reverses", pt)
		}
	}
	// host addresses of 8 / 12 bytes decode; netip.AddrFromSlice refuses them, server and client panic on that
	for _, a := range []string{"t0l8", "t0l12"} {
		sl, _, err := decode(&dgram{Pt: "empty", Da: "t0l4", Sa: a, Ext: "none", L4: "udp", Ul: "ok"})
		t.Logf("%s source host address %s: decode error=%v, RawSrcAddr has %d bytes (netip.AddrFromSlice takes 4 or 16)",
			map[bool]string{true: "REPRODUCED     ", false: "not reproduced "}[err == nil && len(sl.RawSrcAddr)%12 != 4 && len(sl.RawSrcAddr) != 16], a, err, len(sl.RawSrcAddr))
	}
	// SPAO MAC over a packet with an unassigned path type: ComputeAuthCMAC fails, the server panics on the error
	sl, e2e, err := decode(&dgram{Pt: "raw4", Da: "t0l4", Sa: "t0l4", Ext: "e2e", Eo: "auth28c", L4: "udp", Ul: "ok"})
	if err == nil {
		if o, ferr := e2e.FindOption(slayers.OptTypeAuthenticator); ferr == nil {
			_, merr := spao.ComputeAuthCMAC(spao.MACInput{Key: zeroKey, Header: slayers.PacketAuthOption{EndToEndOption: o},
				ScionLayer: sl, PldType: slayers.L4UDP, Pld: e2e.Payload}, make([]byte, spao.MACBufferSize), make([]byte, 16))
			if merr != nil {
				t.Logf("REPRODUCED      spao.ComputeAuthCMAC fails on an unassigned path type (%v): runSCIONServer does panic(err)", merr)
			} else {
				t.Logf("not reproduced  spao.ComputeAuthCMAC accepts an unassigned path type")
			}
		}
	}
}
