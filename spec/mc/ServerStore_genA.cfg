SPECIFICATION HSpec
CONSTANTS
  Clients = {"a", "b", "c"}
  Listeners = {"l1", "l2", "l3"}
  TMax = 5
  ItemCap = 8
  Cap = 1048576
  MaxOps = 24
  StrictTx = TRUE
INVARIANTS Emit
