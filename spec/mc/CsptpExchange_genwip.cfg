SPECIFICATION HSpec
CONSTANTS
  Clients <- TwoClients
  MaxExch = 3
  MaxDupReq = 1
  MaxDupResp = 0
  MaxInject = 0
  MaxTC = 0
  Thetas <- ThetasOne
  CtxCap = 2
  ServerMode = "wip"
  ReusePorts = FALSE
  LateRequests = TRUE
  SeqPerAttempt = FALSE
INVARIANTS Emit OneExchange HalfRTT AcceptOnlyMatching PairsOK CtxBounded CtxOwn RespOwn NoAnswer
