SPECIFICATION MonSpec
INVARIANTS ObsExact
