SPECIFICATION Spec
CONSTANTS
  MaxNf = 2
  Roles <- RolesAll
  PlaceholderTypedAsCookie = FALSE
  UidChecked = FALSE
  AdWhole = TRUE
  Hardened = TRUE
  StopAtAuth = TRUE
  CtLenExact = TRUE
  StoreAfterUid = TRUE
  LenChoices <- LenChoicesGen
  TruncMax = 2
INVARIANTS Sound
