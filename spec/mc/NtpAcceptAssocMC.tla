-------------------------- MODULE NtpAcceptAssocMC --------------------------
(***************************************************************************)
(* Model checking / case generation for NtpAcceptAssoc: every              *)
(* (association state) x (key-exchange outcome) x (answers of the          *)
(* responder, at most MaxArrivals, then the genuine response or nothing).  *)
(* A case = one poll: the association to set up, the outcome the scripted  *)
(* key-exchange peer has to produce, the datagrams in the order they are   *)
(* delivered (the consumed prefix with the specification's reaction, then  *)
(* what the specification's client never reads), the request the           *)
(* specification puts on the wire and how the poll ends.                   *)
(***************************************************************************)
EXTENDS NtpAcceptAssoc, Json
ADone == state \in {"ok", "error", "timeout"}
AEmit == ADone => PrintT(<<"CASE", ToJson([il |-> il, assoc |-> assoc, ke |-> ke, req |-> req,
                                           seen |-> hist, rest |-> queue, outcome |-> state])>>)
=============================================================================
