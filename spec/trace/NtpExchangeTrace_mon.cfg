SPECIFICATION TSpec
INVARIANTS TSameExchange TComputedFromThem THalfRTT TNoPanic
