----------------------------- MODULE FiltersMC -----------------------------
EXTENDS Filters, Json
\* The history is a generator/bounding device only; the exhaustive
\* configurations identify states that agree on everything the property
\* section reads (filter state, ghosts, number and kind of the last event).
LastT == IF hist = << >> THEN "-" ELSE Last(hist).t
View == <<lvars, nvars, Len(hist), LastT>>

\* Behaviour emitter (spec -> code): every maximal history, with the
\* specification's outputs / branches, replayed on the real filters.
Emit == (Len(hist) = MaxEv) =>
  PrintT(<<"CASE", ToJson([m |-> Which, cap |-> cap, k |-> kcfg, clk0 |-> clk - Cardinality({i \in DOMAIN hist : hist[i].t = "e"}), ev |-> hist])>>)

\* value sets (cfg files cannot contain negative numbers); odd and even
\* differences, so that the truncating `/ 2` of the even-sized median shows
OffsGen  == {-3, 0, 4}
OffsGen2 == {-3, 4}
OffsDeep == {-3, 0, 1, 4}
=============================================================================
