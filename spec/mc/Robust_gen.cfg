SPECIFICATION Spec
CONSTANTS
  Kinds <- KindsAll
  MaxExt = 3
  MaxExtCli = 2
  MaxKe = 2
  MaxCases = 1
  Wide = FALSE
  ExtLenZeroLoops = TRUE
  NonceLenUnchecked = TRUE
  CookieDecodeUnchecked = TRUE
  PacketOverflowUnchecked = TRUE
  ShortUniqueIdEchoed = TRUE
  CsptpShortDatagram = TRUE
INVARIANTS Emit
