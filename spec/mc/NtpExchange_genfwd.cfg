SPECIFICATION HSpec
CONSTANTS
  MaxAttempts = 6
  MaxDup = 2
  Thetas <- ThetasGen
  Gap = 12
  ItemCap = 8
  ReusePorts = FALSE
  StrictGap = TRUE
  FwdStamps <- FwdAll
INVARIANTS Emit SameExchange HalfRTT PrevConsistent NoPanic
