SPECIFICATION TSpec
INVARIANTS SAssign SResets SRet SWordsRead SGroups SSample SWord
