// C02 driver: replays every input sequence enumerated by TLC (spec/Midpoint.tla)
// on the real timemath / measurements functions under several value
// embeddings and input orders, maps the results back to model units and
// records them for MidpointTrace.tla (monitor + strict).  Calls from several
// goroutines at once: c02conc_test.go.
package c02

import (
	"math/rand"
	"slices"
	"testing"
	"time"

	"example.com/scion-time/base/timemath"
	"example.com/scion-time/core/measurements"

	"verif/harness/internal/vio"
)

type tcase struct {
	S      []int64 `json:"s"`
	Ftm    int64   `json:"ftm"`
	Med    int64   `json:"med"`
	Sorted []int64 `json:"sorted"`
}

type emb struct{ a, b int64 }

func (e emb) ap(v int64) int64 { return e.a*v + e.b }

// inv returns the model value and whether the abstraction is exact.
func (e emb) inv(r int64) (int64, bool) {
	d := r - e.b
	if d%e.a != 0 {
		return 0, false
	}
	return d / e.a, true
}

const lim = int64(1) << 62

// record layout consumed by MidpointTrace.tla
type rec struct {
	K     string  `json:"k"`     // "dur" | "meas"
	S     []int64 `json:"s"`     // input, in the order passed, model units
	Ftm   int64   `json:"ftm"`   // result for this order
	Med   int64   `json:"med"`   //
	Ftm0  int64   `json:"ftm0"`  // result for the case's original order
	Med0  int64   `json:"med0"`  //
	PostF []int64 `json:"postf"` // caller's slice after FaultTolerantMidpoint
	PostM []int64 `json:"postm"` // caller's slice after Median
	Mid   int64   `json:"mid"`   // timemath.Midpoint(sorted[f], sorted[n-1-f])
	RawOK bool    `json:"raw_ok"`
	Emb   int     `json:"emb"`
	// measurement variant only (timestamps in units, results in half units)
	Ts     []int64 `json:"ts"`
	PostFT []int64 `json:"postft"` // timestamps of the slice after FTM
	PostMT []int64 `json:"postmt"`
	FtmTs2 int64   `json:"ftmts2"`
	MedTs2 int64   `json:"medts2"`
	ErrNil bool    `json:"errnil"`
	// the call did not return (recovered panic); set by the concurrent driver
	Panicked bool `json:"panicked"`
	// concurrent rounds (c02conc_test.go): the call of operation Cop ran while
	// NCall-1 other goroutines were calling on their own inputs; Reps calls of
	// the round gave exactly this record
	Conc    bool   `json:"conc"`
	Round   int    `json:"round"`
	Caller  int    `json:"caller"`
	NCall   int    `json:"ncall"`
	Cop     string `json:"cop"`
	Reps    int    `json:"reps"`
	Clamped bool   `json:"clamped"`
}

func TestC02(t *testing.T) {
	cases := vio.ReadCases[tcase](t)
	out := vio.Create(t)
	defer out.Close()
	rng := vio.Rand()
	embs := []emb{{1, 0}, {1, lim - 16}, {1, -(lim - 16)}, {2, 0}, {1000000000, 12345}, {1 << 58, 0}, {1 << 57, 1<<57 + 3}}
	nperm := 1
	if vio.Thorough() {
		nperm = 2
	}
	skipped, done := 0, 0
	for ci, c := range cases {
		n := len(c.S)
		orders := [][]int{identity(n)}
		if n > 1 {
			if vio.Thorough() {
				orders = append(orders, reversed(n))
			}
			for k := 0; k < nperm; k++ {
				orders = append(orders, rng.Perm(n))
			}
		}
		for ei, e := range embs {
			// every (case, embedding) in thorough; a rotating subset in quick
			// quick: two embeddings per case; thorough: all for short inputs, four rotating ones otherwise
			if !vio.Thorough() && ei != ci%len(embs) && ei != (ci/7+3)%len(embs) {
				continue
			}
			if vio.Thorough() && len(c.S) > 5 && (ei+ci)%7 >= 4 {
				continue
			}
			var base *rec
			var baseM *rec
			for _, ord := range orders {
				r, ok := runDur(c, e, ei, ord)
				if !ok {
					skipped++
					continue
				}
				if base == nil {
					base = r
				}
				r.Ftm0, r.Med0 = base.Ftm, base.Med
				out.Emit(r)
				done++
				m, ok := runMeas(c, e, ei, ord, rng)
				if !ok {
					skipped++
					continue
				}
				if baseM == nil {
					baseM = m
				}
				m.Ftm0, m.Med0 = baseM.Ftm, baseM.Med
				out.Emit(m)
				done++
			}
		}
	}
	t.Logf("C02 records=%d inexact-embedding-skips=%d cases=%d", done, skipped, len(cases))
	if done == 0 {
		t.Fatal("no record produced")
	}
}

func identity(n int) []int {
	p := make([]int, n)
	for i := range p {
		p[i] = i
	}
	return p
}

func reversed(n int) []int {
	p := make([]int, n)
	for i := range p {
		p[i] = n - 1 - i
	}
	return p
}

func invAll(e emb, vs []time.Duration) ([]int64, bool) {
	res := make([]int64, len(vs))
	for i, v := range vs {
		x, ok := e.inv(int64(v))
		if !ok {
			return nil, false
		}
		res[i] = x
	}
	return res, true
}

func runDur(c tcase, e emb, ei int, ord []int) (*rec, bool) {
	n := len(c.S)
	r := &rec{K: "dur", Emb: ei, S: make([]int64, n), Ts: []int64{}, PostFT: []int64{}, PostMT: []int64{}}
	in := make([]time.Duration, n)
	for i, j := range ord {
		r.S[i] = c.S[j]
		in[i] = time.Duration(e.ap(c.S[j]))
		if int64(in[i]) >= lim || int64(in[i]) <= -lim {
			panic("embedding leaves the admissible range")
		}
	}
	a := slices.Clone(in)
	ftm := timemath.FaultTolerantMidpoint(a)
	b := slices.Clone(in)
	med := timemath.Median(b)
	srt := slices.Clone(in)
	slices.Sort(srt)
	f := (n - 1) / 3
	mid := timemath.Midpoint(srt[f], srt[n-1-f])
	// raw inequality of the property on the real 64-bit values (no arithmetic)
	r.RawOK = srt[f] <= ftm && ftm <= srt[n-1-f] && srt[0] <= med && med <= srt[n-1]
	var ok bool
	if r.Ftm, ok = e.inv(int64(ftm)); !ok {
		return nil, false
	}
	if r.Med, ok = e.inv(int64(med)); !ok {
		return nil, false
	}
	if r.Mid, ok = e.inv(int64(mid)); !ok {
		return nil, false
	}
	if r.PostF, ok = invAll(e, a); !ok {
		return nil, false
	}
	if r.PostM, ok = invAll(e, b); !ok {
		return nil, false
	}
	return r, true
}

var t0 = time.Date(2024, 5, 6, 7, 8, 9, 101, time.UTC)

type sentinelErr struct{}

func (sentinelErr) Error() string { return "input error must not propagate" }

func runMeas(c tcase, e emb, ei int, ord []int, rng *rand.Rand) (*rec, bool) {
	n := len(c.S)
	const ta = 2000 // even: timestamp midpoints are exact in half units
	r := &rec{K: "meas", Emb: ei, S: make([]int64, n), Ts: make([]int64, n)}
	in := make([]measurements.Measurement, n)
	for i, j := range ord {
		r.S[i] = c.S[j]
		r.Ts[i] = int64(rng.Intn(9)) - 4
		in[i] = measurements.Measurement{
			Timestamp: t0.Add(time.Duration(ta * r.Ts[i])),
			Offset:    time.Duration(e.ap(c.S[j])),
		}
		if rng.Intn(4) == 0 {
			in[i].Error = sentinelErr{}
		}
	}
	a := slices.Clone(in)
	ftm := measurements.FaultTolerantMidpoint(a)
	b := slices.Clone(in)
	med := measurements.Median(b)
	srt := make([]int64, n)
	for i := range in {
		srt[i] = int64(in[i].Offset)
	}
	slices.Sort(srt)
	f := (n - 1) / 3
	fo, mo := int64(ftm.Offset), int64(med.Offset)
	r.RawOK = srt[f] <= fo && fo <= srt[n-1-f] && srt[0] <= mo && mo <= srt[n-1]
	r.ErrNil = ftm.Error == nil && med.Error == nil
	var ok bool
	if r.Ftm, ok = e.inv(fo); !ok {
		return nil, false
	}
	if r.Med, ok = e.inv(mo); !ok {
		return nil, false
	}
	r.PostF, r.PostFT = make([]int64, n), make([]int64, n)
	r.PostM, r.PostMT = make([]int64, n), make([]int64, n)
	for i := range a {
		if r.PostF[i], ok = e.inv(int64(a[i].Offset)); !ok {
			return nil, false
		}
		if r.PostM[i], ok = e.inv(int64(b[i].Offset)); !ok {
			return nil, false
		}
		d := int64(a[i].Timestamp.Sub(t0))
		dm := int64(b[i].Timestamp.Sub(t0))
		if d%ta != 0 || dm%ta != 0 {
			return nil, false
		}
		r.PostFT[i], r.PostMT[i] = d/ta, dm/ta
	}
	d := int64(ftm.Timestamp.Sub(t0))
	dm := int64(med.Timestamp.Sub(t0))
	if d%(ta/2) != 0 || dm%(ta/2) != 0 {
		return nil, false
	}
	r.FtmTs2, r.MedTs2 = d/(ta/2), dm/(ta/2)
	return r, true
}
