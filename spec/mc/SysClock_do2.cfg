SPECIFICATION Spec
CONSTANTS
  QPS = 4
  G = 4
  DPS = 1000000000
  Variant = "code"
  AdjOffs <- None
  AdjDurs <- None
  AdjFreqs <- None
  StepOffs <- None
  Deltas <- None
  DoOffs <- DoOffsNs
  DoStats <- DoStatsSmall
  MaxOps = 2
  MaxAdv = 0
  DoAtomic = TRUE
  KeepHist = FALSE
  EpochReads = FALSE
  MaxLen = 0
INVARIANTS X04 Ghost SysAdjustment SlewEffective
