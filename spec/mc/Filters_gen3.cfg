SPECIFICATION Spec
CONSTANTS
  Which = "lucky"
  Caps = {1, 2, 3}
  Picks = {1, 2, 3}
  UnconfToo = TRUE
  Offs <- OffsGen
  Rtds = {1, 2, 3, 4}
  DistinctOnly = TRUE
  Clk0s = {0, 1}
  MaxEv = 4
  FilterAverage = 20
  Classes <- ClassesAll
  StepAt = {}
  MaxInDo = 0
  EmitMinInDo = 0
INVARIANTS Emit
