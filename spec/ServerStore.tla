---------------------------- MODULE ServerStore ----------------------------
(***************************************************************************)
(* The NTP server's per-client timestamp store and reply construction:     *)
(*   core/server/server.go  handleRequest, updateTXTimestamp, tssQueue     *)
(* One action per critical section (both functions hold tssMu from the     *)
(* first access of the store to their return).  Every listener goroutine   *)
(* (server_ip.go / server_scion.go) performs Handle and, after the reply   *)
(* has been written to the socket, UpdateTx for the same (client, rx);     *)
(* operations of different listeners interleave arbitrarily in between.    *)
(*                                                                         *)
(* Time: integers, one unit = 1 ns of the real clock (ntp.Time64FromTime   *)
(* is injective and order preserving on nanoseconds within an era, so the  *)
(* Time64 comparisons of the code are integer comparisons here).           *)
(* The heap is container/heap on tssQueue with Less = qval.Before.         *)
(*                                                                         *)
(* Properties: C06 (replies) and C07 (bounded / consistent store).         *)
(***************************************************************************)
EXTENDS Integers, Sequences, FiniteSets, TLC

CONSTANTS Clients,    \* client identities (the code: source address string)
          Listeners,  \* listener goroutines
          TMax,       \* receive times / clock readings range over 0..TMax
          ItemCap,    \* tssItemCap (code: 8)
          Cap,        \* tssCap     (code: 2^20)
          MaxOps,     \* bound on the number of operations (model checking only)
          StrictTx    \* TRUE: handleRequest moves its transmit time past the receive time
                      \* before anything else (the code since the "fix:" commit for finding j);
                      \* FALSE: the pinned code, which did so only after a collision

NoOrigin == -1            \* an origin timestamp that matches nothing
Marks    == {100, 101}    \* values of the request's receive/transmit fields
T        == 0 .. TMax
None     == [c |-> "none"]

VARIABLES store,   \* [Clients -> Seq([rx, tx])], << >> = no item for the client
          heap,    \* Seq(Clients): tssQ, position 1 = root
          qval,    \* [Clients -> Int]: heap key of the client's item
          pend,    \* [Listeners -> None or [c, rxt, txt]]: reply sent, tx timestamp not yet reported
          stale,   \* ghost: listeners whose pending exchange is no longer on record
                   \*        (overwritten, evicted, dropped, or never stored)
          inorder, \* ghost: [Clients -> BOOLEAN] all requests since creation arrived in timestamp order
          inp,     \* observation: the operation just performed and its arguments
          out,     \* observation: its results (reply, adjusted rx/tx, eviction, statelessness)
          nops

vars == <<store, heap, qval, pend, stale, inorder, inp, out, nops>>
\* (nops must stay in the view: merging states that differ in the remaining
\* budget would make the bounded exploration depend on the search order)
view == <<store, heap, qval, pend, stale, inorder, nops>>

Present(st) == {c \in Clients : st[c] # << >>}
RxSet(buf)  == {buf[i].rx : i \in DOMAIN buf}
MaxOf(S)    == CHOOSE x \in S : \A y \in S : y <= x
MinOf(S)    == CHOOSE x \in S : \A y \in S : x <= y

\* exchanges are identified in the code by (client, receive timestamp); once the
\* pair of a pending exchange has left the record it stays "stale" until its
\* listener reports the transmit timestamp
Gone(st, pd) == {k \in Listeners : pd[k] # None /\ pd[k].rxt \notin RxSet(st[pd[k].c])}

(***************************************************************************)
(* container/heap on (h, qv)                                               *)
(***************************************************************************)
SwapAt(h, i, j) == [h EXCEPT ![i] = h[j], ![j] = h[i]]

RECURSIVE Up(_, _, _)
Up(h, qv, j) ==
  IF j = 1 THEN h
  ELSE LET i == j \div 2
       IN IF ~(qv[h[j]] < qv[h[i]]) THEN h ELSE Up(SwapAt(h, i, j), qv, i)

RECURSIVE Down(_, _, _, _)
Down(h, qv, i, n) ==
  LET j1 == 2 * i
  IN IF j1 > n THEN h
     ELSE LET j == IF j1 + 1 <= n /\ qv[h[j1 + 1]] < qv[h[j1]] THEN j1 + 1 ELSE j1
          IN IF ~(qv[h[j]] < qv[h[i]]) THEN h ELSE Down(SwapAt(h, i, j), qv, j, n)

HeapPush(h, qv, c) == Up(Append(h, c), qv, Len(h) + 1)

\* heap.Pop: swap root with last, sift down over the first n-1, drop last
HeapPopMin(h, qv) ==
  LET n == Len(h)
      s == SwapAt(h, 1, n)
      d == Down(s, qv, 1, n - 1)
  IN SubSeq(d, 1, n - 1)

\* heap.Fix(i): if !down(i) then up(i)
HeapFix(h, qv, i) ==
  LET d == Down(h, qv, i, Len(h))
  IN IF d # h THEN d ELSE Up(h, qv, i)

\* heap.Remove(i)
HeapRemove(h, qv, i) ==
  LET n == Len(h)
  IN IF n = i THEN SubSeq(h, 1, n - 1)
     ELSE LET s == SwapAt(h, i, n)
              d == Down(s, qv, i, n - 1)
              r == IF d # s THEN d ELSE Up(s, qv, i)
          IN SubSeq(r, 1, n - 1)

PosOf(h, c) == CHOOSE i \in DOMAIN h : h[i] = c

(***************************************************************************)
(* handleRequest                                                           *)
(***************************************************************************)
\* the uniqueness loop: while some stored rx equals rxt, rxt++ and, when the
\* transmit time is overtaken, txt = rxt + 1
RECURSIVE Uniq(_, _, _)
Uniq(buf, rxt, txt) ==
  IF rxt \in RxSet(buf)
  THEN LET r1 == rxt + 1
           t1 == IF ~(r1 < txt) THEN r1 + 1 ELSE txt
       IN Uniq(buf, r1, t1)
  ELSE <<rxt, txt>>

\* `if buf[i].rxt == req.OriginTime { o = i }`: the last match wins
LastIdx(buf, v) ==
  IF \E i \in DOMAIN buf : buf[i].rx = v
  THEN MaxOf({i \in DOMAIN buf : buf[i].rx = v}) ELSE 0
\* strict Before: first minimum;  !Before: last maximum
MinIdx(buf) == MinOf({i \in DOMAIN buf : \A k \in DOMAIN buf : buf[i].rx <= buf[k].rx})
MaxIdx(buf) == MaxOf({i \in DOMAIN buf : \A k \in DOMAIN buf : buf[k].rx <= buf[i].rx})

Req == [origin : T \cup {NoOrigin}, rx : Marks, tx : Marks]

HandleResult(c, req, rxt0, clk) ==
  LET known == store[c] # << >>
      buf   == store[c]
      txt0  == IF StrictTx /\ ~(rxt0 < clk) THEN rxt0 + 1 ELSE clk
      u     == IF known THEN Uniq(buf, rxt0, txt0) ELSE <<rxt0, txt0>>
      rxt   == u[1]
      txt   == u[2]
      o     == IF known THEN LastIdx(buf, req.origin) ELSE 0
      \* unknown client: evict the least recently active one iff the store is
      \* full and that client is not more recent than this request
      full  == Cardinality(Present(store)) = Cap
      evict == ~known /\ full /\ ~(qval[heap[1]] > rxt)
      victim == IF evict THEN heap[1] ELSE c
      heap1 == IF evict THEN HeapPopMin(heap, qval) ELSE heap
      store1 == IF evict THEN [store EXCEPT ![victim] = << >>] ELSE store
      stateless == ~known /\ Cardinality(Present(store1)) = Cap
      created == ~known /\ ~stateless
      qval1 == IF created THEN [qval EXCEPT ![c] = rxt] ELSE qval
      heap2 == IF created THEN HeapPush(heap1, qval1, c) ELSE heap1
      inter == req.rx # req.tx /\ o # 0
      reply == IF inter
               THEN [org |-> req.rx, rx |-> rxt, tx |-> buf[o].tx]  \* interleaved
               ELSE [org |-> req.tx, rx |-> rxt, tx |-> txt]        \* basic
      \* maintenance of the client's item
      newmax == known /\ rxt > buf[MaxIdx(buf)].rx
      qval2 == IF newmax THEN [qval1 EXCEPT ![c] = rxt] ELSE qval1
      heap3 == IF newmax THEN HeapFix(heap2, qval2, PosOf(heap2, c)) ELSE heap2
      pair  == [rx |-> rxt, tx |-> txt]
      buf1  == IF stateless THEN << >>
               ELSE IF o # 0 THEN [buf EXCEPT ![o] = pair]
               ELSE IF Len(buf) = ItemCap THEN [buf EXCEPT ![MinIdx(buf)] = pair]
               ELSE Append(buf, pair)
      store2 == [store1 EXCEPT ![c] = buf1]
  IN [store |-> store2, heap |-> heap3, qval |-> qval2, rxt |-> rxt, txt |-> txt,
      reply |-> reply, inter |-> inter, evicted |-> IF evict THEN victim ELSE "", stateless |-> stateless,
      inord |-> IF created THEN TRUE
                ELSE IF known THEN inorder[c] /\ rxt > buf[MaxIdx(buf)].rx
                ELSE inorder[c]]

Handle(l, c, req, rxt0, clk) ==
  /\ pend[l] = None
  /\ LET r == HandleResult(c, req, rxt0, clk)
     IN /\ store' = r.store
        /\ heap' = r.heap
        /\ qval' = r.qval
        /\ pend' = [pend EXCEPT ![l] = [c |-> c, rxt |-> r.rxt, txt |-> r.txt]]
        /\ stale' = stale \cup Gone(r.store, pend')
        /\ inorder' = [inorder EXCEPT ![c] = r.inord]
        /\ inp' = [op |-> "H", l |-> l, c |-> c, req |-> req, rxt0 |-> rxt0, clk |-> clk]
        /\ out' = [rxt |-> r.rxt, txt |-> r.txt, reply |-> r.reply,
                   inter |-> r.inter, evicted |-> r.evicted, stateless |-> r.stateless]

(***************************************************************************)
(* updateTXTimestamp(clientID, rxt, &txt1).  The caller passes the kernel  *)
(* transmit timestamp, or the software time txt0 that handleRequest        *)
(* returned when no kernel timestamp could be read ("lost").               *)
(***************************************************************************)
UpdateResult(c, rxt, t1in) ==
  LET t1   == IF ~(rxt < t1in) THEN rxt + 1 ELSE t1in
      buf  == store[c]
      x    == LastIdx(buf, rxt)
      n    == Len(buf)
      max0 == MaxIdx(buf)
      \* the code's running (max0, max1): max1 = last maximum of the others
      rest == {i \in DOMAIN buf : i # max0}
      max1 == MaxOf({i \in rest : \A k \in rest : buf[k].rx <= buf[i].rx})
  IN IF buf = << >> \/ x = 0
     THEN [store |-> store, heap |-> heap, qval |-> qval, t1 |-> t1, kind |-> "miss"]
     ELSE IF buf[x].tx # t1
     THEN [store |-> [store EXCEPT ![c] = [buf EXCEPT ![x].tx = t1]],
           heap |-> heap, qval |-> qval, t1 |-> t1, kind |-> "set"]
     ELSE IF n = 1
     THEN [store |-> [store EXCEPT ![c] = << >>],
           heap |-> HeapRemove(heap, qval, PosOf(heap, c)), qval |-> qval, t1 |-> t1, kind |-> "drop"]
     ELSE LET wasmax == buf[max0].rx = rxt
              qv   == IF wasmax THEN [qval EXCEPT ![c] = buf[max1].rx] ELSE qval
              hp   == IF wasmax THEN HeapFix(heap, qv, PosOf(heap, c)) ELSE heap
              b1   == SubSeq([buf EXCEPT ![x] = buf[n]], 1, n - 1)
          IN [store |-> [store EXCEPT ![c] = b1], heap |-> hp, qval |-> qv, t1 |-> t1, kind |-> "drop"]

UpdateTx(l, t1in) ==
  /\ pend[l] # None
  /\ LET p == pend[l]
         r == UpdateResult(p.c, p.rxt, t1in)
     IN /\ store' = r.store
        /\ heap' = r.heap
        /\ qval' = r.qval
        /\ pend' = [pend EXCEPT ![l] = None]
        /\ stale' = (stale \cup Gone(r.store, pend')) \ {l}
        /\ UNCHANGED inorder
        /\ inp' = [op |-> "U", l |-> l, c |-> p.c, rxt |-> p.rxt, t1in |-> t1in,
                   lost |-> (t1in = p.txt)]
        /\ out' = [t1 |-> r.t1, kind |-> r.kind]

Init ==
  /\ store = [c \in Clients |-> << >>]
  /\ heap = << >>
  /\ qval = [c \in Clients |-> 0]
  /\ pend = [l \in Listeners |-> None]
  /\ stale = {}
  /\ inorder = [c \in Clients |-> TRUE]
  /\ inp = [op |-> "init"]
  /\ out = [op |-> "init"]
  /\ nops = 0

Next ==
  /\ nops < MaxOps
  /\ nops' = nops + 1
  /\ \/ \E l \in Listeners, c \in Clients, req \in Req, rxt0 \in T, clk \in T :
          Handle(l, c, req, rxt0, clk)
     \/ \E l \in Listeners :
          pend[l] # None /\ \E t1 \in (T \cup {pend[l].txt}) : UpdateTx(l, t1)

Spec == Init /\ [][Next]_vars

(***************************************************************************)
(* Property section C07: bounded, consistent store                         *)
(***************************************************************************)
Bounded ==
  /\ Cardinality(Present(store)) <= Cap
  /\ \A c \in Clients : Len(store[c]) <= ItemCap

HeapValid ==
  /\ Len(heap) = Cardinality(Present(store))
  /\ {heap[i] : i \in DOMAIN heap} = Present(store)
  /\ \A i \in DOMAIN heap : i > 1 => ~(qval[heap[i]] < qval[heap[i \div 2]])

\* the index never ranks a client as older than its most recent stored exchange
QvalDominates == \A c \in Present(store) : \A r \in RxSet(store[c]) : r <= qval[c]
\* ... and exactly that exchange when the client's requests arrive in timestamp order
QvalExact == \A c \in Present(store) : inorder[c] => qval[c] = MaxOf(RxSet(store[c]))

\* eviction rule, as a property of steps: the evicted client was the least
\* recently active one and not more recent than the request; a newcomer that
\* cannot be admitted is served statelessly (nothing changes, basic reply)
EvictionRule ==
  (inp'.op = "H" /\ store[inp'.c] = << >>) =>
     LET full == Cardinality(Present(store)) = Cap
         ev   == Present(store) \ Present(store')
     IN /\ ~full => (ev = {} /\ ~out'.stateless)
        /\ Cardinality(ev) <= 1
        /\ \A v \in ev : /\ \A d \in Present(store) : qval[v] <= qval[d]
                         /\ qval[v] <= out'.rxt
        /\ (full /\ ev = {}) => (out'.stateless /\ store' = store /\ out'.reply.org = inp'.req.tx /\ out'.reply.tx = out'.txt)
        /\ (full /\ ev # {}) => store'[inp'.c] # << >>
EvictionProp == [][EvictionRule]_vars

(***************************************************************************)
(* Property section C06: replies                                           *)
(***************************************************************************)
\* every reply carries the receive timestamp of its request (moved forward
\* only past receive timestamps already kept for that client) and that
\* timestamp is distinct from all receive timestamps currently kept for it
ReplyRx ==
  inp'.op = "H" =>
     LET pre == RxSet(store[inp'.c])
     IN /\ out'.reply.rx = out'.rxt
        /\ out'.rxt >= inp'.rxt0
        /\ out'.rxt \notin pre
        /\ \A v \in inp'.rxt0 .. (out'.rxt - 1) : v \in pre

\* shape of a basic reply: origin = the request's transmit field, transmit time =
\* the server's transmit time of this very exchange, later than the receive time
\* whenever the clock reading at handling time was later than the packet's
BasicShape ==
  /\ out'.reply.org = inp'.req.tx
  /\ out'.reply.tx = out'.txt
  /\ (inp'.clk > inp'.rxt0) => out'.reply.tx > out'.reply.rx

\* shape of an interleaved reply: only if the request's rx/tx fields differ and
\* an earlier reply to the SAME client with that receive timestamp is on record;
\* its recorded transmit time is served and (strong form) is later than that
\* receive timestamp
InterShape(strong) ==
  /\ inp'.req.rx # inp'.req.tx
  /\ out'.reply.org = inp'.req.rx
  /\ \E i \in DOMAIN store[inp'.c] :
       /\ store[inp'.c][i].rx = inp'.req.origin
       /\ store[inp'.c][i].tx = out'.reply.tx
       /\ strong => store[inp'.c][i].tx > store[inp'.c][i].rx

ReplyShape     == inp'.op = "H" => (BasicShape \/ InterShape(TRUE))
\* weaker form (see DESIGN.md finding j): keeps the rest of the clause checked
ReplyShapeWeak == inp'.op = "H" => (BasicShape \/ InterShape(FALSE))

\* timestamps recorded for one client are never served to another: whatever is
\* served is this exchange's own transmit time or one recorded for this client
NoCrossClient ==
  inp'.op = "H" =>
     \/ out'.reply.tx = out'.txt
     \/ \E i \in DOMAIN store[inp'.c] : store[inp'.c][i].tx = out'.reply.tx

\* the kernel transmit timestamp, once read, is the recorded one (a kernel
\* value not later than the receive timestamp is not a usable transmit time:
\* the record then holds a later value or is dropped, see RecordedTxLater)
KernelTxWins ==
  (inp'.op = "U" /\ inp'.l \notin stale /\ ~inp'.lost /\ inp'.t1in > inp'.rxt) =>
     \E k \in DOMAIN store'[inp'.c] :
        /\ store'[inp'.c][k].rx = inp'.rxt
        /\ store'[inp'.c][k].tx = inp'.t1in
\* whatever was reported, the exchange reported on is afterwards either gone or
\* recorded with a transmit time later than its receive time
RecordedTxLater ==
  inp'.op = "U" =>
     \A k \in DOMAIN store'[inp'.c] :
        store'[inp'.c][k].rx = inp'.rxt => store'[inp'.c][k].tx > inp'.rxt

\* an exchange whose transmit timestamp could not be read is dropped
LostTxDropped ==
  (inp'.op = "U" /\ inp'.l \notin stale /\ inp'.lost) => inp'.rxt \notin RxSet(store'[inp'.c])

\* a report about an exchange that is no longer on record changes nothing - in
\* particular not the record of a later exchange that happens to carry the same
\* receive timestamp.  NOT satisfied by the code (known finding C06-aba): it
\* identifies exchanges by (client, rx) only.
StaleUpdateNoEffect ==
  (inp'.op = "U" /\ inp'.l \in stale) => store' = store

\* an update touches nothing but the one exchange it reports on
UpdateLocal ==
  inp'.op = "U" =>
     /\ \A d \in Clients \ {inp'.c} : store'[d] = store[d]
     /\ \A i \in DOMAIN store[inp'.c] :
          store[inp'.c][i].rx # inp'.rxt =>
             \E k \in DOMAIN store'[inp'.c] : store'[inp'.c][k] = store[inp'.c][i]

\* a request changes only its own client's record (apart from one eviction)
HandleLocal ==
  inp'.op = "H" =>
     \A d \in Clients \ {inp'.c} : store'[d] = store[d] \/ (store'[d] = << >> /\ store[inp'.c] = << >>)

ReplyRxProp          == [][ReplyRx]_vars
ReplyShapeProp       == [][ReplyShape]_vars
ReplyShapeWeakProp   == [][ReplyShapeWeak]_vars
NoCrossClientProp    == [][NoCrossClient]_vars
KernelTxWinsProp     == [][KernelTxWins]_vars
RecordedTxLaterProp  == [][RecordedTxLater]_vars
LostTxDroppedProp    == [][LostTxDropped]_vars
StaleUpdateNoEffectProp == [][StaleUpdateNoEffect]_vars
UpdateLocalProp      == [][UpdateLocal]_vars
HandleLocalProp      == [][HandleLocal]_vars

=============================================================================
