SPECIFICATION Spec
CONSTANTS
  Servers = {"A", "B"}
  B0s <- B0Deep
  Shapes <- ShapesDeep
  Vias <- ViasDeep
  MaxInject = 2
  Spoof = TRUE
INVARIANTS ReplyIffValid ExactlyOne ToSender ReplyHeader NeverAnswersReply BoundedTraffic
