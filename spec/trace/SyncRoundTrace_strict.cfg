SPECIFICATION TSpec
INVARIANTS SRefusedExact SLogged SStep SExpected SClock
