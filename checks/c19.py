"""C19 - PLL clock discipline: bounded slew, no step once tracking, sane actuation.

spec/Pll.tla <-> core/sync/adjustments/pll.go (through timebase.SystemClock).
  1. TLC decides the property section on the specification (small scope,
     exhaustive) on the whole input domain incl. MinInt64 offsets and saturated
     clock advances; as a self-test it must find the two counterexamples when
     the switches are set to the behaviour before the repairs.
  2. TLC generates update histories (exhaustive short ones through the history
     variable, longer random walks with -simulate), each with the expected
     mode / call per update.
  3. harness/c19 replays them on the real Pll under value embeddings.
  4. TLC validates the recorded events against spec/trace/PllTrace.tla:
     monitor clauses (the property section) decide VIOLATION, strict clauses
     (equality with Pll!Do) only DRIFT.
"""
import copy, json, re
import vlib

MODE_CLAUSES = {"StepMode", "TrackingOnlySlews", "EpochRestarts"}


def _history(part, l):
    """events of the history that contains (1-based) position l, up to l"""
    i = l - 1
    s = i
    while s > 0 and part[s]["ev"] != "reset":
        s -= 1
    return part[s:i + 1]


def _sig(clause, r):
    """structural signature: failing clause + the input class that matters for it"""
    if clause == "StepAmount":
        return "C19 StepAmount off=%s" % ("min" if r["offc"] == "min" else "other")
    if clause == "StepOffset":
        return "C19 StepOffset off=%s" % r["offc"].lstrip("+-")
    if clause == "StepWeight":
        return "C19 StepWeight w%s" % r["wc"]
    if clause in ("PositiveDuration", "SlewBound"):
        return "C19 %s adv=%s" % (clause, "sat" if r["advc"] == "sat" else "ord")
    return "C19 %s" % clause


def _chunks(recs, size):
    """split at reset events"""
    cur = []
    for r in recs:
        if r["ev"] == "reset" and len(cur) >= size:
            yield cur
            cur = []
        cur.append(r)
    if cur:
        yield cur


def _run_trace(ctx, cfg, part, name):
    """one TLC pass over the events; returns the failing (event, clause) pairs
    of the monitor and of the strict clauses (None when the cfg does not ask)"""
    pp = ctx.path(name)
    vlib.write_ndjson(pp, part)
    r = ctx.tlc("PllTrace", cfg, workers=1, timeout=900, files={"trace.ndjson": pp}, tag="trace:" + cfg, heap="4g")
    res = []
    for bad, done in (("MBAD", "MDONE"), ("SBAD", "SDONE")):
        total = vlib.Ctx.emitted(r["out"], marker=done)
        if not total:
            res.append(None)
            continue
        pairs = sorted({(int(e["l"]), c) for e in vlib.Ctx.emitted(r["out"], marker=bad) for c in e["c"]})
        if total[0]["events"] != len(part) or total[0]["n"] != len(pairs):
            raise vlib.Inconclusive("trace validation %s: report inconsistent (%s, %d pairs, %d events)"
                                    % (cfg, total[0], len(pairs), len(part)))
        res.append(pairs)
    want = {"PllTrace_mon.cfg": (0,), "PllTrace_strict.cfg": (1,), "PllTrace_both.cfg": (0, 1)}[cfg]
    if any(res[i] is None for i in want):
        tail = "\n".join(r["out"].splitlines()[-40:])
        raise vlib.Inconclusive("trace validation %s ended without its report:\n%s" % (cfg, tail))
    return res


def _act(k, **kw):
    a = dict(k=k, x=0, x_eq=False, p=0, p_small=False, slew_within_bound=False, d=0, d_whole=False, d_pos=False, ffin=True)
    a.update(kw)
    return a


def _synthetic(h):
    """a hand-written history that satisfies every clause: start-up, step of
    +large after 2 s + 1 ms, restart, 2 s and 6 s waits, one saturated slew"""
    def u(i, adv, off, w, now, cep, cep2, mode, acts):
        return dict(ev="upd", h=h, i=i, c0=0, adv=adv, sat=False, bump=False, off=off, w=w, now_t=now, now_e=0, gc="none",
                    cep=cep, cep2=cep2, nlog=1, mode=mode, acts=acts, panic=False, emb="synthetic",
                    offc="+large" if off else "0", wc="3..50", advc="-", exp_ok=True)
    return [
        dict(ev="reset", h=h, i=0, c0=0, adv=0, sat=False, bump=False, off=0, w=0, now_t=0, now_e=0, cep=0, cep2=0,
             nlog=0, mode=0, acts=[], panic=False, emb="synthetic", offc="", wc="", advc="", exp_ok=True),
        u(1, 0, 10, 4, 0, 0, 0, 1, []),
        u(2, 2001, 10, 4, 2001, 0, 1, 2, [_act("step", x=10, x_eq=True)]),
        u(3, 0, 10, 4, 2001, 1, 1, 1, []),
        u(4, 2001, 0, 4, 4002, 1, 1, 2, []),
        u(5, 6001, 0, 4, 10003, 1, 1, 3, []),
        dict(u(6, 1000, 10, 4, 11003, 1, 1, 3, []), gc="lo", acts=[_act("adjust", p=500000, p_small=True, slew_within_bound=True, d=1, d_whole=True, d_pos=True)]),
    ]


def _selftest(ctx):
    """corrupted-field controls: the monitor must accept a hand-written correct
    history and reject each copy of it in which one recorded field was
    falsified (a binding that cannot fail proves nothing)"""
    falsify = [
        ("PositiveDuration", 6, lambda r: r["acts"][0].update(d_pos=False, d=0)),
        ("StepAmount", 2, lambda r: r["acts"][0].update(x=-10)),
        ("SlewBound", 6, lambda r: r["acts"][0].update(p=500001)),
        ("StepWait", 2, lambda r: r.update(adv=2000, now_t=2000)),
        ("StepWeight", 2, lambda r: r.update(w=3)),
        ("FiniteFrequency", 6, lambda r: r["acts"][0].update(ffin=False)),
        ("EpochRestarts", 3, lambda r: r.update(acts=[_act("adjust", p=0, p_small=True, slew_within_bound=True, d=1, d_whole=True, d_pos=True)])),
        ("TrackingOnlySlews", 6, lambda r: r.update(acts=[_act("step", x=10, x_eq=True)], cep2=2)),
    ]
    trace = _synthetic(1)
    want = set()
    for k, (clause, i, f) in enumerate(falsify):
        hst = _synthetic(k + 2)
        f(hst[i])
        want.add((len(trace) + i + 1, clause))
        trace += hst
    bad, _ = _run_trace(ctx, "PllTrace_mon.cfg", trace, "selftest.ndjson")
    got = set(bad)
    if any(l <= 7 for l, _ in got):
        raise vlib.Inconclusive("self-test: monitor rejects the correct hand-written history: %s" % sorted(got)[:5])
    if not want <= got:
        raise vlib.Inconclusive("self-test: monitor did not reject falsified fields: %s" % sorted(want - got))
    return len(falsify)


def run(ctx):
    q = ctx.quick
    # ---- 1. design level
    r = ctx.tlc("PllMC", "Pll_exh.cfg" if q else "Pll_deep.cfg", timeout=300 if q else 1500, workers=8)
    ctx.log("TLC property section, whole domain: %d distinct / %d generated (%.0fs)"
            % (r["distinct"], r["generated"], r["wall_s"]))
    # spec self-test: with the switches of the behaviour before the repairs TLC
    # must find the two corner cases (a property section that cannot fail proves nothing)
    for cfg, what in (("Pll_cex1.cfg", "Step(Inv(Inv(MinInt64)))"), ("Pll_cex2.cfg", "Duration(ceil(saturated dt))")):
        r = ctx.tlc("PllMC", cfg, timeout=300, workers=4, allow_violation=True, tag="selftest:" + cfg)
        if r["violated"] != "C19Step":
            raise vlib.Inconclusive("spec self-test: TLC no longer finds the violation through %s (%s)" % (what, r["violated"]))
    # ---- 2. spec -> code: histories with expectations
    g = ctx.tlc("PllMC", "Pll_gen.cfg" if q else "Pll_gendeep.cfg", workers=4, timeout=900, tag="gen")
    exh_cases = ctx.emitted(g["out"])
    if len(exh_cases) != g["out"].count('<<"CASE"'):
        raise vlib.Inconclusive("generator output garbled: %d of %d CASE lines parsed" % (len(exh_cases), g["out"].count('<<"CASE"')))
    nsim = 1000 if q else 4000
    depth = (12 if q else 24) + 1
    s = ctx.tlc("PllMC", "Pll_sim.cfg" if q else "Pll_simdeep.cfg", workers=1, timeout=900,
                simulate="num=%d" % nsim, depth=depth, tag="sim")
    sim_cases = ctx.emitted(s["out"])
    seen, cases = set(), []
    for c in exh_cases + sim_cases:
        k = json.dumps(c, sort_keys=True)
        if k not in seen:
            seen.add(k)
            cases.append(c)
    if len(exh_cases) < 100 or len(sim_cases) < nsim // 2:
        raise vlib.Inconclusive("generators produced only %d exhaustive / %d simulated histories" % (len(exh_cases), len(sim_cases)))
    cp = ctx.path("cases.ndjson")
    vlib.write_ndjson(cp, cases)
    ctx.log("generated %d distinct histories (%d enumerated, %d simulated)" % (len(cases), len(exh_cases), len(sim_cases)))
    # ---- 3. real code
    trace, out = ctx.godriver("c19", "TestC19", cases=cp, extra=("-v",))
    recs = vlib.read_ndjson(trace)
    m = re.search(r"C19STATS histories=(\d+) updates=(\d+) mismatches=(\d+)", out)
    nhist, nupd, nmis = (int(x) for x in m.groups()) if m else (0, 0, 0)
    ctx.log("driver: %d histories, %d updates, %d differ from the attached expectation" % (nhist, nupd, nmis))
    upd = [x for x in recs if x["ev"] == "upd"]
    if any(x["nlog"] != 1 for x in upd) and all(x["nlog"] != 1 for x in upd):
        raise vlib.Inconclusive("the Pll no longer logs one 'PLL iteration' record per update: the mode projection is lost")
    # ---- 4. code -> spec
    ntests = _selftest(ctx)
    nval, found, counts, dseen = 0, {}, {}, set()
    for part in _chunks(recs, 60000):
        hist_ids = {x["h"] for x in part}
        bad, sb = _run_trace(ctx, "PllTrace_both.cfg", part, "chunk.ndjson")
        badh = set()
        for l, clause in bad:
            rec_ = part[l - 1]
            hist = _history(part, l)
            if clause in MODE_CLAUSES and any(x["ev"] == "upd" and x["nlog"] != 1 for x in hist):
                ctx.notes.append("history %d: %s not judged, a log record is missing" % (rec_["h"], clause))
                continue
            sig = _sig(clause, rec_)
            counts[sig] = counts.get(sig, 0) + 1
            badh.add(rec_["h"])
            if sig not in found:
                found[sig] = (clause, rec_, hist)
        nval += len(hist_ids - badh)
        for l, clause in sb:
            rec_ = part[l - 1]
            key = (clause, rec_["mode"], rec_["offc"] == "min", rec_["advc"] == "sat")
            if key in dseen or len(ctx.drift) >= 20:
                continue
            dseen.add(key)
            ctx.drift.append("update differs from Pll!Do as written in Pll.tla (%s): history %d update %d off=%s w=%s adv=%s "
                             "bump=%s mode_after=%s calls=%s" % (clause, rec_["h"], rec_["i"], rec_["offc"], rec_["wc"],
                                                                  rec_["advc"], rec_["bump"], rec_["mode"], json.dumps(rec_["acts"])))
    for sig, (clause, rec_, hist) in sorted(found.items()):
        ctx.violation(sig, "real Pll.Do breaks %s (%d recorded updates): off=%s w=%s adv=%s mode_after=%s calls=%s"
                      % (clause, counts[sig], rec_["offc"], rec_["wc"], rec_["advc"], rec_["mode"],
                         json.dumps(rec_["acts"])), hist)
    ctx.log("validated %d histories against PllTrace (monitor), %d failing clause signatures, %d drift notes"
            % (nval, len(found), len(ctx.drift)))
    # ---- evidence
    distinct = len({(json.dumps([[u[k] for k in ("adv", "sat", "bump", "off", "w")] for u in c["u"]]), c["c0"]) for c in cases
                    if any(u["k"] != "none" for u in c["u"])})
    sample = []
    for x in recs:
        if x["h"] in (1, nhist // 2):
            sample.append(x)
    ctx.cov.update(
        evaluations=len(upd), distinct_nontrivial=distinct,
        rule="update histories generated by TLC from Pll.tla: every history of Pll_gen's classes up to its length reaching a "
             "distinct abstract state (VIEW), plus -simulate walks over all classes (offset 0/+-0.5ms/+-1ms/+-(1ms+1ns)/+-large/"
             "+-MaxInt64/MinInt64, weight 0(denormal)/-5/2/3/4/49/50/149/150/NaN/+Inf/-Inf, advance 0/0.5s/1s/2s/2s+1/6s/6s+1/300s+1/saturated, external "
             "epoch bump), each replayed under embeddings of offsets, weights, readings (ms and ns quantum), base time and "
             "epoch base; distinct_nontrivial = distinct generated histories containing at least one Step/Adjust; "
             "evaluations = recorded updates",
        traces_validated_against_impl=nval, histories_replayed=nhist, exhaustive=False,
        monitor_selftests=ntests, expectation_mismatches=nmis,
        samples=sample[:16])
    ctx.assumptions += [
        "the scripted clock increments its epoch on Step exactly like driver/clocks/sysclk_linux.go; readings are non-decreasing",
        "mode before/after an update is taken from the 'mode' attribute of the Pll's 'PLL iteration' log record",
        "start of the current clock epoch = reading at which the clock's epoch last changed (creation, external bump, Step)",
        "the slew's proportional term is symbolic in Pll.tla; finiteness of the frequency is checked on observed values only",
        "small scope: histories <= 6 updates exhaustively (TLC), <= 12/24 updates by simulation",
    ]
