SPECIFICATION TSpec
INVARIANTS SOutcome SPrevFlag SLog
