SPECIFICATION SpecExh
CONSTANTS
  Metas <- MetasMock
  DHosts <- DH1
  Vals <- ValsMock
  E = 2
  NEpochs = 3
  MockModes <- OnlyMock
  H6 = 2
  Gaps <- GapsMock
  Horizon = 6
  MaxCalls = 5
  HHMetas <- MetasHH
  HHVals <- ValsMock
  GenLen = 0
INVARIANTS TypeOK CacheIsLast KeyValidAtRequest KeyForRequest ReuseWhileValid RefetchOnce ErrorReturned NoKeyOnError MockNoDaemon MockEpoch HostHostOneCall
